// Package bitdom is an abstract domain of machine integers in which every bit is
// either a constant, an affine (XOR) combination of input bits, or unknown (⊤).
//
// Shifts, masks, xor, truncation, zero- and sign-extension are exact in this domain;
// and/or are exact when one operand bit is constant (or both are the same form);
// arithmetic is exact on fully constant values and ⊤ otherwise. The domain is the
// bit-level instance of the affine-relations domain over GF(2): it carries exactly
// "which input bits does this output bit depend on, linearly".
package bitdom

import (
	"fmt"
	"sort"
	"strings"
)

// Bit is one abstract bit.
type Bit struct {
	Top  bool
	C    bool    // constant (XOR-ed in)
	Vars []int32 // sorted, unique input-bit ids
}

func Const(b bool) Bit { return Bit{C: b} }
func Var(i int32) Bit  { return Bit{Vars: []int32{i}} }
func TopBit() Bit      { return Bit{Top: true} }

func (b Bit) IsConst() (bool, bool) {
	if b.Top || len(b.Vars) > 0 {
		return false, false
	}
	return b.C, true
}

func (b Bit) Equal(o Bit) bool {
	if b.Top || o.Top {
		return false
	}
	if b.C != o.C || len(b.Vars) != len(o.Vars) {
		return false
	}
	for i := range b.Vars {
		if b.Vars[i] != o.Vars[i] {
			return false
		}
	}
	return true
}

func Xor(a, b Bit) Bit {
	if a.Top || b.Top {
		return TopBit()
	}
	out := Bit{C: a.C != b.C}
	i, j := 0, 0
	for i < len(a.Vars) || j < len(b.Vars) {
		switch {
		case j >= len(b.Vars) || (i < len(a.Vars) && a.Vars[i] < b.Vars[j]):
			out.Vars = append(out.Vars, a.Vars[i])
			i++
		case i >= len(a.Vars) || b.Vars[j] < a.Vars[i]:
			out.Vars = append(out.Vars, b.Vars[j])
			j++
		default:
			i++
			j++
		}
	}
	return out
}

func Not(a Bit) Bit { return Xor(a, Const(true)) }

func And(a, b Bit) Bit {
	if c, ok := a.IsConst(); ok {
		if c {
			return b
		}
		return Const(false)
	}
	if c, ok := b.IsConst(); ok {
		if c {
			return a
		}
		return Const(false)
	}
	if a.Equal(b) {
		return a
	}
	if !a.Top && !b.Top && a.Equal(Not(b)) {
		return Const(false)
	}
	return TopBit()
}

func Or(a, b Bit) Bit {
	if c, ok := a.IsConst(); ok {
		if c {
			return Const(true)
		}
		return b
	}
	if c, ok := b.IsConst(); ok {
		if c {
			return Const(true)
		}
		return a
	}
	if a.Equal(b) {
		return a
	}
	if !a.Top && !b.Top && a.Equal(Not(b)) {
		return Const(true)
	}
	return TopBit()
}

func (b Bit) String() string {
	if b.Top {
		return "⊤"
	}
	if len(b.Vars) == 0 {
		if b.C {
			return "1"
		}
		return "0"
	}
	var parts []string
	for _, v := range b.Vars {
		parts = append(parts, fmt.Sprintf("x%d", v))
	}
	if b.C {
		parts = append(parts, "1")
	}
	return strings.Join(parts, "^")
}

// Subst replaces variables by forms.
type Subst map[int32]Bit

func (s Subst) Apply(b Bit) Bit {
	if b.Top || len(s) == 0 {
		return b
	}
	out := Bit{C: b.C}
	for _, v := range b.Vars {
		if r, ok := s[v]; ok {
			out = Xor(out, r)
		} else {
			out = Xor(out, Var(v))
		}
	}
	return out
}

// Assume adds form == c to the substitution (Gaussian elimination step). It returns false if the
// assumption contradicts the substitution; forms must be linear.
func (s Subst) Assume(form Bit, c bool) bool {
	f := s.Apply(form)
	if f.Top {
		return true // nothing learnt
	}
	if k, ok := f.IsConst(); ok {
		return k == c
	}
	pivot := f.Vars[len(f.Vars)-1]
	rhs := Xor(Xor(f, Var(pivot)), Const(c)) // pivot = rest ^ c
	for k, v := range s {
		has := false
		for _, x := range v.Vars {
			if x == pivot {
				has = true
			}
		}
		if has {
			s[k] = Xor(Xor(v, Var(pivot)), rhs)
		}
	}
	s[pivot] = rhs
	return true
}

// ---------------------------------------------------------------------------

// Val is an abstract machine integer of a given width.
type Val struct {
	Bits   []Bit // Bits[0] is the least significant
	Signed bool
}

func ConstVal(width int, signed bool, v uint64) Val {
	out := Val{Bits: make([]Bit, width), Signed: signed}
	for i := 0; i < width; i++ {
		out.Bits[i] = Const(i < 64 && v>>uint(i)&1 == 1)
	}
	return out
}

func TopVal(width int, signed bool) Val {
	out := Val{Bits: make([]Bit, width), Signed: signed}
	for i := range out.Bits {
		out.Bits[i] = TopBit()
	}
	return out
}

func (v Val) W() int { return len(v.Bits) }

// IsConst returns the value as uint64 bit pattern (zero-extended to 64) if every bit is constant.
func (v Val) IsConst() (uint64, bool) {
	var out uint64
	for i, b := range v.Bits {
		c, ok := b.IsConst()
		if !ok {
			return 0, false
		}
		if c && i < 64 {
			out |= 1 << uint(i)
		}
	}
	return out, true
}

// Int64 returns the constant as a signed number according to Signed.
func (v Val) Int64() (int64, bool) {
	u, ok := v.IsConst()
	if !ok {
		return 0, false
	}
	w := v.W()
	if v.Signed && w < 64 && u>>(uint(w)-1)&1 == 1 {
		u |= ^uint64(0) << uint(w)
	}
	return int64(u), true
}

func (v Val) HasTop() bool {
	for _, b := range v.Bits {
		if b.Top {
			return true
		}
	}
	return false
}

func (v Val) Equal(o Val) bool {
	if v.W() != o.W() {
		return false
	}
	for i := range v.Bits {
		if !v.Bits[i].Equal(o.Bits[i]) {
			return false
		}
	}
	return true
}

// Convert to another integer type: truncation, or zero/sign extension by the SOURCE signedness.
func (v Val) Convert(width int, signed bool) Val {
	out := Val{Bits: make([]Bit, width), Signed: signed}
	for i := 0; i < width; i++ {
		switch {
		case i < v.W():
			out.Bits[i] = v.Bits[i]
		case v.Signed && v.W() > 0:
			out.Bits[i] = v.Bits[v.W()-1]
		default:
			out.Bits[i] = Const(false)
		}
	}
	return out
}

func bitwise(a, b Val, f func(Bit, Bit) Bit) Val {
	out := Val{Bits: make([]Bit, a.W()), Signed: a.Signed}
	for i := range out.Bits {
		out.Bits[i] = f(a.Bits[i], b.Bits[i])
	}
	return out
}

func AndV(a, b Val) Val    { return bitwise(a, b, And) }
func OrV(a, b Val) Val     { return bitwise(a, b, Or) }
func XorV(a, b Val) Val    { return bitwise(a, b, Xor) }
func AndNotV(a, b Val) Val { return bitwise(a, b, func(x, y Bit) Bit { return And(x, Not(y)) }) }

func NotV(a Val) Val {
	out := Val{Bits: make([]Bit, a.W()), Signed: a.Signed}
	for i := range out.Bits {
		out.Bits[i] = Not(a.Bits[i])
	}
	return out
}

func Shl(a Val, k int) Val {
	out := Val{Bits: make([]Bit, a.W()), Signed: a.Signed}
	for i := range out.Bits {
		if i-k >= 0 && k >= 0 {
			out.Bits[i] = a.Bits[i-k]
		} else {
			out.Bits[i] = Const(false)
		}
	}
	return out
}

// Shr is arithmetic for signed values and logical for unsigned ones (Go semantics).
func Shr(a Val, k int) Val {
	out := Val{Bits: make([]Bit, a.W()), Signed: a.Signed}
	for i := range out.Bits {
		switch {
		case i+k < a.W():
			out.Bits[i] = a.Bits[i+k]
		case a.Signed && a.W() > 0:
			out.Bits[i] = a.Bits[a.W()-1]
		default:
			out.Bits[i] = Const(false)
		}
	}
	return out
}

// Arith applies a concrete operation when both operands are constant; otherwise ⊤.
func Arith(a, b Val, f func(x, y uint64) uint64) Val {
	x, ok1 := a.IsConst()
	y, ok2 := b.IsConst()
	if ok1 && ok2 {
		if a.Signed {
			sx, _ := a.Int64()
			sy, _ := b.Int64()
			x, y = uint64(sx), uint64(sy)
		}
		return ConstVal(a.W(), a.Signed, f(x, y))
	}
	return TopVal(a.W(), a.Signed)
}

// Neg: exact for constants and for values whose only possibly-set bit is bit 0 (-(x&1) = all bits x0).
func Neg(a Val) Val {
	if x, ok := a.IsConst(); ok {
		return ConstVal(a.W(), a.Signed, -x)
	}
	rest := true
	for i := 1; i < a.W(); i++ {
		if c, ok := a.Bits[i].IsConst(); !ok || c {
			rest = false
		}
	}
	if rest {
		out := Val{Bits: make([]Bit, a.W()), Signed: a.Signed}
		for i := range out.Bits {
			out.Bits[i] = a.Bits[0]
		}
		return out
	}
	return TopVal(a.W(), a.Signed)
}

// Cmp compares a with the constant c (as numbers of a's type). It returns -1/0/+1 when decided.
// When undecided it returns the highest non-constant bit the decision depends on (split candidate);
// ok=false with a ⊤ split bit means the comparison cannot be decided in this domain.
func Cmp(a Val, c Val) (res int, decided bool, split Bit) {
	w := a.W()
	for i := w - 1; i >= 0; i-- {
		ab, cb := a.Bits[i], c.Bits[i]
		cc, okc := cb.IsConst()
		ac, oka := ab.IsConst()
		if okc && oka {
			if ac == cc {
				continue
			}
			greater := ac // a has 1 where c has 0
			if a.Signed && i == w-1 {
				greater = !greater
			}
			if greater {
				return 1, true, Bit{}
			}
			return -1, true, Bit{}
		}
		if ab.Equal(cb) {
			continue
		}
		if !oka && okc {
			return 0, false, ab
		}
		if oka && !okc {
			return 0, false, cb
		}
		// two different non-constant bits: split on their XOR if linear
		return 0, false, Xor(ab, cb)
	}
	return 0, true, Bit{}
}

func (v Val) String() string {
	if u, ok := v.IsConst(); ok {
		return fmt.Sprintf("%#x", u)
	}
	var parts []string
	for i := v.W() - 1; i >= 0; i-- {
		parts = append(parts, v.Bits[i].String())
	}
	return "[" + strings.Join(parts, " ") + "]"
}

// Describe renders a substitution as the cube of inputs it stands for.
func (s Subst) Describe(name func(int32) string) string {
	var ks []int
	for k := range s {
		ks = append(ks, int(k))
	}
	sort.Ints(ks)
	var parts []string
	for _, k := range ks {
		parts = append(parts, name(int32(k))+"="+describeBit(s[int32(k)], name))
	}
	return strings.Join(parts, ", ")
}

func describeBit(b Bit, name func(int32) string) string {
	if c, ok := b.IsConst(); ok {
		if c {
			return "1"
		}
		return "0"
	}
	var parts []string
	for _, v := range b.Vars {
		parts = append(parts, name(v))
	}
	if b.C {
		parts = append(parts, "1")
	}
	return strings.Join(parts, "^")
}

// Range returns the smallest and the largest number v can stand for, as ordered keys: for a signed value the
// sign bit is flipped (bias), so that keys compare like the numbers. Non-constant bits (including ⊤) are free.
func Range(v Val) (lo, hi uint64) {
	w := v.W()
	for i := 0; i < w && i < 64; i++ {
		one := uint64(1) << uint(i)
		c, ok := v.Bits[i].IsConst()
		isSign := v.Signed && i == w-1
		switch {
		case ok && (c != isSign): // contributes a 1 to the key
			lo |= one
			hi |= one
		case ok:
		default:
			hi |= one
		}
	}
	return lo, hi
}

// Package bitexec is a path-partitioned abstract interpreter for a small subset of Go over the bitdom
// domain. Integers are vectors of abstract bits (constant / affine form over input bits / ⊤); control
// values (lengths, cursors, loop counters) are required to be constant on every partition. A branch
// whose condition is not decided by the abstract state splits the partition on the one affine form the
// decision depends on (trace partitioning); the two sub-partitions are explored from the start with that
// form fixed by Gaussian elimination over GF(2). No solver is involved and nothing is executed
// concretely: every partition is a cube (affine subspace) of the input bits, and an obligation
// discharged on all partitions holds for every input.
package bitexec

import (
	"fmt"
	"go/ast"
	"go/constant"
	"go/token"
	"go/types"
	"math/bits"
	"strings"

	"csverify/bitdom"
)

// ---------------------------------------------------------------------------
// values

type Value interface{}

type Int struct{ V bitdom.Val }
type Bool struct{ B bitdom.Bit }
type Float struct{ Bits bitdom.Val } // IEEE bit pattern, opaque

// Buffer is a byte array; Bytes is a []byte view of it.
type Buffer struct{ B []bitdom.Val }
type Bytes struct {
	Buf      *Buffer
	Off, Len int
	Cap      int
}
type List struct {
	Elems []Value
	Nil   bool
}
type Err struct {
	Nil  bool
	Desc string
}
type Str struct{ S string }

// ByteStr is a string whose content is a (symbolic) byte view: the result of string(b), of the unsafe casts
// between []byte and string, or a harness input.
type ByteStr struct{ B Bytes }

// ElemPtr is &b[i] / unsafe.SliceData(b); SlicePtr is &b for a []byte or string variable b.
type ElemPtr struct {
	B   Bytes
	Idx int
}
type SlicePtr struct{ V Value }
type Object struct {
	Type   string
	Fields map[string]Value
}
type Ptr struct{ Obj *Object }
type pkgVar struct{ path, name string }

// Stub stands for a value of an interface type supplied by a harness: it says which interfaces it satisfies (by
// the name the source uses in assertions / type switches, without package qualifier) and how its methods behave.
type Stub struct {
	Name    string
	Ifaces  map[string]bool
	Methods map[string]func(args []Value) []Value
}

func typeNameOf(e ast.Expr) string {
	s := types.ExprString(e)
	if i := strings.LastIndex(s, "."); i >= 0 {
		s = s[i+1:]
	}
	return s
}

// NativeFunc is a function value implemented by the harness (e.g. a callback parameter).
type NativeFunc func(args []Value) []Value

// Closure is a function literal together with the frame it was created in.
type Closure struct {
	Lit *ast.FuncLit
	fr  *frame
}

func NewBuffer(n int, fill func(i int) bitdom.Val) *Buffer {
	b := &Buffer{B: make([]bitdom.Val, n)}
	for i := range b.B {
		b.B[i] = fill(i)
	}
	return b
}

func TopByte(int) bitdom.Val  { return bitdom.TopVal(8, false) }
func ZeroByte(int) bitdom.Val { return bitdom.ConstVal(8, false, 0) }

func ConstInt(width int, signed bool, v uint64) Int { return Int{bitdom.ConstVal(width, signed, v)} }

// ---------------------------------------------------------------------------
// control transfer out of a run

type SplitReq struct{ Form bitdom.Bit }
type Abort struct {
	Msg string
	Pos token.Pos
}

func (m *Machine) abort(n ast.Node, format string, args ...interface{}) {
	p := token.NoPos
	if n != nil {
		p = n.Pos()
	}
	panic(Abort{Msg: fmt.Sprintf(format, args...), Pos: p})
}

// ---------------------------------------------------------------------------

type Machine struct {
	// Natives replaces functions of the analysed packages by harness implementations (by declaration name), for
	// helpers that only build error values or use constructs outside the modelled subset.
	Natives map[string]func(args []Value) []Value
	Info    *types.Info
	Pkg     *types.Package
	Decls   map[*types.Func]*ast.FuncDecl
	Steps   int
	MaxOps  int
}

type frame struct {
	env     map[types.Object]Value
	results []types.Object
	fn      *ast.FuncDecl
	ftype   *ast.FuncType
	parent  *frame
}

func (fr *frame) lookup(o types.Object) (Value, bool) {
	for f := fr; f != nil; f = f.parent {
		if v, ok := f.env[o]; ok {
			return v, true
		}
	}
	return nil, false
}

// set assigns to the frame that already holds o (captured variables), else defines it locally.
func (fr *frame) set(o types.Object, v Value) {
	for f := fr; f != nil; f = f.parent {
		if _, ok := f.env[o]; ok {
			f.env[o] = v
			return
		}
	}
	fr.env[o] = v
}

type ctl int

const (
	ctlNone ctl = iota
	ctlReturn
	ctlBreak
	ctlContinue
)

func (m *Machine) tick(n ast.Node) {
	m.Steps++
	if m.MaxOps > 0 && m.Steps > m.MaxOps {
		m.abort(n, "step bound exceeded (loop does not terminate on this partition?)")
	}
}

// Lookup finds a function or method ("EncodeVarint", "(*Decoder).DecodeTag") of the package.
func (m *Machine) Lookup(name string) *types.Func {
	for fn, d := range m.Decls {
		if declName(d) == name {
			return fn
		}
	}
	return nil
}

func declName(d *ast.FuncDecl) string {
	if d.Recv == nil || len(d.Recv.List) == 0 {
		return d.Name.Name
	}
	t := d.Recv.List[0].Type
	if s, ok := t.(*ast.StarExpr); ok {
		return "(*" + types.ExprString(s.X) + ")." + d.Name.Name
	}
	return "(" + types.ExprString(t) + ")." + d.Name.Name
}

// Call runs a function of the package.
func (m *Machine) Call(fn *types.Func, recv Value, args []Value) []Value {
	d := m.Decls[fn]
	if d != nil && m.Natives != nil {
		if nf := m.Natives[declName(d)]; nf != nil {
			return nf(args)
		}
	}
	if d == nil || d.Body == nil {
		m.abort(nil, "no body for %s", fn.FullName())
	}
	fr := &frame{env: map[types.Object]Value{}, fn: d, ftype: d.Type}
	if d.Recv != nil && len(d.Recv.List) == 1 && len(d.Recv.List[0].Names) == 1 {
		fr.env[m.Info.Defs[d.Recv.List[0].Names[0]]] = recv
	}
	i := 0
	for _, fl := range d.Type.Params.List {
		for _, nm := range fl.Names {
			if i < len(args) {
				if o := m.Info.Defs[nm]; o != nil {
					fr.env[o] = m.coerce(args[i], o.Type())
				}
			}
			i++
		}
	}
	if d.Type.Results != nil {
		for _, fl := range d.Type.Results.List {
			for _, nm := range fl.Names {
				if o := m.Info.Defs[nm]; o != nil {
					fr.env[o] = m.zero(o.Type())
					fr.results = append(fr.results, o)
				}
			}
		}
	}
	c, vals := m.block(fr, d.Body.List)
	if c == ctlReturn {
		return vals
	}
	if d.Type.Results == nil || len(d.Type.Results.List) == 0 {
		return nil
	}
	m.abort(d, "function %s ends without return", d.Name.Name)
	return nil
}

// coerce adapts an argument to a parameter type (integer width conversion of constants).
func (m *Machine) coerce(v Value, t types.Type) Value {
	if iv, ok := v.(Int); ok {
		if w, s, ok := intType(t); ok && (iv.V.W() != w || iv.V.Signed != s) {
			return Int{iv.V.Convert(w, s)}
		}
	}
	return v
}

func intType(t types.Type) (width int, signed bool, ok bool) {
	b, isB := t.Underlying().(*types.Basic)
	if !isB {
		return 0, false, false
	}
	switch b.Kind() {
	case types.Int8:
		return 8, true, true
	case types.Int16:
		return 16, true, true
	case types.Int32, types.UntypedRune:
		return 32, true, true
	case types.Int64, types.Int, types.UntypedInt:
		return 64, true, true
	case types.Uint8:
		return 8, false, true
	case types.Uint16:
		return 16, false, true
	case types.Uint32:
		return 32, false, true
	case types.Uint64, types.Uint, types.Uintptr:
		return 64, false, true
	}
	return 0, false, false
}

func (m *Machine) zero(t types.Type) Value {
	if w, s, ok := intType(t); ok {
		return ConstInt(w, s, 0)
	}
	switch u := t.Underlying().(type) {
	case *types.Basic:
		switch {
		case u.Info()&types.IsBoolean != 0:
			return Bool{bitdom.Const(false)}
		case u.Kind() == types.Float32:
			return Float{bitdom.ConstVal(32, false, 0)}
		case u.Kind() == types.Float64:
			return Float{bitdom.ConstVal(64, false, 0)}
		case u.Info()&types.IsString != 0:
			return Str{}
		}
	case *types.Slice:
		if b, ok := u.Elem().Underlying().(*types.Basic); ok && b.Kind() == types.Uint8 {
			return Bytes{}
		}
		return List{Nil: true}
	case *types.Interface:
		return Err{Nil: true}
	case *types.Pointer:
		return Ptr{}
	}
	return nil
}

// ---------------------------------------------------------------------------
// statements

func (m *Machine) block(fr *frame, list []ast.Stmt) (ctl, []Value) {
	for _, s := range list {
		if c, v := m.stmt(fr, s); c != ctlNone {
			return c, v
		}
	}
	return ctlNone, nil
}

func (m *Machine) stmt(fr *frame, s ast.Stmt) (ctl, []Value) {
	m.tick(s)
	switch x := s.(type) {
	case *ast.EmptyStmt:
	case *ast.BlockStmt:
		return m.block(fr, x.List)
	case *ast.ExprStmt:
		m.evalMulti(fr, x.X)
	case *ast.DeclStmt:
		gd := x.Decl.(*ast.GenDecl)
		if gd.Tok == token.VAR {
			for _, sp := range gd.Specs {
				vs := sp.(*ast.ValueSpec)
				for i, id := range vs.Names {
					o := m.Info.Defs[id]
					if o == nil {
						continue
					}
					if i < len(vs.Values) {
						fr.env[o] = m.coerce(m.eval(fr, vs.Values[i]), o.Type())
					} else {
						fr.env[o] = m.zero(o.Type())
					}
				}
			}
		}
	case *ast.AssignStmt:
		m.assign(fr, x)
	case *ast.IncDecStmt:
		cur := m.eval(fr, x.X).(Int)
		one := bitdom.ConstVal(cur.V.W(), cur.V.Signed, 1)
		var nv bitdom.Val
		if x.Tok == token.INC {
			nv = bitdom.Arith(cur.V, one, func(a, b uint64) uint64 { return a + b })
		} else {
			nv = bitdom.Arith(cur.V, one, func(a, b uint64) uint64 { return a - b })
		}
		m.store(fr, x.X, Int{nv})
	case *ast.ReturnStmt:
		if len(x.Results) == 0 {
			var out []Value
			for _, o := range fr.results {
				out = append(out, fr.env[o])
			}
			return ctlReturn, out
		}
		var out []Value
		if len(x.Results) == 1 {
			out = m.evalMulti(fr, x.Results[0])
		} else {
			for _, e := range x.Results {
				out = append(out, m.eval(fr, e))
			}
		}
		// adapt to the declared result types
		if fr.ftype != nil && fr.ftype.Results != nil {
			i := 0
			for _, fl := range fr.ftype.Results.List {
				n := len(fl.Names)
				if n == 0 {
					n = 1
				}
				for k := 0; k < n; k++ {
					if i < len(out) {
						out[i] = m.coerce(out[i], m.Info.TypeOf(fl.Type))
					}
					i++
				}
			}
		}
		return ctlReturn, out
	case *ast.IfStmt:
		if x.Init != nil {
			if c, v := m.stmt(fr, x.Init); c != ctlNone {
				return c, v
			}
		}
		if m.cond(fr, x.Cond) {
			return m.block(fr, x.Body.List)
		}
		if x.Else != nil {
			return m.stmt(fr, x.Else)
		}
	case *ast.ForStmt:
		if x.Init != nil {
			m.stmt(fr, x.Init)
		}
		for {
			m.tick(x)
			if x.Cond != nil && !m.cond(fr, x.Cond) {
				break
			}
			c, v := m.block(fr, x.Body.List)
			if c == ctlReturn {
				return c, v
			}
			if c == ctlBreak {
				break
			}
			if x.Post != nil {
				m.stmt(fr, x.Post)
			}
		}
	case *ast.RangeStmt:
		coll := m.eval(fr, x.X)
		var elems []Value
		switch cv := coll.(type) {
		case List:
			elems = cv.Elems
		case Bytes:
			for i := 0; i < cv.Len; i++ {
				elems = append(elems, Int{cv.Buf.B[cv.Off+i]})
			}
		default:
			m.abort(x, "range over %T is not modelled", coll)
		}
		for i, el := range elems {
			m.tick(x)
			if id, ok := x.Key.(*ast.Ident); ok && id.Name != "_" {
				m.bind(fr, id, ConstInt(64, true, uint64(i)), x.Tok)
			}
			if id, ok := x.Value.(*ast.Ident); ok && id.Name != "_" {
				m.bind(fr, id, el, x.Tok)
			}
			c, v := m.block(fr, x.Body.List)
			if c == ctlReturn {
				return c, v
			}
			if c == ctlBreak {
				break
			}
		}
	case *ast.BranchStmt:
		switch x.Tok {
		case token.BREAK:
			return ctlBreak, nil
		case token.CONTINUE:
			return ctlContinue, nil
		}
		m.abort(x, "branch %s is not modelled", x.Tok)
	case *ast.TypeSwitchStmt:
		var subject ast.Expr
		var bindName *ast.Ident
		switch a := x.Assign.(type) {
		case *ast.AssignStmt:
			if ta, ok := a.Rhs[0].(*ast.TypeAssertExpr); ok {
				subject = ta.X
			}
			bindName, _ = a.Lhs[0].(*ast.Ident)
		case *ast.ExprStmt:
			if ta, ok := a.X.(*ast.TypeAssertExpr); ok {
				subject = ta.X
			}
		}
		if subject == nil {
			m.abort(x, "type switch is not modelled")
		}
		sv := m.eval(fr, subject)
		st, ok := sv.(*Stub)
		if !ok {
			m.abort(x, "type switch on %T is not modelled", sv)
		}
		var chosen *ast.CaseClause
		for _, cl := range x.Body.List {
			cc := cl.(*ast.CaseClause)
			if cc.List == nil {
				if chosen == nil {
					chosen = cc
				}
				continue
			}
			hit := false
			for _, e := range cc.List {
				if st.Ifaces[typeNameOf(e)] {
					hit = true
				}
			}
			if hit {
				chosen = cc
				break
			}
		}
		if chosen != nil {
			if bindName != nil {
				if o := m.Info.Implicits[chosen]; o != nil {
					fr.env[o] = sv
				}
			}
			c, v := m.block(fr, chosen.Body)
			if c == ctlBreak {
				return ctlNone, nil
			}
			return c, v
		}
	case *ast.SwitchStmt:
		if x.Init != nil {
			m.stmt(fr, x.Init)
		}
		var tag Value
		if x.Tag != nil {
			tag = m.eval(fr, x.Tag)
		}
		var deflt *ast.CaseClause
		for _, cl := range x.Body.List {
			cc := cl.(*ast.CaseClause)
			if cc.List == nil {
				deflt = cc
				continue
			}
			hit := false
			for _, e := range cc.List {
				if tag == nil {
					hit = m.cond(fr, e)
				} else {
					hit = m.decide(x, m.compare(x, token.EQL, tag, m.coerceLike(m.eval(fr, e), tag)))
				}
				if hit {
					break
				}
			}
			if hit {
				c, v := m.block(fr, cc.Body)
				if c == ctlBreak {
					return ctlNone, nil
				}
				return c, v
			}
		}
		if deflt != nil {
			c, v := m.block(fr, deflt.Body)
			if c == ctlBreak {
				return ctlNone, nil
			}
			return c, v
		}
	default:
		m.abort(s, "statement %T is not modelled", s)
	}
	return ctlNone, nil
}

func (m *Machine) coerceLike(v Value, like Value) Value {
	if a, ok := v.(Int); ok {
		if b, ok := like.(Int); ok && (a.V.W() != b.V.W() || a.V.Signed != b.V.Signed) {
			return Int{a.V.Convert(b.V.W(), b.V.Signed)}
		}
	}
	return v
}

func (m *Machine) bind(fr *frame, id *ast.Ident, v Value, tok token.Token) {
	if o := m.Info.Defs[id]; o != nil {
		fr.env[o] = m.coerce(v, o.Type())
		return
	}
	if o := m.Info.Uses[id]; o != nil {
		fr.set(o, m.coerce(v, o.Type()))
	}
}

func (m *Machine) assign(fr *frame, x *ast.AssignStmt) {
	if len(x.Lhs) > 1 && len(x.Rhs) == 1 {
		vals := m.evalMulti(fr, x.Rhs[0])
		if len(vals) != len(x.Lhs) {
			m.abort(x, "assignment arity mismatch")
		}
		for i, l := range x.Lhs {
			m.assignTo(fr, l, vals[i], x.Tok)
		}
		return
	}
	if len(x.Lhs) != len(x.Rhs) {
		m.abort(x, "assignment shape is not modelled")
	}
	// evaluate all right-hand sides first (parallel assignment)
	vals := make([]Value, len(x.Rhs))
	for i := range x.Rhs {
		if x.Tok == token.ASSIGN || x.Tok == token.DEFINE {
			vals[i] = m.eval(fr, x.Rhs[i])
		} else {
			op := assignOp(x.Tok)
			vals[i] = m.binary(x, op, m.eval(fr, x.Lhs[i]), m.eval(fr, x.Rhs[i]))
		}
	}
	for i, l := range x.Lhs {
		m.assignTo(fr, l, vals[i], x.Tok)
	}
}

func assignOp(t token.Token) token.Token {
	switch t {
	case token.ADD_ASSIGN:
		return token.ADD
	case token.SUB_ASSIGN:
		return token.SUB
	case token.MUL_ASSIGN:
		return token.MUL
	case token.QUO_ASSIGN:
		return token.QUO
	case token.REM_ASSIGN:
		return token.REM
	case token.AND_ASSIGN:
		return token.AND
	case token.OR_ASSIGN:
		return token.OR
	case token.XOR_ASSIGN:
		return token.XOR
	case token.SHL_ASSIGN:
		return token.SHL
	case token.SHR_ASSIGN:
		return token.SHR
	case token.AND_NOT_ASSIGN:
		return token.AND_NOT
	}
	return token.ILLEGAL
}

func (m *Machine) assignTo(fr *frame, l ast.Expr, v Value, tok token.Token) {
	if id, ok := l.(*ast.Ident); ok {
		if id.Name == "_" {
			return
		}
		m.bind(fr, id, v, tok)
		return
	}
	m.store(fr, l, v)
}

func (m *Machine) store(fr *frame, l ast.Expr, v Value) {
	switch x := l.(type) {
	case *ast.Ident:
		m.bind(fr, x, v, token.ASSIGN)
	case *ast.ParenExpr:
		m.store(fr, x.X, v)
	case *ast.SelectorExpr:
		base := m.eval(fr, x.X)
		p, ok := base.(Ptr)
		if !ok || p.Obj == nil {
			m.abort(l, "store through %T is not modelled", base)
		}
		if t := m.Info.TypeOf(l); t != nil {
			v = m.coerce(v, t)
		}
		p.Obj.Fields[x.Sel.Name] = v
	case *ast.IndexExpr:
		base := m.eval(fr, x.X)
		idx := m.constIndex(x.Index, m.eval(fr, x.Index))
		switch b := base.(type) {
		case Bytes:
			if idx < 0 || idx >= b.Len {
				m.abort(l, "index %d out of range [0,%d) in a write", idx, b.Len)
			}
			iv, ok := v.(Int)
			if !ok {
				m.abort(l, "byte store of %T", v)
			}
			b.Buf.B[b.Off+idx] = iv.V.Convert(8, false)
		case List:
			if idx < 0 || idx >= len(b.Elems) {
				m.abort(l, "index %d out of range [0,%d) in a write", idx, len(b.Elems))
			}
			b.Elems[idx] = v
		default:
			m.abort(l, "indexed store into %T is not modelled", base)
		}
	default:
		m.abort(l, "assignment target %T is not modelled", l)
	}
}

func (m *Machine) constIndex(n ast.Node, v Value) int {
	iv, ok := v.(Int)
	if !ok {
		m.abort(n, "index of type %T", v)
	}
	c, ok := iv.V.Int64()
	if !ok {
		m.abort(n, "index / bound is not a constant on this partition: %s", iv.V)
	}
	return int(c)
}

// ---------------------------------------------------------------------------
// expressions

func (m *Machine) cond(fr *frame, e ast.Expr) bool {
	v := m.eval(fr, e)
	return m.decide(e, v)
}

func (m *Machine) decide(n ast.Node, v Value) bool {
	b, ok := v.(Bool)
	if !ok {
		m.abort(n, "condition of type %T", v)
	}
	if c, ok := b.B.IsConst(); ok {
		return c
	}
	if b.B.Top {
		m.abort(n, "condition depends on an unknown (⊤) bit: undecided in this domain")
	}
	panic(SplitReq{Form: b.B})
}

func (m *Machine) eval(fr *frame, e ast.Expr) Value {
	vs := m.evalMulti(fr, e)
	if len(vs) != 1 {
		m.abort(e, "expression yields %d values", len(vs))
	}
	return vs[0]
}

func (m *Machine) constValue(e ast.Expr, tv types.TypeAndValue) (Value, bool) {
	if tv.Value == nil {
		return nil, false
	}
	t := tv.Type
	switch tv.Value.Kind() {
	case constant.Bool:
		return Bool{bitdom.Const(constant.BoolVal(tv.Value))}, true
	case constant.Int:
		w, s, ok := intType(t)
		if !ok {
			// untyped constant used as float etc.
			if b, isB := t.Underlying().(*types.Basic); isB && b.Info()&types.IsFloat != 0 {
				return nil, false
			}
			w, s = 64, true
		}
		if u, exact := constant.Uint64Val(tv.Value); exact {
			return ConstInt(w, s, u), true
		}
		if i, exact := constant.Int64Val(tv.Value); exact {
			return ConstInt(w, s, uint64(i)), true
		}
	case constant.String:
		return Str{constant.StringVal(tv.Value)}, true
	}
	return nil, false
}

func (m *Machine) evalMulti(fr *frame, e ast.Expr) []Value {
	m.tick(e)
	if tv, ok := m.Info.Types[e]; ok {
		if v, ok := m.constValue(e, tv); ok {
			return []Value{v}
		}
	}
	switch x := e.(type) {
	case *ast.ParenExpr:
		return m.evalMulti(fr, x.X)
	case *ast.Ident:
		if x.Name == "nil" {
			return []Value{Err{Nil: true}}
		}
		o := m.Info.Uses[x]
		if o == nil {
			o = m.Info.Defs[x]
		}
		if v, ok := fr.lookup(o); ok {
			return []Value{v}
		}
		if vr, ok := o.(*types.Var); ok && vr.Pkg() != nil && !vr.IsField() && vr.Parent() == vr.Pkg().Scope() {
			// package-level variable: only sentinel errors are modelled
			if types.Implements(vr.Type(), errorIface) || types.Identical(vr.Type(), types.Universe.Lookup("error").Type()) {
				return []Value{Err{Nil: false, Desc: vr.Name()}}
			}
		}
		m.abort(e, "identifier %s has no modelled value", x.Name)
	case *ast.BasicLit:
		m.abort(e, "literal %s is not modelled", x.Value)
	case *ast.UnaryExpr:
		switch x.Op {
		case token.NOT:
			b := m.eval(fr, x.X).(Bool)
			return []Value{Bool{bitdom.Not(b.B)}}
		case token.SUB:
			v := m.eval(fr, x.X).(Int)
			return []Value{Int{bitdom.Neg(v.V)}}
		case token.XOR:
			v := m.eval(fr, x.X).(Int)
			return []Value{Int{bitdom.NotV(v.V)}}
		case token.ADD:
			return m.evalMulti(fr, x.X)
		case token.AND:
			if cl, ok := x.X.(*ast.CompositeLit); ok {
				return []Value{Ptr{m.composite(fr, cl)}}
			}
			if ix, ok := ast.Unparen(x.X).(*ast.IndexExpr); ok {
				if b, ok := m.eval(fr, ix.X).(Bytes); ok {
					idx := m.constIndex(ix.Index, m.eval(fr, ix.Index))
					if idx < 0 || idx >= b.Len {
						m.abort(e, "index out of range [%d] with length %d", idx, b.Len)
					}
					return []Value{ElemPtr{B: b, Idx: idx}}
				}
			}
			if id, ok := ast.Unparen(x.X).(*ast.Ident); ok {
				switch v := m.eval(fr, id).(type) {
				case Bytes, ByteStr, Str:
					return []Value{SlicePtr{V: v}}
				}
			}
			m.abort(e, "address-of is not modelled")
		}
		m.abort(e, "unary %s is not modelled", x.Op)
	case *ast.BinaryExpr:
		if x.Op == token.LAND {
			if !m.cond(fr, x.X) {
				return []Value{Bool{bitdom.Const(false)}}
			}
			return []Value{m.eval(fr, x.Y)}
		}
		if x.Op == token.LOR {
			if m.cond(fr, x.X) {
				return []Value{Bool{bitdom.Const(true)}}
			}
			return []Value{m.eval(fr, x.Y)}
		}
		l, r := m.eval(fr, x.X), m.eval(fr, x.Y)
		return []Value{m.binary(e, x.Op, l, r)}
	case *ast.CallExpr:
		return m.call(fr, x)
	case *ast.SelectorExpr:
		// package-qualified value
		if id, ok := x.X.(*ast.Ident); ok {
			if pn, ok := m.Info.Uses[id].(*types.PkgName); ok {
				o := m.Info.Uses[x.Sel]
				if vr, ok := o.(*types.Var); ok {
					if types.Identical(vr.Type(), types.Universe.Lookup("error").Type()) || types.Implements(vr.Type(), errorIface) {
						return []Value{Err{Nil: false, Desc: pn.Imported().Name() + "." + vr.Name()}}
					}
					return []Value{pkgVar{pn.Imported().Path(), vr.Name()}}
				}
				m.abort(e, "%s.%s is not modelled", id.Name, x.Sel.Name)
			}
		}
		base := m.eval(fr, x.X)
		if p, ok := base.(Ptr); ok && p.Obj != nil {
			if v, ok := p.Obj.Fields[x.Sel.Name]; ok {
				return []Value{v}
			}
			m.abort(e, "field %s of %s has no value", x.Sel.Name, p.Obj.Type)
		}
		m.abort(e, "selector on %T is not modelled", base)
	case *ast.IndexExpr:
		base := m.eval(fr, x.X)
		idx := m.constIndex(x.Index, m.eval(fr, x.Index))
		switch b := base.(type) {
		case Bytes:
			if idx < 0 || idx >= b.Len {
				m.abort(e, "index %d out of range [0,%d)", idx, b.Len)
			}
			return []Value{Int{b.Buf.B[b.Off+idx]}}
		case List:
			if idx < 0 || idx >= len(b.Elems) {
				m.abort(e, "index %d out of range [0,%d)", idx, len(b.Elems))
			}
			return []Value{b.Elems[idx]}
		}
		m.abort(e, "index into %T is not modelled", base)
	case *ast.SliceExpr:
		base := m.eval(fr, x.X)
		b, ok := base.(Bytes)
		if !ok {
			if l, isL := base.(List); isL {
				lo, hi := 0, len(l.Elems)
				if x.Low != nil {
					lo = m.constIndex(x.Low, m.eval(fr, x.Low))
				}
				if x.High != nil {
					hi = m.constIndex(x.High, m.eval(fr, x.High))
				}
				if lo < 0 || hi < lo || hi > len(l.Elems) {
					m.abort(e, "slice bounds [%d:%d] out of range (len %d)", lo, hi, len(l.Elems))
				}
				return []Value{List{Elems: l.Elems[lo:hi]}}
			}
			m.abort(e, "slice of %T is not modelled", base)
		}
		lo, hi := 0, b.Len
		if x.Low != nil {
			lo = m.constIndex(x.Low, m.eval(fr, x.Low))
		}
		if x.High != nil {
			hi = m.constIndex(x.High, m.eval(fr, x.High))
		}
		if lo < 0 || hi < lo || hi > b.Cap {
			m.abort(e, "slice bounds [%d:%d] out of range (cap %d)", lo, hi, b.Cap)
		}
		return []Value{Bytes{Buf: b.Buf, Off: b.Off + lo, Len: hi - lo, Cap: b.Cap - lo}}
	case *ast.CompositeLit:
		return []Value{Ptr{m.composite(fr, x)}} // struct values are handled through their address
	case *ast.StarExpr:
		vs := m.evalMulti(fr, x.X)
		if len(vs) == 1 {
			if sp, ok := vs[0].(SlicePtr); ok {
				// *(*string)(unsafe.Pointer(&b)) and *(*[]byte)(unsafe.Pointer(&s)): the same bytes under the other type
				t := m.Info.TypeOf(e)
				isStr := false
				if bt, ok := t.Underlying().(*types.Basic); ok && bt.Info()&types.IsString != 0 {
					isStr = true
				}
				switch v := sp.V.(type) {
				case Bytes:
					if isStr {
						return []Value{ByteStr{B: Bytes{Buf: v.Buf, Off: v.Off, Len: v.Len, Cap: v.Len}}}
					}
					return []Value{v}
				case ByteStr:
					if isStr {
						return []Value{v}
					}
					return []Value{v.B}
				case Str:
					if isStr {
						return []Value{v}
					}
				}
				m.abort(e, "dereference of a reinterpreted pointer to %T is not modelled", sp.V)
			}
		}
		return vs
	case *ast.FuncLit:
		return []Value{Closure{Lit: x, fr: fr}}
	case *ast.TypeAssertExpr:
		v := m.eval(fr, x.X)
		st, ok := v.(*Stub)
		if !ok {
			m.abort(e, "type assertion on %T is not modelled", v)
		}
		holds := x.Type != nil && st.Ifaces[typeNameOf(x.Type)]
		if tv, ok := m.Info.Types[e]; ok {
			if _, isTuple := tv.Type.(*types.Tuple); isTuple {
				if holds {
					return []Value{v, Bool{bitdom.Const(true)}}
				}
				return []Value{Err{Nil: true}, Bool{bitdom.Const(false)}}
			}
		}
		if !holds {
			m.abort(e, "type assertion to %s fails for the harness value %s", types.ExprString(x.Type), st.Name)
		}
		return []Value{v}
	}
	m.abort(e, "expression %T is not modelled", e)
	return nil
}

var errorIface = types.Universe.Lookup("error").Type().Underlying().(*types.Interface)

func (m *Machine) composite(fr *frame, cl *ast.CompositeLit) *Object {
	t := m.Info.TypeOf(cl)
	st, ok := t.Underlying().(*types.Struct)
	if !ok {
		m.abort(cl, "composite literal of %s is not modelled", t)
	}
	obj := &Object{Type: t.String(), Fields: map[string]Value{}}
	for i := 0; i < st.NumFields(); i++ {
		obj.Fields[st.Field(i).Name()] = m.zero(st.Field(i).Type())
	}
	for i, el := range cl.Elts {
		if kv, ok := el.(*ast.KeyValueExpr); ok {
			obj.Fields[kv.Key.(*ast.Ident).Name] = m.eval(fr, kv.Value)
		} else {
			obj.Fields[st.Field(i).Name()] = m.eval(fr, el)
		}
	}
	return obj
}

func (m *Machine) binary(n ast.Node, op token.Token, l, r Value) Value {
	switch op {
	case token.EQL, token.NEQ, token.LSS, token.GTR, token.LEQ, token.GEQ:
		return m.compare(n, op, l, r)
	}
	a, ok1 := l.(Int)
	b, ok2 := r.(Int)
	if !ok1 || !ok2 {
		m.abort(n, "operator %s on %T, %T is not modelled", op, l, r)
	}
	if op == token.SHL || op == token.SHR {
		k, ok := b.V.IsConst()
		if !ok {
			m.abort(n, "shift count is not constant on this partition")
		}
		if k >= uint64(a.V.W()) {
			if op == token.SHR && a.V.Signed {
				k = uint64(a.V.W() - 1)
			} else if op == token.SHR {
				return Int{bitdom.ConstVal(a.V.W(), a.V.Signed, 0)}
			} else {
				return Int{bitdom.ConstVal(a.V.W(), a.V.Signed, 0)}
			}
		}
		if op == token.SHL {
			return Int{bitdom.Shl(a.V, int(k))}
		}
		return Int{bitdom.Shr(a.V, int(k))}
	}
	if a.V.W() != b.V.W() {
		// untyped constant operand
		if _, isC := b.V.IsConst(); isC {
			b = Int{b.V.Convert(a.V.W(), a.V.Signed)}
		} else if _, isC := a.V.IsConst(); isC {
			a = Int{a.V.Convert(b.V.W(), b.V.Signed)}
		} else {
			m.abort(n, "operands of different width")
		}
	}
	switch op {
	case token.AND:
		return Int{bitdom.AndV(a.V, b.V)}
	case token.OR:
		return Int{bitdom.OrV(a.V, b.V)}
	case token.XOR:
		return Int{bitdom.XorV(a.V, b.V)}
	case token.AND_NOT:
		return Int{bitdom.AndNotV(a.V, b.V)}
	case token.ADD:
		return Int{bitdom.Arith(a.V, b.V, func(x, y uint64) uint64 { return x + y })}
	case token.SUB:
		return Int{bitdom.Arith(a.V, b.V, func(x, y uint64) uint64 { return x - y })}
	case token.MUL:
		return Int{bitdom.Arith(a.V, b.V, func(x, y uint64) uint64 { return x * y })}
	case token.QUO, token.REM:
		if y, ok := b.V.IsConst(); ok && y == 0 {
			m.abort(n, "division by zero")
		}
		signed := a.V.Signed
		return Int{bitdom.Arith(a.V, b.V, func(x, y uint64) uint64 {
			if signed {
				if op == token.QUO {
					return uint64(int64(x) / int64(y))
				}
				return uint64(int64(x) % int64(y))
			}
			if op == token.QUO {
				return x / y
			}
			return x % y
		})}
	}
	m.abort(n, "operator %s is not modelled", op)
	return nil
}

func (m *Machine) compare(n ast.Node, op token.Token, l, r Value) Value {
	switch a := l.(type) {
	case Err:
		b, ok := r.(Err)
		if !ok {
			m.abort(n, "comparison of error with %T", r)
		}
		if !(a.Nil || b.Nil) {
			m.abort(n, "comparison of two non-nil errors is not modelled")
		}
		eq := a.Nil == b.Nil
		return Bool{bitdom.Const(eq == (op == token.EQL))}
	case Bool:
		b := r.(Bool)
		x := bitdom.Xor(a.B, b.B) // 1 iff different
		if op == token.EQL {
			x = bitdom.Not(x)
		}
		return Bool{x}
	case Bytes:
		if e, ok := r.(Err); ok && e.Nil {
			isNil := a.Buf == nil
			return Bool{bitdom.Const(isNil == (op == token.EQL))}
		}
	case List:
		if e, ok := r.(Err); ok && e.Nil {
			return Bool{bitdom.Const(a.Nil == (op == token.EQL))}
		}
	case Ptr:
		if e, ok := r.(Err); ok && e.Nil {
			return Bool{bitdom.Const((a.Obj == nil) == (op == token.EQL))}
		}
	case *Stub:
		if e, ok := r.(Err); ok && e.Nil {
			return Bool{bitdom.Const(op != token.EQL)}
		}
	case Closure, NativeFunc:
		if e, ok := r.(Err); ok && e.Nil {
			return Bool{bitdom.Const(op != token.EQL)}
		}
	case nil:
		if e, ok := r.(Err); ok && e.Nil {
			return Bool{bitdom.Const(op == token.EQL)}
		}
	case Int:
		b, ok := r.(Int)
		if !ok {
			m.abort(n, "comparison of integer with %T", r)
		}
		av, bv := a.V, b.V
		if av.W() != bv.W() {
			if _, isC := bv.IsConst(); isC {
				bv = bv.Convert(av.W(), av.Signed)
			} else {
				av = av.Convert(bv.W(), bv.Signed)
			}
		}
		bv.Signed = av.Signed
		// interval decision first: it settles `b < 0x80` for a byte whose top bit is known without looking at the others
		if av.W() <= 64 {
			alo, ahi := bitdom.Range(av)
			blo, bhi := bitdom.Range(bv)
			switch op {
			case token.LSS, token.GEQ:
				if ahi < blo {
					return Bool{bitdom.Const(op == token.LSS)}
				}
				if alo >= bhi {
					return Bool{bitdom.Const(op == token.GEQ)}
				}
			case token.GTR, token.LEQ:
				if alo > bhi {
					return Bool{bitdom.Const(op == token.GTR)}
				}
				if ahi <= blo {
					return Bool{bitdom.Const(op == token.LEQ)}
				}
			case token.EQL, token.NEQ:
				if ahi < blo || alo > bhi {
					return Bool{bitdom.Const(op == token.NEQ)}
				}
			}
		}
		res, decided, split := bitdom.Cmp(av, bv)
		if !decided {
			if split.Top {
				m.abort(n, "comparison depends on an unknown (⊤) bit: undecided in this domain")
			}
			panic(SplitReq{Form: split})
		}
		var out bool
		switch op {
		case token.EQL:
			out = res == 0
		case token.NEQ:
			out = res != 0
		case token.LSS:
			out = res < 0
		case token.GTR:
			out = res > 0
		case token.LEQ:
			out = res <= 0
		case token.GEQ:
			out = res >= 0
		}
		return Bool{bitdom.Const(out)}
	}
	m.abort(n, "comparison %s on %T, %T is not modelled", op, l, r)
	return nil
}

// ---------------------------------------------------------------------------
// calls

func (m *Machine) call(fr *frame, c *ast.CallExpr) []Value {
	// conversion
	if tv, ok := m.Info.Types[c.Fun]; ok && tv.IsType() {
		return []Value{m.convert(c, tv.Type, m.eval(fr, c.Args[0]))}
	}
	// builtins
	if id, ok := c.Fun.(*ast.Ident); ok {
		if _, isB := m.Info.Uses[id].(*types.Builtin); isB {
			return m.builtin(fr, c, id.Name)
		}
	}
	if se, ok := c.Fun.(*ast.SelectorExpr); ok {
		if _, isB := m.Info.Uses[se.Sel].(*types.Builtin); isB {
			return m.unsafeBuiltin(fr, c, se.Sel.Name)
		}
	}
	var fn *types.Func
	var recvExpr ast.Expr
	switch f := c.Fun.(type) {
	case *ast.Ident:
		fn, _ = m.Info.Uses[f].(*types.Func)
	case *ast.SelectorExpr:
		fn, _ = m.Info.Uses[f.Sel].(*types.Func)
		if sel, ok := m.Info.Selections[f]; ok && sel.Kind() == types.MethodVal {
			recvExpr = f.X
		}
	}
	if fn != nil && recvExpr != nil && m.Decls[fn] == nil {
		if _, isIface := fn.Type().(*types.Signature).Recv().Type().Underlying().(*types.Interface); isIface {
			rv := m.eval(fr, recvExpr)
			if st, ok := rv.(*Stub); ok {
				impl := st.Methods[fn.Name()]
				if impl == nil {
					m.abort(c, "harness value %s has no method %s", st.Name, fn.Name())
				}
				args := make([]Value, 0, len(c.Args))
				for _, a := range c.Args {
					args = append(args, m.eval(fr, a))
				}
				return impl(args)
			}
		}
	}
	if fn == nil {
		// call of a function value (closure held in a variable or parameter)
		if id, ok := c.Fun.(*ast.Ident); ok {
			if o := m.Info.Uses[id]; o != nil {
				if v, ok := fr.lookup(o); ok {
					if cl, ok := v.(Closure); ok {
						args := make([]Value, 0, len(c.Args))
						for _, a := range c.Args {
							args = append(args, m.eval(fr, a))
						}
						return m.callClosure(cl, args)
					}
					if nf, ok := v.(NativeFunc); ok {
						args := make([]Value, 0, len(c.Args))
						for _, a := range c.Args {
							args = append(args, m.eval(fr, a))
						}
						return nf(args)
					}
				}
			}
		}
		m.abort(c, "call of %s is not modelled", types.ExprString(c.Fun))
	}
	args := make([]Value, 0, len(c.Args))
	for _, a := range c.Args {
		args = append(args, m.eval(fr, a))
	}
	if fn.Origin() != nil {
		fn = fn.Origin()
	}
	if m.Decls[fn] != nil {
		var recv Value
		if recvExpr != nil {
			recv = m.eval(fr, recvExpr)
		}
		return m.Call(fn, recv, args)
	}
	path := ""
	if fn.Pkg() != nil {
		path = fn.Pkg().Path()
	}
	switch path + "." + fn.Name() {
	case "fmt.Errorf", "errors.New":
		return []Value{Err{Nil: false, Desc: "error"}}
	case "slices.BinarySearch":
		l, ok := args[0].(List)
		t, ok2 := args[1].(Int)
		if !ok || !ok2 {
			m.abort(c, "slices.BinarySearch on %T / %T is not modelled", args[0], args[1])
		}
		tv, okc := t.V.Int64()
		if !okc {
			m.abort(c, "slices.BinarySearch for a value that is not constant on this partition")
		}
		lo, hi := 0, len(l.Elems)
		for lo < hi {
			mid := (lo + hi) / 2
			ev, okE := l.Elems[mid].(Int)
			if !okE {
				m.abort(c, "slices.BinarySearch over non-integers")
			}
			e, okC := ev.V.Int64()
			if !okC {
				m.abort(c, "slices.BinarySearch over a table that is not constant")
			}
			if e < tv {
				lo = mid + 1
			} else {
				hi = mid
			}
		}
		found := false
		if lo < len(l.Elems) {
			if e, ok := l.Elems[lo].(Int).V.Int64(); ok && e == tv {
				found = true
			}
		}
		return []Value{ConstInt(64, true, uint64(lo)), Bool{bitdom.Const(found)}}
	case "slices.Clone", "bytes.Clone":
		if b, ok := args[0].(Bytes); ok {
			if b.Buf == nil {
				return []Value{b}
			}
			nb := &Buffer{B: append([]bitdom.Val(nil), b.Buf.B[b.Off:b.Off+b.Len]...)}
			return []Value{Bytes{Buf: nb, Len: b.Len, Cap: b.Len}}
		}
		m.abort(c, "Clone of %T is not modelled", args[0])
	case "encoding/binary.PutUvarint":
		// the standard loop: for x >= 0x80 { buf[i] = byte(x) | 0x80; x >>= 7; i++ }; buf[i] = byte(x); return i + 1
		buf, ok1 := args[0].(Bytes)
		x, ok2 := args[1].(Int)
		if !ok1 || !ok2 {
			m.abort(c, "PutUvarint on %T, %T", args[0], args[1])
		}
		v := x.V.Convert(64, false)
		i := 0
		for {
			ge := m.compare(c, token.GEQ, Int{v}, ConstInt(64, false, 0x80)).(Bool)
			cont, _ := ge.B.IsConst()
			if i >= buf.Len {
				m.abort(c, "index out of range [%d] with length %d (binary.PutUvarint)", i, buf.Len)
			}
			b := v.Convert(8, false)
			if !cont {
				buf.Buf.B[buf.Off+i] = b
				return []Value{ConstInt(64, true, uint64(i+1))}
			}
			b.Bits[7] = bitdom.Const(true)
			buf.Buf.B[buf.Off+i] = b
			v = bitdom.Shr(v, 7)
			i++
		}
	case "math.Float32bits", "math.Float64bits":
		f, ok := args[0].(Float)
		if !ok {
			m.abort(c, "Float*bits of %T", args[0])
		}
		return []Value{Int{f.Bits}}
	case "math.Float32frombits", "math.Float64frombits":
		v := args[0].(Int)
		return []Value{Float{v.V}}
	case "math/bits.Len64", "math/bits.Len32", "math/bits.Len":
		v := args[0].(Int)
		return []Value{ConstInt(64, true, uint64(m.bitLen(c, v.V)))}
	}
	// encoding/binary byte orders
	if recvExpr != nil && path == "encoding/binary" {
		pv, _ := m.eval(fr, recvExpr).(pkgVar)
		little := pv.name == "LittleEndian"
		if pv.name != "LittleEndian" && pv.name != "BigEndian" {
			m.abort(c, "byte order %s is not modelled", pv.name)
		}
		width := 0
		switch fn.Name() {
		case "PutUint16", "Uint16":
			width = 2
		case "PutUint32", "Uint32":
			width = 4
		case "PutUint64", "Uint64":
			width = 8
		default:
			m.abort(c, "binary.%s is not modelled", fn.Name())
		}
		b, ok := args[0].(Bytes)
		if !ok || b.Len < width {
			m.abort(c, "binary.%s on a slice of %d bytes (needs %d)", fn.Name(), b.Len, width)
		}
		if strings.HasPrefix(fn.Name(), "Put") {
			v := args[1].(Int).V.Convert(width*8, false)
			for k := 0; k < width; k++ {
				src := k
				if !little {
					src = width - 1 - k
				}
				by := bitdom.Val{Bits: append([]bitdom.Bit(nil), v.Bits[src*8:src*8+8]...)}
				b.Buf.B[b.Off+k] = by
			}
			return nil
		}
		out := bitdom.Val{Bits: make([]bitdom.Bit, width*8)}
		for k := 0; k < width; k++ {
			dst := k
			if !little {
				dst = width - 1 - k
			}
			copy(out.Bits[dst*8:dst*8+8], b.Buf.B[b.Off+k].Bits)
		}
		return []Value{Int{out}}
	}
	m.abort(c, "call of %s.%s is not modelled", path, fn.Name())
	return nil
}

// bitLen is bits.Len on an abstract value: the position of the highest set bit must be known.
func (m *Machine) bitLen(n ast.Node, v bitdom.Val) int {
	for i := v.W() - 1; i >= 0; i-- {
		c, ok := v.Bits[i].IsConst()
		if ok && c {
			return i + 1
		}
		if ok {
			continue
		}
		if v.Bits[i].Top {
			m.abort(n, "bits.Len of a value with unknown bits")
		}
		panic(SplitReq{Form: v.Bits[i]})
	}
	return 0
}

func (m *Machine) convert(n ast.Node, t types.Type, v Value) Value {
	switch v.(type) {
	case SlicePtr, ElemPtr:
		// pointer reinterpretation (unsafe.Pointer(p), (*T)(p)): the pointer itself is unchanged
		if _, isPtr := t.Underlying().(*types.Pointer); isPtr {
			return v
		}
		if bt, ok := t.Underlying().(*types.Basic); ok && bt.Kind() == types.UnsafePointer {
			return v
		}
	}
	if bt, ok := t.Underlying().(*types.Basic); ok && bt.Info()&types.IsString != 0 {
		switch x := v.(type) {
		case Bytes: // string(b) copies
			nb := &Buffer{B: append([]bitdom.Val(nil), x.Buf.B[x.Off:x.Off+x.Len]...)}
			return ByteStr{B: Bytes{Buf: nb, Len: x.Len, Cap: x.Len}}
		case ByteStr, Str:
			return v
		}
	}
	if sl, ok := t.Underlying().(*types.Slice); ok {
		if bt, ok := sl.Elem().Underlying().(*types.Basic); ok && bt.Kind() == types.Uint8 {
			if x, ok := v.(ByteStr); ok { // []byte(s) copies
				nb := &Buffer{B: append([]bitdom.Val(nil), x.B.Buf.B[x.B.Off:x.B.Off+x.B.Len]...)}
				return Bytes{Buf: nb, Len: x.B.Len, Cap: x.B.Len}
			}
		}
	}
	if w, s, ok := intType(t); ok {
		switch x := v.(type) {
		case Int:
			return Int{x.V.Convert(w, s)}
		}
		m.abort(n, "conversion of %T to %s is not modelled", v, t)
	}
	switch u := t.Underlying().(type) {
	case *types.Basic:
		if u.Info()&types.IsFloat != 0 {
			if f, ok := v.(Float); ok {
				if (u.Kind() == types.Float32 && f.Bits.W() == 32) || (u.Kind() == types.Float64 && f.Bits.W() == 64) {
					return f
				}
			}
		}
		if u.Info()&types.IsBoolean != 0 {
			if b, ok := v.(Bool); ok {
				return b
			}
		}
	case *types.Slice:
		if b, ok := v.(Bytes); ok {
			return b
		}
		if l, ok := v.(List); ok {
			return l
		}
	}
	m.abort(n, "conversion of %T to %s is not modelled", v, t)
	return nil
}

// unsafeBuiltin models unsafe.String / StringData / Slice / SliceData on byte views.
func (m *Machine) unsafeBuiltin(fr *frame, c *ast.CallExpr, name string) []Value {
	switch name {
	case "SliceData":
		if b, ok := m.eval(fr, c.Args[0]).(Bytes); ok {
			return []Value{ElemPtr{B: b, Idx: 0}}
		}
	case "StringData":
		switch s := m.eval(fr, c.Args[0]).(type) {
		case ByteStr:
			return []Value{ElemPtr{B: s.B, Idx: 0}}
		}
	case "String", "Slice":
		p, ok := m.eval(fr, c.Args[0]).(ElemPtr)
		n := m.constIndex(c.Args[1], m.eval(fr, c.Args[1]))
		if ok {
			if n < 0 || p.Idx+n > p.B.Cap {
				m.abort(c, "unsafe.%s of %d bytes from element %d of a view with capacity %d", name, n, p.Idx, p.B.Cap)
			}
			view := Bytes{Buf: p.B.Buf, Off: p.B.Off + p.Idx, Len: n, Cap: n}
			if name == "String" {
				return []Value{ByteStr{B: view}}
			}
			return []Value{view}
		}
	}
	m.abort(c, "unsafe.%s on these operands is not modelled", name)
	return nil
}

func (m *Machine) builtin(fr *frame, c *ast.CallExpr, name string) []Value {
	switch name {
	case "len", "cap":
		v := m.eval(fr, c.Args[0])
		switch x := v.(type) {
		case Bytes:
			if name == "cap" {
				return []Value{ConstInt(64, true, uint64(x.Cap))}
			}
			return []Value{ConstInt(64, true, uint64(x.Len))}
		case List:
			return []Value{ConstInt(64, true, uint64(len(x.Elems)))}
		case Err:
			if x.Nil {
				return []Value{ConstInt(64, true, 0)} // len / cap of a nil slice held in an untyped zero value
			}
		case Str:
			return []Value{ConstInt(64, true, uint64(len(x.S)))}
		case ByteStr:
			return []Value{ConstInt(64, true, uint64(x.B.Len))}
		}
		m.abort(c, "%s of %T is not modelled", name, v)
	case "append":
		base := m.eval(fr, c.Args[0])
		switch b := base.(type) {
		case List:
			out := List{Elems: append([]Value(nil), b.Elems...)}
			elemT := m.Info.TypeOf(c.Args[0]).Underlying().(*types.Slice).Elem()
			for i, a := range c.Args[1:] {
				v := m.eval(fr, a)
				if c.Ellipsis.IsValid() && i == len(c.Args)-2 {
					if l, ok := v.(List); ok {
						out.Elems = append(out.Elems, l.Elems...)
						continue
					}
					m.abort(c, "append(…, %T...) is not modelled", v)
				}
				out.Elems = append(out.Elems, m.coerce(v, elemT))
			}
			return []Value{out}
		case Bytes:
			// always re-allocate: the result never aliases the argument (sound for value equality)
			nb := &Buffer{}
			for i := 0; i < b.Len; i++ {
				nb.B = append(nb.B, b.Buf.B[b.Off+i])
			}
			for i, a := range c.Args[1:] {
				v := m.eval(fr, a)
				if c.Ellipsis.IsValid() && i == len(c.Args)-2 {
					src, ok := v.(Bytes)
					if !ok {
						m.abort(c, "append(…, %T...) is not modelled", v)
					}
					for k := 0; k < src.Len; k++ {
						nb.B = append(nb.B, src.Buf.B[src.Off+k])
					}
					continue
				}
				nb.B = append(nb.B, v.(Int).V.Convert(8, false))
			}
			return []Value{Bytes{Buf: nb, Len: len(nb.B), Cap: len(nb.B)}}
		}
		m.abort(c, "append to %T is not modelled", base)
	case "copy":
		dst, ok1 := m.eval(fr, c.Args[0]).(Bytes)
		sv := m.eval(fr, c.Args[1])
		src, ok2 := sv.(Bytes)
		if bs, isStr := sv.(ByteStr); isStr { // copy(dst, s) from a string
			src, ok2 = bs.B, true
		}
		if st, isStr := sv.(Str); isStr && st.S == "" {
			src, ok2 = Bytes{Buf: &Buffer{}}, true
		}
		if !ok1 || !ok2 {
			m.abort(c, "copy on non-byte slices is not modelled")
		}
		n := dst.Len
		if src.Len < n {
			n = src.Len
		}
		tmp := make([]bitdom.Val, n)
		for i := 0; i < n; i++ {
			tmp[i] = src.Buf.B[src.Off+i]
		}
		for i := 0; i < n; i++ {
			dst.Buf.B[dst.Off+i] = tmp[i]
		}
		return []Value{ConstInt(64, true, uint64(n))}
	case "make":
		t := m.Info.TypeOf(c.Args[0])
		sl, ok := t.Underlying().(*types.Slice)
		if !ok {
			m.abort(c, "make of %s is not modelled", t)
		}
		n := m.constIndex(c.Args[1], m.eval(fr, c.Args[1]))
		cp := n
		if len(c.Args) > 2 {
			cp = m.constIndex(c.Args[2], m.eval(fr, c.Args[2]))
		}
		if n < 0 || cp < n || cp > 1<<20 {
			m.abort(c, "make with length %d capacity %d", n, cp)
		}
		if b, ok := sl.Elem().Underlying().(*types.Basic); ok && b.Kind() == types.Uint8 {
			return []Value{Bytes{Buf: NewBuffer(cp, ZeroByte), Len: n, Cap: cp}}
		}
		out := List{}
		for i := 0; i < n; i++ {
			out.Elems = append(out.Elems, m.zero(sl.Elem()))
		}
		return []Value{out}
	case "panic":
		m.abort(c, "panic(…) is reachable")
	case "min", "max":
		var best int64
		for i, a := range c.Args {
			v, ok := m.eval(fr, a).(Int)
			if !ok {
				m.abort(c, "%s of a non-integer", name)
			}
			k, ok := v.V.Int64()
			if !ok {
				m.abort(c, "%s of a value that is not constant on this partition", name)
			}
			if i == 0 || (name == "max" && k > best) || (name == "min" && k < best) {
				best = k
			}
		}
		return []Value{ConstInt(64, true, uint64(best))}
	}
	m.abort(c, "builtin %s is not modelled", name)
	return nil
}

// BitLenConst is a helper for harnesses.
func BitLenConst(x uint64) int { return bits.Len64(x) }

func (m *Machine) callClosure(cl Closure, args []Value) []Value {
	fr := &frame{env: map[types.Object]Value{}, parent: cl.fr, ftype: cl.Lit.Type}
	i := 0
	for _, fl := range cl.Lit.Type.Params.List {
		for _, nm := range fl.Names {
			if i < len(args) {
				if o := m.Info.Defs[nm]; o != nil {
					fr.env[o] = m.coerce(args[i], o.Type())
				}
			}
			i++
		}
	}
	if cl.Lit.Type.Results != nil {
		for _, fl := range cl.Lit.Type.Results.List {
			for _, nm := range fl.Names {
				if o := m.Info.Defs[nm]; o != nil {
					fr.env[o] = m.zero(o.Type())
					fr.results = append(fr.results, o)
				}
			}
		}
	}
	c, vals := m.block(fr, cl.Lit.Body.List)
	if c == ctlReturn {
		return vals
	}
	if cl.Lit.Type.Results == nil || len(cl.Lit.Type.Results.List) == 0 {
		return nil
	}
	m.abort(cl.Lit, "function literal ends without return")
	return nil
}

// MergeInfo returns a types.Info holding the maps of several packages (AST nodes are disjoint).
func MergeInfo(infos ...*types.Info) *types.Info {
	out := &types.Info{Types: map[ast.Expr]types.TypeAndValue{}, Defs: map[*ast.Ident]types.Object{}, Uses: map[*ast.Ident]types.Object{},
		Selections: map[*ast.SelectorExpr]*types.Selection{}, Implicits: map[ast.Node]types.Object{}, Instances: map[*ast.Ident]types.Instance{}}
	for _, in := range infos {
		for k, v := range in.Types {
			out.Types[k] = v
		}
		for k, v := range in.Defs {
			out.Defs[k] = v
		}
		for k, v := range in.Uses {
			out.Uses[k] = v
		}
		for k, v := range in.Selections {
			out.Selections[k] = v
		}
		for k, v := range in.Implicits {
			out.Implicits[k] = v
		}
		for k, v := range in.Instances {
			out.Instances[k] = v
		}
	}
	return out
}

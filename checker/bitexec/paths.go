package bitexec

import (
	"fmt"
	"go/token"
	"strings"

	"csverify/bitdom"
)

// Ctx is the state of one partition run.
type Ctx struct {
	subst    bitdom.Subst
	names    []string
	Failures []string
	Checks   int
}

// Input allocates a fresh symbolic integer (one variable per bit); fixed[i] (if present) pins bit i.
func (c *Ctx) Input(name string, width int, signed bool, fixed map[int]bool) Int {
	v := bitdom.Val{Bits: make([]bitdom.Bit, width), Signed: signed}
	for i := 0; i < width; i++ {
		id := int32(len(c.names))
		c.names = append(c.names, fmt.Sprintf("%s[%d]", name, i))
		if f, ok := fixed[i]; ok {
			v.Bits[i] = bitdom.Const(f)
			continue
		}
		v.Bits[i] = c.subst.Apply(bitdom.Var(id))
	}
	return Int{v}
}

func (c *Ctx) Check(what string, ok bool, detail string) {
	c.Checks++
	if !ok {
		c.Failures = append(c.Failures, what+": "+detail)
	}
}

func (c *Ctx) name(i int32) string {
	if int(i) < len(c.names) {
		return c.names[i]
	}
	return fmt.Sprintf("x%d", i)
}

// PathResult describes a partition on which something failed.
type PathResult struct {
	Cube     string // the partition, as constraints on input bits
	Failures []string
	Abort    string
	Pos      token.Pos
}

type assumption struct {
	form bitdom.Bit
	val  bool
}

// Explore runs body on every partition. It returns the number of partitions and those that failed.
func Explore(maxPaths int, body func(c *Ctx)) (paths int, checks int, failed []PathResult, exhausted bool) {
	type job struct{ as []assumption }
	queue := []job{{}}
	for len(queue) > 0 {
		j := queue[len(queue)-1]
		queue = queue[:len(queue)-1]
		if paths >= maxPaths {
			return paths, checks, failed, true
		}
		s := bitdom.Subst{}
		feasible := true
		for _, a := range j.as {
			if !s.Assume(a.form, a.val) {
				feasible = false
				break
			}
		}
		if !feasible {
			continue
		}
		c := &Ctx{subst: s}
		var split *SplitReq
		var ab *Abort
		func() {
			defer func() {
				if r := recover(); r != nil {
					switch x := r.(type) {
					case SplitReq:
						split = &x
					case Abort:
						ab = &x
					default:
						panic(r)
					}
				}
			}()
			body(c)
		}()
		if split != nil {
			// the form is in terms of free variables of this partition
			queue = append(queue,
				job{append(append([]assumption(nil), j.as...), assumption{split.Form, false})},
				job{append(append([]assumption(nil), j.as...), assumption{split.Form, true})})
			continue
		}
		paths++
		checks += c.Checks
		if ab != nil || len(c.Failures) > 0 {
			pr := PathResult{Cube: describeCube(s, c), Failures: c.Failures}
			if ab != nil {
				pr.Abort = ab.Msg
				pr.Pos = ab.Pos
			}
			failed = append(failed, pr)
		}
	}
	return paths, checks, failed, false
}

func describeCube(s bitdom.Subst, c *Ctx) string {
	d := s.Describe(c.name)
	if d == "" {
		return "all inputs"
	}
	parts := strings.Split(d, ", ")
	if len(parts) > 12 {
		parts = append(parts[:12], fmt.Sprintf("… (%d constraints)", len(parts)))
	}
	return strings.Join(parts, ", ")
}

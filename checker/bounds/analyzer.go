package bounds

import (
	"fmt"
	"go/ast"
	"go/constant"
	"go/token"
	"go/types"
	"math/big"
	"strings"

	"csverify/lin"
)

// View gives a FuncSpec access to parameters / results / receiver fields, both
// inside the callee (where the spec is verified) and at a call site (where it
// is assumed).
type View interface {
	Param(i int) (lin.Expr, bool)
	ParamLen(i int) (lin.Expr, bool)
	Result(i int) (lin.Expr, bool)
	ResultLen(i int) (lin.Expr, bool)
	RecvField(name string) (lin.Expr, bool)      // integer field, current value
	RecvFieldLen(name string) (lin.Expr, bool)   // len of slice field
	RecvFieldEntry(name string) (lin.Expr, bool) // integer field, value at entry
	Pure(fn string, args ...lin.Expr) (lin.Expr, bool)
}

// FuncSpec is a contract. Post is proved at every success return of the callee
// and assumed (under err == nil when ErrIdx >= 0) at call sites; Pre is assumed
// at the callee's entry.
type FuncSpec struct {
	ErrIdx int
	Pre    func(v View) []lin.Fact
	Post   func(v View) []lin.Fact
	// Inv is the receiver's class invariant: assumed at entry, proved at every
	// return (error returns included) and assumed again after a call, once the
	// receiver's mutable fields have been havocked.
	Inv func(v View) []lin.Fact
}

// Range is an inclusive integer interval for pure helper functions.
type Range struct{ Lo, Hi int64 }

// Config customises one analysis run.
type Config struct {
	Info  *types.Info
	Fset  *token.FileSet
	Sizes types.Sizes
	// Specs by qualified name: "pkgpath.Func" or "pkgpath.(*T).Method" / "pkgpath.T.Method".
	Specs map[string]*FuncSpec
	// PureRanges: qualified name -> result range of a pure int function.
	PureRanges map[string]Range
	// ImmutableFields: "pkgpath.T.field" never stored outside constructors.
	ImmutableFields map[string]bool
	// RawReaders: qualified method name -> minimum length of argument 0.
	RawReaders map[string]int64
	// TaintSources: qualified function names whose result 0 is input-controlled.
	TaintSources map[string]bool
	// FieldInvs: "pkgpath.T.field" -> goals at every store to that field.
	FieldInvs map[string]FieldInv
	// IndexFilter restricts O-idx to operands of selected types.
	IndexFilter func(t types.Type) bool
}

// Ob is an obligation outcome.
type Ob struct {
	Rule   string
	Site   string // expression text
	Pos    token.Pos
	OK     bool
	Detail string
}

type atomDeps struct {
	objs   map[types.Object]bool
	fields map[string]bool // "T.field"
}

// Analyzer interprets one function.
type Analyzer struct {
	cfg      *Config
	fnName   string
	fnType   *types.Signature
	recv     *types.Var
	results  []*types.Var
	params   []*types.Var
	spec     *FuncSpec
	deps     map[lin.Atom]*atomDeps
	tainted  map[lin.Atom]bool
	record   bool
	entryLen map[types.Object]lin.Atom // ghost: len of slice param at entry
	entryFld map[string]lin.Atom       // ghost: receiver int field at entry
	entryPar map[types.Object]lin.Atom
	caseTag  map[ast.Expr]ast.Expr // case expression -> switch tag
	unsup    map[string]token.Pos
	siteSeq  int
	loopSeq  int
	loops    []*loopCtx
	progress bool
	volatile map[types.Object]bool
	assigned map[types.Object]bool // params assigned somewhere in the body
	obs      map[string]*Ob        // last outcome per site key (final pass wins; AND over disjunct visits in same pass)
	obOrder  []string
}

func typeKey(t types.Type) string {
	if p, ok := t.(*types.Pointer); ok {
		t = p.Elem()
	}
	if n, ok := t.(*types.Named); ok {
		if n.Obj().Pkg() != nil {
			return n.Obj().Pkg().Path() + "." + n.Obj().Name()
		}
		return n.Obj().Name()
	}
	return t.String()
}

// QualifiedName of a function object, e.g. "github.com/x/y.(*T).M".
func QualifiedName(f *types.Func) string {
	sig := f.Type().(*types.Signature)
	pkg := ""
	if f.Pkg() != nil {
		pkg = f.Pkg().Path()
	}
	if r := sig.Recv(); r != nil {
		t := r.Type()
		if p, ok := t.(*types.Pointer); ok {
			if n, ok := p.Elem().(*types.Named); ok {
				return pkg + ".(*" + n.Obj().Name() + ")." + f.Name()
			}
		}
		if n, ok := t.(*types.Named); ok {
			return pkg + "." + n.Obj().Name() + "." + f.Name()
		}
	}
	return pkg + "." + f.Name()
}

func (a *Analyzer) objKey(o types.Object) string {
	return fmt.Sprintf("%s@%d", o.Name(), a.cfg.Fset.Position(o.Pos()).Offset)
}

func (a *Analyzer) regAtom(at lin.Atom, objs []types.Object, fields []string) lin.Atom {
	if _, ok := a.deps[at]; !ok {
		d := &atomDeps{objs: map[types.Object]bool{}, fields: map[string]bool{}}
		for _, o := range objs {
			d.objs[o] = true
		}
		for _, f := range fields {
			d.fields[f] = true
		}
		a.deps[at] = d
	}
	return at
}

// pathKey canonicalises ident / selector chains; ok=false otherwise.
func (a *Analyzer) pathKey(e ast.Expr) (key string, objs []types.Object, fields []string, ok bool) {
	switch x := e.(type) {
	case *ast.ParenExpr:
		return a.pathKey(x.X)
	case *ast.Ident:
		o := a.cfg.Info.Uses[x]
		if o == nil {
			o = a.cfg.Info.Defs[x]
		}
		if o == nil {
			return "", nil, nil, false
		}
		if _, isVar := o.(*types.Var); !isVar {
			return "", nil, nil, false
		}
		return a.objKey(o), []types.Object{o}, nil, true
	case *ast.SelectorExpr:
		sel := a.cfg.Info.Selections[x]
		if sel == nil || sel.Kind() != types.FieldVal {
			return "", nil, nil, false
		}
		bk, bo, bf, ok := a.pathKey(x.X)
		if !ok {
			return "", nil, nil, false
		}
		fld := typeKey(sel.Recv()) + "." + x.Sel.Name
		return bk + "." + x.Sel.Name, bo, append(bf, fld), true
	case *ast.StarExpr:
		bk, bo, bf, ok := a.pathKey(x.X)
		if !ok {
			return "", nil, nil, false
		}
		return "*" + bk, bo, bf, true
	}
	return "", nil, nil, false
}

func isInteger(t types.Type) bool {
	if t == nil {
		return false
	}
	b, ok := t.Underlying().(*types.Basic)
	return ok && b.Info()&types.IsInteger != 0
}
func isUnsigned(t types.Type) bool {
	b, ok := t.Underlying().(*types.Basic)
	return ok && b.Info()&types.IsUnsigned != 0
}

func (a *Analyzer) intRange(t types.Type) (lo, hi *big.Int, ok bool) {
	b, isB := t.Underlying().(*types.Basic)
	if !isB || b.Info()&types.IsInteger == 0 {
		return nil, nil, false
	}
	bits := uint(a.cfg.Sizes.Sizeof(t) * 8)
	if b.Kind() == types.UntypedInt || bits == 0 {
		return nil, nil, false
	}
	one := big.NewInt(1)
	if b.Info()&types.IsUnsigned != 0 {
		hi = new(big.Int).Sub(new(big.Int).Lsh(one, bits), one)
		return big.NewInt(0), hi, true
	}
	hi = new(big.Int).Sub(new(big.Int).Lsh(one, bits-1), one)
	lo = new(big.Int).Neg(new(big.Int).Lsh(one, bits-1))
	return lo, hi, true
}

// fresh creates an opaque atom for an expression occurrence.
func (a *Analyzer) fresh(c *conj, e ast.Expr, what string) lin.Expr {
	at := lin.Atom(fmt.Sprintf("%s@%d", what, a.cfg.Fset.Position(e.Pos()).Offset))
	// a site re-evaluated (loop) gets its old facts dropped
	c.L.Kill(func(x lin.Atom) bool { return x == at })
	a.regAtom(at, nil, nil)
	if t := a.cfg.Info.TypeOf(e); t != nil && isInteger(t) && isUnsigned(t) {
		c.L.Add(lin.LE(lin.Const(0), lin.Var(at)))
	}
	return lin.Var(at)
}

// varAtom returns the atom of an integer variable / field path.
func (a *Analyzer) varAtom(c *conj, e ast.Expr) (lin.Expr, bool) {
	k, objs, flds, ok := a.pathKey(e)
	if !ok {
		return lin.Expr{}, false
	}
	at := a.regAtom(lin.Atom("v:"+k), objs, flds)
	if t := a.cfg.Info.TypeOf(e); t != nil && isUnsigned(t) {
		c.L.Add(lin.LE(lin.Const(0), lin.Var(at)))
	}
	return lin.Var(at), true
}

func (a *Analyzer) lenAtom(c *conj, e ast.Expr, fn string) (lin.Expr, bool) {
	k, objs, flds, ok := a.pathKey(e)
	if !ok {
		return lin.Expr{}, false
	}
	at := a.regAtom(lin.Atom(fn+"("+k+")"), objs, flds)
	c.L.Add(lin.LE(lin.Const(0), lin.Var(at)))
	if fn == "cap" {
		l := a.regAtom(lin.Atom("len("+k+")"), objs, flds)
		c.L.Add(lin.LE(lin.Const(0), lin.Var(l)))
		c.L.Add(lin.LE(lin.Var(l), lin.Var(at)))
	}
	return lin.Var(at), true
}

// lenOf linearises len(e) for slice / string valued e.
func (a *Analyzer) lenOf(c *conj, e ast.Expr) (lin.Expr, bool) {
	switch x := e.(type) {
	case *ast.ParenExpr:
		return a.lenOf(c, x.X)
	case *ast.SliceExpr:
		var lo, hi lin.Expr
		var ok bool
		if x.Low != nil {
			if lo, ok = a.linear(c, x.Low); !ok {
				return lin.Expr{}, false
			}
		} else {
			lo = lin.Const(0)
		}
		if x.High != nil {
			if hi, ok = a.linear(c, x.High); !ok {
				return lin.Expr{}, false
			}
		} else {
			if hi, ok = a.lenOf(c, x.X); !ok {
				return lin.Expr{}, false
			}
		}
		return hi.Sub(lo), true
	case *ast.BasicLit:
		if v := a.cfg.Info.Types[e].Value; v != nil && v.Kind() == constant.String {
			return lin.Const(int64(len(constant.StringVal(v)))), true
		}
	case *ast.CallExpr:
		// conversions []byte(s) / string(b) keep the length
		if tv, ok := a.cfg.Info.Types[x.Fun]; ok && tv.IsType() && len(x.Args) == 1 {
			at := a.cfg.Info.TypeOf(x.Args[0])
			if at != nil {
				switch u := at.Underlying().(type) {
				case *types.Slice:
					_ = u
					return a.lenOf(c, x.Args[0])
				case *types.Basic:
					if u.Info()&types.IsString != 0 {
						return a.lenOf(c, x.Args[0])
					}
				}
			}
		}
	}
	return a.lenAtom(c, e, "len")
}

func bigOf(v constant.Value) (*big.Int, bool) {
	if v == nil {
		return nil, false
	}
	v = constant.ToInt(v)
	if v.Kind() != constant.Int {
		return nil, false
	}
	if i, ok := constant.Int64Val(v); ok {
		return big.NewInt(i), true
	}
	b, ok := new(big.Int).SetString(v.ExactString(), 10)
	return b, ok
}

// linear turns an integer expression into a linear form; opaque sub-terms
// become fresh atoms. ok=false only for non-integer expressions.
func (a *Analyzer) linear(c *conj, e ast.Expr) (lin.Expr, bool) {
	if tv, ok := a.cfg.Info.Types[e]; ok && tv.Value != nil {
		if b, ok := bigOf(tv.Value); ok {
			return lin.ConstBig(b), true
		}
	}
	t := a.cfg.Info.TypeOf(e)
	if t == nil || !isInteger(t) {
		return lin.Expr{}, false
	}
	switch x := e.(type) {
	case *ast.ParenExpr:
		return a.linear(c, x.X)
	case *ast.Ident, *ast.SelectorExpr, *ast.StarExpr:
		if v, ok := a.varAtom(c, e); ok {
			return v, true
		}
	case *ast.UnaryExpr:
		if x.Op == token.SUB && !isUnsigned(t) {
			if v, ok := a.linear(c, x.X); ok {
				return v.Neg(), true
			}
		}
		if x.Op == token.ADD {
			return a.linear(c, x.X)
		}
	case *ast.BinaryExpr:
		l, lok := a.linear(c, x.X)
		r, rok := a.linear(c, x.Y)
		if lok && rok {
			switch x.Op {
			case token.ADD:
				return l.Add(r), true
			case token.SUB:
				if !isUnsigned(t) || c.L.Entails(lin.LE(r, l)) {
					return l.Sub(r), true
				}
			case token.MUL:
				if l.IsConst() {
					return r.Scale(l.C), true
				}
				if r.IsConst() {
					return l.Scale(r.C), true
				}
			case token.QUO:
				if r.IsConst() && r.C.Sign() > 0 && r.C.IsInt64() && c.L.Entails(lin.LE(lin.Const(0), l)) {
					q := a.fresh(c, e, "div")
					// r*q ≤ l ≤ r*q + r - 1
					c.L.Add(lin.LE(q.Scale(r.C), l))
					c.L.Add(lin.LE(l, q.Scale(r.C).AddConst(r.C.Int64()-1)))
					a.taintFrom(q, l)
					return q, true
				}
			case token.REM:
				if r.IsConst() && r.C.Sign() > 0 && r.C.IsInt64() && c.L.Entails(lin.LE(lin.Const(0), l)) {
					q := a.fresh(c, e, "rem")
					c.L.Add(lin.LE(lin.Const(0), q))
					c.L.Add(lin.LE(q, lin.Const(r.C.Int64()-1)))
					return q, true
				}
			case token.AND:
				// x & mask with a non-negative constant mask is within [0, mask]
				for _, side := range []lin.Expr{l, r} {
					if side.IsConst() && side.C.Sign() >= 0 {
						q := a.fresh(c, e, "and")
						c.L.Add(lin.LE(lin.Const(0), q))
						c.L.Add(lin.LE(q, lin.ConstBig(side.C)))
						return q, true
					}
				}
			case token.SHR:
				if r.IsConst() && r.C.Sign() >= 0 && r.C.IsInt64() && r.C.Int64() < 63 && c.L.Entails(lin.LE(lin.Const(0), l)) {
					k := new(big.Int).Lsh(big.NewInt(1), uint(r.C.Int64()))
					q := a.fresh(c, e, "shr")
					c.L.Add(lin.LE(q.Scale(k), l))
					c.L.Add(lin.LE(l, q.Scale(k).Add(lin.ConstBig(new(big.Int).Sub(k, big.NewInt(1))))))
					a.taintFrom(q, l)
					return q, true
				}
			}
		}
	case *ast.CallExpr:
		if v, ok := a.linearCall(c, x); ok {
			return v, true
		}
	}
	return a.fresh(c, e, "opaque"), true
}

func (a *Analyzer) taintFrom(dst lin.Expr, src lin.Expr) {
	for at := range src.Coef {
		if a.tainted[at] {
			for d := range dst.Coef {
				a.tainted[d] = true
			}
			return
		}
	}
}

func (a *Analyzer) calleeOf(call *ast.CallExpr) *types.Func {
	var id *ast.Ident
	switch f := call.Fun.(type) {
	case *ast.Ident:
		id = f
	case *ast.SelectorExpr:
		id = f.Sel
	case *ast.IndexExpr:
		if i, ok := f.X.(*ast.Ident); ok {
			id = i
		}
		if s, ok := f.X.(*ast.SelectorExpr); ok {
			id = s.Sel
		}
	}
	if id == nil {
		return nil
	}
	if f, ok := a.cfg.Info.Uses[id].(*types.Func); ok {
		return f
	}
	return nil
}

func (a *Analyzer) linearCall(c *conj, call *ast.CallExpr) (lin.Expr, bool) {
	// builtin len / cap
	if id, ok := call.Fun.(*ast.Ident); ok {
		if b, ok := a.cfg.Info.Uses[id].(*types.Builtin); ok && len(call.Args) == 1 {
			switch b.Name() {
			case "len":
				return a.lenOf(c, call.Args[0])
			case "cap":
				return a.lenAtom(c, call.Args[0], "cap")
			}
		}
		if b, ok := a.cfg.Info.Uses[id].(*types.Builtin); ok && (b.Name() == "min" || b.Name() == "max") && len(call.Args) >= 1 {
			q := a.fresh(c, call, b.Name())
			for _, arg := range call.Args {
				if v, ok := a.linear(c, arg); ok {
					if b.Name() == "min" {
						c.L.Add(lin.LE(q, v))
					} else {
						c.L.Add(lin.LE(v, q))
					}
				}
			}
			return q, true
		}
	}
	// conversion
	if tv, ok := a.cfg.Info.Types[call.Fun]; ok && tv.IsType() && len(call.Args) == 1 {
		src := a.cfg.Info.TypeOf(call.Args[0])
		if src != nil && isInteger(src) {
			v, ok := a.linear(c, call.Args[0])
			if !ok {
				return lin.Expr{}, false
			}
			lo, hi, ok2 := a.intRange(tv.Type)
			if ok2 {
				slo, shi, ok3 := a.intRange(src)
				needLo := !ok3 || slo.Cmp(lo) < 0
				needHi := !ok3 || shi.Cmp(hi) > 0
				if (!needLo || c.L.Entails(lin.LE(lin.ConstBig(lo), v))) && (!needHi || c.L.Entails(lin.LE(v, lin.ConstBig(hi)))) {
					return v, true
				}
			}
			q := a.fresh(c, call, "conv")
			if ok2 {
				c.L.Add(lin.LE(lin.ConstBig(lo), q))
				c.L.Add(lin.LE(q, lin.ConstBig(hi)))
			}
			a.taintFrom(q, v)
			return q, true
		}
		return lin.Expr{}, false
	}
	// pure helper with a known range: canonical atom per argument value
	if f := a.calleeOf(call); f != nil {
		qn := QualifiedName(f)
		if r, ok := a.cfg.PureRanges[qn]; ok {
			return a.pureAtom(c, qn, call.Args, r), true
		}
	}
	return lin.Expr{}, false
}

// pureAtom gives equal atoms to equal (pure-function, argument) pairs.
func (a *Analyzer) pureAtom(c *conj, qn string, args []ast.Expr, r Range) lin.Expr {
	var keys []string
	var objs []types.Object
	var flds []string
	for _, arg := range args {
		if v, ok := a.linear(c, arg); ok {
			keys = append(keys, v.String())
			for at := range v.Coef {
				if d := a.deps[at]; d != nil {
					for o := range d.objs {
						objs = append(objs, o)
					}
					for f := range d.fields {
						flds = append(flds, f)
					}
				}
			}
		} else {
			keys = append(keys, fmt.Sprintf("?%d", a.cfg.Fset.Position(arg.Pos()).Offset))
		}
	}
	short := qn[strings.LastIndex(qn, ".")+1:]
	at := a.regAtom(lin.Atom(short+"("+strings.Join(keys, ",")+")"), objs, flds)
	c.L.Add(lin.LE(lin.Const(r.Lo), lin.Var(at)))
	c.L.Add(lin.LE(lin.Var(at), lin.Const(r.Hi)))
	return lin.Var(at)
}

// PureAtomFor is used by specs (View.Pure) to name the same atom from linear args.
func (a *Analyzer) pureAtomLin(c *conj, fn string, args []lin.Expr) (lin.Expr, bool) {
	var qn string
	var r Range
	found := false
	for k, v := range a.cfg.PureRanges {
		if strings.HasSuffix(k, "."+fn) {
			qn, r, found = k, v, true
		}
	}
	if !found {
		return lin.Expr{}, false
	}
	var keys []string
	var objs []types.Object
	var flds []string
	for _, v := range args {
		keys = append(keys, v.String())
		for at := range v.Coef {
			if d := a.deps[at]; d != nil {
				for o := range d.objs {
					objs = append(objs, o)
				}
				for f := range d.fields {
					flds = append(flds, f)
				}
			}
		}
	}
	short := qn[strings.LastIndex(qn, ".")+1:]
	at := a.regAtom(lin.Atom(short+"("+strings.Join(keys, ",")+")"), objs, flds)
	c.L.Add(lin.LE(lin.Const(r.Lo), lin.Var(at)))
	c.L.Add(lin.LE(lin.Var(at), lin.Const(r.Hi)))
	return lin.Var(at), true
}

// ---------------------------------------------------------------------------
// kills

func (a *Analyzer) killObj(c *conj, o types.Object) {
	c.L.Kill(func(at lin.Atom) bool {
		d := a.deps[at]
		return d != nil && d.objs[o]
	})
	delete(c.cond, o)
	delete(c.nonNil, o)
	delete(c.isNil, o)
}

func (a *Analyzer) killField(c *conj, fld string) {
	c.L.Kill(func(at lin.Atom) bool {
		d := a.deps[at]
		return d != nil && d.fields[fld]
	})
}

// killMutableFieldsOf havocs all field atoms rooted at base object o (a callee
// with access to o may have changed them), except immutable fields.
func (a *Analyzer) killMutableFieldsOf(c *conj, o types.Object) {
	c.L.Kill(func(at lin.Atom) bool {
		d := a.deps[at]
		if d == nil || !d.objs[o] || len(d.fields) == 0 {
			return false
		}
		for f := range d.fields {
			if !a.cfg.ImmutableFields[f] {
				return true
			}
		}
		return false
	})
}

package bounds

import (
	"fmt"
	"go/ast"
	"go/token"
	"go/types"

	"csverify/lin"
)

func (a *Analyzer) objOf(id *ast.Ident) types.Object {
	if o := a.cfg.Info.Defs[id]; o != nil {
		return o
	}
	return a.cfg.Info.Uses[id]
}

// killTarget havocs the atoms depending on an assignment target.
func (a *Analyzer) killTarget(c *conj, lhs ast.Expr) {
	switch x := lhs.(type) {
	case *ast.ParenExpr:
		a.killTarget(c, x.X)
	case *ast.Ident:
		if x.Name == "_" {
			return
		}
		if o := a.objOf(x); o != nil {
			a.killObj(c, o)
		}
	case *ast.SelectorExpr:
		if sel := a.cfg.Info.Selections[x]; sel != nil && sel.Kind() == types.FieldVal {
			a.killField(c, typeKey(sel.Recv())+"."+x.Sel.Name)
		}
	case *ast.StarExpr:
		// store through a pointer: havoc what the pointer's object reaches
		if id, ok := x.X.(*ast.Ident); ok {
			if o := a.objOf(id); o != nil {
				a.killObj(c, o)
			}
		}
	case *ast.IndexExpr:
		// element store: lengths unchanged, element values are never tracked
	}
}

// assign handles =, := and tuple forms.
func (a *Analyzer) assign(st *state, lhs, rhs []ast.Expr, tok token.Token, site ast.Node) *state {
	if tok != token.ASSIGN && tok != token.DEFINE {
		if len(lhs) == 1 && len(rhs) == 1 {
			return a.opAssign(st, lhs[0], rhs[0], tok, site, false)
		}
		a.unsupported(site, "assignment operator")
		return st
	}
	for _, r := range rhs {
		a.checkExpr(st, r)
	}
	for _, l := range lhs {
		// index expressions on the left are evaluated too
		if ix, ok := l.(*ast.IndexExpr); ok {
			a.checkExpr(st, ix)
		} else if se, ok := l.(*ast.SelectorExpr); ok {
			a.checkExpr(st, se.X)
		}
	}
	// tuple from one call
	if len(rhs) == 1 && len(lhs) > 1 {
		if call, ok := rhs[0].(*ast.CallExpr); ok {
			return a.assignCall(st, lhs, call, site)
		}
		// v, ok := x.(T) / m[k] / <-ch
		for _, c := range st.d {
			for _, l := range lhs {
				a.killTarget(c, l)
			}
		}
		return st
	}
	if len(lhs) != len(rhs) {
		a.unsupported(site, "assignment shape")
		return st
	}
	if len(lhs) == 1 {
		if call, ok := rhs[0].(*ast.CallExpr); ok {
			if f := a.calleeOf(call); f != nil {
				if _, has := a.cfg.Specs[QualifiedName(f)]; has {
					return a.assignCall(st, lhs, call, site)
				}
			}
		}
	}
	// field invariant obligations use the pre-state
	for i, l := range lhs {
		if se, ok := l.(*ast.SelectorExpr); ok {
			r := rhs[i]
			a.invStore(st, se, func(c *conj) (lin.Expr, bool) { return a.linear(c, r) }, site)
		}
	}
	for _, c := range st.d {
		// evaluate all right-hand sides in the pre-state (parallel assignment)
		type val struct {
			lin  lin.Expr
			isI  bool
			ln   lin.Expr
			hasL bool
			nilE int // 1 nil, 2 non-nil, 0 unknown
		}
		vals := make([]val, len(rhs))
		for i, r := range rhs {
			t := a.cfg.Info.TypeOf(r)
			if t != nil && isInteger(t) {
				vals[i].lin, vals[i].isI = a.linear(c, r)
			} else if t != nil {
				switch u := t.Underlying().(type) {
				case *types.Slice:
					vals[i].ln, vals[i].hasL = a.sliceLenOfValue(c, r)
				case *types.Basic:
					if u.Info()&types.IsString != 0 {
						vals[i].ln, vals[i].hasL = a.sliceLenOfValue(c, r)
					}
					if u.Kind() == types.UntypedNil {
						vals[i].nilE = 1
					}
				}
			}
			if lt := a.cfg.Info.TypeOf(lhs[i]); lt != nil && isErrorType(lt) {
				vals[i].nilE = a.nilness(c, r)
			}
		}
		// old values of the targets become ghosts, so that x = f(x) keeps its consequences
		var ghosts []lin.Atom
		rename := func(at lin.Atom) {
			a.siteSeq++
			g := a.regAtom(lin.Atom(fmt.Sprintf("old%d:%s", a.siteSeq, at)), nil, nil)
			if a.tainted[at] {
				a.tainted[g] = true
			}
			ghosts = append(ghosts, g)
			a.rewrite(c, at, lin.Var(g))
			for j := range vals {
				if vals[j].isI {
					vals[j].lin = vals[j].lin.Subst(at, lin.Var(g))
				}
				if vals[j].hasL {
					vals[j].ln = vals[j].ln.Subst(at, lin.Var(g))
				}
			}
		}
		for i, l := range lhs {
			if vals[i].isI {
				if tgt, ok := a.targetAtom(c, l); ok {
					rename(tgt)
				}
			}
			if vals[i].hasL {
				if k, objs, flds, ok := a.pathKey(l); ok {
					rename(a.regAtom(lin.Atom("len("+k+")"), objs, flds))
				}
			}
		}
		for i, l := range lhs {
			v := vals[i]
			a.killTarget(c, l)
			if v.isI {
				if tgt, ok := a.targetAtom(c, l); ok && !v.lin.Has(tgt) {
					c.L.AddEq(lin.Var(tgt), v.lin)
					a.taintFrom(lin.Var(tgt), v.lin)
					if isUnsigned(a.cfg.Info.TypeOf(rhs[i])) {
						c.L.Add(lin.LE(lin.Const(0), lin.Var(tgt)))
					}
				}
			}
			if v.hasL {
				if la, ok := a.lenAtom(c, l, "len"); ok {
					c.L.AddEq(la, v.ln)
				}
			}
			if id, ok := l.(*ast.Ident); ok && id.Name != "_" {
				if o := a.objOf(id); o != nil && isErrorType(o.Type()) {
					switch v.nilE {
					case 1:
						c.isNil[o] = true
					case 2:
						c.nonNil[o] = true
					}
				}
			}
		}
		if len(ghosts) > 0 {
			gs := map[lin.Atom]bool{}
			for _, g := range ghosts {
				gs[g] = true
			}
			pred := func(at lin.Atom) bool { return gs[at] }
			c.L.Kill(pred)
			a.dropCond(c, pred)
		}
	}
	for _, r := range rhs {
		a.effects(st, r)
	}
	return st
}

// sliceLenOfValue: length of a slice-valued expression when known.
func (a *Analyzer) sliceLenOfValue(c *conj, e ast.Expr) (lin.Expr, bool) {
	switch x := e.(type) {
	case *ast.ParenExpr:
		return a.sliceLenOfValue(c, x.X)
	case *ast.SliceExpr:
		return a.lenOf(c, e)
	case *ast.Ident:
		if x.Name == "nil" {
			return lin.Const(0), true
		}
		return a.lenOf(c, e)
	case *ast.SelectorExpr:
		return a.lenOf(c, e)
	case *ast.CallExpr:
		if id, ok := x.Fun.(*ast.Ident); ok {
			if b, ok := a.cfg.Info.Uses[id].(*types.Builtin); ok {
				switch b.Name() {
				case "make":
					if len(x.Args) >= 2 {
						return a.linear(c, x.Args[1])
					}
				case "append":
					// len grows by the number of appended elements (non-variadic form)
					if x.Ellipsis == token.NoPos {
						if l, ok := a.sliceLenOfValue(c, x.Args[0]); ok {
							return l.AddConst(int64(len(x.Args) - 1)), true
						}
					}
				}
			}
		}
		if tv, ok := a.cfg.Info.Types[x.Fun]; ok && tv.IsType() && len(x.Args) == 1 {
			return a.lenOf(c, e)
		}
	case *ast.BasicLit:
		return a.lenOf(c, e)
	}
	return lin.Expr{}, false
}

func (a *Analyzer) targetAtom(c *conj, l ast.Expr) (lin.Atom, bool) {
	if id, ok := l.(*ast.Ident); ok {
		if id.Name == "_" {
			return "", false
		}
		if o := a.objOf(id); o != nil && a.volatile[o] {
			return "", false
		}
	}
	t := a.cfg.Info.TypeOf(l)
	if id, ok := l.(*ast.Ident); ok && t == nil {
		if o := a.objOf(id); o != nil {
			t = o.Type()
		}
	}
	if t == nil || !isInteger(t) {
		return "", false
	}
	k, objs, flds, ok := a.pathKey(l)
	if !ok {
		return "", false
	}
	return a.regAtom(lin.Atom("v:"+k), objs, flds), true
}

// rewrite substitutes atom := expr in linear and conditional facts.
func (a *Analyzer) rewrite(c *conj, at lin.Atom, r lin.Expr) {
	c.L.Subst(at, r)
	for o, fs := range c.cond {
		for i, f := range fs {
			fs[i] = lin.Fact{E: f.E.Subst(at, r)}
		}
		c.cond[o] = fs
	}
}

// killDependents havocs atoms that depend on the target other than tgt itself
// (e.g. len(x.f) when x is reassigned is not affected by an int update; but
// pure-function atoms over the variable are).
func (a *Analyzer) killDependents(c *conj, l ast.Expr, tgt lin.Atom) {
	_, objs, flds, ok := a.pathKey(l)
	if !ok {
		return
	}
	pred := func(at lin.Atom) bool {
		if at == tgt {
			return false
		}
		d := a.deps[at]
		if d == nil {
			return false
		}
		if len(flds) > 0 {
			return d.fields[flds[len(flds)-1]] && sameKeySuffix(at, tgt)
		}
		for _, o := range objs {
			if d.objs[o] && len(d.fields) == 0 {
				return true
			}
		}
		return false
	}
	c.L.Kill(pred)
	a.dropCond(c, pred)
}

func sameKeySuffix(at, tgt lin.Atom) bool {
	// atoms mentioning the same field path inside another atom, e.g. F(v:d.offset)
	k := string(tgt)
	if len(k) > 2 {
		k = k[2:]
	}
	return containsStr(string(at), k)
}

func containsStr(s, sub string) bool {
	return len(sub) > 0 && len(s) >= len(sub) && (indexOf(s, sub) >= 0)
}
func indexOf(s, sub string) int {
	for i := 0; i+len(sub) <= len(s); i++ {
		if s[i:i+len(sub)] == sub {
			return i
		}
	}
	return -1
}

func (a *Analyzer) dropCond(c *conj, pred func(lin.Atom) bool) {
	for o, fs := range c.cond {
		out := fs[:0]
		for _, f := range fs {
			hit := false
			for at := range f.E.Coef {
				if pred(at) {
					hit = true
				}
			}
			if !hit {
				out = append(out, f)
			}
		}
		c.cond[o] = out
	}
}

// opAssign handles x op= e and x++ / x--.
func (a *Analyzer) opAssign(st *state, l, r ast.Expr, tok token.Token, site ast.Node, incdec bool) *state {
	if !incdec {
		a.checkExpr(st, r)
	}
	if se, ok := l.(*ast.SelectorExpr); ok {
		a.checkExpr(st, se.X)
	}
	t := a.cfg.Info.TypeOf(l)
	if t == nil || !isInteger(t) || (tok != token.ADD_ASSIGN && tok != token.SUB_ASSIGN) {
		for _, c := range st.d {
			a.killTarget(c, l)
		}
		return st
	}
	delta := func(c *conj) (lin.Expr, bool) {
		if incdec {
			return lin.Const(1), true
		}
		return a.linear(c, r)
	}
	if se, ok := l.(*ast.SelectorExpr); ok {
		a.invStore(st, se, func(c *conj) (lin.Expr, bool) {
			d, ok := delta(c)
			if !ok {
				return lin.Expr{}, false
			}
			cur, ok2 := a.linear(c, l)
			if !ok2 {
				return lin.Expr{}, false
			}
			if tok == token.SUB_ASSIGN {
				return cur.Sub(d), true
			}
			return cur.Add(d), true
		}, site)
	}
	for _, c := range st.d {
		tgt, ok := a.targetAtom(c, l)
		d, dok := delta(c)
		if !ok || !dok || d.Has(tgt) {
			a.killTarget(c, l)
			continue
		}
		if isUnsigned(t) && tok == token.SUB_ASSIGN && !c.L.Entails(lin.LE(d, lin.Var(tgt))) {
			a.killTarget(c, l)
			c.L.Add(lin.LE(lin.Const(0), lin.Var(tgt)))
			continue
		}
		if tok == token.SUB_ASSIGN {
			d = d.Neg()
		}
		// old = new - d
		a.rewrite(c, tgt, lin.Var(tgt).Sub(d))
		a.killDependents(c, l, tgt)
		if a.anyTainted(d) {
			a.tainted[tgt] = true
		}
	}
	return st
}

func (a *Analyzer) anyTainted(e lin.Expr) bool {
	for at := range e.Coef {
		if a.tainted[at] {
			return true
		}
	}
	return false
}

// nilness of an error-valued expression: 1 nil, 2 non-nil, 0 unknown.
func (a *Analyzer) nilness(c *conj, e ast.Expr) int {
	switch x := e.(type) {
	case *ast.ParenExpr:
		return a.nilness(c, x.X)
	case *ast.Ident:
		if x.Name == "nil" {
			return 1
		}
		o := a.objOf(x)
		if o == nil {
			return 0
		}
		if v, ok := o.(*types.Var); ok {
			if c.isNil[o] {
				return 1
			}
			if c.nonNil[o] {
				return 2
			}
			// package-level error values (ErrX) are non-nil by convention of errors.New
			if v.Parent() == v.Pkg().Scope() {
				return 2
			}
		}
	case *ast.SelectorExpr:
		if o, ok := a.cfg.Info.Uses[x.Sel].(*types.Var); ok && o.Pkg() != nil && o.Parent() == o.Pkg().Scope() {
			return 2 // io.ErrUnexpectedEOF, csproto.ErrValueOverflow …
		}
	case *ast.CallExpr:
		if f := a.calleeOf(x); f != nil {
			switch QualifiedName(f) {
			case "fmt.Errorf", "errors.New":
				return 2
			}
		}
	case *ast.UnaryExpr:
		if x.Op == token.AND {
			return 2
		}
	}
	return 0
}

// effects applies the side effects of calls inside e on the state.
func (a *Analyzer) effects(st *state, e ast.Expr) {
	ast.Inspect(e, func(n ast.Node) bool {
		switch x := n.(type) {
		case *ast.FuncLit:
			return false
		case *ast.CallExpr:
			a.callEffects(st, x)
		}
		return true
	})
}

func (a *Analyzer) callEffects(st *state, call *ast.CallExpr) {
	if tv, ok := a.cfg.Info.Types[call.Fun]; ok && tv.IsType() {
		return
	}
	if id, ok := call.Fun.(*ast.Ident); ok {
		if _, isB := a.cfg.Info.Uses[id].(*types.Builtin); isB {
			return
		}
	}
	var roots []types.Object
	if se, ok := call.Fun.(*ast.SelectorExpr); ok {
		if sel := a.cfg.Info.Selections[se]; sel != nil {
			if _, objs, _, ok := a.pathKey(se.X); ok {
				roots = append(roots, objs...)
			}
		}
	}
	for _, arg := range call.Args {
		if u, ok := arg.(*ast.UnaryExpr); ok && u.Op == token.AND {
			if _, objs, _, ok := a.pathKey(u.X); ok {
				for _, c := range st.d {
					for _, o := range objs {
						a.killObj(c, o)
					}
				}
			}
			continue
		}
		t := a.cfg.Info.TypeOf(arg)
		if t == nil {
			continue
		}
		if _, isPtr := t.Underlying().(*types.Pointer); isPtr {
			if _, objs, _, ok := a.pathKey(arg); ok {
				roots = append(roots, objs...)
			}
		}
	}
	for _, c := range st.d {
		for _, o := range roots {
			a.killMutableFieldsOf(c, o)
			pred := func(at lin.Atom) bool {
				d := a.deps[at]
				if d == nil || !d.objs[o] || len(d.fields) == 0 {
					return false
				}
				for f := range d.fields {
					if !a.cfg.ImmutableFields[f] {
						return true
					}
				}
				return false
			}
			a.dropCond(c, pred)
		}
	}
	// the callee's receiver invariant holds again after the call
	if f := a.calleeOf(call); f != nil {
		if spec := a.cfg.Specs[QualifiedName(f)]; spec != nil && spec.Inv != nil {
			if se, ok := call.Fun.(*ast.SelectorExpr); ok {
				for _, c := range st.d {
					v := &siteView{a: a, c: c, call: call, recv: se.X}
					for _, fct := range spec.Inv(v) {
						c.L.Add(fct)
					}
				}
			}
		}
	}
}

package bounds

import (
	"fmt"
	"go/ast"
	"go/token"
	"go/types"

	"csverify/lin"
)

// ---------------------------------------------------------------------------
// views

// calleeView: inside the analysed function (entry for Pre/Inv, a return for Post/Inv).
type calleeView struct {
	a       *Analyzer
	c       *conj
	results []ast.Expr // return operands (nil at entry)
}

func (v *calleeView) Param(i int) (lin.Expr, bool) {
	if i >= len(v.a.params) {
		return lin.Expr{}, false
	}
	p := v.a.params[i]
	if _, ok := v.a.entryPar[p]; ok && !v.a.assigned[p] {
		return lin.Var(v.a.regAtom(lin.Atom("v:"+v.a.objKey(p)), []types.Object{p}, nil)), true
	}
	if g, ok := v.a.entryPar[p]; ok {
		return lin.Var(g), true
	}
	return lin.Expr{}, false
}
func (v *calleeView) ParamLen(i int) (lin.Expr, bool) {
	if i >= len(v.a.params) {
		return lin.Expr{}, false
	}
	if g, ok := v.a.entryLen[v.a.params[i]]; ok {
		return lin.Var(g), true
	}
	return lin.Expr{}, false
}
func (v *calleeView) Result(i int) (lin.Expr, bool) {
	if v.results == nil || i >= len(v.results) {
		// bare return with named results
		if v.results == nil && i < len(v.a.results) && v.a.results[i].Name() != "" {
			r := v.a.results[i]
			if isInteger(r.Type()) {
				return lin.Var(v.a.regAtom(lin.Atom("v:"+v.a.objKey(r)), []types.Object{r}, nil)), true
			}
		}
		return lin.Expr{}, false
	}
	return v.a.linear(v.c, v.results[i])
}
func (v *calleeView) ResultLen(i int) (lin.Expr, bool) {
	if v.results == nil || i >= len(v.results) {
		return lin.Expr{}, false
	}
	return v.a.sliceLenOfValue(v.c, v.results[i])
}
func (v *calleeView) recvKey() (string, bool) {
	if v.a.recv == nil || v.a.recv.Name() == "" || v.a.recv.Name() == "_" {
		return "", false
	}
	return v.a.objKey(v.a.recv), true
}
func (v *calleeView) RecvField(name string) (lin.Expr, bool) {
	k, ok := v.recvKey()
	if !ok {
		return lin.Expr{}, false
	}
	fk := typeKey(v.a.recv.Type()) + "." + name
	return lin.Var(v.a.regAtom(lin.Atom("v:"+k+"."+name), []types.Object{v.a.recv}, []string{fk})), true
}
func (v *calleeView) RecvFieldLen(name string) (lin.Expr, bool) {
	k, ok := v.recvKey()
	if !ok {
		return lin.Expr{}, false
	}
	fk := typeKey(v.a.recv.Type()) + "." + name
	at := v.a.regAtom(lin.Atom("len("+k+"."+name+")"), []types.Object{v.a.recv}, []string{fk})
	v.c.L.Add(lin.LE(lin.Const(0), lin.Var(at)))
	return lin.Var(at), true
}
func (v *calleeView) RecvFieldEntry(name string) (lin.Expr, bool) {
	if g, ok := v.a.entryFld[name]; ok {
		return lin.Var(g), true
	}
	return lin.Expr{}, false
}
func (v *calleeView) Pure(fn string, args ...lin.Expr) (lin.Expr, bool) {
	return v.a.pureAtomLin(v.c, fn, args)
}

// siteView: at a call site; results are bound to the assignment targets.
type siteView struct {
	a       *Analyzer
	c       *conj
	call    *ast.CallExpr
	recv    ast.Expr
	argLin  []lin.Expr // evaluated in the pre-state
	argOK   []bool
	argLen  []lin.Expr
	argLOK  []bool
	res     []lin.Expr
	resOK   []bool
	resLen  []lin.Expr
	resLOK  []bool
	entryF  map[string]lin.Expr
	prePure bool
}

func (v *siteView) Param(i int) (lin.Expr, bool) {
	if i < len(v.argLin) && v.argOK[i] {
		return v.argLin[i], true
	}
	return lin.Expr{}, false
}
func (v *siteView) ParamLen(i int) (lin.Expr, bool) {
	if i < len(v.argLen) && v.argLOK[i] {
		return v.argLen[i], true
	}
	return lin.Expr{}, false
}
func (v *siteView) Result(i int) (lin.Expr, bool) {
	if i < len(v.res) && v.resOK[i] {
		return v.res[i], true
	}
	return lin.Expr{}, false
}
func (v *siteView) ResultLen(i int) (lin.Expr, bool) {
	if i < len(v.resLen) && v.resLOK[i] {
		return v.resLen[i], true
	}
	return lin.Expr{}, false
}
func (v *siteView) RecvField(name string) (lin.Expr, bool) {
	if v.recv == nil {
		return lin.Expr{}, false
	}
	k, objs, flds, ok := v.a.pathKey(v.recv)
	if !ok {
		return lin.Expr{}, false
	}
	fk := typeKey(v.a.cfg.Info.TypeOf(v.recv)) + "." + name
	return lin.Var(v.a.regAtom(lin.Atom("v:"+k+"."+name), objs, append(append([]string(nil), flds...), fk))), true
}
func (v *siteView) RecvFieldLen(name string) (lin.Expr, bool) {
	if v.recv == nil {
		return lin.Expr{}, false
	}
	k, objs, flds, ok := v.a.pathKey(v.recv)
	if !ok {
		return lin.Expr{}, false
	}
	fk := typeKey(v.a.cfg.Info.TypeOf(v.recv)) + "." + name
	at := v.a.regAtom(lin.Atom("len("+k+"."+name+")"), objs, append(append([]string(nil), flds...), fk))
	v.c.L.Add(lin.LE(lin.Const(0), lin.Var(at)))
	return lin.Var(at), true
}
func (v *siteView) RecvFieldEntry(name string) (lin.Expr, bool) {
	if e, ok := v.entryF[name]; ok {
		return e, true
	}
	return lin.Expr{}, false
}
func (v *siteView) Pure(fn string, args ...lin.Expr) (lin.Expr, bool) {
	return v.a.pureAtomLin(v.c, fn, args)
}

// assignCall handles lhs... = f(args) for spec'd and unknown callees.
func (a *Analyzer) assignCall(st *state, lhs []ast.Expr, call *ast.CallExpr, site ast.Node) *state {
	var spec *FuncSpec
	qn := ""
	if f := a.calleeOf(call); f != nil {
		qn = QualifiedName(f)
		spec = a.cfg.Specs[qn]
	}
	var recv ast.Expr
	if se, ok := call.Fun.(*ast.SelectorExpr); ok {
		if sel := a.cfg.Info.Selections[se]; sel != nil {
			recv = se.X
		}
	}
	views := map[*conj]*siteView{}
	for _, c := range st.d {
		v := &siteView{a: a, c: c, call: call, recv: recv, entryF: map[string]lin.Expr{}}
		views[c] = v
		var recvObjs []types.Object
		if recv != nil {
			_, recvObjs, _, _ = a.pathKey(recv)
		}
		stale := func(e lin.Expr) bool {
			for at := range e.Coef {
				d := a.deps[at]
				if d == nil || len(d.fields) == 0 {
					continue
				}
				for _, o := range recvObjs {
					if d.objs[o] {
						for f := range d.fields {
							if !a.cfg.ImmutableFields[f] {
								return true
							}
						}
					}
				}
			}
			return false
		}
		// arguments in the pre-state
		for _, arg := range call.Args {
			t := a.cfg.Info.TypeOf(arg)
			if t != nil && isInteger(t) {
				e, ok := a.linear(c, arg)
				v.argLin, v.argOK = append(v.argLin, e), append(v.argOK, ok && !stale(e))
			} else {
				v.argLin, v.argOK = append(v.argLin, lin.Expr{}), append(v.argOK, false)
			}
			ok := false
			var e lin.Expr
			if t != nil {
				switch u := t.Underlying().(type) {
				case *types.Slice:
					e, ok = a.lenOf(c, arg)
				case *types.Basic:
					if u.Info()&types.IsString != 0 {
						e, ok = a.lenOf(c, arg)
					}
				}
			}
			v.argLen, v.argLOK = append(v.argLen, e), append(v.argLOK, ok && !stale(e))
		}
		// receiver int fields before the call (ghost copies survive the havoc)
		if recv != nil && spec != nil {
			if stt := structOf(a.cfg.Info.TypeOf(recv)); stt != nil {
				for i := 0; i < stt.NumFields(); i++ {
					f := stt.Field(i)
					if isInteger(f.Type()) {
						if cur, ok := v.RecvField(f.Name()); ok {
							a.siteSeq++
							g := a.regAtom(lin.Atom(fmt.Sprintf("pre%d:%s", a.siteSeq, f.Name())), nil, nil)
							c.L.AddEq(lin.Var(g), cur)
							v.entryF[f.Name()] = lin.Var(g)
						}
					}
				}
			}
		}
	}
	// side effects of the call (havoc receiver / pointer args, re-assume invariant)
	a.callEffects(st, call)
	for _, c := range st.d {
		v := views[c]
		// bind results
		var errObj types.Object
		for i, l := range lhs {
			a.killTarget(c, l)
			var re, rl lin.Expr
			rok, lok := false, false
			if id, ok := l.(*ast.Ident); ok && id.Name != "_" {
				o := a.objOf(id)
				if o != nil {
					if isInteger(o.Type()) {
						if at, ok := a.targetAtom(c, l); ok {
							re, rok = lin.Var(at), true
							if isUnsigned(o.Type()) {
								c.L.Add(lin.LE(lin.Const(0), re))
							}
							if a.cfg.TaintSources[qn] && i == 0 {
								a.tainted[at] = true
							}
						}
					}
					if _, isSl := o.Type().Underlying().(*types.Slice); isSl {
						rl, lok = a.lenAtom(c, l, "len")
					}
					if spec != nil && i == spec.ErrIdx && isErrorType(o.Type()) {
						errObj = o
					}
				}
			}
			v.res, v.resOK = append(v.res, re), append(v.resOK, rok)
			v.resLen, v.resLOK = append(v.resLen, rl), append(v.resLOK, lok)
		}
		if spec == nil || spec.Post == nil {
			continue
		}
		facts := spec.Post(v)
		switch {
		case spec.ErrIdx < 0:
			for _, f := range facts {
				c.L.Add(f)
			}
		case errObj != nil:
			c.cond[errObj] = facts
		}
	}
	return st
}

// ---------------------------------------------------------------------------
// conditions

func (a *Analyzer) assume(st *state, cond ast.Expr, truth bool) *state {
	out := &state{}
	for _, c := range st.d {
		out.d = append(out.d, a.assumeConj(c.clone(), cond, truth)...)
	}
	out.prune()
	if len(out.d) > maxDisj {
		m := out.collapse(true)
		out.d = []*conj{m}
	}
	return out
}

func (a *Analyzer) assumeConj(c *conj, cond ast.Expr, truth bool) []*conj {
	switch x := cond.(type) {
	case *ast.ParenExpr:
		return a.assumeConj(c, x.X, truth)
	case *ast.UnaryExpr:
		if x.Op == token.NOT {
			return a.assumeConj(c, x.X, !truth)
		}
	case *ast.BinaryExpr:
		switch x.Op {
		case token.LAND:
			if truth {
				var out []*conj
				for _, c1 := range a.assumeConj(c, x.X, true) {
					out = append(out, a.assumeConj(c1, x.Y, true)...)
				}
				return out
			}
			out := a.assumeConj(c.clone(), x.X, false)
			for _, c1 := range a.assumeConj(c, x.X, true) {
				out = append(out, a.assumeConj(c1, x.Y, false)...)
			}
			return out
		case token.LOR:
			if !truth {
				var out []*conj
				for _, c1 := range a.assumeConj(c, x.X, false) {
					out = append(out, a.assumeConj(c1, x.Y, false)...)
				}
				return out
			}
			out := a.assumeConj(c.clone(), x.X, true)
			for _, c1 := range a.assumeConj(c, x.X, false) {
				out = append(out, a.assumeConj(c1, x.Y, true)...)
			}
			return out
		case token.LSS, token.LEQ, token.GTR, token.GEQ, token.EQL, token.NEQ:
			return a.assumeCmp(c, x.X, x.Y, x.Op, truth)
		}
	}
	// case expression of a tagged switch
	if tag, ok := a.caseTag[cond]; ok {
		return a.assumeCmp(c, tag, cond, token.EQL, truth)
	}
	return []*conj{c}
}

func negateOp(op token.Token) token.Token {
	switch op {
	case token.LSS:
		return token.GEQ
	case token.LEQ:
		return token.GTR
	case token.GTR:
		return token.LEQ
	case token.GEQ:
		return token.LSS
	case token.EQL:
		return token.NEQ
	case token.NEQ:
		return token.EQL
	}
	return op
}

func (a *Analyzer) assumeCmp(c *conj, l, r ast.Expr, op token.Token, truth bool) []*conj {
	if !truth {
		op = negateOp(op)
	}
	// nil comparisons on error variables
	if op == token.EQL || op == token.NEQ {
		var id *ast.Ident
		if isNilIdent(r) {
			id, _ = l.(*ast.Ident)
		} else if isNilIdent(l) {
			id, _ = r.(*ast.Ident)
		}
		if id != nil {
			if o := a.objOf(id); o != nil && isErrorType(o.Type()) {
				if op == token.EQL {
					if c.nonNil[o] {
						c.L.Bot = true
					}
					c.isNil[o] = true
					for _, f := range c.cond[o] {
						c.L.Add(f)
					}
					delete(c.cond, o)
				} else {
					if c.isNil[o] {
						c.L.Bot = true
					}
					c.nonNil[o] = true
					delete(c.cond, o)
				}
			}
			return []*conj{c}
		}
	}
	lt, rt := a.cfg.Info.TypeOf(l), a.cfg.Info.TypeOf(r)
	if lt == nil || rt == nil || !isInteger(lt) || !isInteger(rt) {
		return []*conj{c}
	}
	le, lok := a.linear(c, l)
	re, rok := a.linear(c, r)
	if !lok || !rok {
		return []*conj{c}
	}
	switch op {
	case token.LSS:
		c.L.Add(lin.LT(le, re))
	case token.LEQ:
		c.L.Add(lin.LE(le, re))
	case token.GTR:
		c.L.Add(lin.LT(re, le))
	case token.GEQ:
		c.L.Add(lin.LE(re, le))
	case token.EQL:
		c.L.AddEq(le, re)
	case token.NEQ:
		c2 := c.clone()
		c.L.Add(lin.LT(le, re))
		c2.L.Add(lin.LT(re, le))
		return []*conj{c, c2}
	}
	return []*conj{c}
}

func isNilIdent(e ast.Expr) bool {
	id, ok := e.(*ast.Ident)
	return ok && id.Name == "nil"
}

// ---------------------------------------------------------------------------
// returns

func (a *Analyzer) checkReturn(st *state, results []ast.Expr, pos token.Pos) {
	if a.spec == nil {
		return
	}
	site := &ast.BasicLit{ValuePos: pos, Kind: token.STRING, Value: "return"}
	if len(results) > 0 {
		site = nil
	}
	var node ast.Node = site
	if node == nil || site == nil {
		node = &retNode{pos: pos, results: results}
	}
	// invariant at every return
	if a.spec.Inv != nil {
		ok, why := true, ""
		for _, c := range st.d {
			v := &calleeView{a: a, c: c, results: results}
			for _, g := range a.spec.Inv(v) {
				if !c.L.Entails(g) {
					ok, why = false, fmt.Sprintf("class invariant not re-established at return: cannot prove %s; facts: %s", g, a.relevantFacts(c, g))
				}
			}
		}
		a.obAt("O-inv-ret", pos, a.retText(results), ok, why)
	}
	if a.spec.Post == nil {
		return
	}
	ok, why := true, ""
	checked := false
	for _, c := range st.d {
		if a.spec.ErrIdx >= 0 {
			n := 0
			if results != nil && a.spec.ErrIdx < len(results) {
				n = a.nilness(c, results[a.spec.ErrIdx])
			} else if results == nil && a.spec.ErrIdx < len(a.results) {
				r := a.results[a.spec.ErrIdx]
				if c.isNil[r] {
					n = 1
				} else if c.nonNil[r] {
					n = 2
				}
			}
			if n == 2 {
				continue // error return: no post-condition
			}
		}
		checked = true
		v := &calleeView{a: a, c: c, results: results}
		for _, g := range a.spec.Post(v) {
			if !c.L.Entails(g) {
				ok, why = false, fmt.Sprintf("post-condition not established at success return: cannot prove %s; facts: %s", g, a.relevantFacts(c, g))
			}
		}
	}
	if checked {
		a.obAt("O-post", pos, a.retText(results), ok, why)
	}
	_ = node
}

type retNode struct {
	pos     token.Pos
	results []ast.Expr
}

func (r *retNode) Pos() token.Pos { return r.pos }
func (r *retNode) End() token.Pos { return r.pos }

func (a *Analyzer) retText(results []ast.Expr) string {
	s := "return"
	for i, r := range results {
		if i > 0 {
			s += ","
		}
		s += " " + a.exprText(r)
	}
	return s
}

func (a *Analyzer) obAt(rule string, pos token.Pos, text string, ok bool, detail string) {
	if !a.record {
		return
	}
	k := fmt.Sprintf("%s|%d", rule, pos)
	if cur, exists := a.obs[k]; exists {
		if !ok && cur.OK {
			cur.OK = false
			cur.Detail = detail
		}
		return
	}
	a.obs[k] = &Ob{Rule: rule, Site: text, Pos: pos, OK: ok, Detail: detail}
	a.obOrder = append(a.obOrder, k)
}

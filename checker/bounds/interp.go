package bounds

import (
	"fmt"
	"go/ast"
	"go/token"
	"go/types"
	"sort"
	"strings"

	"csverify/lin"
)

// Source describes the function to analyse.
type Source struct {
	Name          string
	Type          *ast.FuncType
	Recv          *ast.FieldList
	Body          *ast.BlockStmt
	Sig           *types.Signature
	QName         string // qualified name used to find the function's own spec ("" = none)
	CheckProgress bool
}

// Analyze interprets one function and returns its obligations (sorted by position).
func Analyze(cfg *Config, src *Source) (obs []Ob, unsupported []string) {
	a := &Analyzer{
		cfg: cfg, fnName: src.Name, fnType: src.Sig,
		deps: map[lin.Atom]*atomDeps{}, tainted: map[lin.Atom]bool{}, record: true,
		entryLen: map[types.Object]lin.Atom{}, entryFld: map[string]lin.Atom{}, entryPar: map[types.Object]lin.Atom{},
		caseTag: map[ast.Expr]ast.Expr{}, unsup: map[string]token.Pos{}, obs: map[string]*Ob{},
	}
	a.progress = src.CheckProgress
	a.volatile = map[types.Object]bool{}
	a.assigned = map[types.Object]bool{}
	ast.Inspect(src.Body, func(n ast.Node) bool {
		switch s := n.(type) {
		case *ast.AssignStmt:
			for _, l := range s.Lhs {
				if id, ok := l.(*ast.Ident); ok {
					if o := cfg.Info.Uses[id]; o != nil {
						a.assigned[o] = true
					}
				}
			}
		case *ast.IncDecStmt:
			if id, ok := s.X.(*ast.Ident); ok {
				if o := cfg.Info.Uses[id]; o != nil {
					a.assigned[o] = true
				}
			}
		case *ast.UnaryExpr:
			if id, ok := s.X.(*ast.Ident); ok && s.Op == token.AND {
				if o := cfg.Info.Uses[id]; o != nil {
					a.assigned[o] = true
				}
			}
		}
		return true
	})
	if src.QName != "" {
		a.spec = cfg.Specs[src.QName]
	}
	// tagged switches: remember the tag for each case expression
	ast.Inspect(src.Body, func(n ast.Node) bool {
		if sw, ok := n.(*ast.SwitchStmt); ok && sw.Tag != nil {
			for _, cl := range sw.Body.List {
				for _, e := range cl.(*ast.CaseClause).List {
					a.caseTag[e] = sw.Tag
				}
			}
		}
		// variables assigned inside closures are volatile for the enclosing function
		if fl, ok := n.(*ast.FuncLit); ok {
			ast.Inspect(fl.Body, func(m ast.Node) bool {
				switch s := m.(type) {
				case *ast.AssignStmt:
					for _, l := range s.Lhs {
						if id, ok := l.(*ast.Ident); ok {
							if o := cfg.Info.Uses[id]; o != nil {
								a.volatile[o] = true
							}
						}
					}
				case *ast.IncDecStmt:
					if id, ok := s.X.(*ast.Ident); ok {
						if o := cfg.Info.Uses[id]; o != nil {
							a.volatile[o] = true
						}
					}
				case *ast.UnaryExpr:
					if s.Op == token.AND {
						if id, ok := s.X.(*ast.Ident); ok {
							if o := cfg.Info.Uses[id]; o != nil {
								a.volatile[o] = true
							}
						}
					}
				}
				return true
			})
			return false
		}
		return true
	})

	c := newConj()
	// receiver / params / results
	if src.Sig != nil {
		a.recv = src.Sig.Recv()
		for i := 0; i < src.Sig.Params().Len(); i++ {
			a.params = append(a.params, src.Sig.Params().At(i))
		}
		for i := 0; i < src.Sig.Results().Len(); i++ {
			a.results = append(a.results, src.Sig.Results().At(i))
		}
	}
	// FuncLit: signature objects come from the literal's type
	for _, p := range a.params {
		if p.Name() == "" || p.Name() == "_" {
			continue
		}
		k := a.objKey(p)
		switch u := p.Type().Underlying().(type) {
		case *types.Slice, *types.Basic:
			isStr := false
			if b, ok := u.(*types.Basic); ok {
				isStr = b.Info()&types.IsString != 0
				if b.Info()&types.IsInteger != 0 {
					at := a.regAtom(lin.Atom("v:"+k), []types.Object{p}, nil)
					g := a.regAtom(lin.Atom("entry:"+k), nil, nil)
					a.entryPar[p] = g
					c.L.AddEq(lin.Var(at), lin.Var(g))
					if isUnsigned(p.Type()) {
						c.L.Add(lin.LE(lin.Const(0), lin.Var(at)))
					}
					continue
				}
			}
			if _, ok := u.(*types.Slice); ok || isStr {
				at := a.regAtom(lin.Atom("len("+k+")"), []types.Object{p}, nil)
				g := a.regAtom(lin.Atom("entry:len("+k+")"), nil, nil)
				a.entryLen[p] = g
				c.L.AddEq(lin.Var(at), lin.Var(g))
				c.L.Add(lin.LE(lin.Const(0), lin.Var(g)))
			}
		}
	}
	for _, r := range a.results {
		if r.Name() == "" || r.Name() == "_" {
			continue
		}
		if isInteger(r.Type()) {
			at := a.regAtom(lin.Atom("v:"+a.objKey(r)), []types.Object{r}, nil)
			c.L.AddEq(lin.Var(at), lin.Const(0))
		} else if isErrorType(r.Type()) {
			c.isNil[r] = true
		}
	}
	if a.recv != nil && a.recv.Name() != "" && a.recv.Name() != "_" {
		if st := structOf(a.recv.Type()); st != nil {
			for i := 0; i < st.NumFields(); i++ {
				f := st.Field(i)
				if isInteger(f.Type()) {
					fk := typeKey(a.recv.Type()) + "." + f.Name()
					at := a.regAtom(lin.Atom("v:"+a.objKey(a.recv)+"."+f.Name()), []types.Object{a.recv}, []string{fk})
					g := a.regAtom(lin.Atom("entry:"+f.Name()), nil, nil)
					a.entryFld[f.Name()] = g
					c.L.AddEq(lin.Var(at), lin.Var(g))
				}
			}
		}
	}
	st := &state{d: []*conj{c}}
	if a.spec != nil && a.spec.Pre != nil {
		v := &calleeView{a: a, c: c}
		for _, f := range a.spec.Pre(v) {
			c.L.Add(f)
		}
	}
	if a.spec != nil && a.spec.Inv != nil {
		v := &calleeView{a: a, c: c}
		for _, f := range a.spec.Inv(v) {
			c.L.Add(f)
		}
	}
	out := a.execBlock(src.Body.List, st)
	// falling off the end = return without values
	if !out.dead() && (src.Sig == nil || src.Sig.Results().Len() == 0) {
		a.checkReturn(out, nil, src.Body.Rbrace)
	}
	keys := append([]string(nil), a.obOrder...)
	sort.SliceStable(keys, func(i, j int) bool { return a.obs[keys[i]].Pos < a.obs[keys[j]].Pos })
	for _, k := range keys {
		obs = append(obs, *a.obs[k])
	}
	for k := range a.unsup {
		unsupported = append(unsupported, k)
	}
	sort.Strings(unsupported)
	return obs, unsupported
}

func structOf(t types.Type) *types.Struct {
	if p, ok := t.Underlying().(*types.Pointer); ok {
		t = p.Elem()
	}
	s, _ := t.Underlying().(*types.Struct)
	return s
}

func isErrorType(t types.Type) bool {
	return t != nil && t.String() == "error"
}

func (a *Analyzer) exprText(e ast.Node) string {
	var sb strings.Builder
	_ = printerFprint(&sb, a.cfg.Fset, e)
	s := sb.String()
	s = strings.Join(strings.Fields(s), " ")
	if len(s) > 90 {
		s = s[:87] + "..."
	}
	return s
}

func (a *Analyzer) ob(rule string, site ast.Node, ok bool, detail string) {
	if !a.record {
		return
	}
	k := fmt.Sprintf("%s|%d", rule, site.Pos())
	if cur, exists := a.obs[k]; exists {
		if !ok && cur.OK {
			cur.OK = false
			cur.Detail = detail
		}
		return
	}
	a.obs[k] = &Ob{Rule: rule, Site: a.exprText(site), Pos: site.Pos(), OK: ok, Detail: detail}
	a.obOrder = append(a.obOrder, k)
}

func (a *Analyzer) unsupported(n ast.Node, what string) {
	a.unsup[fmt.Sprintf("%s: %s", what, a.exprText(n))] = n.Pos()
}

// prove checks a goal in every disjunct and renders a diagnosis on failure.
func (a *Analyzer) prove(st *state, goals []lin.Fact) (bool, string) {
	for _, c := range st.d {
		for _, g := range goals {
			if !c.L.Entails(g) {
				return false, fmt.Sprintf("cannot prove %s; facts known on this path: %s", g, a.relevantFacts(c, g))
			}
		}
	}
	return true, ""
}

func (a *Analyzer) relevantFacts(c *conj, g lin.Fact) string {
	var out []string
	for _, f := range c.L.Facts {
		hit := false
		for at := range f.E.Coef {
			if g.E.Has(at) {
				hit = true
			}
		}
		if hit {
			out = append(out, f.String())
		}
	}
	sort.Strings(out)
	if len(out) > 10 {
		out = out[:10]
	}
	return "{" + strings.Join(out, "; ") + "}"
}

// ---------------------------------------------------------------------------
// expressions: obligations

func (a *Analyzer) indexable(t types.Type) bool {
	if t == nil {
		return false
	}
	if a.cfg.IndexFilter != nil {
		return a.cfg.IndexFilter(t)
	}
	switch t.Underlying().(type) {
	case *types.Slice, *types.Array:
		return true
	case *types.Basic:
		return t.Underlying().(*types.Basic).Info()&types.IsString != 0
	case *types.Pointer:
		_, ok := t.Underlying().(*types.Pointer).Elem().Underlying().(*types.Array)
		return ok
	}
	return false
}

// checkExpr enumerates the obligations inside e under state st.
func (a *Analyzer) checkExpr(st *state, e ast.Expr) {
	if e == nil || st.dead() {
		return
	}
	switch x := e.(type) {
	case *ast.ParenExpr:
		a.checkExpr(st, x.X)
	case *ast.BinaryExpr:
		a.checkExpr(st, x.X)
		switch x.Op {
		case token.LAND:
			a.checkExpr(a.assume(st, x.X, true), x.Y)
		case token.LOR:
			a.checkExpr(a.assume(st, x.X, false), x.Y)
		default:
			a.checkExpr(st, x.Y)
		}
	case *ast.UnaryExpr:
		a.checkExpr(st, x.X)
	case *ast.StarExpr:
		a.checkExpr(st, x.X)
	case *ast.SelectorExpr:
		a.checkExpr(st, x.X)
	case *ast.TypeAssertExpr:
		a.checkExpr(st, x.X)
	case *ast.KeyValueExpr:
		a.checkExpr(st, x.Value)
	case *ast.CompositeLit:
		for _, el := range x.Elts {
			a.checkExpr(st, el)
		}
		a.checkCompositeInv(st, x)
	case *ast.IndexExpr:
		a.checkExpr(st, x.X)
		a.checkExpr(st, x.Index)
		t := a.cfg.Info.TypeOf(x.X)
		if tv, ok := a.cfg.Info.Types[x.X]; ok && tv.IsType() {
			return // generic instantiation
		}
		if _, isMap := t.Underlying().(*types.Map); isMap {
			return
		}
		if _, isSig := t.Underlying().(*types.Signature); isSig {
			return
		}
		if !a.indexable(t) {
			return
		}
		a.checkIndex(st, x)
	case *ast.SliceExpr:
		a.checkExpr(st, x.X)
		a.checkExpr(st, x.Low)
		a.checkExpr(st, x.High)
		a.checkExpr(st, x.Max)
		if !a.indexable(a.cfg.Info.TypeOf(x.X)) {
			return
		}
		a.checkSlice(st, x)
	case *ast.CallExpr:
		a.checkExpr(st, x.Fun)
		for _, arg := range x.Args {
			a.checkExpr(st, arg)
		}
		a.checkCall(st, x)
	case *ast.FuncLit:
		// analysed separately as its own function
	}
}

func (a *Analyzer) checkIndex(st *state, x *ast.IndexExpr) {
	ok, why := true, ""
	for _, c := range st.d {
		idx, iok := a.linear(c, x.Index)
		var ln lin.Expr
		var lok bool
		if arr, isArr := arrayLen(a.cfg.Info.TypeOf(x.X)); isArr {
			ln, lok = lin.Const(arr), true
		} else {
			ln, lok = a.lenOf(c, x.X)
		}
		if !iok || !lok {
			ok, why = false, "index or length is not an analysable integer expression"
			break
		}
		for _, g := range []lin.Fact{lin.LE(lin.Const(0), idx), lin.LT(idx, ln)} {
			if !c.L.Entails(g) {
				ok = false
				why = fmt.Sprintf("cannot prove %s; facts known on this path: %s", g, a.relevantFacts(c, g))
				break
			}
		}
		if !ok {
			break
		}
	}
	a.ob("O-idx", x, ok, why)
}

func arrayLen(t types.Type) (int64, bool) {
	if t == nil {
		return 0, false
	}
	if p, ok := t.Underlying().(*types.Pointer); ok {
		t = p.Elem()
	}
	if arr, ok := t.Underlying().(*types.Array); ok {
		return arr.Len(), true
	}
	return 0, false
}

func (a *Analyzer) checkSlice(st *state, x *ast.SliceExpr) {
	ok, why := true, ""
	for _, c := range st.d {
		lo := lin.Const(0)
		var hi, ln lin.Expr
		var k1, k2, k3 = true, true, true
		if arr, isArr := arrayLen(a.cfg.Info.TypeOf(x.X)); isArr {
			ln = lin.Const(arr)
		} else {
			ln, k3 = a.lenOf(c, x.X)
			if !k3 {
				// operand is not a tracked path: its length is an unknown non-negative value
				ln, k3 = a.fresh(c, x.X, "len"), true
				c.L.Add(lin.LE(lin.Const(0), ln))
			}
		}
		if x.Low != nil {
			lo, k1 = a.linear(c, x.Low)
		}
		if x.High != nil {
			hi, k2 = a.linear(c, x.High)
		} else {
			hi = ln
		}
		if !k1 || !k2 || !k3 {
			ok, why = false, "slice bound is not an analysable integer expression"
			break
		}
		// high may extend to cap; we only accept len (sound, stricter) unless the
		// expression is a re-slice to a constant 0 (s[:0]) which is always fine.
		goals := []lin.Fact{lin.LE(lin.Const(0), lo), lin.LE(lo, hi)}
		if x.High != nil {
			goals = append(goals, lin.LE(hi, ln))
		}
		for _, g := range goals {
			if !c.L.Entails(g) {
				ok = false
				why = fmt.Sprintf("cannot prove %s; facts known on this path: %s", g, a.relevantFacts(c, g))
				break
			}
		}
		if !ok {
			break
		}
	}
	a.ob("O-idx", x, ok, why)
}

func (a *Analyzer) checkCall(st *state, call *ast.CallExpr) {
	// make with input-dependent size
	if id, ok := call.Fun.(*ast.Ident); ok {
		if b, ok := a.cfg.Info.Uses[id].(*types.Builtin); ok && b.Name() == "make" {
			for _, arg := range call.Args[1:] {
				a.checkAlloc(st, call, arg)
			}
			return
		}
	}
	f := a.calleeOf(call)
	if f == nil {
		return
	}
	qn := QualifiedName(f)
	if need, ok := a.cfg.RawReaders[qn]; ok && len(call.Args) > 0 {
		okk, why := true, ""
		for _, c := range st.d {
			ln, lok := a.lenOf(c, call.Args[0])
			if !lok {
				okk, why = false, "argument length not analysable"
				break
			}
			g := lin.LE(lin.Const(need), ln)
			if !c.L.Entails(g) {
				okk = false
				why = fmt.Sprintf("unchecked %d-byte read: cannot prove %s; facts known on this path: %s", need, g, a.relevantFacts(c, g))
				break
			}
		}
		a.ob("O-raw", call, okk, why)
	}
}

func (a *Analyzer) checkAlloc(st *state, call *ast.CallExpr, arg ast.Expr) {
	tainted := false
	okk, why := true, ""
	for _, c := range st.d {
		v, ok := a.linear(c, arg)
		if !ok {
			continue
		}
		t := false
		for at := range v.Coef {
			if a.tainted[at] {
				t = true
			}
		}
		if !t {
			continue
		}
		tainted = true
		// bound by the length of some byte buffer known to the state
		proved := false
		lens := c.L.AtomsMatching(func(at lin.Atom) bool {
			return strings.HasPrefix(string(at), "len(") || strings.HasPrefix(string(at), "entry:len(")
		})
		for _, l := range lens {
			if c.L.Entails(lin.LE(v, lin.Var(l))) {
				proved = true
				break
			}
		}
		if !proved {
			okk = false
			why = fmt.Sprintf("allocation size %s depends on a value decoded from the input and is not bounded by the length of any buffer; facts: %s", v, a.relevantFacts(c, lin.LE(v, lin.Const(0))))
			break
		}
	}
	if tainted {
		a.ob("O-alloc", call, okk, why)
	}
}

// checkCompositeInv: struct literals of types with an invariant store hook.
func (a *Analyzer) checkCompositeInv(st *state, x *ast.CompositeLit) {
	if len(a.cfg.FieldInvs) == 0 {
		return
	}
	t := a.cfg.Info.TypeOf(x)
	if t == nil {
		return
	}
	sk := typeKey(t)
	for _, el := range x.Elts {
		kv, ok := el.(*ast.KeyValueExpr)
		if !ok {
			continue
		}
		id, ok := kv.Key.(*ast.Ident)
		if !ok {
			continue
		}
		a.invStoreLit(st, x, sk, id.Name, kv.Value)
	}
}

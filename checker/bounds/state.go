// Package bounds is the guard-fact engine: a structured abstract interpreter
// over go/ast + go/types whose state is a bounded disjunction of conjunctions
// of linear facts (package lin). It enumerates bounds / allocation / invariant
// obligations syntactically and discharges each by entailment.
package bounds

import (
	"go/types"

	"csverify/lin"
)

// conj is one disjunct of the abstract state.
type conj struct {
	L      *lin.Conj
	nonNil map[types.Object]bool       // error variables known non-nil
	isNil  map[types.Object]bool       // error variables known nil
	cond   map[types.Object][]lin.Fact // err == nil ⇒ facts
}

func newConj() *conj {
	return &conj{L: lin.NewConj(), nonNil: map[types.Object]bool{}, isNil: map[types.Object]bool{}, cond: map[types.Object][]lin.Fact{}}
}

func (c *conj) clone() *conj {
	n := &conj{L: c.L.Clone(), nonNil: map[types.Object]bool{}, isNil: map[types.Object]bool{}, cond: map[types.Object][]lin.Fact{}}
	for k, v := range c.nonNil {
		n.nonNil[k] = v
	}
	for k, v := range c.isNil {
		n.isNil[k] = v
	}
	for k, v := range c.cond {
		n.cond[k] = append([]lin.Fact(nil), v...)
	}
	return n
}

// state is a disjunction; empty = unreachable.
type state struct {
	d []*conj
}

const maxDisj = 48

func (s *state) clone() *state {
	n := &state{}
	for _, c := range s.d {
		n.d = append(n.d, c.clone())
	}
	return n
}

func (s *state) dead() bool { return len(s.d) == 0 }

func meetConj(a, b *conj, extra bool) *conj {
	n := newConj()
	n.L = lin.Meet(a.L, b.L, extra)
	for k := range a.nonNil {
		if b.nonNil[k] {
			n.nonNil[k] = true
		}
	}
	for k := range a.isNil {
		if b.isNil[k] {
			n.isNil[k] = true
		}
	}
	// conditional facts: keep those present in both (by entailment under the other's activation is
	// too costly; keep syntactically equal ones)
	for k, fa := range a.cond {
		fb, ok := b.cond[k]
		if !ok {
			continue
		}
		for _, f := range fa {
			for _, g := range fb {
				if f.String() == g.String() {
					n.cond[k] = append(n.cond[k], f)
					break
				}
			}
		}
	}
	return n
}

// join concatenates disjuncts, collapsing by meet when there are too many.
func join(a, b *state) *state {
	n := &state{}
	n.d = append(n.d, a.d...)
	for _, c := range b.d {
		dup := false
		for _, o := range n.d {
			if lin.Equal(o.L, c.L) && sameNil(o, c) {
				dup = true
				break
			}
		}
		if !dup {
			n.d = append(n.d, c)
		}
	}
	if len(n.d) > 8 {
		n.subsume()
	}
	for len(n.d) > maxDisj {
		// merge the last two
		k := len(n.d)
		m := meetConj(n.d[k-2], n.d[k-1], true)
		n.d = append(n.d[:k-2], m)
	}
	return n
}

func sameNil(a, b *conj) bool {
	if len(a.nonNil) != len(b.nonNil) || len(a.isNil) != len(b.isNil) || len(a.cond) != len(b.cond) {
		return false
	}
	for k := range a.nonNil {
		if !b.nonNil[k] {
			return false
		}
	}
	for k := range a.isNil {
		if !b.isNil[k] {
			return false
		}
	}
	return true
}

// collapse turns the disjunction into a single conjunct.
func (s *state) collapse(extra bool) *conj {
	if len(s.d) == 0 {
		c := newConj()
		c.L.Bot = true
		return c
	}
	m := s.d[0].clone()
	for _, c := range s.d[1:] {
		m = meetConj(m, c, extra)
	}
	return m
}

// entailsAll: every disjunct proves f.
func (s *state) entails(f lin.Fact) bool {
	for _, c := range s.d {
		if !c.L.Entails(f) {
			return false
		}
	}
	return true
}

func (s *state) prune() {
	out := s.d[:0]
	for _, c := range s.d {
		if !c.L.Unsat() {
			out = append(out, c)
		}
	}
	s.d = out
}

// subsume drops disjuncts that are stronger than another one (c ⇒ o makes c redundant).
func (s *state) subsume() {
	keep := make([]bool, len(s.d))
	for i := range keep {
		keep[i] = true
	}
	implies := func(c, o *conj) bool {
		if !sameNil(c, o) {
			return false
		}
		for _, f := range o.L.Facts {
			if !c.L.Entails(f) {
				return false
			}
		}
		return true
	}
	for i, c := range s.d {
		if !keep[i] {
			continue
		}
		for j, o := range s.d {
			if i == j || !keep[j] {
				continue
			}
			if implies(c, o) {
				keep[i] = false
				break
			}
		}
	}
	out := s.d[:0]
	for i, c := range s.d {
		if keep[i] {
			out = append(out, c)
		}
	}
	s.d = out
}

package bounds

import (
	"fmt"
	"go/ast"
	"go/printer"
	"go/token"
	"go/types"
	"io"

	"csverify/lin"
)

func printerFprint(w io.Writer, fset *token.FileSet, n ast.Node) error {
	return printer.Fprint(w, fset, n)
}

// FieldInv returns the goals that must hold when `val` is stored into a field;
// sibLen gives the length of a sibling slice field of the same object.
type FieldInv func(val lin.Expr, sibLen func(field string) (lin.Expr, bool)) []lin.Fact

type loopCtx struct {
	brk, cnt *state
}

func (a *Analyzer) invStoreLit(st *state, lit *ast.CompositeLit, typeK, field string, val ast.Expr) {
	inv := a.cfg.FieldInvs[typeK+"."+field]
	if inv == nil {
		return
	}
	ok, why := true, ""
	for _, c := range st.d {
		v, vok := a.linear(c, val)
		if !vok {
			ok, why = false, "stored value is not an integer expression"
			break
		}
		sib := func(f string) (lin.Expr, bool) {
			for _, el := range lit.Elts {
				if kv, isKV := el.(*ast.KeyValueExpr); isKV {
					if id, isID := kv.Key.(*ast.Ident); isID && id.Name == f {
						return a.lenOf(c, kv.Value)
					}
				}
			}
			return lin.Const(0), true
		}
		for _, g := range inv(v, sib) {
			if !c.L.Entails(g) {
				ok, why = false, fmt.Sprintf("cannot prove %s; facts: %s", g, a.relevantFacts(c, g))
			}
		}
	}
	a.ob("O-inv", val, ok, why)
}

// invStore checks the invariant of a field store base.field = val.
func (a *Analyzer) invStore(st *state, target *ast.SelectorExpr, val func(c *conj) (lin.Expr, bool), site ast.Node) {
	sel := a.cfg.Info.Selections[target]
	if sel == nil || sel.Kind() != types.FieldVal {
		return
	}
	inv := a.cfg.FieldInvs[typeKey(sel.Recv())+"."+target.Sel.Name]
	if inv == nil {
		return
	}
	ok, why := true, ""
	for _, c := range st.d {
		v, vok := val(c)
		if !vok {
			ok, why = false, "stored value is not an analysable integer expression"
			break
		}
		bk, bo, bf, pok := a.pathKey(target.X)
		sib := func(f string) (lin.Expr, bool) {
			if !pok {
				return lin.Expr{}, false
			}
			fk := typeKey(sel.Recv()) + "." + f
			at := a.regAtom(lin.Atom("len("+bk+"."+f+")"), bo, append(append([]string(nil), bf...), fk))
			c.L.Add(lin.LE(lin.Const(0), lin.Var(at)))
			return lin.Var(at), true
		}
		for _, g := range inv(v, sib) {
			if !c.L.Entails(g) {
				ok, why = false, fmt.Sprintf("cannot prove %s; facts known on this path: %s", g, a.relevantFacts(c, g))
			}
		}
		if !ok {
			break
		}
	}
	a.ob("O-inv", site, ok, why)
}

// ---------------------------------------------------------------------------
// statements

func (a *Analyzer) execBlock(list []ast.Stmt, st *state) *state {
	for _, s := range list {
		if st.dead() {
			return st
		}
		st = a.execStmt(s, st)
	}
	return st
}

func dead() *state { return &state{} }

// execStmt interprets one statement; variables declared inside a compound
// statement are out of scope afterwards and are projected out of the state.
func (a *Analyzer) execStmt(s ast.Stmt, st *state) *state {
	out := a.execStmt1(s, st)
	switch s.(type) {
	case *ast.IfStmt, *ast.SwitchStmt, *ast.TypeSwitchStmt, *ast.ForStmt, *ast.RangeStmt, *ast.BlockStmt:
		lo, hi := s.Pos(), s.End()
		for _, c := range out.d {
			pred := func(at lin.Atom) bool {
				d := a.deps[at]
				if d == nil {
					return false
				}
				for o := range d.objs {
					if o.Pos() >= lo && o.Pos() < hi {
						return true
					}
				}
				return false
			}
			c.L.Kill(pred)
			a.dropCond(c, pred)
			for o := range c.cond {
				if o.Pos() >= lo && o.Pos() < hi {
					delete(c.cond, o)
				}
			}
			for o := range c.nonNil {
				if o.Pos() >= lo && o.Pos() < hi {
					delete(c.nonNil, o)
				}
			}
			for o := range c.isNil {
				if o.Pos() >= lo && o.Pos() < hi {
					delete(c.isNil, o)
				}
			}
		}
		if len(out.d) > 1 {
			out = join(&state{}, out)
		}
	}
	return out
}

func (a *Analyzer) execStmt1(s ast.Stmt, st *state) *state {
	switch x := s.(type) {
	case nil:
		return st
	case *ast.BlockStmt:
		return a.execBlock(x.List, st)
	case *ast.EmptyStmt:
		return st
	case *ast.ExprStmt:
		a.checkExpr(st, x.X)
		a.effects(st, x.X)
		if call, ok := x.X.(*ast.CallExpr); ok {
			if id, ok := call.Fun.(*ast.Ident); ok {
				if b, ok := a.cfg.Info.Uses[id].(*types.Builtin); ok && b.Name() == "panic" {
					return dead()
				}
			}
		}
		return st
	case *ast.DeclStmt:
		gd, ok := x.Decl.(*ast.GenDecl)
		if !ok || gd.Tok != token.VAR {
			return st
		}
		for _, sp := range gd.Specs {
			vs := sp.(*ast.ValueSpec)
			if len(vs.Values) == 0 {
				for _, id := range vs.Names {
					o := a.cfg.Info.Defs[id]
					if o == nil {
						continue
					}
					for _, c := range st.d {
						a.killObj(c, o)
						if isInteger(o.Type()) && !a.volatile[o] {
							if v, ok := a.varAtom(c, id); ok {
								c.L.AddEq(v, lin.Const(0))
							}
						} else if isErrorType(o.Type()) {
							c.isNil[o] = true
						} else if _, isSl := o.Type().Underlying().(*types.Slice); isSl {
							if l, ok := a.lenAtom(c, id, "len"); ok {
								c.L.AddEq(l, lin.Const(0))
							}
						}
					}
				}
				continue
			}
			lhs := make([]ast.Expr, len(vs.Names))
			for i, id := range vs.Names {
				lhs[i] = id
			}
			st = a.assign(st, lhs, vs.Values, token.DEFINE, x)
		}
		return st
	case *ast.AssignStmt:
		return a.assign(st, x.Lhs, x.Rhs, x.Tok, x)
	case *ast.IncDecStmt:
		one := &ast.BasicLit{Kind: token.INT, Value: "1", ValuePos: x.Pos()}
		tok := token.ADD_ASSIGN
		if x.Tok == token.DEC {
			tok = token.SUB_ASSIGN
		}
		return a.opAssign(st, x.X, one, tok, x, true)
	case *ast.ReturnStmt:
		for _, r := range x.Results {
			a.checkExpr(st, r)
		}
		a.checkReturn(st, x.Results, x.Pos())
		return dead()
	case *ast.IfStmt:
		if x.Init != nil {
			st = a.execStmt(x.Init, st)
		}
		a.checkExpr(st, x.Cond)
		thenSt := a.execBlock(x.Body.List, a.assume(st, x.Cond, true))
		elseIn := a.assume(st, x.Cond, false)
		var elseSt *state
		if x.Else != nil {
			elseSt = a.execStmt(x.Else, elseIn)
		} else {
			elseSt = elseIn
		}
		return join(thenSt, elseSt)
	case *ast.SwitchStmt:
		return a.execSwitch(x, st)
	case *ast.TypeSwitchStmt:
		if x.Init != nil {
			st = a.execStmt(x.Init, st)
		}
		switch as := x.Assign.(type) {
		case *ast.ExprStmt:
			a.checkExpr(st, as.X)
		case *ast.AssignStmt:
			for _, r := range as.Rhs {
				a.checkExpr(st, r)
			}
		}
		out := dead()
		hasDefault := false
		lc := &loopCtx{brk: dead(), cnt: nil}
		a.loops = append(a.loops, lc)
		for _, cl := range x.Body.List {
			cc := cl.(*ast.CaseClause)
			if cc.List == nil {
				hasDefault = true
			}
			out = join(out, a.execBlock(cc.Body, st.clone()))
		}
		a.loops = a.loops[:len(a.loops)-1]
		if !hasDefault {
			out = join(out, st)
		}
		return join(out, lc.brk)
	case *ast.ForStmt:
		return a.execFor(x, st)
	case *ast.RangeStmt:
		return a.execRange(x, st)
	case *ast.BranchStmt:
		if x.Label != nil {
			a.unsupported(x, "labeled branch")
			return dead()
		}
		switch x.Tok {
		case token.BREAK:
			if n := len(a.loops); n > 0 {
				a.loops[n-1].brk = join(a.loops[n-1].brk, st)
			}
			return dead()
		case token.CONTINUE:
			for i := len(a.loops) - 1; i >= 0; i-- {
				if a.loops[i].cnt != nil {
					a.loops[i].cnt = join(a.loops[i].cnt, st)
					break
				}
			}
			return dead()
		case token.FALLTHROUGH:
			a.unsupported(x, "fallthrough")
			return st
		default:
			a.unsupported(x, "goto")
			return dead()
		}
	case *ast.DeferStmt:
		a.checkExpr(st, x.Call)
		return st
	case *ast.GoStmt:
		a.checkExpr(st, x.Call)
		return st
	case *ast.LabeledStmt:
		a.unsupported(x, "label")
		return a.execStmt(x.Stmt, st)
	case *ast.SendStmt, *ast.SelectStmt:
		a.unsupported(x, "channel operation")
		return st
	}
	a.unsupported(s, "statement")
	return st
}

func (a *Analyzer) execSwitch(x *ast.SwitchStmt, st *state) *state {
	if x.Init != nil {
		st = a.execStmt(x.Init, st)
	}
	if x.Tag != nil {
		a.checkExpr(st, x.Tag)
	}
	out := dead()
	lc := &loopCtx{brk: dead(), cnt: nil}
	a.loops = append(a.loops, lc)
	cur := st
	var defaultBody []ast.Stmt
	hasDefault := false
	for _, cl := range x.Body.List {
		cc := cl.(*ast.CaseClause)
		if cc.List == nil {
			hasDefault = true
			defaultBody = cc.Body
			continue
		}
		// case e1, e2: enter when any matches
		enter := dead()
		for _, e := range cc.List {
			a.checkExpr(cur, e)
			enter = join(enter, a.assume(cur, e, true))
			cur = a.assume(cur, e, false)
		}
		out = join(out, a.execBlock(cc.Body, enter))
	}
	if hasDefault {
		out = join(out, a.execBlock(defaultBody, cur))
	} else {
		out = join(out, cur)
	}
	a.loops = a.loops[:len(a.loops)-1]
	return join(out, lc.brk)
}

// assignedIn collects int variables / fields assigned in a loop (progress candidates).
func (a *Analyzer) assignedIn(nodes ...ast.Node) []ast.Expr {
	var out []ast.Expr
	seen := map[string]bool{}
	add := func(e ast.Expr) {
		if t := a.cfg.Info.TypeOf(e); t == nil || !isInteger(t) {
			return
		}
		k, _, _, ok := a.pathKey(e)
		if !ok || seen[k] {
			return
		}
		seen[k] = true
		out = append(out, e)
	}
	for _, n := range nodes {
		if n == nil {
			continue
		}
		ast.Inspect(n, func(m ast.Node) bool {
			switch s := m.(type) {
			case *ast.FuncLit:
				return false
			case *ast.AssignStmt:
				if s.Tok != token.DEFINE {
					for _, l := range s.Lhs {
						add(l)
					}
				}
			case *ast.IncDecStmt:
				add(s.X)
			}
			return true
		})
	}
	return out
}

func (a *Analyzer) execFor(x *ast.ForStmt, st *state) *state {
	if x.Init != nil {
		st = a.execStmt(x.Init, st)
	}
	if st.dead() {
		return st
	}
	savedRecord := a.record
	a.record = false
	head := st.collapse(true)
	runBody := func(h *conj) (back *state, exits *state) {
		hs := &state{d: []*conj{h.clone()}}
		lc := &loopCtx{brk: dead(), cnt: dead()}
		a.loops = append(a.loops, lc)
		in := hs
		if x.Cond != nil {
			a.checkExpr(hs, x.Cond)
			in = a.assume(hs, x.Cond, true)
		}
		var ghosts []lin.Atom
		var cands []ast.Expr
		if a.progress && a.record {
			a.loopSeq++
			cands = a.assignedIn(x.Body, x.Post)
			for i, e := range cands {
				g := a.regAtom(lin.Atom(fmt.Sprintf("loop%d:%d", a.loopSeq, i)), nil, nil)
				ghosts = append(ghosts, g)
				for _, c := range in.d {
					if v, ok := a.linear(c, e); ok {
						c.L.AddEq(lin.Var(g), v)
					}
				}
			}
		}
		out := a.execBlock(x.Body.List, in)
		out = join(out, lc.cnt)
		if x.Post != nil && !out.dead() {
			out = a.execStmt(x.Post, out)
		}
		a.loops = a.loops[:len(a.loops)-1]
		if a.progress && a.record && !out.dead() {
			proved := false
			for i, e := range cands {
				okAll := true
				okAllDec := true
				for _, c := range out.d {
					v, ok := a.linear(c, e)
					if !ok || !c.L.Entails(lin.LT(lin.Var(ghosts[i]), v)) {
						okAll = false
					}
					if !ok || !c.L.Entails(lin.LT(v, lin.Var(ghosts[i]))) {
						okAllDec = false
					}
				}
				if okAll || okAllDec {
					proved = true
					break
				}
			}
			why := ""
			if !proved {
				why = "no integer variable assigned in the loop provably changes monotonically on every path to the back edge (termination / proportional work not established)"
			}
			a.ob("O-progress", x, proved, why)
		}
		ex := lc.brk
		if x.Cond != nil {
			ex = join(ex, a.assume(hs, x.Cond, false))
		}
		return out, ex
	}
	for iter := 0; iter < 12; iter++ {
		back, _ := runBody(head)
		if back.dead() {
			break
		}
		nh := meetConj(head, back.collapse(true), iter == 0)
		if lin.Equal(nh.L, head.L) && sameNil(nh, head) {
			head = nh
			break
		}
		head = nh
		if iter == 11 {
			// did not stabilise: drop to no information (sound)
			head = newConj()
		}
	}
	a.record = savedRecord
	_, exits := runBody(head)
	return exits
}

func (a *Analyzer) execRange(x *ast.RangeStmt, st *state) *state {
	a.checkExpr(st, x.X)
	if st.dead() {
		return st
	}
	savedRecord := a.record
	a.record = false
	head := st.collapse(true)
	xt := a.cfg.Info.TypeOf(x.X)
	runBody := func(h *conj) (back *state, exits *state) {
		hs := &state{d: []*conj{h.clone()}}
		lc := &loopCtx{brk: dead(), cnt: dead()}
		a.loops = append(a.loops, lc)
		in := hs.clone()
		for _, c := range in.d {
			for i, kv := range []ast.Expr{x.Key, x.Value} {
				if kv == nil {
					continue
				}
				id, ok := kv.(*ast.Ident)
				if !ok || id.Name == "_" {
					continue
				}
				o := a.cfg.Info.Defs[id]
				if o == nil {
					o = a.cfg.Info.Uses[id]
				}
				if o == nil {
					continue
				}
				a.killObj(c, o)
				if i == 0 && isInteger(o.Type()) && !a.volatile[o] {
					kvr, _ := a.varAtom(c, id)
					switch xt.Underlying().(type) {
					case *types.Slice, *types.Array, *types.Pointer:
						if ln, ok := a.lenOf(c, x.X); ok {
							c.L.Add(lin.LE(lin.Const(0), kvr))
							c.L.Add(lin.LT(kvr, ln))
						}
					case *types.Basic:
						if isInteger(xt) {
							if n, ok := a.linear(c, x.X); ok {
								c.L.Add(lin.LE(lin.Const(0), kvr))
								c.L.Add(lin.LT(kvr, n))
							}
						} else if ln, ok := a.lenOf(c, x.X); ok { // string
							c.L.Add(lin.LE(lin.Const(0), kvr))
							c.L.Add(lin.LT(kvr, ln))
						}
					}
				}
				if i == 1 {
					if _, isSl := o.Type().Underlying().(*types.Slice); isSl {
						a.lenAtom(c, id, "len")
					}
				}
			}
		}
		out := a.execBlock(x.Body.List, in)
		out = join(out, lc.cnt)
		a.loops = a.loops[:len(a.loops)-1]
		return out, join(lc.brk, hs)
	}
	for iter := 0; iter < 12; iter++ {
		back, _ := runBody(head)
		if back.dead() {
			break
		}
		nh := meetConj(head, back.collapse(true), false)
		if lin.Equal(nh.L, head.L) && sameNil(nh, head) {
			head = nh
			break
		}
		head = nh
		if iter == 11 {
			head = newConj()
		}
	}
	a.record = savedRecord
	_, exits := runBody(head)
	return exits
}

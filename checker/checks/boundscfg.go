package checks

import (
	"fmt"
	"go/ast"
	"go/token"
	"go/types"
	"sort"

	"golang.org/x/tools/go/packages"

	"csverify/bounds"
	"csverify/core"
	"csverify/lin"
)

const csp = core.ModulePath

// leafPost: err == nil ⇒ 1 ≤ n ≤ len(p)   (n is result 1, p is parameter 0)
func leafPost(exact int64) func(v bounds.View) []lin.Fact {
	return func(v bounds.View) []lin.Fact {
		n, ok1 := v.Result(1)
		l, ok2 := v.ParamLen(0)
		if !ok1 || !ok2 {
			return nil
		}
		out := []lin.Fact{lin.LE(lin.Const(1), n), lin.LE(n, l)}
		if exact > 0 {
			out = append(out, lin.LE(lin.Const(exact), n), lin.LE(n, lin.Const(exact)))
		}
		return out
	}
}

// decoderInv: 0 ≤ d.offset ≤ len(d.p)
func decoderInv(v bounds.View) []lin.Fact {
	off, ok1 := v.RecvField("offset")
	lp, ok2 := v.RecvFieldLen("p")
	if !ok1 || !ok2 {
		return nil
	}
	return []lin.Fact{lin.LE(lin.Const(0), off), lin.LE(off, lp)}
}

// boundsConfig builds the engine configuration shared by C03/C08/C13/C19/C20.
// withSkipPre selects the contract pass of (*Decoder).Skip (see DESIGN §3.1).
func boundsConfig(prog *core.Program, pk *packages.Package, withSkipPre bool) *bounds.Config {
	mode := ""
	if withSkipPre {
		mode = "lemma"
	}
	return boundsConfigSkip(prog, pk, mode)
}

// boundsConfigSkip selects a contract pass for (*Decoder).Skip:
//
//	""       no caller-side hypothesis (bounds obligations)
//	"lemma"  cursor is past a key of this tag ⇒ the result is key + payload
//	"wtN"    wire type N ⇒ the cursor advances by the payload width of N
func boundsConfigSkip(prog *core.Program, pk *packages.Package, skipMode string) *bounds.Config {
	withSkipPre := skipMode == "lemma"
	cfg := &bounds.Config{
		Info:  pk.TypesInfo,
		Fset:  prog.Fset,
		Sizes: pk.TypesSizes,
		Specs: map[string]*bounds.FuncSpec{
			csp + ".DecodeVarint":   {ErrIdx: 2, Post: leafPost(0)},
			csp + ".DecodeZigZag32": {ErrIdx: 2, Post: leafPost(0)},
			csp + ".DecodeZigZag64": {ErrIdx: 2, Post: leafPost(0)},
			csp + ".DecodeFixed32":  {ErrIdx: 2, Post: leafPost(4)},
			csp + ".DecodeFixed64":  {ErrIdx: 2, Post: leafPost(8)},
		},
		PureRanges: map[string]bounds.Range{
			csp + ".SizeOfTagKey": {Lo: 1, Hi: 10},
			csp + ".SizeOfVarint": {Lo: 1, Hi: 10},
			csp + ".SizeOfZigZag": {Lo: 1, Hi: 10},
		},
		ImmutableFields: map[string]bool{csp + ".Decoder.p": true},
		RawReaders: map[string]int64{
			"encoding/binary.littleEndian.Uint16": 2,
			"encoding/binary.littleEndian.Uint32": 4,
			"encoding/binary.littleEndian.Uint64": 8,
			"encoding/binary.bigEndian.Uint16":    2,
			"encoding/binary.bigEndian.Uint32":    4,
			"encoding/binary.bigEndian.Uint64":    8,
		},
		TaintSources: map[string]bool{
			csp + ".DecodeVarint": true, csp + ".DecodeZigZag32": true, csp + ".DecodeZigZag64": true,
			csp + ".DecodeFixed32": true, csp + ".DecodeFixed64": true,
		},
		FieldInvs: map[string]bounds.FieldInv{
			csp + ".Decoder.offset": func(val lin.Expr, sib func(string) (lin.Expr, bool)) []lin.Fact {
				lp, ok := sib("p")
				if !ok {
					return []lin.Fact{lin.LE(lin.Const(1), lin.Const(0))}
				}
				return []lin.Fact{lin.LE(lin.Const(0), val), lin.LE(val, lp)}
			},
		},
	}
	// every method of *Decoder keeps the class invariant
	if root := prog.Pkg(""); root != nil {
		if obj := root.Types.Scope().Lookup("Decoder"); obj != nil {
			ms := types.NewMethodSet(types.NewPointer(obj.Type()))
			for i := 0; i < ms.Len(); i++ {
				f := ms.At(i).Obj().(*types.Func)
				qn := bounds.QualifiedName(f)
				sp := &bounds.FuncSpec{ErrIdx: -1, Inv: decoderInv}
				sig := f.Type().(*types.Signature)
				for j := 0; j < sig.Results().Len(); j++ {
					if sig.Results().At(j).Type().String() == "error" {
						sp.ErrIdx = j
					}
				}
				cfg.Specs[qn] = sp
			}
		}
	}
	// Skip: err == nil ⇒ len(result) ≥ SizeOfTagKey(tag), given the caller's cursor is past a key of that tag.
	if sk := cfg.Specs[csp+".(*Decoder).Skip"]; sk != nil {
		sk.Post = func(v bounds.View) []lin.Fact {
			tag, ok1 := v.Param(0)
			rl, ok2 := v.ResultLen(0)
			if !ok1 || !ok2 {
				return nil
			}
			sz, ok := v.Pure("SizeOfTagKey", tag)
			if !ok {
				return nil
			}
			out := []lin.Fact{lin.LE(sz, rl)}
			if withSkipPre {
				// complete field: len(result) = key size + bytes consumed
				off, ok3 := v.RecvField("offset")
				off0, ok4 := v.RecvFieldEntry("offset")
				if ok3 && ok4 {
					out = append(out, lin.LE(rl, sz.Add(off).Sub(off0)), lin.LE(sz.Add(off).Sub(off0), rl))
				}
			}
			return out
		}
		if len(skipMode) == 3 && skipMode[:2] == "wt" {
			wtv := int64(skipMode[2] - '0')
			sk.Pre = func(v bounds.View) []lin.Fact {
				wt, ok := v.Param(1)
				if !ok {
					return nil
				}
				return []lin.Fact{lin.LE(wt, lin.Const(wtv)), lin.LE(lin.Const(wtv), wt)}
			}
			sk.Post = func(v bounds.View) []lin.Fact {
				off, ok3 := v.RecvField("offset")
				off0, ok4 := v.RecvFieldEntry("offset")
				if !ok3 || !ok4 {
					return []lin.Fact{lin.LE(lin.Const(1), lin.Const(0))}
				}
				adv := off.Sub(off0)
				switch wtv {
				case 1:
					return []lin.Fact{lin.LE(adv, lin.Const(8)), lin.LE(lin.Const(8), adv)}
				case 5:
					return []lin.Fact{lin.LE(adv, lin.Const(4)), lin.LE(lin.Const(4), adv)}
				case 0:
					return []lin.Fact{lin.LE(lin.Const(1), adv)}
				case 2:
					return []lin.Fact{lin.LE(lin.Const(1), adv)}
				default:
					// unsupported wire types must not reach a success return
					return []lin.Fact{lin.LE(lin.Const(1), lin.Const(0))}
				}
			}
		}
		if withSkipPre {
			sk.Pre = func(v bounds.View) []lin.Fact {
				tag, ok1 := v.Param(0)
				off, ok2 := v.RecvFieldEntry("offset")
				if !ok1 || !ok2 {
					return nil
				}
				sz, ok := v.Pure("SizeOfTagKey", tag)
				if !ok {
					return nil
				}
				return []lin.Fact{lin.LE(sz, off)}
			}
		}
	}
	// DecodeBytes: err == nil ⇒ len(result) ≥ 0 (trivial) — nothing to add.
	inferPeekContracts(prog, pk, cfg)
	return cfg
}

// inferPeekContracts gives unexported helper methods of *Decoder that have no declared contract a candidate one and
// keeps it only if the engine proves it on the helper's own body (guess and check): for a method with results
// (…, n int, …, err error) the candidate is that of a non-advancing reader,
//
//	err == nil  ⇒  1 ≤ n ≤ len(d.p) − d.offset   and   d.offset is unchanged
//
// which is what callers need to advance the cursor by n. A candidate that is not proved is dropped silently (the
// callers' obligations are then undecided, as before). Exported methods keep their declared contracts.
func inferPeekContracts(prog *core.Program, pk *packages.Package, cfg *bounds.Config) {
	root := prog.Pkg("")
	if root == nil || pk != root {
		return
	}
	for _, f := range core.Funcs(root) {
		if f.Decl == nil || f.Decl.Recv == nil || f.Obj == nil || f.Obj.Exported() || f.Decl.Body == nil {
			continue
		}
		qn := bounds.QualifiedName(f.Obj)
		sp := cfg.Specs[qn]
		if sp == nil || sp.Post != nil || sp.ErrIdx < 0 {
			continue
		}
		sig := f.Obj.Type().(*types.Signature)
		nIdx := -1
		for j := 0; j < sig.Results().Len(); j++ {
			if b, ok := sig.Results().At(j).Type().Underlying().(*types.Basic); ok && b.Kind() == types.Int {
				nIdx = j
			}
		}
		if nIdx < 0 {
			continue
		}
		idx := nIdx
		// candidates from strong to weak: the first one proved on the helper's own body is kept. The weak one is
		// that of a helper which measures an item without checking that its bytes are there (the caller checks).
		for _, withAvail := range []bool{true, false} {
			withAvail := withAvail
			sp.Post = func(v bounds.View) []lin.Fact {
				n, ok1 := v.Result(idx)
				off, ok2 := v.RecvField("offset")
				off0, ok3 := v.RecvFieldEntry("offset")
				lp, ok4 := v.RecvFieldLen("p")
				if !ok1 || !ok2 || !ok3 || !ok4 {
					return []lin.Fact{lin.LE(lin.Const(1), lin.Const(0))}
				}
				fs := []lin.Fact{lin.LE(lin.Const(1), n), lin.LE(off, off0), lin.LE(off0, off)}
				if withAvail {
					fs = append(fs, lin.LE(n.Add(off), lp))
				}
				return fs
			}
			obs, unsup := bounds.Analyze(cfg, funcSource(root, f, false))
			proved := len(unsup) == 0
			for _, ob := range obs {
				if ob.Rule == "O-post" && !ob.OK {
					proved = false
				}
			}
			if proved {
				break
			}
			sp.Post = nil
		}
	}
}

// funcSource adapts a core.FuncInfo for the engine.
func funcSource(pk *packages.Package, f *core.FuncInfo, progress bool) *bounds.Source {
	src := &bounds.Source{Name: f.Name, Type: f.Type(), Body: f.Body(), CheckProgress: progress}
	if f.Decl != nil {
		src.Recv = f.Decl.Recv
		if f.Obj != nil {
			src.Sig = f.Obj.Type().(*types.Signature)
			src.QName = bounds.QualifiedName(f.Obj)
		}
	} else if f.Lit != nil {
		if t, ok := pk.TypesInfo.TypeOf(f.Lit).(*types.Signature); ok {
			src.Sig = t
		}
	}
	return src
}

type obKeyer struct{ seen map[string]int }

// key makes "<func> <rule> <site>" unique within a run without using line numbers.
func (k *obKeyer) key(fn, site string) string {
	if k.seen == nil {
		k.seen = map[string]int{}
	}
	base := fn + " :: " + site
	k.seen[base]++
	if n := k.seen[base]; n > 1 {
		return fmt.Sprintf("%s #%d", base, n)
	}
	return base
}

// runBounds analyses the given functions and records their obligations.
// keep filters obligation rules (nil = all).
func runBounds(r *core.Result, prog *core.Program, pk *packages.Package, cfg *bounds.Config, funcs []*core.FuncInfo, progress func(*core.FuncInfo) bool, keep func(fn *core.FuncInfo, ob bounds.Ob) bool) (nFuncs int) {
	keyer := &obKeyer{}
	for _, f := range funcs {
		nFuncs++
		obs, unsup := bounds.Analyze(cfg, funcSource(pk, f, progress != nil && progress(f)))
		for _, u := range unsup {
			r.Fail("unsupported-construct", f.Name+" :: "+u, prog.Pos(f.Pos()), "the engine does not model this construct; obligations in this function are undecided (fail closed)")
		}
		for _, ob := range obs {
			if keep != nil && !keep(f, ob) {
				continue
			}
			r.Ob(ob.Rule, keyer.key(f.Name, ob.Site), prog.Pos(ob.Pos), ob.OK, ob.Detail)
		}
	}
	return
}

// storesToField lists the assignments to a struct field anywhere in the package.
func storesToField(pk *packages.Package, typeName, field string) []token.Pos {
	var out []token.Pos
	for _, file := range pk.Syntax {
		ast.Inspect(file, func(n ast.Node) bool {
			var targets []ast.Expr
			switch s := n.(type) {
			case *ast.AssignStmt:
				targets = s.Lhs
			case *ast.IncDecStmt:
				targets = []ast.Expr{s.X}
			case *ast.UnaryExpr:
				if s.Op == token.AND {
					targets = []ast.Expr{s.X}
				}
			}
			for _, t := range targets {
				if se, ok := t.(*ast.SelectorExpr); ok && se.Sel.Name == field {
					if sel := pk.TypesInfo.Selections[se]; sel != nil && sel.Kind() == types.FieldVal {
						rt := sel.Recv()
						if p, ok := rt.(*types.Pointer); ok {
							rt = p.Elem()
						}
						if n, ok := rt.(*types.Named); ok && n.Obj().Name() == typeName {
							out = append(out, se.Pos())
						}
					}
				}
			}
			return true
		})
	}
	sort.Slice(out, func(i, j int) bool { return out[i] < out[j] })
	return out
}

func isInt(t types.Type) bool {
	if t == nil {
		return false
	}
	b, ok := t.Underlying().(*types.Basic)
	return ok && b.Info()&types.IsInteger != 0
}

package checks

import (
	"fmt"
	"go/ast"
	"go/token"
	"go/types"
	"sort"
	"strings"

	"golang.org/x/tools/go/packages"

	"csverify/bounds"
	"csverify/core"
	"csverify/sym"
	"csverify/symexec"
)

func init() { register("C01", checkC01) }

// ---------------------------------------------------------------------------
// spec table for the Encoder (DESIGN Appendix A). Written from the protobuf
// encoding spec; C04 uses the same table for generated MarshalTo code.

type encSpec struct {
	wire  string // WireType constant passed to EncodeTag ("" = no key written)
	bytes func(args []*sym.E) *sym.E
}

// tk is the size of a field key; for a constant field number it is folded
// (varint length of number<<3, the definition of SizeOfTagKey).
func tk(tag *sym.E) *sym.E {
	if tag.K == sym.KConst && tag.N > 0 {
		v := uint64(tag.N) << 3
		n := int64(1)
		for v >= 0x80 {
			v >>= 7
			n++
		}
		return sym.Const(n)
	}
	return sym.Fn("TK", tag)
}
func sv(x *sym.E) *sym.E { return sym.Fn("SV", x) }
func sz(x *sym.E) *sym.E { return sym.Fn("SZ", x) }
func ext(kind string, x *sym.E) *sym.E {
	if kind == "" {
		return x
	}
	return sym.Fn("ext["+kind+"]", x)
}
func ln(x *sym.E) *sym.E { return sym.Fn("len", x) }

func scalarVarint(kind string, zig bool) func([]*sym.E) *sym.E {
	return func(a []*sym.E) *sym.E {
		if zig {
			return sym.Sum(tk(a[0]), sz(ext(kind, a[1])))
		}
		return sym.Sum(tk(a[0]), sv(ext(kind, a[1])))
	}
}
func scalarFixed(w int64) func([]*sym.E) *sym.E {
	return func(a []*sym.E) *sym.E { return sym.Sum(tk(a[0]), sym.Const(w)) }
}
func lenDelim(a []*sym.E) *sym.E { return sym.Sum(tk(a[0]), sv(ln(a[1])), ln(a[1])) }
func packedVarint(kind string, zig bool) func([]*sym.E) *sym.E {
	return func(a []*sym.E) *sym.E {
		el := sv(ext(kind, sym.Atom("x")))
		if zig {
			el = sz(ext(kind, sym.Atom("x")))
		}
		payload := sym.Big("x", a[1], el)
		return sym.Guard("len("+a[1].String()+")>0", sym.Sum(tk(a[0]), sv(payload), payload))
	}
}
func packedFixed(w int64) func([]*sym.E) *sym.E {
	return func(a []*sym.E) *sym.E {
		payload := sym.Mul(w, ln(a[1]))
		return sym.Guard("len("+a[1].String()+")>0", sym.Sum(tk(a[0]), sv(payload), payload))
	}
}

var encoderSpec = map[string]encSpec{
	"EncodeBool":           {"WireTypeVarint", scalarFixed(1)},
	"EncodeString":         {"WireTypeLengthDelimited", lenDelim},
	"EncodeBytes":          {"WireTypeLengthDelimited", lenDelim},
	"EncodeUInt32":         {"WireTypeVarint", scalarVarint("zx32", false)},
	"EncodeUInt64":         {"WireTypeVarint", scalarVarint("", false)},
	"EncodeInt32":          {"WireTypeVarint", scalarVarint("sx32", false)},
	"EncodeInt64":          {"WireTypeVarint", scalarVarint("", false)},
	"EncodeSInt32":         {"WireTypeVarint", scalarVarint("sx32", true)},
	"EncodeSInt64":         {"WireTypeVarint", scalarVarint("", true)},
	"EncodeFixed32":        {"WireTypeFixed32", scalarFixed(4)},
	"EncodeFixed64":        {"WireTypeFixed64", scalarFixed(8)},
	"EncodeFloat32":        {"WireTypeFixed32", scalarFixed(4)},
	"EncodeFloat64":        {"WireTypeFixed64", scalarFixed(8)},
	"EncodePackedBool":     {"WireTypeLengthDelimited", packedFixed(1)},
	"EncodePackedInt32":    {"WireTypeLengthDelimited", packedVarint("sx32", false)},
	"EncodePackedInt64":    {"WireTypeLengthDelimited", packedVarint("", false)},
	"EncodePackedUInt32":   {"WireTypeLengthDelimited", packedVarint("zx32", false)},
	"EncodePackedUInt64":   {"WireTypeLengthDelimited", packedVarint("", false)},
	"EncodePackedSInt32":   {"WireTypeLengthDelimited", packedVarint("sx32", true)},
	"EncodePackedSInt64":   {"WireTypeLengthDelimited", packedVarint("", true)},
	"EncodePackedFixed32":  {"WireTypeLengthDelimited", packedFixed(4)},
	"EncodePackedFixed64":  {"WireTypeLengthDelimited", packedFixed(8)},
	"EncodePackedSFixed32": {"WireTypeLengthDelimited", packedFixed(4)},
	"EncodePackedSFixed64": {"WireTypeLengthDelimited", packedFixed(8)},
	"EncodePackedFloat32":  {"WireTypeLengthDelimited", packedFixed(4)},
	"EncodePackedFloat64":  {"WireTypeLengthDelimited", packedFixed(8)},
	"EncodeRaw":            {"", func(a []*sym.E) *sym.E { return ln(a[0]) }},
	"EncodeMapEntryHeader": {"WireTypeLengthDelimited", func(a []*sym.E) *sym.E { return sym.Sum(tk(a[0]), sv(a[1])) }},
}

// ---------------------------------------------------------------------------
// symbolic summary of an Encoder method from its source

type encAnalysis struct {
	pk       *packages.Package
	prog     *core.Program
	problems []string
	wires    map[string][]string // method -> wire type constants passed to EncodeTag
	depth    int
}

// isRecvSel: expr is <recv>.<field>
func isRecvSel(info *types.Info, e ast.Expr, recv types.Object, field string) bool {
	se, ok := e.(*ast.SelectorExpr)
	if !ok || se.Sel.Name != field {
		return false
	}
	id, ok := se.X.(*ast.Ident)
	return ok && info.Uses[id] == recv
}

// isCursorSlice: e is recv.p[recv.offset:]
func isCursorSlice(info *types.Info, e ast.Expr, recv types.Object) bool {
	sl, ok := e.(*ast.SliceExpr)
	if !ok || sl.High != nil || sl.Max != nil || sl.Low == nil {
		return false
	}
	return isRecvSel(info, sl.X, recv, "p") && isRecvSel(info, sl.Low, recv, "offset")
}

func staticCallee(info *types.Info, call *ast.CallExpr) *types.Func {
	var id *ast.Ident
	switch f := call.Fun.(type) {
	case *ast.Ident:
		id = f
	case *ast.SelectorExpr:
		id = f.Sel
	}
	if id == nil {
		return nil
	}
	f, _ := info.Uses[id].(*types.Func)
	return f
}

var writingLeaf = map[string]bool{"EncodeTag": true, "EncodeVarint": true, "EncodeZigZag32": true, "EncodeZigZag64": true, "EncodeFixed32": true, "EncodeFixed64": true}

// summarize computes the bytes by which an Encoder method advances e.offset.
func (ea *encAnalysis) summarize(name string) (*sym.E, []symexec.Problem, bool) {
	f := core.FindFunc(ea.pk, "(*Encoder)."+name)
	if f == nil || f.Decl.Recv == nil || len(f.Decl.Recv.List[0].Names) == 0 {
		return nil, nil, false
	}
	info := ea.pk.TypesInfo
	recv := info.Defs[f.Decl.Recv.List[0].Names[0]]
	ea.wires[name] = nil
	var pending *sym.E
	var pendingPos token.Pos
	var it *symexec.Interp
	bad := func(n ast.Node, format string, a ...interface{}) {
		it.Problems = append(it.Problems, symexec.Problem{Pos: n.Pos(), What: fmt.Sprintf(format, a...)})
	}
	leafValue := func(call *ast.CallExpr) (*sym.E, bool, bool) {
		fn := staticCallee(info, call)
		if fn == nil || fn.Pkg() == nil {
			return nil, false, false
		}
		if fn.Pkg() == ea.pk.Types && fn.Type().(*types.Signature).Recv() == nil {
			needCursor := func() {
				if len(call.Args) == 0 || !isCursorSlice(info, call.Args[0], recv) {
					bad(call, "%s does not write at the cursor (destination must be e.p[e.offset:])", fn.Name())
				}
			}
			switch fn.Name() {
			case "EncodeTag":
				needCursor()
				wt := "?"
				if id, ok := call.Args[2].(*ast.Ident); ok {
					wt = id.Name
				}
				ea.wires[name] = append(ea.wires[name], wt)
				return tk(it.Eval(call.Args[1])), true, true
			case "EncodeVarint":
				needCursor()
				return sv(it.Eval(call.Args[1])), true, true
			case "EncodeZigZag32":
				needCursor()
				return sz(ext("sx32", it.Eval(call.Args[1]))), true, true
			case "EncodeZigZag64":
				needCursor()
				return sz(it.Eval(call.Args[1])), true, true
			case "EncodeFixed32":
				needCursor()
				return sym.Const(4), true, true
			case "EncodeFixed64":
				needCursor()
				return sym.Const(8), true, true
			case "SizeOfVarint":
				return sv(it.Eval(call.Args[0])), true, false
			case "SizeOfZigZag":
				return sz(it.Eval(call.Args[0])), true, false
			case "SizeOfTagKey":
				return tk(it.Eval(call.Args[0])), true, false
			}
		}
		return nil, false, false
	}
	hooks := symexec.Hooks{
		IsAccum: func(_ *symexec.Interp, lhs ast.Expr) bool { return isRecvSel(info, lhs, recv, "offset") },
		CallValue: func(_ *symexec.Interp, call *ast.CallExpr) (*sym.E, bool) {
			if v, ok, _ := leafValue(call); ok {
				return v, true
			}
			if fn := staticCallee(info, call); fn != nil && fn.Name() == "stringToBytes" && len(call.Args) == 1 {
				// same bytes, same length (unsafe view of the string)
				if p, ok := it.Path(call.Args[0]); ok {
					return sym.Atom(p), true
				}
			}
			if fn := staticCallee(info, call); fn != nil && fn.Pkg() != nil && fn.Pkg().Path() == "math" {
				return sym.Atom("bits"), true
			}
			return nil, false
		},
		CallStmt: func(_ *symexec.Interp, call *ast.CallExpr) (*sym.E, bool) {
			// call of a sibling Encoder method on the same receiver
			se, ok := call.Fun.(*ast.SelectorExpr)
			if !ok {
				return nil, false
			}
			if id, ok := se.X.(*ast.Ident); !ok || info.Uses[id] != recv {
				return nil, false
			}
			if ea.depth > 3 {
				return nil, false
			}
			ea.depth++
			sub, probs, ok := ea.summarize(se.Sel.Name)
			ea.depth--
			if !ok {
				return nil, false
			}
			ea.wires[name] = append(ea.wires[name], ea.wires[se.Sel.Name]...)
			for _, p := range probs {
				it.Problems = append(it.Problems, p)
			}
			callee := core.FindFunc(ea.pk, "(*Encoder)."+se.Sel.Name)
			i := 0
			for _, fld := range callee.Decl.Type.Params.List {
				for _, nm := range fld.Names {
					if i < len(call.Args) {
						var arg *sym.E
						if p, ok := it.Path(call.Args[i]); ok && !isInt(info.TypeOf(call.Args[i])) {
							arg = sym.Atom(p)
						} else {
							arg = it.Eval(call.Args[i])
						}
						sub = sub.Subst(nm.Name, arg)
					}
					i++
				}
			}
			return sub, true
		},
	}
	it = symexec.New(info, ea.prog.Fset, hooks)
	setPending := func(n ast.Node, w *sym.E) {
		if pending != nil && !sym.Equal(pending, w) {
			bad(n, "second write before the cursor advanced past the previous one")
		}
		pending, pendingPos = w, n.Pos()
	}
	it.Hooks.Stmt = func(_ *symexec.Interp, s ast.Stmt) bool {
		switch x := s.(type) {
		case *ast.ExprStmt:
			call, ok := x.X.(*ast.CallExpr)
			if !ok {
				return false
			}
			fn := staticCallee(info, call)
			if fn != nil && fn.Pkg() != nil && fn.Pkg().Path() == "encoding/binary" {
				w := map[string]int64{"PutUint16": 2, "PutUint32": 4, "PutUint64": 8}[fn.Name()]
				if w == 0 {
					return false
				}
				if !isCursorSlice(info, call.Args[0], recv) {
					bad(call, "raw write does not target the cursor (destination must be e.p[e.offset:])")
				}
				setPending(call, sym.Const(w))
				return true
			}
			if id, ok := call.Fun.(*ast.Ident); ok {
				if b, ok := info.Uses[id].(*types.Builtin); ok && b.Name() == "copy" {
					if !isCursorSlice(info, call.Args[0], recv) {
						bad(call, "copy does not target the cursor (destination must be e.p[e.offset:])")
					}
					if p, ok := it.Path(call.Args[1]); ok {
						setPending(call, ln(sym.Atom(p)))
					} else {
						setPending(call, ln(it.Eval(call.Args[1])))
					}
					return true
				}
			}
		case *ast.AssignStmt:
			if len(x.Lhs) == 1 && x.Tok == token.ASSIGN {
				if ix, ok := x.Lhs[0].(*ast.IndexExpr); ok && isRecvSel(info, ix.X, recv, "p") {
					if !isRecvSel(info, ix.Index, recv, "offset") {
						bad(x, "byte store is not at the cursor (index must be e.offset)")
					}
					setPending(x, sym.Const(1))
					return true
				}
			}
			// e.offset += <non-leaf>: must match the pending write
			if len(x.Lhs) == 1 && isRecvSel(info, x.Lhs[0], recv, "offset") && x.Tok == token.ADD_ASSIGN {
				if call, ok := x.Rhs[0].(*ast.CallExpr); ok {
					if fn := staticCallee(info, call); fn != nil && fn.Pkg() == ea.pk.Types && writingLeaf[fn.Name()] {
						if pending != nil {
							bad(x, "cursor advanced by a leaf encoder while %s bytes written earlier were not accounted for", pending)
						}
						return false // generic accumulation
					}
				}
				d := it.Eval(x.Rhs[0])
				if pending == nil {
					bad(x, "cursor advanced by %s without a preceding write of that many bytes", d)
				} else if !sym.Equal(d, pending) {
					bad(x, "cursor advanced by %s after a write of %s bytes", d, pending)
				}
				pending = nil
				return false
			}
		case *ast.IncDecStmt:
			if isRecvSel(info, x.X, recv, "offset") && x.Tok == token.INC {
				if pending == nil {
					bad(x, "cursor advanced by 1 without a preceding write")
				} else if !sym.Equal(pending, sym.Const(1)) {
					bad(x, "cursor advanced by 1 after a write of %s bytes", pending)
				}
				pending = nil
				return false
			}
		}
		return false
	}
	it.Run(f.Decl.Body.List)
	if pending != nil {
		it.Problems = append(it.Problems, symexec.Problem{Pos: pendingPos, What: fmt.Sprintf("write of %s bytes is never followed by a cursor advance", pending)})
	}
	return it.Total, it.Problems, true
}

func paramAtoms(f *core.FuncInfo) []*sym.E {
	var out []*sym.E
	for _, fld := range f.Decl.Type.Params.List {
		for _, nm := range fld.Names {
			out = append(out, sym.Atom(nm.Name))
		}
	}
	return out
}

// checkEncoderTable compares every Encoder method with the spec table.
func checkEncoderTable(r *core.Result, prog *core.Program, skip map[string]bool) int {
	root := prog.Pkg("")
	ea := &encAnalysis{pk: root, prog: prog, wires: map[string][]string{}}
	n := 0
	var names []string
	for _, f := range core.Funcs(root, "encoder.go") {
		if f.Decl != nil && strings.HasPrefix(f.Name, "(*Encoder).") {
			names = append(names, strings.TrimPrefix(f.Name, "(*Encoder)."))
		}
	}
	sort.Strings(names)
	for _, name := range names {
		if skip[name] || name == "stringToBytes" {
			continue
		}
		f := core.FindFunc(root, "(*Encoder)."+name)
		pos := prog.Pos(f.Pos())
		spec, ok := encoderSpec[name]
		if !ok {
			r.Fail("E-table", "(*Encoder)."+name, pos, "Encoder method has no row in the spec table (new method: add its byte-count summary to checks/c01.go)")
			continue
		}
		n++
		got, probs, ok := ea.summarize(name)
		if !ok {
			r.Fail("E-bytes", "(*Encoder)."+name, pos, "method could not be analysed")
			continue
		}
		for _, p := range probs {
			r.Ob("E-write-advance", "(*Encoder)."+name+" :: "+p.What, prog.Pos(p.Pos), false, p.What)
		}
		if len(probs) == 0 {
			r.Ob("E-write-advance", "(*Encoder)."+name, pos, true, "")
		}
		want := spec.bytes(paramAtoms(f))
		eq := sym.Equal(got, want)
		detail := ""
		if !eq {
			detail = fmt.Sprintf("bytes by which the cursor advances, from the source: %s; spec table: %s", got, want)
		}
		r.Ob("E-bytes", "(*Encoder)."+name, pos, eq, detail)
		r.Sample(map[string]string{"method": name, "advance": got.String()})
		ws := ea.wires[name]
		okw := true
		if spec.wire == "" {
			okw = len(ws) == 0
		} else {
			okw = len(ws) == 1 && ws[0] == spec.wire
		}
		r.Ob("E-wiretype", "(*Encoder)."+name, pos, okw, fmt.Sprintf("key written with wire type(s) %v, spec table says %q", ws, spec.wire))
	}
	return n
}

// leaf encoders: structural contracts
func checkLeafEncoders(r *core.Result, prog *core.Program) {
	root := prog.Pkg("")
	info := root.TypesInfo
	// EncodeFixed32/64 return the width they wrote
	for name, w := range map[string]string{"EncodeFixed32": "4", "EncodeFixed64": "8"} {
		f := core.FindFunc(root, name)
		if f == nil {
			r.Fail("anchor", name, "", "function not found")
			continue
		}
		ok := false
		put := ""
		ast.Inspect(f.Decl.Body, func(n ast.Node) bool {
			if c, isC := n.(*ast.CallExpr); isC {
				if fn := staticCallee(info, c); fn != nil && fn.Pkg() != nil && fn.Pkg().Path() == "encoding/binary" {
					put = fn.Name()
				}
			}
			if ret, isR := n.(*ast.ReturnStmt); isR && len(ret.Results) == 1 {
				if tv := info.Types[ret.Results[0]]; tv.Value != nil && tv.Value.ExactString() == w {
					ok = true
				} else {
					ok = false
				}
			}
			return true
		})
		wantPut := map[string]string{"4": "PutUint32", "8": "PutUint64"}[w]
		r.Ob("E-leaf", name+" writes and returns "+w, prog.Pos(f.Pos()), ok && put == wantPut, fmt.Sprintf("expected %s(dest, v) and `return %s`; found write=%q", wantPut, w, put))
	}
	// EncodeTag / EncodeZigZag32/64 return what EncodeVarint returns, on the same destination
	for _, name := range []string{"EncodeTag", "EncodeZigZag32", "EncodeZigZag64"} {
		f := core.FindFunc(root, name)
		if f == nil {
			r.Fail("anchor", name, "", "function not found")
			continue
		}
		ok := false
		var dest types.Object
		if len(f.Decl.Type.Params.List) > 0 && len(f.Decl.Type.Params.List[0].Names) > 0 {
			dest = info.Defs[f.Decl.Type.Params.List[0].Names[0]]
		}
		nret := 0
		ast.Inspect(f.Decl.Body, func(n ast.Node) bool {
			if ret, isR := n.(*ast.ReturnStmt); isR {
				nret++
				if len(ret.Results) == 1 {
					if c, isC := ret.Results[0].(*ast.CallExpr); isC {
						if fn := staticCallee(info, c); fn != nil && fn.Name() == "EncodeVarint" && fn.Pkg() == root.Types {
							if id, isID := c.Args[0].(*ast.Ident); isID && info.Uses[id] == dest {
								ok = true
							}
						}
					}
				}
			}
			return true
		})
		r.Ob("E-leaf", name+" returns EncodeVarint(dest, …)", prog.Pos(f.Pos()), ok && nret == 1, "the byte count returned must be the varint writer's, on the caller's destination")
	}
}

func checkC01(r *core.Result) {
	r.Explanation = "Static, per-path comparison of the hand-written codec with a spec table. (1) For each of the Encoder's scalar/packed methods a symbolic interpreter computes the amount by which the write cursor advances on every path (uninterpreted atoms TK/SV/SZ/len, Σ over list elements) and checks the write–advance pairing (every raw write is at the cursor and is followed by an advance of exactly the bytes written); the normal form must equal the spec row, so the packed length prefix is the same expression as the payload and sizing and writing loops use the same conversion. " +
		"(2) sibling table: wire type constant per Encode* method; leaf codec class per Decode*/DecodePacked* method (resolved callees). (3) reject-predicate intervals: the set of varint values each reader rejects with an overflow / invalid-tag error is computed exactly from the comparison structure of the source (finite union of intervals) and must not meet the values a conforming writer emits; scalar and packed readers of one kind agree. (4) size helpers range (shared with C03)."
	r.RuleText = "one obligation per (rule, method); all Encoder methods except EncodeNested (C19) and all Decoder readers are enumerated"
	r.Assumptions = []string{
		"not decided: that varint/zig-zag arithmetic inverts (byte contents), float bit patterns; the varint LENGTH is decided per bit-length class (E-varint-size)",
		"trusted numeric lemmas: EncodeZigZag32(v) has the size SizeOfZigZag(uint64(v)) for int32 v; SizeOfTagKey(c) for constant c",
	}
	r.Trusted = []string{"spec table in checks/c01.go (written from the protobuf encoding documentation)", "go/types", "sym normalisation (uninterpreted atoms ⇒ equal normal forms are equal for all values)"}
	prog, err := core.Load("./")
	if err != nil {
		r.Infra("%v", err)
		return
	}
	n := checkEncoderTable(r, prog, map[string]bool{"EncodeNested": true})
	r.Floor("Encoder methods compared with the spec table", n, 28)
	checkLeafEncoders(r, prog)
	nd := checkDecoderSiblings(r, prog)
	r.Floor("Decoder readers in the sibling table", nd, 25)
	np := checkRejectPredicates(r, prog, "C01")
	r.Floor("reject predicates evaluated", np, 8)
	verifyPureRanges(r, prog)
	checkVarintClasses(r, prog)
	// (6) value-level round trip, bit for bit, on every partition of the input space
	checkBitRoundTrips(r, prog, prog.Pkg(""), r.Tier == "thorough")
	_ = bounds.QualifiedName
}

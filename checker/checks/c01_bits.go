package checks

import (
	"fmt"
	"go/ast"
	"go/types"
	"sort"
	"strings"

	"golang.org/x/tools/go/packages"

	"csverify/bitdom"
	"csverify/bitexec"
	"csverify/core"
)

// Value-level round trip of the wire primitives, decided by path-partitioned abstract interpretation over the
// bit-provenance domain (packages bitdom / bitexec): for every partition of the input space, the decoder applied
// to the encoder's output yields, bit for bit, the affine forms of the input; the cursor ends where the encoder's
// did; the byte count equals the size helper's. See DESIGN.md §3.8.

type bitKind struct {
	name     string // suffix of Encode<name>
	dec      string // suffix of Decode<name>
	width    int
	signed   bool
	float    bool
	boolean  bool
	wire     uint64
	size     string // "varint", "zigzag", "4", "8", "1"
	packed   string // EncodePacked<…>
	packedD  string // DecodePacked<…>
	sfixedOf string
}

var bitKinds = []bitKind{
	{name: "Bool", dec: "Bool", boolean: true, wire: 0, size: "1", packed: "Bool", packedD: "Bool"},
	{name: "Int32", dec: "Int32", width: 32, signed: true, wire: 0, size: "varint", packed: "Int32", packedD: "Int32"},
	{name: "Int64", dec: "Int64", width: 64, signed: true, wire: 0, size: "varint", packed: "Int64", packedD: "Int64"},
	{name: "UInt32", dec: "UInt32", width: 32, wire: 0, size: "varint", packed: "UInt32", packedD: "Uint32"},
	{name: "UInt64", dec: "UInt64", width: 64, wire: 0, size: "varint", packed: "UInt64", packedD: "Uint64"},
	{name: "SInt32", dec: "SInt32", width: 32, signed: true, wire: 0, size: "zigzag", packed: "SInt32", packedD: "Sint32"},
	{name: "SInt64", dec: "SInt64", width: 64, signed: true, wire: 0, size: "zigzag", packed: "SInt64", packedD: "Sint64"},
	{name: "Fixed32", dec: "Fixed32", width: 32, wire: 5, size: "4", packed: "Fixed32", packedD: "Fixed32"},
	{name: "Fixed64", dec: "Fixed64", width: 64, wire: 1, size: "8", packed: "Fixed64", packedD: "Fixed64"},
	{name: "Float32", dec: "Float32", width: 32, float: true, wire: 5, size: "4", packed: "Float32", packedD: "Float32"},
	{name: "Float64", dec: "Float64", width: 64, float: true, wire: 1, size: "8", packed: "Float64", packedD: "Float64"},
}

type bitHarness struct {
	m        *bitexec.Machine
	pk       *packages.Package
	modeSafe uint64
	modeFast uint64
}

func newBitHarness(pk *packages.Package) *bitHarness {
	m := &bitexec.Machine{Info: pk.TypesInfo, Pkg: pk.Types, Decls: map[*types.Func]*ast.FuncDecl{}, MaxOps: 2_000_000}
	for _, f := range pk.Syntax {
		for _, d := range f.Decls {
			if fd, ok := d.(*ast.FuncDecl); ok {
				if fn, ok := pk.TypesInfo.Defs[fd.Name].(*types.Func); ok {
					m.Decls[fn] = fd
				}
			}
		}
	}
	h := &bitHarness{m: m, pk: pk, modeFast: 1}
	for name, dst := range map[string]*uint64{"DecoderModeSafe": &h.modeSafe, "DecoderModeFast": &h.modeFast} {
		if c, ok := pk.Types.Scope().Lookup(name).(*types.Const); ok {
			var v uint64
			fmt.Sscan(c.Val().ExactString(), &v)
			*dst = v
		}
	}
	return h
}

func (h *bitHarness) fn(name string) *types.Func {
	f := h.m.Lookup(name)
	if f == nil {
		panic(bitexec.Abort{Msg: "function " + name + " not found"})
	}
	return f
}

func (h *bitHarness) call(name string, recv bitexec.Value, args ...bitexec.Value) []bitexec.Value {
	h.m.Steps = 0
	return h.m.Call(h.fn(name), recv, args)
}

func constOf(v bitexec.Value) (int64, bool) {
	iv, ok := v.(bitexec.Int)
	if !ok {
		return 0, false
	}
	return iv.V.Int64()
}

func errNil(v bitexec.Value) bool {
	e, ok := v.(bitexec.Err)
	return ok && e.Nil
}

func errDesc(v bitexec.Value) string {
	if e, ok := v.(bitexec.Err); ok {
		if e.Nil {
			return "nil"
		}
		return e.Desc
	}
	if p, ok := v.(bitexec.Ptr); ok && p.Obj != nil {
		return "&" + p.Obj.Type[strings.LastIndex(p.Obj.Type, ".")+1:] + "{…}"
	}
	return fmt.Sprintf("%T", v)
}

// withPadding returns views of the first n bytes of buf: exactly n bytes, and n bytes followed by unknown bytes.
func withPadding(buf *bitexec.Buffer, n int) []bitexec.Bytes {
	exact := &bitexec.Buffer{B: append([]bitdom.Val(nil), buf.B[:n]...)}
	padded := &bitexec.Buffer{B: append([]bitdom.Val(nil), buf.B[:n]...)}
	for i := 0; i < 12; i++ {
		padded.B = append(padded.B, bitdom.TopVal(8, false))
	}
	return []bitexec.Bytes{{Buf: exact, Len: n, Cap: n}, {Buf: padded, Len: n + 12, Cap: n + 12}}
}

func sameInt(a, b bitexec.Value) bool {
	x, ok1 := a.(bitexec.Int)
	y, ok2 := b.(bitexec.Int)
	return ok1 && ok2 && x.V.Equal(y.V)
}

// ---- leaf harnesses -------------------------------------------------------

func (h *bitHarness) leafVarint(c *bitexec.Ctx) {
	v := c.Input("v", 64, false, nil)
	buf := bitexec.NewBuffer(10, bitexec.TopByte)
	out := h.call("EncodeVarint", nil, bitexec.Bytes{Buf: buf, Len: 10, Cap: 10}, v)
	n, ok := constOf(out[0])
	c.Check("EncodeVarint returns a known byte count", ok && n >= 1 && n <= 10, fmt.Sprint(out[0]))
	if !ok {
		return
	}
	sz, ok := constOf(h.call("SizeOfVarint", nil, v)[0])
	c.Check("bytes written = SizeOfVarint", ok && sz == n, fmt.Sprintf("wrote %d, SizeOfVarint says %d", n, sz))
	// canonical form: continuation bit set on all but the last byte
	for i := 0; i < int(n); i++ {
		cb, known := buf.B[i].Bits[7].IsConst()
		c.Check("continuation bits", known && cb == (i < int(n)-1), fmt.Sprintf("byte %d of %d has continuation bit %v", i, n, buf.B[i].Bits[7]))
	}
	for _, p := range withPadding(buf, int(n)) {
		r := h.call("DecodeVarint", nil, p)
		c.Check("DecodeVarint accepts the encoder's output", errNil(r[2]), "error "+errDesc(r[2]))
		n2, ok := constOf(r[1])
		c.Check("DecodeVarint consumes exactly the bytes written", ok && n2 == n, fmt.Sprintf("wrote %d, consumed %v", n, r[1]))
		c.Check("DecodeVarint returns the value written", sameInt(r[0], v), fmt.Sprintf("decoded %v", r[0]))
	}
}

// leafDecodeSpec: the reader against the wire format itself (not against the writer): any well-formed varint of
// k bytes, minimal or not, decodes to the concatenation of its 7-bit groups, little end first.
func (h *bitHarness) leafDecodeSpec(k int) func(c *bitexec.Ctx) {
	return func(c *bitexec.Ctx) {
		buf := &bitexec.Buffer{}
		want := bitdom.ConstVal(64, false, 0)
		for i := 0; i < k; i++ {
			fixed := map[int]bool{7: i < k-1}
			if i == 9 {
				for b := 1; b < 7; b++ {
					fixed[b] = false // bits beyond 2^64 are an overflow; not part of this harness
				}
			}
			by := c.Input(fmt.Sprintf("b%d", i), 8, false, fixed)
			buf.B = append(buf.B, by.V)
			for b := 0; b < 7; b++ {
				if 7*i+b < 64 {
					want.Bits[7*i+b] = by.V.Bits[b]
				}
			}
		}
		for _, p := range withPadding(buf, k) {
			r := h.call("DecodeVarint", nil, p)
			c.Check("DecodeVarint accepts a well-formed varint", errNil(r[2]), "error "+errDesc(r[2]))
			n2, ok := constOf(r[1])
			c.Check("DecodeVarint consumes the whole varint", ok && int(n2) == k, fmt.Sprintf("%d bytes, consumed %v", k, r[1]))
			got, okv := r[0].(bitexec.Int)
			c.Check("DecodeVarint returns the concatenated 7-bit groups", okv && got.V.Equal(want), fmt.Sprintf("decoded %v", r[0]))
		}
	}
}

// decodeBoolSpec: a bool field may carry any well-formed varint; zero is false, everything else true.
func (h *bitHarness) decodeBoolSpec(k int) func(c *bitexec.Ctx) {
	return func(c *bitexec.Ctx) {
		buf := &bitexec.Buffer{}
		want := bitdom.ConstVal(64, false, 0)
		for i := 0; i < k; i++ {
			fixed := map[int]bool{7: i < k-1}
			if i == 9 {
				for b := 1; b < 7; b++ {
					fixed[b] = false
				}
			}
			by := c.Input(fmt.Sprintf("b%d", i), 8, false, fixed)
			buf.B = append(buf.B, by.V)
			for b := 0; b < 7; b++ {
				if 7*i+b < 64 {
					want.Bits[7*i+b] = by.V.Bits[b]
				}
			}
		}
		res, decided, split := bitdom.Cmp(want, bitdom.ConstVal(64, false, 0))
		if !decided {
			panic(bitexec.SplitReq{Form: split})
		}
		exp := res != 0
		for _, p := range withPadding(buf, k) {
			dec := h.newDecoder(p, h.modeSafe)
			r := h.call("(*Decoder).DecodeBool", bitexec.Ptr{Obj: dec})
			c.Check("DecodeBool accepts any well-formed varint", errNil(r[1]), "error "+errDesc(r[1]))
			if !errNil(r[1]) {
				continue
			}
			b, ok := r[0].(bitexec.Bool)
			cb, known := b.B.IsConst()
			c.Check("DecodeBool is true exactly for non-zero varints", ok && known && cb == exp, fmt.Sprintf("got %v, want %v", r[0], exp))
			off, oko := constOf(dec.Fields["offset"])
			c.Check("DecodeBool consumes the whole varint", oko && int(off) == k, fmt.Sprint(dec.Fields["offset"]))
		}
	}
}

func (h *bitHarness) leafZigZag(width int) func(c *bitexec.Ctx) {
	return func(c *bitexec.Ctx) {
		v := c.Input("v", width, true, nil)
		buf := bitexec.NewBuffer(10, bitexec.TopByte)
		enc, dec := fmt.Sprintf("EncodeZigZag%d", width), fmt.Sprintf("DecodeZigZag%d", width)
		out := h.call(enc, nil, bitexec.Bytes{Buf: buf, Len: 10, Cap: 10}, v)
		n, ok := constOf(out[0])
		c.Check(enc+" returns a known byte count", ok && n >= 1 && n <= 10, fmt.Sprint(out[0]))
		if !ok {
			return
		}
		wide := bitexec.Int{V: v.V.Convert(64, false)} // uint64(v): sign-extended, as every caller of SizeOfZigZag does
		sz, ok := constOf(h.call("SizeOfZigZag", nil, wide)[0])
		c.Check("bytes written = SizeOfZigZag(uint64(v))", ok && sz == n, fmt.Sprintf("wrote %d, SizeOfZigZag says %d", n, sz))
		for _, p := range withPadding(buf, int(n)) {
			r := h.call(dec, nil, p)
			c.Check(dec+" accepts the encoder's output", errNil(r[2]), "error "+errDesc(r[2]))
			n2, ok := constOf(r[1])
			c.Check(dec+" consumes exactly the bytes written", ok && n2 == n, fmt.Sprintf("wrote %d, consumed %v", n, r[1]))
			c.Check(dec+" returns the value written", sameInt(r[0], v), fmt.Sprintf("decoded %v", r[0]))
		}
	}
}

func (h *bitHarness) leafFixed(width int) func(c *bitexec.Ctx) {
	return func(c *bitexec.Ctx) {
		v := c.Input("v", width, false, nil)
		buf := bitexec.NewBuffer(width/8, bitexec.TopByte)
		enc, dec := fmt.Sprintf("EncodeFixed%d", width), fmt.Sprintf("DecodeFixed%d", width)
		out := h.call(enc, nil, bitexec.Bytes{Buf: buf, Len: width / 8, Cap: width / 8}, v)
		n, ok := constOf(out[0])
		c.Check(enc+" writes width/8 bytes", ok && int(n) == width/8, fmt.Sprint(out[0]))
		// little endian layout: byte k holds bits 8k..8k+7
		for k := 0; k < width/8; k++ {
			okB := true
			for b := 0; b < 8; b++ {
				if !buf.B[k].Bits[b].Equal(v.V.Bits[8*k+b]) {
					okB = false
				}
			}
			c.Check("little-endian byte layout", okB, fmt.Sprintf("byte %d is %v", k, buf.B[k]))
		}
		for _, p := range withPadding(buf, width/8) {
			r := h.call(dec, nil, p)
			c.Check(dec+" accepts the encoder's output", errNil(r[2]), "error "+errDesc(r[2]))
			n2, ok := constOf(r[1])
			c.Check(dec+" consumes exactly the bytes written", ok && int(n2) == width/8, fmt.Sprint(r[1]))
			c.Check(dec+" returns the value written", sameInt(r[0], v), fmt.Sprintf("decoded %v", r[0]))
		}
	}
}

// ---- method-level harness ---------------------------------------------------

func (h *bitHarness) newEncoder(n int) (*bitexec.Object, *bitexec.Buffer) {
	buf := bitexec.NewBuffer(n, bitexec.TopByte)
	return &bitexec.Object{Type: "Encoder", Fields: map[string]bitexec.Value{
		"p": bitexec.Bytes{Buf: buf, Len: n, Cap: n}, "offset": bitexec.ConstInt(64, true, 0)}}, buf
}

func (h *bitHarness) newDecoder(p bitexec.Bytes, mode uint64) *bitexec.Object {
	return &bitexec.Object{Type: "Decoder", Fields: map[string]bitexec.Value{
		"p": p, "offset": bitexec.ConstInt(64, true, 0), "mode": bitexec.ConstInt(64, true, mode)}}
}

// tagInput: a field number with bit `top` as its highest set bit (so 2^top <= tag < 2^(top+1)); top<0: the constant given.
func tagInput(c *bitexec.Ctx, top int, konst uint64) bitexec.Int {
	if top < 0 {
		return bitexec.ConstInt(64, true, konst)
	}
	fixed := map[int]bool{top: true}
	for i := top + 1; i < 64; i++ {
		fixed[i] = false
	}
	return c.Input("tag", 64, true, fixed)
}

func (h *bitHarness) valueInput(c *bitexec.Ctx, k bitKind, name string) (bitexec.Value, bitexec.Int) {
	switch {
	case k.boolean:
		b := c.Input(name, 1, false, nil)
		return bitexec.Bool{B: b.V.Bits[0]}, b
	case k.float:
		b := c.Input(name, k.width, false, nil)
		return bitexec.Float{Bits: b.V}, b
	}
	v := c.Input(name, k.width, k.signed, nil)
	return v, v
}

func sameValue(k bitKind, got bitexec.Value, want bitexec.Int) bool {
	switch x := got.(type) {
	case bitexec.Bool:
		return k.boolean && x.B.Equal(want.V.Bits[0])
	case bitexec.Float:
		return k.float && x.Bits.Equal(want.V)
	case bitexec.Int:
		return !k.boolean && !k.float && x.V.Equal(want.V)
	}
	return false
}

func (h *bitHarness) scalar(k bitKind, tagTop int, tagConst uint64, valueConst *uint64) func(c *bitexec.Ctx) {
	return func(c *bitexec.Ctx) {
		tag := tagInput(c, tagTop, tagConst)
		var v bitexec.Value
		var raw bitexec.Int
		if valueConst != nil {
			raw = bitexec.ConstInt(maxInt(k.width, 1), k.signed, *valueConst)
			switch {
			case k.boolean:
				v = bitexec.Bool{B: raw.V.Bits[0]}
			case k.float:
				v = bitexec.Float{Bits: raw.V}
			default:
				v = raw
			}
		} else {
			v, raw = h.valueInput(c, k, "v")
		}
		enc, buf := h.newEncoder(24)
		h.call("(*Encoder).Encode"+k.name, bitexec.Ptr{Obj: enc}, tag, v)
		n, ok := constOf(enc.Fields["offset"])
		c.Check("Encode"+k.name+" leaves a known cursor", ok && n > 0 && n <= 24, fmt.Sprint(enc.Fields["offset"]))
		if !ok {
			return
		}
		// size helpers predict the byte count
		ksz, ok1 := constOf(h.call("SizeOfTagKey", nil, tag)[0])
		var vsz int64
		ok2 := true
		switch k.size {
		case "1":
			vsz = 1
		case "4":
			vsz = 4
		case "8":
			vsz = 8
		case "varint":
			vsz, ok2 = constOf(h.call("SizeOfVarint", nil, bitexec.Int{V: raw.V.Convert(64, false)})[0])
		case "zigzag":
			vsz, ok2 = constOf(h.call("SizeOfZigZag", nil, bitexec.Int{V: raw.V.Convert(64, false)})[0])
		}
		c.Check("bytes written = SizeOfTagKey + size of the value", ok1 && ok2 && ksz+vsz == n, fmt.Sprintf("wrote %d, helpers say %d+%d", n, ksz, vsz))
		if k.boolean && n >= 1 {
			// canonical form: a bool is the single byte 0 or 1
			by := buf.B[n-1]
			canon := by.Bits[0].Equal(raw.V.Bits[0])
			for b := 1; b < 8; b++ {
				if cb, known := by.Bits[b].IsConst(); !known || cb {
					canon = false
				}
			}
			c.Check("a bool is written as the byte 0 or 1", canon, fmt.Sprintf("value byte is %v", by))
		}
		for _, mode := range []uint64{h.modeSafe, h.modeFast} {
			for _, p := range withPadding(buf, int(n)) {
				dec := h.newDecoder(p, mode)
				r := h.call("(*Decoder).DecodeTag", bitexec.Ptr{Obj: dec})
				c.Check("DecodeTag accepts the key", errNil(r[2]), "error "+errDesc(r[2]))
				if !errNil(r[2]) {
					continue
				}
				c.Check("DecodeTag returns the field number written", sameInt(r[0], tag), fmt.Sprintf("decoded %v", r[0]))
				wt, okw := constOf(r[1])
				c.Check("DecodeTag returns the wire type of the kind", okw && uint64(wt) == k.wire, fmt.Sprintf("decoded wire type %v, kind uses %d", r[1], k.wire))
				r = h.call("(*Decoder).Decode"+k.dec, bitexec.Ptr{Obj: dec})
				c.Check("Decode"+k.dec+" accepts the encoder's output", errNil(r[1]), "error "+errDesc(r[1]))
				if !errNil(r[1]) {
					continue
				}
				c.Check("Decode"+k.dec+" returns the value written", sameValue(k, r[0], raw), fmt.Sprintf("decoded %v", r[0]))
				off, oko := constOf(dec.Fields["offset"])
				c.Check("the decoder consumed exactly the bytes written", oko && off == n, fmt.Sprintf("wrote %d, cursor at %v", n, dec.Fields["offset"]))
				h.skipCheck(c, p, mode, int(n))
			}
		}
	}
}

// skipCheck: DecodeTag followed by Skip returns exactly the field (key and payload) and leaves the cursor behind it.
func (h *bitHarness) skipCheck(c *bitexec.Ctx, p bitexec.Bytes, mode uint64, n int) {
	dec := h.newDecoder(p, mode)
	r := h.call("(*Decoder).DecodeTag", bitexec.Ptr{Obj: dec})
	if !errNil(r[2]) {
		return
	}
	s := h.call("(*Decoder).Skip", bitexec.Ptr{Obj: dec}, r[0], r[1])
	c.Check("Skip accepts the field", errNil(s[1]), "error "+errDesc(s[1]))
	if !errNil(s[1]) {
		return
	}
	got, ok := s[0].(bitexec.Bytes)
	c.Check("Skip returns the complete field (key and payload)", ok && got.Buf == p.Buf && got.Off == p.Off && got.Len == n, fmt.Sprintf("returned [%d:%d] of a %d-byte field", got.Off-p.Off, got.Off-p.Off+got.Len, n))
	off, oko := constOf(dec.Fields["offset"])
	c.Check("Skip leaves the cursor behind the field", oko && int(off) == n, fmt.Sprint(dec.Fields["offset"]))
}

func maxInt(a, b int) int {
	if a > b {
		return a
	}
	return b
}

func (h *bitHarness) packed(k bitKind, count int, second *uint64) func(c *bitexec.Ctx) {
	return func(c *bitexec.Ctx) {
		tag := bitexec.ConstInt(64, true, 5)
		var elems []bitexec.Value
		var raws []bitexec.Int
		for i := 0; i < count; i++ {
			if i == 1 && second != nil {
				raw := bitexec.ConstInt(maxInt(k.width, 1), k.signed, *second)
				var v bitexec.Value = raw
				if k.boolean {
					v = bitexec.Bool{B: raw.V.Bits[0]}
				} else if k.float {
					v = bitexec.Float{Bits: raw.V}
				}
				elems = append(elems, v)
				raws = append(raws, raw)
				continue
			}
			v, raw := h.valueInput(c, k, fmt.Sprintf("v%d", i))
			elems = append(elems, v)
			raws = append(raws, raw)
		}
		enc, buf := h.newEncoder(8 + 11*count)
		h.call("(*Encoder).EncodePacked"+k.packed, bitexec.Ptr{Obj: enc}, tag, bitexec.List{Elems: elems})
		n, ok := constOf(enc.Fields["offset"])
		c.Check("EncodePacked"+k.packed+" leaves a known cursor", ok && n > 0, fmt.Sprint(enc.Fields["offset"]))
		if !ok {
			return
		}
		for _, mode := range []uint64{h.modeSafe, h.modeFast} {
			for _, p := range withPadding(buf, int(n)) {
				dec := h.newDecoder(p, mode)
				r := h.call("(*Decoder).DecodeTag", bitexec.Ptr{Obj: dec})
				c.Check("DecodeTag accepts the key", errNil(r[2]), "error "+errDesc(r[2]))
				if !errNil(r[2]) {
					continue
				}
				wt, okw := constOf(r[1])
				c.Check("packed lists are length-delimited", okw && wt == 2, fmt.Sprint(r[1]))
				r = h.call("(*Decoder).DecodePacked"+k.packedD, bitexec.Ptr{Obj: dec})
				c.Check("DecodePacked"+k.packedD+" accepts the encoder's output", errNil(r[1]), "error "+errDesc(r[1]))
				if !errNil(r[1]) {
					continue
				}
				l, okl := r[0].(bitexec.List)
				okAll := okl && len(l.Elems) == count
				if okAll {
					for i := range raws {
						if !sameValue(k, l.Elems[i], raws[i]) {
							okAll = false
						}
					}
				}
				c.Check("DecodePacked"+k.packedD+" returns the elements written", okAll, fmt.Sprintf("decoded %v", r[0]))
				off, oko := constOf(dec.Fields["offset"])
				c.Check("the decoder consumed exactly the bytes written", oko && off == n, fmt.Sprintf("wrote %d, cursor at %v", n, dec.Fields["offset"]))
			}
		}
	}
}

// bytes fields: symbolic content of a concrete length
func (h *bitHarness) bytesField(length int, tagConst uint64) func(c *bitexec.Ctx) {
	return func(c *bitexec.Ctx) {
		src := bitexec.NewBuffer(length, func(i int) bitdom.Val { return c.Input(fmt.Sprintf("b%d", i), 8, false, nil).V })
		tag := bitexec.ConstInt(64, true, tagConst)
		enc, buf := h.newEncoder(length + 16)
		h.call("(*Encoder).EncodeBytes", bitexec.Ptr{Obj: enc}, tag, bitexec.Bytes{Buf: src, Len: length, Cap: length})
		n, ok := constOf(enc.Fields["offset"])
		c.Check("EncodeBytes leaves a known cursor", ok && n > 0, fmt.Sprint(enc.Fields["offset"]))
		if !ok {
			return
		}
		ksz, ok1 := constOf(h.call("SizeOfTagKey", nil, tag)[0])
		lsz, ok2 := constOf(h.call("SizeOfVarint", nil, bitexec.ConstInt(64, false, uint64(length)))[0])
		c.Check("bytes written = SizeOfTagKey + SizeOfVarint(len) + len", ok1 && ok2 && ksz+lsz+int64(length) == n, fmt.Sprintf("wrote %d, helpers say %d+%d+%d", n, ksz, lsz, length))
		for _, mode := range []uint64{h.modeSafe, h.modeFast} {
			for _, p := range withPadding(buf, int(n)) {
				dec := h.newDecoder(p, mode)
				r := h.call("(*Decoder).DecodeTag", bitexec.Ptr{Obj: dec})
				c.Check("DecodeTag accepts the key", errNil(r[2]), "error "+errDesc(r[2]))
				if !errNil(r[2]) {
					continue
				}
				wt, okw := constOf(r[1])
				c.Check("bytes fields are length-delimited", okw && wt == 2 && sameInt(r[0], tag), fmt.Sprint(r[0], r[1]))
				r = h.call("(*Decoder).DecodeBytes", bitexec.Ptr{Obj: dec})
				c.Check("DecodeBytes accepts the encoder's output", errNil(r[1]), "error "+errDesc(r[1]))
				if !errNil(r[1]) {
					continue
				}
				got, okb := r[0].(bitexec.Bytes)
				same := okb && got.Len == length
				if same {
					for i := 0; i < length; i++ {
						if !got.Buf.B[got.Off+i].Equal(src.B[i]) {
							same = false
						}
					}
				}
				c.Check("DecodeBytes returns the bytes written", same, fmt.Sprintf("decoded %d bytes", got.Len))
				h.skipCheck(c, p, mode, int(n))
				off, oko := constOf(dec.Fields["offset"])
				c.Check("the decoder consumed exactly the bytes written", oko && off == n, fmt.Sprintf("wrote %d, cursor at %v", n, dec.Fields["offset"]))
			}
		}
	}
}

// stringField: EncodeString → DecodeTag + DecodeString for every content of a given length, in both decoder modes.
// The encoder's reinterpretation of the string as a byte slice (stringToBytes, an unsafe cast through an
// anonymous struct) is taken as what its comment says: the same bytes.
func (h *bitHarness) stringField(length int, tagConst uint64) func(c *bitexec.Ctx) {
	return func(c *bitexec.Ctx) {
		src := bitexec.NewBuffer(length, func(i int) bitdom.Val { return c.Input(fmt.Sprintf("b%d", i), 8, false, nil).V })
		str := bitexec.ByteStr{B: bitexec.Bytes{Buf: src, Len: length, Cap: length}}
		tag := bitexec.ConstInt(64, true, tagConst)
		enc, buf := h.newEncoder(length + 16)
		if h.m.Natives == nil {
			h.m.Natives = map[string]func(args []bitexec.Value) []bitexec.Value{}
		}
		h.m.Natives["(*Encoder).stringToBytes"] = func(args []bitexec.Value) []bitexec.Value {
			s := args[len(args)-1].(bitexec.ByteStr)
			return []bitexec.Value{s.B}
		}
		h.call("(*Encoder).EncodeString", bitexec.Ptr{Obj: enc}, tag, str)
		n, ok := constOf(enc.Fields["offset"])
		c.Check("EncodeString leaves a known cursor", ok && n > 0, fmt.Sprint(enc.Fields["offset"]))
		if !ok {
			return
		}
		ksz, ok1 := constOf(h.call("SizeOfTagKey", nil, tag)[0])
		lsz, ok2 := constOf(h.call("SizeOfVarint", nil, bitexec.ConstInt(64, false, uint64(length)))[0])
		c.Check("bytes written = SizeOfTagKey + SizeOfVarint(len) + len", ok1 && ok2 && ksz+lsz+int64(length) == n, fmt.Sprintf("wrote %d, helpers say %d+%d+%d", n, ksz, lsz, length))
		for _, mode := range []uint64{h.modeSafe, h.modeFast} {
			mname := map[uint64]string{h.modeSafe: "safe", h.modeFast: "fast"}[mode]
			for _, p := range withPadding(buf, int(n)) {
				dec := h.newDecoder(p, mode)
				r := h.call("(*Decoder).DecodeTag", bitexec.Ptr{Obj: dec})
				c.Check("DecodeTag accepts the key", errNil(r[2]), "error "+errDesc(r[2]))
				if !errNil(r[2]) {
					continue
				}
				wt, okw := constOf(r[1])
				c.Check("string fields are length-delimited", okw && wt == 2 && sameInt(r[0], tag), fmt.Sprint(r[0], r[1]))
				r = h.call("(*Decoder).DecodeString", bitexec.Ptr{Obj: dec})
				c.Check("DecodeString ("+mname+" mode) accepts the encoder's output", errNil(r[1]), "error "+errDesc(r[1]))
				if !errNil(r[1]) {
					continue
				}
				same := false
				switch got := r[0].(type) {
				case bitexec.Str:
					same = length == 0 && got.S == ""
				case bitexec.ByteStr:
					same = got.B.Len == length
					for i := 0; same && i < length; i++ {
						if !got.B.Buf.B[got.B.Off+i].Equal(src.B[i]) {
							same = false
						}
					}
					if mode == h.modeSafe && length > 0 {
						c.Check("DecodeString (safe mode) returns a copy", got.B.Buf != p.Buf, "the string shares storage with the input buffer")
					}
				}
				c.Check("DecodeString ("+mname+" mode) returns the string written", same, fmt.Sprintf("decoded %v", r[0]))
				off, oko := constOf(dec.Fields["offset"])
				c.Check("the decoder consumed exactly the bytes written", oko && off == n, fmt.Sprintf("wrote %d, cursor at %v", n, dec.Fields["offset"]))
			}
		}
	}
}

// ---- driver -------------------------------------------------------------

func runBitHarness(r *core.Result, prog *core.Program, name, anchor string, maxPaths int, body func(c *bitexec.Ctx)) (paths, checks int) {
	paths, checks, failed, exhausted := bitexec.Explore(maxPaths, body)
	ok := len(failed) == 0 && !exhausted && paths > 0
	detail := ""
	pos := anchor
	if exhausted {
		detail = fmt.Sprintf("undecided: more than %d partitions", maxPaths)
	}
	if len(failed) > 0 {
		sort.Slice(failed, func(i, j int) bool { return len(failed[i].Cube) < len(failed[j].Cube) })
		f := failed[0]
		var parts []string
		if f.Abort != "" {
			parts = append(parts, "stopped: "+f.Abort)
			if f.Pos.IsValid() {
				pos = prog.Pos(f.Pos)
			}
		}
		parts = append(parts, firstN(f.Failures, 3)...)
		detail = fmt.Sprintf("%d of %d partitions fail; e.g. for inputs with {%s}: %s", len(failed), paths, f.Cube, strings.Join(parts, "; "))
	}
	r.Ob("B-roundtrip", name, pos, ok, detail)
	return paths, checks
}

func checkBitRoundTrips(r *core.Result, prog *core.Program, pk *packages.Package, thorough bool) {
	type job struct {
		name   string
		max    int
		mk     func(h *bitHarness) func(c *bitexec.Ctx)
		anchor string
		paths  int
		checks int
		res    *core.Result
	}
	var jobs []*job
	h0 := newBitHarness(pk)
	add := func(name string, max int, mk func(h *bitHarness) func(c *bitexec.Ctx)) {
		anchor := ""
		if i := strings.IndexAny(name, " →∘"); i > 0 {
			first := name[:i]
			for _, cand := range []string{first, "(*Encoder)." + first} {
				if fn := h0.m.Lookup(cand); fn != nil && anchor == "" {
					anchor = prog.Pos(h0.m.Decls[fn].Pos())
				}
			}
		}
		jobs = append(jobs, &job{name: name, max: max, mk: mk, anchor: anchor})
	}
	add("EncodeVarint ∘ DecodeVarint = id, size = SizeOfVarint, for all uint64", 4000, func(h *bitHarness) func(*bitexec.Ctx) { return h.leafVarint })
	add("EncodeZigZag32 ∘ DecodeZigZag32 = id, size = SizeOfZigZag, for all int32", 4000, func(h *bitHarness) func(*bitexec.Ctx) { return h.leafZigZag(32) })
	add("EncodeZigZag64 ∘ DecodeZigZag64 = id, size = SizeOfZigZag, for all int64", 4000, func(h *bitHarness) func(*bitexec.Ctx) { return h.leafZigZag(64) })
	add("EncodeFixed32 ∘ DecodeFixed32 = id (little endian), for all uint32", 100, func(h *bitHarness) func(*bitexec.Ctx) { return h.leafFixed(32) })
	add("EncodeFixed64 ∘ DecodeFixed64 = id (little endian), for all uint64", 100, func(h *bitHarness) func(*bitexec.Ctx) { return h.leafFixed(64) })
	for k := 1; k <= 10; k++ {
		k := k
		add(fmt.Sprintf("DecodeVarint reads every well-formed varint of %d bytes (non-minimal encodings included)", k), 100, func(h *bitHarness) func(*bitexec.Ctx) { return h.leafDecodeSpec(k) })
	}
	for _, k := range []int{1, 2, 3, 10} {
		k := k
		add(fmt.Sprintf("DecodeBool on any well-formed varint of %d bytes: zero is false, everything else true", k), 5000, func(h *bitHarness) func(*bitexec.Ctx) { return h.decodeBoolSpec(k) })
	}
	for _, l := range []int{0, 1, 5, 127, 128, 300} {
		l := l
		add(fmt.Sprintf("EncodeBytes → DecodeTag+DecodeBytes returns the bytes, cursor, size: every content of length %d", l), 10, func(h *bitHarness) func(*bitexec.Ctx) { return h.bytesField(l, 7) })
	}
	for _, l := range []int{0, 1, 5, 127, 128} {
		l := l
		add(fmt.Sprintf("EncodeString → DecodeTag+DecodeString returns the string, in safe and in fast mode: every content of length %d", l), 10, func(h *bitHarness) func(*bitexec.Ctx) { return h.stringField(l, 7) })
	}
	one := uint64(1)
	for _, k := range bitKinds {
		k := k
		// all values, smallest and largest field number
		add(fmt.Sprintf("Encode%s → DecodeTag+Decode%s returns value, tag, wire type, cursor: all values, field 1", k.name, k.dec), 20000, func(h *bitHarness) func(*bitexec.Ctx) { return h.scalar(k, -1, 1, nil) })
		add(fmt.Sprintf("Encode%s → DecodeTag+Decode%s: all values, field 2^29-1", k.name, k.dec), 20000, func(h *bitHarness) func(*bitexec.Ctx) { return h.scalar(k, -1, 1<<29-1, nil) })
		// all field numbers (29 bit-length classes), one value
		tops := []int{0, 3, 4, 10, 11, 17, 18, 24, 25, 28}
		if thorough {
			tops = nil
			for t := 0; t <= 28; t++ {
				tops = append(tops, t)
			}
		}
		for _, t := range tops {
			t := t
			add(fmt.Sprintf("Encode%s → DecodeTag+Decode%s: all field numbers in [2^%d, 2^%d)", k.name, k.dec, t, t+1), 20000, func(h *bitHarness) func(*bitexec.Ctx) { return h.scalar(k, t, 0, &one) })
		}
		// packed lists
		add(fmt.Sprintf("EncodePacked%s → DecodePacked%s returns the element: all values, 1 element", k.packed, k.packedD), 20000, func(h *bitHarness) func(*bitexec.Ctx) { return h.packed(k, 1, nil) })
		// two elements: the first arbitrary, the second from a set of boundary values (all ones = -1 / max, sign bit only, 127, 128, 0)
		w := maxInt(k.width, 1)
		seconds := []uint64{^uint64(0) >> uint(64-w), 0}
		if thorough && w > 8 {
			seconds = append(seconds, 1<<uint(w-1), 127, 128)
		}
		for _, sv := range seconds {
			sv := sv
			add(fmt.Sprintf("EncodePacked%s → DecodePacked%s: 2 elements, first arbitrary, second %#x", k.packed, k.packedD, sv), 40000, func(h *bitHarness) func(*bitexec.Ctx) { return h.packed(k, 2, &sv) })
		}
	}
	// the harnesses are independent: run them on all cores, report in order
	sem := make(chan struct{}, 16)
	done := make(chan struct{})
	for _, j := range jobs {
		j := j
		go func() {
			sem <- struct{}{}
			defer func() { <-sem; done <- struct{}{} }()
			j.res = &core.Result{Counts: map[string]int{}}
			h := newBitHarness(pk)
			j.paths, j.checks = runBitHarness(j.res, prog, j.name, j.anchor, j.max, j.mk(h))
		}()
	}
	for range jobs {
		<-done
	}
	totalP, totalC := 0, 0
	for _, j := range jobs {
		r.Absorb(j.res)
		totalP += j.paths
		totalC += j.checks
	}
	r.Counts["bit-level round-trip harnesses"] = len(jobs)
	r.Counts["input-space partitions explored"] = totalP
	r.Counts["partition checks"] = totalC
	r.Floor("bit-level round-trip harnesses", len(jobs), 100)
}

// overflowSpec: a 10-byte varint whose last byte carries anything above bit 63 does not fit in 64 bits. A
// reference parser (protowire.ConsumeVarint) reports it as malformed; so must every reader protodump goes
// through. bit selects which of the excess bits (1..6 of the 10th byte) is set; everything else is arbitrary.
func (h *bitHarness) overflowSpec(bit int, via string) func(c *bitexec.Ctx) {
	return func(c *bitexec.Ctx) {
		buf := &bitexec.Buffer{}
		if via == "(*Decoder).DecodeBytes" {
			// as the length prefix of a field: no key needed, DecodeBytes starts at the length
		}
		for i := 0; i < 10; i++ {
			fixed := map[int]bool{7: i < 9}
			if i == 9 {
				fixed[bit] = true
			}
			by := c.Input(fmt.Sprintf("b%d", i), 8, false, fixed)
			buf.B = append(buf.B, by.V)
		}
		for _, p := range withPadding(buf, 10) {
			var errv bitexec.Value
			switch via {
			case "DecodeVarint":
				errv = h.call("DecodeVarint", nil, p)[2]
			default:
				dec := h.newDecoder(p, h.modeSafe)
				out := h.call(via, bitexec.Ptr{Obj: dec})
				errv = out[len(out)-1]
			}
			e, isErr := errv.(bitexec.Err)
			c.Check(via+" reports a varint that does not fit in 64 bits", isErr && !e.Nil, "accepted (error "+errDesc(errv)+")")
		}
	}
}

// checkVarintOverflow (T10): see overflowSpec.
func checkVarintOverflow(r *core.Result, prog *core.Program, pk *packages.Package) int {
	n := 0
	for _, via := range []string{"DecodeVarint", "(*Decoder).DecodeInt64", "(*Decoder).DecodeTag", "(*Decoder).DecodeBytes"} {
		for bit := 1; bit <= 6; bit++ {
			h := newBitHarness(pk)
			name := fmt.Sprintf("%s rejects a 10-byte varint with bit %d of its last byte set (value ≥ 2^%d)", via, bit, 63+bit)
			paths, _, failed, exhausted := bitexec.Explore(2000, h.overflowSpec(bit, via))
			detail := ""
			if exhausted {
				detail = "undecided: too many partitions"
			}
			if len(failed) > 0 {
				f := failed[0]
				parts := firstN(f.Failures, 2)
				if f.Abort != "" {
					parts = append([]string{"stopped: " + f.Abort}, parts...)
				}
				detail = fmt.Sprintf("%d of %d partitions fail; e.g. for inputs with {%s}: %s", len(failed), paths, f.Cube, strings.Join(parts, "; "))
			}
			pos := ""
			if fn := h.m.Lookup("DecodeVarint"); fn != nil {
				pos = prog.Pos(h.m.Decls[fn].Pos())
			}
			r.Ob("T10", name, pos, len(failed) == 0 && !exhausted && paths > 0, detail+" — a reference parser reports this input as malformed; accepting it drops the excess bits silently (a length prefix of 2^64+5 is read as 5)")
			n++
		}
	}
	return n
}

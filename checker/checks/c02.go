package checks

import (
	"fmt"
	"go/ast"
	"go/token"
	"go/types"
	"sort"
	"strings"

	"csverify/bounds"
	"golang.org/x/tools/go/packages"

	"csverify/core"
	"csverify/sym"
)

func init() { register("C02", checkC02) }

// wireTypeConsts lists the declared WireType constants (name -> value).
func wireTypeConsts(prog *core.Program) map[string]int64 {
	out := map[string]int64{}
	root := prog.Pkg("")
	wt := root.Types.Scope().Lookup("WireType")
	if wt == nil {
		return out
	}
	for _, n := range root.Types.Scope().Names() {
		if c, ok := root.Types.Scope().Lookup(n).(*types.Const); ok && types.Identical(c.Type(), wt.Type()) {
			if v, ok := constInt(c); ok {
				out[n] = v
			}
		}
	}
	return out
}

func constInt(c *types.Const) (int64, bool) {
	var v int64
	_, err := fmt.Sscan(c.Val().ExactString(), &v)
	return v, err == nil
}

// caseConsts returns the constant objects named by a switch's case clauses.
func caseConsts(info *types.Info, sw *ast.SwitchStmt) (map[string]*ast.CaseClause, bool) {
	out := map[string]*ast.CaseClause{}
	hasDefault := false
	for _, cl := range sw.Body.List {
		cc := cl.(*ast.CaseClause)
		if cc.List == nil {
			hasDefault = true
			continue
		}
		for _, e := range cc.List {
			var id *ast.Ident
			switch x := e.(type) {
			case *ast.Ident:
				id = x
			case *ast.SelectorExpr:
				id = x.Sel
			}
			if id != nil {
				if c, ok := info.Uses[id].(*types.Const); ok {
					out[c.Name()] = cc
				}
			}
		}
	}
	return out, hasDefault
}

// stripConv removes conversions and parentheses.
func stripConv(info *types.Info, e ast.Expr) ast.Expr {
	for {
		switch x := e.(type) {
		case *ast.ParenExpr:
			e = x.X
			continue
		case *ast.CallExpr:
			if tv, ok := info.Types[x.Fun]; ok && tv.IsType() && len(x.Args) == 1 {
				e = x.Args[0]
				continue
			}
		}
		return e
	}
}

// sumLeaves flattens a + b + c into its identifier objects; ok=false when a leaf is not an identifier.
func sumLeaves(info *types.Info, e ast.Expr) ([]types.Object, bool) {
	e = stripConv(info, e)
	if b, ok := e.(*ast.BinaryExpr); ok && b.Op == token.ADD {
		l, ok1 := sumLeaves(info, b.X)
		r, ok2 := sumLeaves(info, b.Y)
		return append(l, r...), ok1 && ok2
	}
	if id, ok := e.(*ast.Ident); ok {
		if o := info.Uses[id]; o != nil {
			return []types.Object{o}, true
		}
	}
	return nil, false
}

func checkSkipStructure(r *core.Result, prog *core.Program) {
	root := prog.Pkg("")
	info := root.TypesInfo
	f := core.FindFunc(root, "(*Decoder).Skip")
	if f == nil {
		r.Fail("anchor", "(*Decoder).Skip", "", "function not found")
		return
	}
	// find `switch wt`
	var wtObj types.Object
	if ps := f.Decl.Type.Params.List; len(ps) >= 2 {
		wtObj = info.Defs[ps[len(ps)-1].Names[len(ps[len(ps)-1].Names)-1]]
	}
	var sw *ast.SwitchStmt
	ast.Inspect(f.Decl.Body, func(n ast.Node) bool {
		if s, ok := n.(*ast.SwitchStmt); ok && s.Tag != nil {
			if id, ok := s.Tag.(*ast.Ident); ok && info.Uses[id] == wtObj {
				sw = s
			}
		}
		return true
	})
	if sw == nil {
		r.Fail("S-cover", "(*Decoder).Skip switch wt", prog.Pos(f.Pos()), "no switch over the wire-type parameter found")
		return
	}
	consts := wireTypeConsts(prog)
	arms, hasDefault := caseConsts(info, sw)
	var names []string
	for n := range consts {
		names = append(names, n)
	}
	sort.Strings(names)
	for _, n := range names {
		_, ok := arms[n]
		r.Ob("S-cover", "(*Decoder).Skip case "+n, prog.Pos(sw.Pos()), ok, "declared wire type has no arm in Skip's switch")
	}
	r.Ob("S-cover", "(*Decoder).Skip default arm", prog.Pos(sw.Pos()), hasDefault, "no default arm rejecting unsupported wire types")
	// which variable is added to the cursor after the switch?
	var skipped types.Object
	ast.Inspect(f.Decl.Body, func(n ast.Node) bool {
		if as, ok := n.(*ast.AssignStmt); ok && as.Tok == token.ADD_ASSIGN && len(as.Lhs) == 1 && as.Pos() > sw.End() {
			if se, ok := as.Lhs[0].(*ast.SelectorExpr); ok && se.Sel.Name == "offset" {
				if id, ok := as.Rhs[0].(*ast.Ident); ok {
					skipped = info.Uses[id]
				}
			}
		}
		return true
	})
	if skipped == nil {
		r.Fail("S-payload", "(*Decoder).Skip advance", prog.Pos(sw.Pos()), "the cursor is not advanced by a single variable after the switch")
		return
	}
	// data flow of the decoded length / varint size into the advance
	for _, arm := range []string{"WireTypeVarint", "WireTypeLengthDelimited"} {
		cc := arms[arm]
		if cc == nil {
			continue
		}
		var res []types.Object
		var rhs ast.Expr
		for _, s := range cc.Body {
			ast.Inspect(s, func(n ast.Node) bool {
				as, ok := n.(*ast.AssignStmt)
				if !ok {
					return true
				}
				if len(as.Rhs) == 1 {
					if call, ok := as.Rhs[0].(*ast.CallExpr); ok {
						if fn := staticCallee(info, call); fn != nil && fn.Name() == "DecodeVarint" {
							res = nil
							for _, l := range as.Lhs {
								if id, ok := l.(*ast.Ident); ok {
									o := info.Defs[id]
									if o == nil {
										o = info.Uses[id]
									}
									res = append(res, o)
								}
							}
						}
					}
				}
				if len(as.Lhs) == 1 {
					if id, ok := as.Lhs[0].(*ast.Ident); ok && info.Uses[id] == skipped {
						rhs = as.Rhs[0]
					}
				}
				return true
			})
		}
		okFlow := false
		detail := "arm does not assign the advance"
		if rhs != nil && len(res) >= 2 {
			leaves, lok := sumLeaves(info, rhs)
			want := map[types.Object]bool{res[1]: true}
			if arm == "WireTypeLengthDelimited" {
				want[res[0]] = true
			}
			got := map[types.Object]bool{}
			for _, o := range leaves {
				got[o] = true
			}
			okFlow = lok && len(got) == len(want) && len(leaves) == len(want)
			for o := range want {
				if !got[o] {
					okFlow = false
				}
			}
			detail = fmt.Sprintf("advance is %q; expected the varint's own size%s", types.ExprString(rhs), map[bool]string{true: " plus the decoded length", false: ""}[arm == "WireTypeLengthDelimited"])
		}
		r.Ob("S-payload", "(*Decoder).Skip "+arm+" advance", prog.Pos(cc.Pos()), okFlow, detail)
	}
}

func checkC02(r *core.Result) {
	r.Explanation = "Structural conformance clauses of the wire format, decided on the source: (a) int32/enum values reach the varint writer through a single signed widening (symbolic summary ext[sx32], both in the sizing loop and in the writer of the packed form); (b) WireType constants have the values 0/1/2/5 of the encoding spec; (c) Skip: the switch over the wire type has an arm for every declared constant and a rejecting default; under 'wire type = N' the cursor provably advances by 8 / 4 / >=1 bytes and unsupported types reach no success return (contract passes of the guard-fact engine); the decoded length and the length prefix's own size both flow into the advance; under 'cursor is past a key of this tag' the returned slice has exactly key-size + advance bytes (so concatenating skipped fields reproduces the input); (d) the key range predicate accepts every field number 1..2^29-1 (exact reject set)."
	r.RuleText = "one obligation per (rule, construct); Skip contract passes are run once per wire-type value 0..7"
	r.Assumptions = []string{
		"not decided: byte equality with protowire for all values; the key formula tag<<3|wt (a frozen fragment, pinned by existing tests)",
		"Skip's 'complete field' clause holds for keys written with the minimal number of bytes; rule S-keystart decides whether the code guarantees that (it does not: recorded known finding)",
	}
	r.Trusted = []string{"spec table (checks/c01.go)", "go/types", "lin entailment"}
	prog, err := core.Load("./")
	if err != nil {
		r.Infra("%v", err)
		return
	}
	root := prog.Pkg("")
	skipKeyStart(r, prog, root)
	// (a) sign extension rows
	ea := &encAnalysis{pk: root, prog: prog, wires: map[string][]string{}}
	for _, name := range []string{"EncodeInt32", "EncodePackedInt32", "EncodeInt64", "EncodeUInt32"} {
		f := core.FindFunc(root, "(*Encoder)."+name)
		if f == nil {
			r.Fail("anchor", "(*Encoder)."+name, "", "method not found")
			continue
		}
		got, _, ok := ea.summarize(name)
		want := encoderSpec[name].bytes(paramAtoms(f))
		eq := ok && sym.Equal(got, want)
		d := ""
		if ok && !eq {
			d = fmt.Sprintf("value reaches the varint writer as %s; canonical form is %s (negative int32 must be sign-extended to 10 bytes)", got, want)
		}
		r.Ob("W-widen", "(*Encoder)."+name, prog.Pos(f.Pos()), eq, d)
	}
	// (b) constants
	want := map[string]int64{"WireTypeVarint": 0, "WireTypeFixed64": 1, "WireTypeLengthDelimited": 2, "WireTypeFixed32": 5}
	got := wireTypeConsts(prog)
	for n, v := range want {
		gv, ok := got[n]
		r.Ob("W-const", n, "wiretype.go", ok && gv == v, fmt.Sprintf("constant has value %d (present=%v), the encoding spec says %d", gv, ok, v))
	}
	for n := range got {
		if _, ok := want[n]; !ok {
			r.Fail("W-const", n, "wiretype.go", "WireType constant without a row in the spec table (groups are outside the supported feature set)")
		}
	}
	// (c) Skip
	checkSkipStructure(r, prog)
	sk := core.FindFunc(root, "(*Decoder).Skip")
	if sk != nil {
		for wt := 0; wt <= 7; wt++ {
			mode := fmt.Sprintf("wt%d", wt)
			cfg := boundsConfigSkip(prog, root, mode)
			before := len(r.Obligations)
			keyer := &obKeyer{}
			obs, _ := bounds.Analyze(cfg, funcSource(root, sk, false))
			n := 0
			for _, ob := range obs {
				if ob.Rule != "O-post" {
					continue
				}
				n++
				r.Ob("S-advance", fmt.Sprintf("(*Decoder).Skip wire type %d :: %s", wt, keyer.key("", ob.Site)), prog.Pos(ob.Pos), ob.OK, strings.Replace(ob.Detail, "post-condition not established at success return", fmt.Sprintf("with wire type %d the cursor must advance by the payload width of that type (unsupported types must not succeed)", wt), 1))
			}
			supported := wt == 0 || wt == 1 || wt == 2 || wt == 5
			if supported && n == 0 {
				r.Fail("S-advance", fmt.Sprintf("(*Decoder).Skip wire type %d", wt), prog.Pos(sk.Pos()), "no success return is reachable for a supported wire type")
			}
			if !supported && n == 0 {
				r.Ob("S-advance", fmt.Sprintf("(*Decoder).Skip wire type %d rejected", wt), prog.Pos(sk.Pos()), true, "")
			}
			_ = before
		}
		cfg := boundsConfigSkip(prog, root, "lemma")
		runBounds(r, prog, root, cfg, []*core.FuncInfo{sk}, nil, func(f *core.FuncInfo, ob bounds.Ob) bool { return ob.Rule == "O-post" })
	}
	// (d) key range
	f := core.FindFunc(root, "(*Decoder).DecodeTag")
	if f != nil {
		rows := []rejectResult{{row: readerRow{"(*Decoder).DecodeTag", "key", "key"}, preds: findRejects(root, f, rejectErrNames, varintLeafs), pk: root, fi: f}}
		evalRejects(r, prog, "C02", rows)
	}
	r.Floor("obligations", len(r.Obligations), 25)
}

// skipKeyStart (S-keystart): Skip locates the start of the field it returns by stepping back SizeOfTagKey(tag) bytes
// from the cursor. That is the start of the key only if DecodeTag consumed exactly that many bytes, i.e. if the key
// was written with the minimal number of bytes; a padded key (a0 86 00 for field 100) is well-formed wire format.
// The clause holds if either DecodeTag rejects keys longer than their minimal encoding, or the decoder records where
// the key began and Skip uses that.
func skipKeyStart(r *core.Result, prog *core.Program, pk *packages.Package) {
	info := pk.TypesInfo
	sk := core.FindFunc(pk, "(*Decoder).Skip")
	dt := core.FindFunc(pk, "(*Decoder).DecodeTag")
	if sk == nil || dt == nil {
		r.Fail("anchor", "(*Decoder).Skip / DecodeTag", "", "method not found")
		return
	}
	usesMinimalSize := false
	ast.Inspect(sk.Decl.Body, func(n ast.Node) bool {
		if c, ok := n.(*ast.CallExpr); ok {
			if fn := staticCallee(info, c); fn != nil && fn.Name() == "SizeOfTagKey" {
				usesMinimalSize = true
			}
		}
		return true
	})
	// does DecodeTag compare the number of bytes it consumed with the minimal size of what it decoded?
	minimalEnforced := false
	ast.Inspect(dt.Decl.Body, func(n ast.Node) bool {
		b, ok := n.(*ast.BinaryExpr)
		if !ok || (b.Op != token.NEQ && b.Op != token.GTR && b.Op != token.EQL) {
			return true
		}
		for _, side := range []ast.Expr{b.X, b.Y} {
			if c, ok := side.(*ast.CallExpr); ok {
				if fn := staticCallee(info, c); fn != nil && (fn.Name() == "SizeOfVarint" || fn.Name() == "SizeOfTagKey") {
					minimalEnforced = true
				}
			}
		}
		return true
	})
	// or: a Decoder field written in DecodeTag and read in Skip
	recorded := false
	written := map[string]bool{}
	recvDT, recvSK := recvObj(info, dt.Decl), recvObj(info, sk.Decl)
	ast.Inspect(dt.Decl.Body, func(n ast.Node) bool {
		if as, ok := n.(*ast.AssignStmt); ok {
			for _, l := range as.Lhs {
				if se, ok := l.(*ast.SelectorExpr); ok {
					if id, ok := se.X.(*ast.Ident); ok && info.Uses[id] == recvDT && se.Sel.Name != "offset" {
						written[se.Sel.Name] = true
					}
				}
			}
		}
		return true
	})
	ast.Inspect(sk.Decl.Body, func(n ast.Node) bool {
		if se, ok := n.(*ast.SelectorExpr); ok {
			if id, ok := se.X.(*ast.Ident); ok && info.Uses[id] == recvSK && written[se.Sel.Name] {
				recorded = true
			}
		}
		return true
	})
	r.Ob("S-keystart", "(*Decoder).Skip returns the field from the first byte of its key", prog.Pos(sk.Pos()), !usesMinimalSize || minimalEnforced || recorded,
		"Skip steps back SizeOfTagKey(tag) bytes to find the key, but DecodeTag accepts keys written with more bytes than necessary and does not record where the key began: for such a key the returned field lacks its first key byte(s); in fast mode (no re-validation) the truncated bytes are kept as an unknown field and re-emitted")
}

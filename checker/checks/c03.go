package checks

import (
	"fmt"
	"go/ast"
	"go/token"
	"go/types"
	"golang.org/x/tools/go/packages"
	"os/exec"
	"path/filepath"
	"strings"

	"csverify/bounds"
	"csverify/core"
)

func init() { register("C03", checkC03) }

// verifyPureRanges proves the ranges of the size helpers by interval arithmetic on their bodies.
func verifyPureRanges(r *core.Result, prog *core.Program) {
	root := prog.Pkg("")
	for _, name := range []string{"SizeOfVarint", "SizeOfTagKey", "SizeOfZigZag"} {
		f := core.FindFunc(root, name)
		pos := ""
		if f != nil {
			pos = prog.Pos(f.Pos())
		}
		got, ok := intervalOfFunc(root, name, 0)
		good := ok && got.lo.Cmp(iv(1, 10).lo) >= 0 && got.hi.Cmp(iv(1, 10).hi) <= 0
		detail := ""
		if !good {
			if ok {
				detail = fmt.Sprintf("interval evaluation of the body gives [%s,%s], contract is [1,10] (a varint is 1..10 bytes)", got.lo, got.hi)
			} else {
				detail = "body is not a single analysable return expression"
			}
		}
		r.Ob("O-range", name+" ∈ [1,10]", pos, good, detail)
	}
}

func checkC03(r *core.Result) {
	r.Explanation = "Guard-fact engine (linear inequalities over symbolic atoms, Fourier–Motzkin entailment, disjunctive states, loop invariants by iterated meet) over every function of decoder.go. " +
		"Decides, for every path: every index/slice expression on the input buffer is in bounds (O-idx); every raw fixed-width read is dominated by a sufficient length check (O-raw); every allocation sized from a decoded value is bounded by a buffer length (O-alloc); " +
		"every store to Decoder.offset and every return of every *Decoder method re-establishes 0 <= offset <= len(p) (O-inv, O-inv-ret: inductive class invariant, so it holds for every call sequence incl. Seek/Reset/SetMode); " +
		"leaf reader contracts err==nil => 1 <= n <= len(p) (O-post) which call sites then rely on; every loop makes monotone progress (O-progress); size helpers range over [1,10] (O-range). Undecided = reported."
	r.RuleText = "obligations are enumerated syntactically per function of decoder.go; one obligation = (rule, function, expression); distinct = distinct (rule, function, expression)"
	r.Assumptions = []string{
		"int is 64 bits (offset+n+nb cannot wrap); GOARCH=386 is out of scope",
		"a Decoder is used by one goroutine at a time",
		"Decoder.p is assigned only by NewDecoder (checked: O-immutable)",
		"not decided: that a successful call advances by exactly the item's encoded length (value-level)",
	}
	r.Trusted = []string{"go/types", "lin (Fourier–Motzkin) entailment", "contract table in checks/boundscfg.go (each contract is itself verified on the callee)"}
	prog, err := core.Load("./")
	if err != nil {
		r.Infra("%v", err)
		return
	}
	root := prog.Pkg("")
	// Decoder.p immutable
	stores := storesToField(root, "Decoder", "p")
	r.Ob("O-immutable", "Decoder.p assigned outside a composite literal", "", len(stores) == 0, func() string {
		if len(stores) == 0 {
			return ""
		}
		return "Decoder.p is stored (or its address taken) at " + prog.Pos(stores[0]) + "; len(d.p) is then not constant and the invariant argument does not hold"
	}())
	verifyPureRanges(r, prog)
	r.Floor("uint64 → int conversions of lengths in decoder.go", checkLengthConversions(r, prog, root), 3)

	var funcs []*core.FuncInfo
	for _, f := range core.Funcs(root, "decoder.go") {
		funcs = append(funcs, f)
	}
	cfg := boundsConfig(prog, root, false)
	n := runBounds(r, prog, root, cfg, funcs, func(*core.FuncInfo) bool { return true }, func(f *core.FuncInfo, ob bounds.Ob) bool {
		// Skip's post-condition needs the caller-side lemma; proved in the contract pass below
		return !(f.Name == "(*Decoder).Skip" && ob.Rule == "O-post")
	})
	// contract pass for Skip: under "cursor is past a key of this tag", len(result) >= SizeOfTagKey(tag)
	cfg2 := boundsConfig(prog, root, true)
	if sk := core.FindFunc(root, "(*Decoder).Skip"); sk != nil {
		runBounds(r, prog, root, cfg2, []*core.FuncInfo{sk}, nil, func(f *core.FuncInfo, ob bounds.Ob) bool { return ob.Rule == "O-post" })
	} else {
		r.Fail("anchor", "(*Decoder).Skip", "", "function not found")
	}
	r.Floor("functions of decoder.go analysed", n, 40)
	nd := 0
	for _, f := range funcs {
		if f.Decl != nil && f.Decl.Recv != nil && len(f.Name) > 10 && f.Name[:10] == "(*Decoder)" {
			nd++
		}
	}
	r.Floor("*Decoder methods", nd, 33)
	r.Floor("obligations", len(r.Obligations), 150)
	_ = filepath.Base
	if r.Tier == "thorough" {
		lines := map[int]bool{}
		for _, o := range r.Obligations {
			if (o.Rule == "O-idx" || o.Rule == "O-raw") && strings.HasPrefix(o.Pos, "decoder.go:") {
				var ln int
				fmt.Sscan(strings.TrimPrefix(o.Pos, "decoder.go:"), &ln)
				lines[ln] = true
			}
		}
		bceCrossCheck(r, ".", "decoder.go", lines)
	}
}

// bceCrossCheck (thorough tier, completeness cross-reference only): every site in the given file for
// which the Go compiler could not eliminate a bounds check must be one of the enumerated obligation
// sites — otherwise the syntactic enumeration missed an indexing construct.
func bceCrossCheck(r *core.Result, pkgPattern, file string, lines map[int]bool) {
	cmd := exec.Command("go", "build", "-gcflags=-d=ssa/check_bce/debug=1", pkgPattern)
	cmd.Dir = core.RepoDir()
	cmd.Env = core.GoEnv()
	out, err := cmd.CombinedOutput()
	if err != nil {
		r.Infra("BCE listing failed: %v: %s", err, firstLine(string(out)))
		return
	}
	n, missed := 0, []string{}
	for _, l := range strings.Split(string(out), "\n") {
		if !strings.Contains(l, file+":") || !strings.Contains(l, "Found Is") {
			continue
		}
		parts := strings.Split(l, ":")
		if len(parts) < 3 {
			continue
		}
		var ln int
		fmt.Sscan(parts[1], &ln)
		n++
		if !lines[ln] {
			missed = append(missed, strings.TrimSpace(l))
		}
	}
	r.Counts["compiler-unproven bounds checks in "+file] = n
	r.Ob("BCE-cross", "every compiler-unproven bounds check in "+file+" is an enumerated obligation site", file, len(missed) == 0 && n > 0, "sites not enumerated by the engine: "+strings.Join(firstN(missed, 5), "; "))
}

// checkLengthConversions (O-conv): the engine treats int(x) as x ("int is 64 bits, sums cannot wrap" is a stated
// assumption) - which is only right when x fits. A uint64 taken from the input is converted to int (to be used as a
// length or an offset) only where an upper bound `x <= C` / `x < C` has been established on every path (the 2 GB cap
// of the length-delimited readers): otherwise a length of 2^63 or more becomes negative, passes `offset+n > len(p)`
// and is accepted as an empty item.
func checkLengthConversions(r *core.Result, prog *core.Program, root *packages.Package) int {
	info := root.TypesInfo
	n := 0
	for _, f := range funcsOfFiles(root, "decoder.go") {
		if f.Decl == nil || f.Decl.Body == nil {
			continue
		}
		parents := parentMap(f.Decl.Body)
		keyer := &obKeyer{}
		ast.Inspect(f.Decl.Body, func(nn ast.Node) bool {
			c, ok := nn.(*ast.CallExpr)
			if !ok || len(c.Args) != 1 {
				return true
			}
			tv, ok := info.Types[c.Fun]
			if !ok || !tv.IsType() {
				return true
			}
			if b, ok := tv.Type.Underlying().(*types.Basic); !ok || b.Kind() != types.Int {
				return true
			}
			id, ok := ast.Unparen(c.Args[0]).(*ast.Ident)
			if !ok {
				return true
			}
			obj := info.Uses[id]
			if bt, ok := info.TypeOf(id).Underlying().(*types.Basic); !ok || (bt.Kind() != types.Uint64 && bt.Kind() != types.Uint) || obj == nil {
				return true
			}
			n++
			isX := func(e ast.Expr) bool {
				x, ok := ast.Unparen(e).(*ast.Ident)
				return ok && info.Uses[x] == obj
			}
			isConst := func(e ast.Expr) bool {
				t, ok := info.Types[e]
				return ok && t.Value != nil
			}
			upper := func(e ast.Expr) bool { // x <= C, x < C
				b, ok := e.(*ast.BinaryExpr)
				return ok && (b.Op == token.LEQ || b.Op == token.LSS) && isX(b.X) && isConst(b.Y)
			}
			notUpper := func(e ast.Expr) bool { // x > C, x >= C
				b, ok := e.(*ast.BinaryExpr)
				return ok && (b.Op == token.GTR || b.Op == token.GEQ) && isX(b.X) && isConst(b.Y)
			}
			r.Ob("O-conv", keyer.key(f.Name, "int("+id.Name+")"), prog.Pos(c.Pos()), dominatedBy2(parents, c, upper, notUpper),
				"a uint64 taken from the input is converted to int without an upper bound having been checked first: a value of 2^63 or more becomes a negative length, passes the `offset + n > len(p)` test and is accepted as an empty item (or panics in make)")
			return true
		})
	}
	return n
}

package checks

import (
	"fmt"
	"go/ast"
	"go/token"
	"go/types"
	"sort"
	"strings"

	"google.golang.org/protobuf/reflect/protoreflect"

	"csverify/core"
	"csverify/e3"
	"csverify/sym"
	"csverify/symexec"
)

func init() { register("C04", checkC04) }

func newGenInterp(info *types.Info, fset *token.FileSet, accum func(lhs ast.Expr) bool) *symexec.Interp {
	h, _, set := genHooks(info, accum)
	it := symexec.New(info, fset, h)
	set(it)
	return it
}

// sizeSummary: symbolic value of sz at the final return of Size().
func sizeSummary(ex *e3.Expansion, mc *msgCode) (*symexec.Interp, bool) {
	it, _, ok := sizeUnits(ex, mc)
	return it, ok
}

func sizeUnits(ex *e3.Expansion, mc *msgCode) (*symexec.Interp, map[string]*sym.E, bool) {
	info := mc.unit.Pkg.TypesInfo
	recv := recvObj(info, mc.size)
	// the accumulator is the variable returned by the last return statement
	var acc types.Object
	if n := len(mc.size.Body.List); n > 0 {
		if ret, ok := mc.size.Body.List[n-1].(*ast.ReturnStmt); ok && len(ret.Results) == 1 {
			if id, ok := ret.Results[0].(*ast.Ident); ok {
				acc = info.Uses[id]
			}
		}
	}
	if acc == nil {
		return nil, nil, false
	}
	it := newGenInterp(info, ex.Fset, func(lhs ast.Expr) bool {
		id, ok := lhs.(*ast.Ident)
		return ok && info.Uses[id] == acc
	})
	it.SkipGuard = func(cond ast.Expr) bool { return mentionsCacheOrNil(info, recv, cond) }
	units := runUnits(it, info, recv, mc.size.Body.List)
	return it, units, true
}

// marshalSummary: symbolic number of bytes MarshalTo() writes on non-error paths.
func marshalSummary(ex *e3.Expansion, mc *msgCode) *symexec.Interp {
	it, _ := marshalUnits(ex, mc)
	return it
}

func marshalUnits(ex *e3.Expansion, mc *msgCode) (*symexec.Interp, map[string]*sym.E) {
	info := mc.unit.Pkg.TypesInfo
	recv := recvObj(info, mc.marshalTo)
	it := newGenInterp(info, ex.Fset, nil)
	it.SkipGuard = func(cond ast.Expr) bool { return mentionsCacheOrNil(info, recv, cond) }
	units := runUnits(it, info, recv, mc.marshalTo.Body.List)
	return it, units
}

// dropAssumed removes guards that hold on every non-error path of MarshalTo.
func dropAssumed(terms map[string]int64, assumes []string) map[string]int64 {
	if len(assumes) == 0 {
		return terms
	}
	as := map[string]bool{}
	for _, a := range assumes {
		as[a] = true
	}
	out := map[string]int64{}
	for k, c := range terms {
		gs, rest := sym.SplitGuards(k)
		var keep []string
		for _, g := range gs {
			if !as[g] {
				keep = append(keep, g)
			}
		}
		out[sym.JoinGuards(keep, rest)] += c
	}
	for k, c := range out {
		if c == 0 {
			delete(out, k)
		}
	}
	return out
}

func renderTerms(m map[string]int64) string {
	var parts []string
	for k, c := range m {
		switch {
		case k == "":
			parts = append(parts, fmt.Sprint(c))
		case c == 1:
			parts = append(parts, k)
		default:
			parts = append(parts, fmt.Sprintf("%d*%s", c, k))
		}
	}
	sort.Strings(parts)
	if len(parts) == 0 {
		return "0"
	}
	return strings.Join(parts, " + ")
}

// fieldShapes maps Go field names / extension variables to a readable shape.
func fieldShapes(mc *msgCode) map[string]string {
	out := map[string]string{}
	for _, f := range mc.desc.Fields {
		key := f.GoName
		if f.Oneof != nil && !f.Oneof.Desc.IsSynthetic() {
			key = f.Oneof.GoName
			out[key] = "oneof (" + f.Desc.Syntax().String() + ")"
			continue
		}
		out[key] = groupShape(f)
		out[key+"_"] = groupShape(f) // gogo special names
	}
	if mc.unit.GenFile != nil {
		for _, exts := range extensionGroups(mc.unit.GenFile) {
			for _, e := range exts {
				out["ext:E_"+e.GoIdent.GoName] = "extension " + e.Desc.Kind().String()
			}
		}
	}
	return out
}

func checkC04(r *core.Result) {
	defer releaseExpansion()
	r.Explanation = "Symbolic agreement of generated Size() and MarshalTo() on the expanded templates: for every message of the descriptor corpus, an abstract interpreter over the generated Go source (never executed) computes the byte count Size() returns and the byte count MarshalTo() writes on non-error paths, both as guarded sums over uninterpreted atoms (TK/SV/SZ/len/Size, Σ over list and map elements; encoder calls are replaced by the spec-table summaries that C01 verifies against encoder.go). " +
		"The two normal forms are compared per field unit; equal normal forms are equal for every message value. A shared temporary read with a value left over from another field is a finding. Marshal() must allocate exactly Size() bytes and hand that buffer to MarshalTo; type assertions on extension values must match the Go type the runtime stores."
	r.RuleText = "one obligation per (message × option combination) for Size/MarshalTo agreement, reported per field unit on disagreement; plus one for the Marshal() wrapper"
	r.Assumptions = []string{"agreement under a stale size cache is C09", "Size(m) == len(Marshal(m)) for messages of the underlying runtimes and for nested generated messages", "corpus covers the cross product of the templates' decision atoms (see DESIGN §4); text/template + protogen expand faithfully"}
	r.Trusted = []string{"encoder spec table (verified against encoder.go by C01)", "sym normal forms", "go/types", "protogen"}
	ex := getExpansion(r)
	if ex == nil {
		return
	}
	nMsgs, nUnits := 0, 0
	for _, u := range ex.Units {
		if u.Pkg == nil || len(u.TypeErrors) > 0 {
			continue // C16 reports units that do not expand / compile
		}
		nUnits++
		for _, mc := range messagesOf(u) {
			if mc.size == nil || mc.marshalTo == nil || mc.marshal == nil {
				r.Fail("M-methods", mc.name(), "corpus:"+u.File.Pkg, "generated Size/Marshal/MarshalTo method missing")
				continue
			}
			nMsgs++
			sit, sunits, ok := sizeUnits(ex, mc)
			if !ok {
				r.Fail("M-size", mc.name(), mc.pos(ex, mc.size.Pos()), "Size() does not end in `return <accumulator>`")
				continue
			}
			mit, munits := marshalUnits(ex, mc)
			var probs []string
			for _, p := range sit.Problems {
				probs = append(probs, "Size: "+p.What+" ("+mc.pos(ex, p.Pos)+")")
			}
			for _, p := range mit.Problems {
				probs = append(probs, "MarshalTo: "+p.What+" ("+mc.pos(ex, p.Pos)+")")
			}
			shapes := fieldShapes(mc)
			keys := map[string]bool{}
			for k := range sunits {
				keys[k] = true
			}
			for k := range munits {
				keys[k] = true
			}
			var fields []string
			for f := range keys {
				fields = append(fields, f)
			}
			sort.Strings(fields)
			nDiff := 0
			for _, f := range fields {
				var st, mt map[string]int64
				if e := sunits[f]; e != nil {
					st = dropAssumed(e.Terms(), mit.Assumes)
				}
				if e := munits[f]; e != nil {
					mt = e.Terms()
				}
				a, b := renderTerms(st), renderTerms(mt)
				if a != b {
					nDiff++
					sh := shapes[f]
					if sh == "" {
						sh = "unit"
					}
					r.GroupOb("M-agree", "Size vs MarshalTo of a field of shape: "+sh, fmt.Sprintf("%s.%s.%s [%s]", u.File.Pkg, mc.goName, f, u.Combo.Runtime), mc.pos(ex, mc.size.Pos()), false,
						fmt.Sprintf("Size counts %s; MarshalTo writes %s", a, b))
				}
			}
			for _, p := range probs {
				r.GroupOb("M-temp", trimPos(p), fmt.Sprintf("%s.%s [%s]", u.File.Pkg, mc.goName, u.Combo.Runtime), mc.pos(ex, mc.size.Pos()), false, p)
			}
			if nDiff == 0 && len(probs) == 0 {
				r.Ob("M-agree", mc.name(), mc.pos(ex, mc.size.Pos()), true, "")
			}
			if len(r.Samples) < 6 {
				r.Sample(map[string]string{"message": mc.name(), "size": sit.Total.String()})
			}
			extensionAsserts(r, ex, u, mc)
			oneofNilArms(r, ex, u, mc)
			// Marshal() wrapper
			okW, why := marshalWrapperOK(mc)
			r.Ob("M-wrapper", mc.name()+" Marshal() = make(Size()) + MarshalTo", mc.pos(ex, mc.marshal.Pos()), okW, why)
		}
	}
	r.Programs = nUnits
	r.Floor("messages compared", nMsgs, 100)
}

func trimPos(s string) string {
	if i := strings.LastIndex(s, " (expanded:"); i > 0 {
		return s[:i]
	}
	return s
}

// marshalWrapperOK: Marshal() sizes its buffer from m.Size() and passes exactly that buffer to m.MarshalTo.
func marshalWrapperOK(mc *msgCode) (bool, string) {
	info := mc.unit.Pkg.TypesInfo
	var sizeVar, bufVar types.Object
	toOK := false
	ast.Inspect(mc.marshal.Body, func(n ast.Node) bool {
		as, ok := n.(*ast.AssignStmt)
		if !ok || len(as.Lhs) != 1 || len(as.Rhs) != 1 {
			return true
		}
		c, ok := as.Rhs[0].(*ast.CallExpr)
		if !ok {
			return true
		}
		id, _ := as.Lhs[0].(*ast.Ident)
		if id == nil {
			return true
		}
		obj := info.Defs[id]
		if obj == nil {
			obj = info.Uses[id]
		}
		switch fn := c.Fun.(type) {
		case *ast.SelectorExpr:
			if fn.Sel.Name == "Size" && len(c.Args) == 0 {
				sizeVar = obj
			}
			if fn.Sel.Name == "MarshalTo" && len(c.Args) == 1 {
				if a, ok := c.Args[0].(*ast.Ident); ok && info.Uses[a] == bufVar && bufVar != nil {
					toOK = true
				}
			}
		case *ast.Ident:
			if fn.Name == "make" && len(c.Args) == 2 {
				if a, ok := c.Args[1].(*ast.Ident); ok && info.Uses[a] == sizeVar && sizeVar != nil {
					bufVar = obj
				}
				// make([]byte, m.Size()): the size is taken in the same expression
				if sc, ok := ast.Unparen(c.Args[1]).(*ast.CallExpr); ok && len(sc.Args) == 0 {
					if se, ok := sc.Fun.(*ast.SelectorExpr); ok && se.Sel.Name == "Size" {
						if rid, ok := se.X.(*ast.Ident); ok && info.Uses[rid] == recvObj(info, mc.marshal) {
							bufVar = obj
							sizeVar = obj
						}
					}
				}
			}
		}
		return true
	})
	if sizeVar == nil {
		return false, "Marshal() does not call m.Size()"
	}
	if bufVar == nil {
		return false, "Marshal() does not allocate make([]byte, <Size()>)"
	}
	if !toOK {
		return false, "Marshal() does not pass the freshly sized buffer to m.MarshalTo"
	}
	return true, ""
}

// extensionAsserts (M-assert): a type assertion on a value obtained from GetExtension must name the Go
// type the runtime stores for that extension, otherwise Size()/MarshalTo() panic as soon as it is set.
func extensionAsserts(r *core.Result, ex *e3.Expansion, u *e3.Unit, mc *msgCode) {
	info := u.Pkg.TypesInfo
	// ExtensionType per field number, from the runtime's own generated descriptors
	extType := map[string]types.Type{}
	for _, file := range u.Pkg.Syntax {
		ast.Inspect(file, func(n ast.Node) bool {
			cl, ok := n.(*ast.CompositeLit)
			if !ok {
				return true
			}
			var et types.Type
			num := ""
			for _, el := range cl.Elts {
				kv, ok := el.(*ast.KeyValueExpr)
				if !ok {
					continue
				}
				k, _ := kv.Key.(*ast.Ident)
				if k == nil {
					continue
				}
				switch k.Name {
				case "ExtensionType":
					et = info.TypeOf(kv.Value)
				case "Field":
					if tv := info.Types[kv.Value]; tv.Value != nil {
						num = tv.Value.ExactString()
					}
				}
			}
			if et != nil && num != "" {
				extType[num] = et
			}
			return true
		})
	}
	if mc.unit.GenFile == nil {
		return
	}
	for _, exts := range extensionGroups(mc.unit.GenFile) {
		for _, e := range exts {
			if e.Extendee == nil || e.Extendee.GoIdent != mc.desc.GoIdent {
				continue
			}
			et := extType[fmt.Sprint(e.Desc.Number())]
			if et == nil {
				r.GroupOb("M-assert", "extension descriptors carry an ExtensionType", mc.name()+" "+string(e.Desc.Name()), "corpus:"+u.File.Pkg, false, "no ExtensionType found for the extension in the runtime's generated code")
				continue
			}
			want := et
			if u.Combo.Runtime == "google" {
				// the v2 API hands out scalar and enum values, not pointers to them
				if p, ok := et.(*types.Pointer); ok {
					if _, isStruct := p.Elem().Underlying().(*types.Struct); !isStruct {
						want = p.Elem()
					}
				}
			}
			ev := "E_" + e.GoIdent.GoName
			for _, fd := range []*ast.FuncDecl{mc.size, mc.marshalTo} {
				// variables bound to GetExtension(m, E_x)
				bound := map[types.Object]bool{}
				ast.Inspect(fd.Body, func(n ast.Node) bool {
					as, ok := n.(*ast.AssignStmt)
					if !ok || len(as.Rhs) != 1 {
						return true
					}
					c, ok := as.Rhs[0].(*ast.CallExpr)
					if !ok {
						return true
					}
					if fn := staticCallee(info, c); fn == nil || fn.Name() != "GetExtension" || len(c.Args) != 2 || types.ExprString(c.Args[1]) != ev {
						return true
					}
					if id, ok := as.Lhs[0].(*ast.Ident); ok {
						if o := info.Defs[id]; o != nil {
							bound[o] = true
						} else if o := info.Uses[id]; o != nil {
							bound[o] = true
						}
					}
					// assertions inside the if statement this assignment initialises
					return true
				})
				// the assertions that follow the binding, up to the next GetExtension
				var lastBind token.Pos
				var nextBind token.Pos
				ast.Inspect(fd.Body, func(n ast.Node) bool {
					c, ok := n.(*ast.CallExpr)
					if !ok {
						return true
					}
					if fn := staticCallee(info, c); fn != nil && fn.Name() == "GetExtension" && len(c.Args) == 2 {
						if types.ExprString(c.Args[1]) == ev {
							lastBind = c.Pos()
						} else if lastBind.IsValid() && c.Pos() > lastBind && !nextBind.IsValid() {
							nextBind = c.Pos()
						}
					}
					return true
				})
				if !lastBind.IsValid() {
					continue
				}
				ast.Inspect(fd.Body, func(n ast.Node) bool {
					ta, ok := n.(*ast.TypeAssertExpr)
					if !ok || ta.Type == nil || ta.Pos() < lastBind || (nextBind.IsValid() && ta.Pos() > nextBind) {
						return true
					}
					id, ok := ta.X.(*ast.Ident)
					if !ok || !bound[info.Uses[id]] {
						return true
					}
					got := info.TypeOf(ta.Type)
					okT := got != nil && types.Identical(got, want)
					grpName := "extension value assertions name the Go type stored by the " + u.Combo.Runtime + " runtime"
					if e.Desc.Cardinality() == protoreflect.Repeated {
						grpName = "repeated extensions: value assertions name the slice type the runtimes store"
					}
					r.GroupOb("M-assert", grpName, fmt.Sprintf("%s.%s %s in %s", u.File.Pkg, mc.goName, e.Desc.Kind(), fd.Name.Name), mc.pos(ex, ta.Pos()), okT,
						fmt.Sprintf("the value is asserted as %s but the runtime's GetExtension returns %s: %s() panics (interface conversion) as soon as the extension is set", types.TypeString(got, shortQual), types.TypeString(want, shortQual), fd.Name.Name))
					return true
				})
			}
		}
	}
}

func shortQual(p *types.Package) string { return p.Name() }

// oneofNilArms (M-oneof-nil): a oneof member is selected by a non-nil interface holding a wrapper pointer, and
// that pointer may itself be nil (m.F = (*M_X)(nil)): the reference runtimes treat such a member as unset. An arm
// of the type switch over the oneof that reads through the typed value must therefore be dominated by a nil test
// of it, otherwise Size()/MarshalTo() dereference a nil pointer.
func oneofNilArms(r *core.Result, ex *e3.Expansion, u *e3.Unit, mc *msgCode) {
	info := u.Pkg.TypesInfo
	for _, fd := range []*ast.FuncDecl{mc.size, mc.marshalTo} {
		if fd == nil || fd.Body == nil {
			continue
		}
		ast.Inspect(fd.Body, func(n ast.Node) bool {
			ts, ok := n.(*ast.TypeSwitchStmt)
			if !ok {
				return true
			}
			for _, cl := range ts.Body.List {
				cc := cl.(*ast.CaseClause)
				bound := info.Implicits[cc]
				if bound == nil || len(cc.List) != 1 {
					continue
				}
				if _, isPtr := bound.Type().(*types.Pointer); !isPtr {
					continue
				}
				// first dereference of the bound value, and whether a nil test that leaves the arm precedes it
				guarded := false
				var bad ast.Node
				for _, st := range cc.Body {
					if is, ok := st.(*ast.IfStmt); ok && is.Init == nil && is.Else == nil && !guarded {
						if be, ok := is.Cond.(*ast.BinaryExpr); ok && be.Op == token.EQL {
							if id, ok := be.X.(*ast.Ident); ok && info.Uses[id] == bound && isNilIdent(be.Y) && len(is.Body.List) == 1 {
								switch b := is.Body.List[0].(type) {
								case *ast.BranchStmt:
									guarded = b.Tok == token.BREAK
								case *ast.ReturnStmt:
									guarded = true
								}
								if guarded {
									continue
								}
							}
						}
						if be, ok := is.Cond.(*ast.BinaryExpr); ok && be.Op == token.NEQ {
							if id, ok := be.X.(*ast.Ident); ok && info.Uses[id] == bound && isNilIdent(be.Y) {
								continue // the whole statement runs under typedVal != nil
							}
						}
					}
					if guarded {
						break
					}
					ast.Inspect(st, func(m ast.Node) bool {
						if se, ok := m.(*ast.SelectorExpr); ok && bad == nil {
							if id, ok := se.X.(*ast.Ident); ok && info.Uses[id] == bound {
								if _, isField := info.Uses[se.Sel].(*types.Var); isField {
									bad = se
								}
							}
						}
						return bad == nil
					})
					if bad != nil {
						break
					}
				}
				name := fmt.Sprintf("%s.%s %s arm %s [%s]", u.File.Pkg, mc.goName, fd.Name.Name, types.ExprString(cc.List[0]), u.Combo.Runtime)
				pos := mc.pos(ex, cc.Pos())
				if bad != nil {
					pos = mc.pos(ex, bad.Pos())
				}
				r.GroupOb("M-oneof-nil", "oneof arms of "+fd.Name.Name+"() tolerate a nil wrapper pointer", name, pos, bad == nil,
					"the arm reads a field through the typed wrapper without a nil test: a message whose oneof holds a nil wrapper pointer (m.F = (*W)(nil), which the reference runtime treats as unset) makes "+fd.Name.Name+"() panic with a nil dereference")
			}
			return true
		})
	}
}

func isNilIdent(e ast.Expr) bool {
	id, ok := e.(*ast.Ident)
	return ok && id.Name == "nil"
}

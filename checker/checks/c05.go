package checks

import (
	"fmt"
	"go/ast"
	"go/types"
	"regexp"
	"sort"
	"strings"

	"google.golang.org/protobuf/compiler/protogen"
	"google.golang.org/protobuf/reflect/protoreflect"

	"csverify/core"
	"csverify/e3"
	"csverify/sym"
)

func init() { register("C05", checkC05) }

// safeName mirrors the generator's getSafeFieldName for the unit's options.
func safeName(u *e3.Unit, name string) string {
	for _, p := range strings.Split(u.File.Opts, ",") {
		if strings.HasPrefix(p, "specialname=") && strings.TrimPrefix(p, "specialname=") == name {
			return name + "_"
		}
	}
	return name
}

// valueBytes: bytes of one value of the kind (without the key).
func valueBytes(k protoreflect.Kind, v *sym.E) *sym.E {
	switch k {
	case protoreflect.BoolKind:
		return sym.Const(1)
	case protoreflect.Int32Kind, protoreflect.EnumKind:
		return sv(ext("sx32", v))
	case protoreflect.Int64Kind, protoreflect.Uint64Kind:
		return sv(v)
	case protoreflect.Uint32Kind:
		return sv(ext("zx32", v))
	case protoreflect.Sint32Kind:
		return sz(ext("sx32", v))
	case protoreflect.Sint64Kind:
		return sz(v)
	case protoreflect.Fixed32Kind, protoreflect.Sfixed32Kind, protoreflect.FloatKind:
		return sym.Const(4)
	case protoreflect.Fixed64Kind, protoreflect.Sfixed64Kind, protoreflect.DoubleKind:
		return sym.Const(8)
	case protoreflect.StringKind, protoreflect.BytesKind:
		return sym.Sum(sv(ln(v)), ln(v))
	case protoreflect.MessageKind:
		x := sym.Fn("Size", v)
		return sym.Sum(sv(x), x)
	}
	return sym.Atom("?kind")
}

func fieldBytes(num int64, k protoreflect.Kind, v *sym.E) *sym.E {
	return sym.Sum(tk(sym.Const(num)), valueBytes(k, v))
}

// expectedField: what a conforming encoder writes for the field (presence rule + encoding), as a byte count.
func expectedField(u *e3.Unit, f *protogen.Field) *sym.E {
	d := f.Desc
	p := "m." + safeName(u, f.GoName)
	num := int64(d.Number())
	k := d.Kind()
	switch {
	case d.IsMap():
		kk, vk := d.MapKey().Kind(), d.MapValue().Kind()
		entry := sym.Sum(fieldBytes(1, kk, sym.Atom("k")), fieldBytes(2, vk, sym.Atom("v")))
		return sym.Big("k,v", sym.Atom(p), sym.Sum(tk(sym.Const(num)), sv(entry), entry))
	case d.Cardinality() == protoreflect.Repeated && d.IsPacked():
		var payload *sym.E
		switch valueBytes(k, sym.Atom("x")).K {
		case sym.KConst:
			payload = sym.Mul(valueBytes(k, sym.Atom("x")).N, ln(sym.Atom(p)))
		default:
			payload = sym.Big("x", sym.Atom(p), valueBytes(k, sym.Atom("x")))
		}
		return sym.Guard("len("+p+")>0", sym.Sum(tk(sym.Const(num)), sv(payload), payload))
	case d.Cardinality() == protoreflect.Repeated:
		return sym.Big("x", sym.Atom(p), fieldBytes(num, k, sym.Atom("x")))
	case k == protoreflect.MessageKind:
		body := fieldBytes(num, k, sym.Atom(p))
		if d.Cardinality() == protoreflect.Required {
			return body
		}
		return sym.Guard(p+"!=nil", body)
	case d.Cardinality() == protoreflect.Required:
		if k == protoreflect.BytesKind {
			return fieldBytes(num, k, sym.Atom(p))
		}
		return fieldBytes(num, k, sym.Atom("*"+p))
	case d.HasPresence(): // proto2 optional, proto3 optional
		if k == protoreflect.BytesKind {
			return sym.Guard(p+"!=nil", fieldBytes(num, k, sym.Atom(p)))
		}
		return sym.Guard(p+"!=nil", fieldBytes(num, k, sym.Atom("*"+p)))
	default: // proto3 implicit presence
		body := fieldBytes(num, k, sym.Atom(p))
		switch k {
		case protoreflect.BoolKind:
			return sym.Guard(p, body)
		case protoreflect.StringKind, protoreflect.BytesKind:
			return sym.Guard("len("+p+")>0", body)
		case protoreflect.FloatKind, protoreflect.DoubleKind:
			// implicit presence of a float is "bit pattern is not +0": -0.0 is a value and is emitted by the reference
			return sym.Guard("bits("+p+")!=0", body)
		default:
			return sym.Guard(p+"!=0", body)
		}
	}
}

var extValRe = regexp.MustCompile(`ext\((E_\w+)\)(\.\([^)]*\))?`)
var hasExtRe = regexp.MustCompile(`(?:csproto\.)?HasExtension\(\w+, (E_\w+)\)`)

// flattenConj splits a guard of the form "(A && B)" into its top-level conjuncts.
func flattenConj(g string) []string {
	if !strings.HasPrefix(g, "(") || !strings.HasSuffix(g, ")") {
		return []string{g}
	}
	inner := g[1 : len(g)-1]
	depth := 0
	for i := 0; i < len(inner); i++ {
		switch inner[i] {
		case '(':
			depth++
		case ')':
			depth--
			if depth < 0 {
				return []string{g} // the outer parentheses do not match each other
			}
		case '&':
			if depth == 0 && strings.HasPrefix(inner[i:], "&& ") && i > 0 && inner[i-1] == ' ' {
				return append(flattenConj(strings.TrimSpace(inner[:i])), flattenConj(strings.TrimSpace(inner[i+3:]))...)
			}
		case '|':
			if depth == 0 && strings.HasPrefix(inner[i:], "|| ") {
				return []string{g}
			}
		}
	}
	return []string{g}
}

// canonTerms normalises term keys for the comparison with the expectation.
func canonTerms(in map[string]int64) map[string]int64 {
	out := map[string]int64{}
	for k, c := range in {
		k = extValRe.ReplaceAllString(k, "xv($1)")
		k = hasExtRe.ReplaceAllString(k, "hasx($1)")
		gs0, rest := sym.SplitGuards(k)
		var gs []string
		for _, g := range gs0 {
			gs = append(gs, flattenConj(g)...)
		}
		// X!=nil is implied by "X is T"; xv(E)!=nil is implied by hasx(E) (a set extension has a value)
		isOf := map[string]bool{}
		for _, g := range gs {
			if i := strings.Index(g, " is "); i > 0 {
				isOf[g[:i]] = true
			}
			if strings.HasPrefix(g, "hasx(") {
				isOf["xv("+strings.TrimPrefix(g, "hasx(")] = true
			}
		}
		var keep []string
		for _, g := range gs {
			if strings.HasSuffix(g, "!=nil") && isOf[strings.TrimSuffix(g, "!=nil")] {
				continue
			}
			keep = append(keep, g)
		}
		out[sym.JoinGuards(keep, rest)] += c
	}
	for k, c := range out {
		if c == 0 {
			delete(out, k)
		}
	}
	return out
}

// encCallsByField groups the encoder calls of MarshalTo by the field unit they belong to.
type encCall struct {
	method string
	tag    string
	inMap  bool
}

func encCallsByField(info *types.Info, mc *msgCode) map[string][]encCall {
	out := map[string][]encCall{}
	recv := recvObj(info, mc.marshalTo)
	cur := ""
	for _, s := range mc.marshalTo.Body.List {
		flds := map[string]bool{}
		ast.Inspect(s, func(n ast.Node) bool {
			if se, ok := n.(*ast.SelectorExpr); ok {
				if id, ok := se.X.(*ast.Ident); ok && info.Uses[id] == recv {
					flds[se.Sel.Name] = true
				}
			}
			if c, ok := n.(*ast.CallExpr); ok {
				if fn := staticCallee(info, c); fn != nil && fn.Name() == "GetExtension" && len(c.Args) == 2 {
					flds["ext:"+types.ExprString(c.Args[1])] = true
				}
			}
			return true
		})
		if len(flds) > 0 {
			var names []string
			for k := range flds {
				names = append(names, k)
			}
			sort.Strings(names)
			cur = names[0]
		}
		ast.Inspect(s, func(n ast.Node) bool {
			c, ok := n.(*ast.CallExpr)
			if !ok {
				return true
			}
			fn := staticCallee(info, c)
			if fn == nil || fn.Pkg() == nil || fn.Pkg().Path() != csp {
				return true
			}
			sig := fn.Type().(*types.Signature)
			if sig.Recv() == nil || namedOf(sig.Recv().Type()) != "Encoder" || len(c.Args) == 0 {
				return true
			}
			tag := types.ExprString(c.Args[0])
			out[cur] = append(out[cur], encCall{method: fn.Name(), tag: tag})
			return true
		})
	}
	return out
}

func checkC05(r *core.Result) {
	defer releaseExpansion()
	r.Explanation = "Translation validation of the generated MarshalTo() against the schema, done symbolically on the expanded templates: for every field of every corpus message the bytes MarshalTo writes (guards, iteration shape, conversions; computed by the symbolic interpreter with the spec-table encoder summaries) must equal the byte-count expression of a conforming encoder derived from the field's descriptor (presence rule per syntax/cardinality: pointer or slice non-nil, non-zero, every element, every map entry, selected oneof member, extension set; packed iff IsPacked; signed widening for int32/enum; zig-zag for sint). " +
		"In addition, per field: the encoder method(s) are those the spec table lists for the kind and packing (which fixes wire type and value encoding), every key uses the descriptor's field number, and the sets of struct fields read by Size and MarshalTo and written by Unmarshal equal the descriptor's fields (nothing dropped)."
	r.RuleText = "one obligation per (field × option combination) for presence+encoding, methods, tag; one per message for field coverage"
	r.Assumptions = []string{"not decided: equality under the reference decoder for all values (the reference runtime is not run)", "unknown-field re-emission is C07", "corpus covers the templates' decision atoms; text/template + protogen expand faithfully"}
	r.Trusted = []string{"spec table (Appendix A): presence rules and encoder summaries", "sym normal forms", "protogen descriptors"}
	ex := getExpansion(r)
	if ex == nil {
		return
	}
	nFields := 0
	for _, u := range ex.Units {
		if u.Pkg == nil || len(u.TypeErrors) > 0 {
			continue
		}
		info := u.Pkg.TypesInfo
		for _, mc := range messagesOf(u) {
			// every message of the schema, at every nesting level, gets the generated methods (a message left out
			// falls back to reflection silently, and the extensions declared inside it are lost to their extendee)
			{
				var missing []string
				for name, fd := range map[string]*ast.FuncDecl{"Size": mc.size, "Marshal": mc.marshal, "MarshalTo": mc.marshalTo, "Unmarshal": mc.unmarshal} {
					if fd == nil {
						missing = append(missing, name)
					}
				}
				sort.Strings(missing)
				r.GroupOb("V-coverage", "every message of the schema has generated Size / Marshal / MarshalTo / Unmarshal", fmt.Sprintf("%s.%s [%s]", u.File.Pkg, mc.goName, u.Combo.Runtime), "corpus:"+u.File.Pkg, len(missing) == 0,
					"no generated "+strings.Join(missing, ", ")+" for this message: the generator's walk over the (nested) messages of the file does not reach it")
			}
			if mc.size == nil || mc.marshalTo == nil {
				continue
			}
			mit, munits := marshalUnits(ex, mc)
			byField := map[string]map[string]int64{}
			for k, e := range munits {
				key := k
				if strings.HasPrefix(k, "ext:") {
					key = "xv(" + strings.TrimPrefix(k, "ext:") + ")"
				}
				byField[key] = canonTerms(e.Terms())
			}
			calls := encCallsByField(info, mc)
			covered := map[string]bool{}
			check := func(label, key, shape string, want *sym.E, num int64, methods []string, posNode ast.Node) {
				nFields++
				covered[key] = true
				name := fmt.Sprintf("%s.%s.%s [%s]", u.File.Pkg, mc.goName, label, u.Combo.Runtime)
				grp := "MarshalTo of a field of shape: " + shape
				w := renderTerms(canonTerms(want.Terms()))
				g := renderTerms(byField[key])
				pos := mc.pos(ex, mc.marshalTo.Pos())
				r.GroupOb("V-presence-encoding", grp, name, pos, w == g, fmt.Sprintf("MarshalTo writes %s; a conforming encoder writes %s", g, w))
				// methods and tags
				ckey := key
				if strings.HasPrefix(key, "xv(") {
					ckey = "ext:" + strings.TrimSuffix(strings.TrimPrefix(key, "xv("), ")")
				}
				var gotM []string
				okTag := true
				for _, c := range calls[ckey] {
					gotM = append(gotM, c.method)
					if c.method != "EncodeRaw" && c.tag != fmt.Sprint(num) && c.tag != "1" && c.tag != "2" {
						okTag = false
					}
				}
				gotSet := dedupe(gotM)
				sort.Strings(gotSet)
				wantSet := append([]string(nil), methods...)
				sort.Strings(wantSet)
				if methods != nil {
					r.GroupOb("V-method", grp, name, pos, strings.Join(gotSet, ",") == strings.Join(wantSet, ","), fmt.Sprintf("encoder methods used: %v; spec table: %v", gotSet, wantSet))
				}
				r.GroupOb("V-tag", grp, name, pos, okTag && len(gotM) > 0, fmt.Sprintf("keys written with numbers %v; descriptor says %d", callTags(calls[ckey]), num))
				if strings.HasPrefix(shape, "map<") {
					// inside an entry the key is field 1 and the value field 2, in that order after the entry header
					var inner []string
					for _, c := range calls[ckey] {
						if c.method != "EncodeMapEntryHeader" {
							inner = append(inner, c.tag)
						}
					}
					r.GroupOb("V-map-tags", grp, name, pos, strings.Join(inner, ",") == "1,2", fmt.Sprintf("entry fields are written with numbers %v; a map entry is key = 1, value = 2", inner))
				}
			}
			oneofDone := map[string]bool{}
			for _, f := range mc.desc.Fields {
				d := f.Desc
				if f.Oneof != nil && !f.Oneof.Desc.IsSynthetic() {
					if oneofDone[f.Oneof.GoName] {
						continue
					}
					oneofDone[f.Oneof.GoName] = true
					op := "m." + safeName(u, f.Oneof.GoName)
					var parts []*sym.E
					var methods []string
					for _, mf := range f.Oneof.Fields {
						wrapper := "*" + safeName(u, mf.GoIdent.GoName)
						val := sym.Atom(op + ".(" + wrapper + ")." + safeName(u, mf.GoName))
						// selected = the interface holds this wrapper type and the wrapper pointer is not nil
						parts = append(parts, sym.Guard(op+" is "+wrapper, sym.Guard(op+".("+wrapper+")!=nil", fieldBytes(int64(mf.Desc.Number()), mf.Desc.Kind(), val))))
						methods = append(methods, kindTable[mf.Desc.Kind()].encode...)
					}
					// tag check per member is folded into the byte count only by size; check numbers through the call list
					nFields++
					key := safeName(u, f.Oneof.GoName)
					covered[key] = true
					name := fmt.Sprintf("%s.%s.%s [%s]", u.File.Pkg, mc.goName, f.Oneof.GoName, u.Combo.Runtime)
					grp := "MarshalTo of a oneof (" + d.Syntax().String() + ")"
					w := renderTerms(canonTerms(sym.Sum(parts...).Terms()))
					g := renderTerms(byField[key])
					r.GroupOb("V-presence-encoding", grp, name, mc.pos(ex, mc.marshalTo.Pos()), w == g, fmt.Sprintf("MarshalTo writes %s; a conforming encoder writes %s", g, w))
					var gotM, tags, wantTags []string
					for _, c := range calls[key] {
						gotM = append(gotM, c.method)
						tags = append(tags, c.tag)
					}
					for _, mf := range f.Oneof.Fields {
						wantTags = append(wantTags, fmt.Sprint(mf.Desc.Number()))
					}
					sort.Strings(tags)
					sort.Strings(wantTags)
					gm, wm := dedupe(gotM), dedupe(methods)
					sort.Strings(gm)
					sort.Strings(wm)
					r.GroupOb("V-method", grp, name, mc.pos(ex, mc.marshalTo.Pos()), strings.Join(gm, ",") == strings.Join(wm, ","), fmt.Sprintf("encoder methods used: %v; spec table: %v", gm, wm))
					r.GroupOb("V-tag", grp, name, mc.pos(ex, mc.marshalTo.Pos()), strings.Join(tags, ",") == strings.Join(wantTags, ","), fmt.Sprintf("member keys %v; descriptor %v", tags, wantTags))
					continue
				}
				var methods []string
				row := kindTable[d.Kind()]
				switch {
				case d.IsMap():
					methods = append([]string{"EncodeMapEntryHeader"}, kindTable[d.MapKey().Kind()].encode...)
					methods = append(methods, kindTable[d.MapValue().Kind()].encode...)
					methods = dedupe(methods)
				case d.Cardinality() == protoreflect.Repeated && d.IsPacked():
					methods = row.encPack
				default:
					methods = row.encode
				}
				check(f.GoName, safeName(u, f.GoName), groupShape(f), expectedField(u, f), int64(d.Number()), methods, nil)
			}
			// extensions extending this message
			if mc.unit.GenFile != nil {
				for _, exts := range extensionGroups(mc.unit.GenFile) {
					for _, e := range exts {
						if e.Extendee == nil || e.Extendee.GoIdent != mc.desc.GoIdent {
							continue
						}
						ev := "E_" + e.GoIdent.GoName
						// presence of an extension is HasExtension. The v2 API's GetExtension never returns nil (it
						// yields the default / a typed nil message for an unset extension), so a value test is a
						// presence test only for the gogo / v1 API and only when no default is declared.
						want := sym.Guard("hasx("+ev+")", fieldBytes(int64(e.Desc.Number()), e.Desc.Kind(), sym.Atom("xv("+ev+")")))
						if u.Combo.Runtime == "gogo" && !e.Desc.HasDefault() {
							if g := renderTerms(byField["xv("+ev+")"]); !strings.Contains(g, "hasx(") {
								want = sym.Guard("xv("+ev+")!=nil", fieldBytes(int64(e.Desc.Number()), e.Desc.Kind(), sym.Atom("xv("+ev+")")))
							}
						}
						check("extension "+string(e.Desc.Name()), "xv("+ev+")", "extension "+e.Desc.Kind().String(), want, int64(e.Desc.Number()), kindTable[e.Desc.Kind()].encode, nil)
					}
				}
			}
			// extendable messages: extensions declared in OTHER files cannot be known when this file is generated
			// (the Go package of the extendee cannot import the package of the extension), so Size()/MarshalTo()
			// can only be complete if they also visit the extensions that are set at run time.
			if mc.desc.Desc.ExtensionRanges().Len() > 0 {
				generic := false
				for _, fd := range []*ast.FuncDecl{mc.size, mc.marshalTo} {
					ast.Inspect(fd.Body, func(n ast.Node) bool {
						if c, ok := n.(*ast.CallExpr); ok {
							if fn := staticCallee(info, c); fn != nil && fn.Name() == "RangeExtensions" {
								generic = true
							}
						}
						return true
					})
				}
				r.GroupOb("V-ext-open", "extendable messages marshal the extensions set at run time, not only those declared in their own file", fmt.Sprintf("%s.%s [%s]", u.File.Pkg, mc.goName, u.Combo.Runtime), mc.pos(ex, mc.marshalTo.Pos()), generic,
					"Size()/MarshalTo() enumerate only the extensions declared in the same .proto file: an extension declared in another file and set with SetExtension is silently dropped by the generated Marshal")
			}
			// anything MarshalTo writes that belongs to no descriptor field
			for k, terms := range byField {
				if !covered[k] && k != "" && len(terms) > 0 && !strings.HasPrefix(k, "unknownFields") && !strings.HasPrefix(k, "XXX_unrecognized") {
					r.GroupOb("V-presence-encoding", "MarshalTo output for something that is not a schema field", fmt.Sprintf("%s.%s %s [%s]", u.File.Pkg, mc.goName, k, u.Combo.Runtime), mc.pos(ex, mc.marshalTo.Pos()), false, "MarshalTo writes "+renderTerms(terms)+" for something that is not a field of the schema")
				}
			}
			if t, ok := byField[""]; ok && len(t) > 0 {
				r.GroupOb("V-presence-encoding", "MarshalTo output before the first field", fmt.Sprintf("%s.%s [%s]", u.File.Pkg, mc.goName, u.Combo.Runtime), mc.pos(ex, mc.marshalTo.Pos()), false, "MarshalTo writes "+renderTerms(t)+" bytes regardless of the message's contents")
			}
			// field coverage
			sit, ok := sizeSummary(ex, mc)
			if ok {
				want := map[string]bool{}
				for _, f := range mc.desc.Fields {
					if f.Oneof != nil && !f.Oneof.Desc.IsSynthetic() {
						want[safeName(u, f.Oneof.GoName)] = true
					} else {
						want[safeName(u, f.GoName)] = true
					}
				}
				written := unmarshalWrites(info, mc)
				miss := func(have map[string]bool) []string {
					var out []string
					for k := range want {
						if !have[k] {
							out = append(out, k)
						}
					}
					sort.Strings(out)
					return out
				}
				ms, mm, mu := miss(sit.Reads), miss(mit.Reads), miss(written)
				r.GroupOb("V-coverage", "every schema field is read by Size and MarshalTo and written by Unmarshal", mc.name(), mc.pos(ex, mc.size.Pos()), len(ms)+len(mm)+len(mu) == 0,
					fmt.Sprintf("schema fields not read by Size: %v; not read by MarshalTo: %v; not written by Unmarshal: %v", ms, mm, mu))
			}
		}
	}
	r.Programs = len(ex.Units)
	r.Floor("field units compared with the schema", nFields, 500)
}

func callTags(cs []encCall) []string {
	var out []string
	for _, c := range cs {
		out = append(out, c.tag)
	}
	return dedupe(out)
}

// unmarshalWrites: struct fields of the receiver assigned somewhere in Unmarshal.
func unmarshalWrites(info *types.Info, mc *msgCode) map[string]bool {
	out := map[string]bool{}
	if mc.unmarshal == nil {
		return out
	}
	recv := recvObj(info, mc.unmarshal)
	ast.Inspect(mc.unmarshal.Body, func(n ast.Node) bool {
		as, ok := n.(*ast.AssignStmt)
		if !ok {
			return true
		}
		for _, l := range as.Lhs {
			e := l
			if ix, ok := e.(*ast.IndexExpr); ok {
				e = ix.X
			}
			if se, ok := e.(*ast.SelectorExpr); ok {
				if id, ok := se.X.(*ast.Ident); ok && info.Uses[id] == recv {
					out[se.Sel.Name] = true
				}
			}
		}
		return true
	})
	return out
}

package checks

import (
	"fmt"
	"go/ast"
	"go/token"
	"go/types"
	"sort"
	"strings"

	"google.golang.org/protobuf/reflect/protoreflect"

	"csverify/core"
	"csverify/e3"
)

func init() { register("C06", checkC06) }

// wantWireTypes: wire types a conforming decoder accepts for the field.
func wantWireTypes(k protoreflect.Kind, repeated, isMap bool) []string {
	row := kindTable[k]
	if isMap {
		return []string{"WireTypeLengthDelimited"}
	}
	out := []string{row.wire}
	if repeated && packableKind(k) {
		out = append(out, "WireTypeLengthDelimited") // packed and unpacked are both legal, whatever the declaration
	}
	sort.Strings(out)
	return dedupe(out)
}

// storeShape classifies how the arm stores into the message.
func storeShapes(info *types.Info, us *unmarshalShape, a *arm, recv types.Object) []string {
	var out []string
	for _, s := range a.clause.Body {
		ast.Inspect(s, func(n ast.Node) bool {
			as, ok := n.(*ast.AssignStmt)
			if !ok {
				return true
			}
			for i, l := range as.Lhs {
				target := l
				isIndex := false
				if ix, ok := target.(*ast.IndexExpr); ok {
					target, isIndex = ix.X, true
				}
				se, ok := target.(*ast.SelectorExpr)
				if !ok {
					continue
				}
				if id, ok := se.X.(*ast.Ident); !ok || info.Uses[id] != recv {
					continue
				}
				if i >= len(as.Rhs) {
					continue
				}
				rhs := as.Rhs[i]
				switch {
				case isIndex:
					out = append(out, "map-insert")
				default:
					if c, ok := rhs.(*ast.CallExpr); ok {
						if id, ok := c.Fun.(*ast.Ident); ok && id.Name == "append" {
							if c.Ellipsis != token.NoPos {
								out = append(out, "append-spread")
							} else {
								out = append(out, "append")
							}
							continue
						}
						if id, ok := c.Fun.(*ast.Ident); ok && id.Name == "make" {
							out = append(out, "make")
							continue
						}
					}
					out = append(out, "assign")
				}
			}
			return true
		})
	}
	sort.Strings(out)
	return dedupe(out)
}

func checkC06(r *core.Result) {
	defer releaseExpansion()
	r.Explanation = "Per-arm comparison of the generated Unmarshal() with the schema, on the expanded templates: the first statement resets the destination; the field switch has exactly one arm per schema field (and per extension of the message); each arm accepts exactly the wire types a conforming decoder accepts for the field (the element wire type and, for repeated numeric kinds, also the packed form whatever the declared packing), calls the decoder method(s) of the kind, and stores with the shape of the label (assign = last wins, append, spread-append for packed runs, map insert, oneof wrapper); " +
		"map entries: the declared entry length is used to bound the entry (not discarded), the entry loop is not a fixed-count loop, key and value default to their zero values; singular message arms merge into an existing value; the default arm keeps the skipped field. Reject predicates of the packed readers are C01."
	r.RuleText = "one obligation per (arm × option combination) and rule"
	r.Assumptions = []string{"not decided: equality with the reference decoder on all legal encodings (the reference runtime is not run); merge semantics beyond the structural rule", "corpus + faithful expansion as in C04"}
	r.Trusted = []string{"spec table (wire types, decoder methods per kind)", "protogen descriptors", "go/types"}
	ex := getExpansion(r)
	if ex == nil {
		return
	}
	// U-group: unknown fields are kept through Decoder.Skip; a conforming writer of a newer schema may send a group
	// (wire types 3 / 4), which a conforming reader skips as one unknown field.
	if prog, err := core.Load("./"); err == nil {
		if f := core.FindFunc(prog.Pkg(""), "(*Decoder).Skip"); f != nil {
			have := map[string]bool{}
			ast.Inspect(f.Decl.Body, func(n ast.Node) bool {
				if cc, ok := n.(*ast.CaseClause); ok {
					for _, e := range cc.List {
						if tv := prog.Pkg("").TypesInfo.Types[e]; tv.Value != nil {
							have[tv.Value.ExactString()] = true
						}
					}
				}
				return true
			})
			r.Ob("U-group", "(*Decoder).Skip can skip a group (wire types 3 and 4)", prog.Pos(f.Pos()), have["3"] && have["4"],
				"Skip has no arm for the group wire types: a valid message that carries an unknown group field (e.g. 10 07 93 03 08 05 94 03) is rejected by the generated Unmarshal (\"unsupported wire type\") while the reference runtime keeps it as an unknown field")
		} else {
			r.Fail("anchor", "(*Decoder).Skip", "", "function not found")
		}
	}
	nArms := 0
	for _, u := range ex.Units {
		if u.Pkg == nil || len(u.TypeErrors) > 0 {
			continue
		}
		info := u.Pkg.TypesInfo
		for _, mc := range messagesOf(u) {
			if mc.unmarshal == nil {
				continue
			}
			us := dissectUnmarshal(info, mc)
			pos := mc.pos(ex, mc.unmarshal.Pos())
			if us == nil || us.sw == nil {
				r.Fail("U-shape", mc.name(), pos, "Unmarshal has no decode loop with a switch over the field number")
				continue
			}
			recv := recvObj(info, mc.unmarshal)
			// reset first
			first := false
			if len(mc.unmarshal.Body.List) > 0 {
				if es, ok := mc.unmarshal.Body.List[0].(*ast.ExprStmt); ok {
					if c, ok := es.X.(*ast.CallExpr); ok {
						if se, ok := c.Fun.(*ast.SelectorExpr); ok && se.Sel.Name == "Reset" {
							if id, ok := se.X.(*ast.Ident); ok && info.Uses[id] == recv {
								first = true
							}
						}
					}
				}
			}
			r.GroupOb("U-reset", "Unmarshal resets the destination first", mc.name(), pos, first, "Unmarshal must reset the destination before decoding (the result must not depend on earlier contents)")
			// one arm per field
			have := map[int64]bool{}
			for _, a := range us.arms {
				have[a.num] = true
			}
			var missing []string
			for _, f := range mc.desc.Fields {
				if !have[int64(f.Desc.Number())] {
					missing = append(missing, fmt.Sprintf("%s=%d", f.Desc.Name(), f.Desc.Number()))
				}
			}
			r.GroupOb("U-arms", "one arm per schema field", mc.name(), pos, len(missing) == 0, "schema fields without an arm (they would be treated as unknown): "+strings.Join(missing, ", "))
			for _, a := range us.arms {
				nArms++
				var k protoreflect.Kind
				var label, shape string
				rep, isMap := false, false
				switch {
				case a.field != nil:
					d := a.field.Desc
					k, rep, isMap = d.Kind(), d.Cardinality() == protoreflect.Repeated, d.IsMap()
					label, shape = string(d.Name()), groupShape(a.field)
				case a.ext != nil:
					k = a.ext.Desc.Kind()
					label, shape = "extension "+string(a.ext.Desc.Name()), "extension "+k.String()
				default:
					r.GroupOb("U-arms", "arm for a number outside the schema", fmt.Sprintf("%s.%s case %d [%s]", u.File.Pkg, mc.goName, a.num, u.Combo.Runtime), mc.pos(ex, a.clause.Pos()), false, "arm for a number that is neither a field nor an extension of the message")
					continue
				}
				name := fmt.Sprintf("%s.%s.%s [%s]", u.File.Pkg, mc.goName, label, u.Combo.Runtime)
				grp := "Unmarshal arm of a field of shape: " + shape
				if isMap {
					grp = "Unmarshal arm of a map field"
				}
				apos := mc.pos(ex, a.clause.Pos())
				want := wantWireTypes(k, rep, isMap)
				got := dedupe(append([]string(nil), a.wtSet...))
				okWT := a.wtSet != nil && strings.Join(got, ",") == strings.Join(want, ",")
				if a.ext == nil { // extension arms' wire-type tests are C08's finding (totality); the accepted set is still compared here
					r.GroupOb("U-wiretypes", grp, name, apos, okWT, fmt.Sprintf("arm accepts wire types %v; a conforming decoder accepts %v", got, want))
				}
				// decoder methods
				row := kindTable[k]
				var gotM []string
				for _, c := range a.calls {
					if c.method == "DecodeTag" || c.method == "Skip" || c.method == "More" {
						continue
					}
					gotM = append(gotM, c.method)
				}
				gotM = dedupe(gotM)
				sort.Strings(gotM)
				var wantM []string
				switch {
				case isMap:
					wantM = append(wantM, kindTable[a.field.Desc.MapKey().Kind()].scalar...)
					wantM = append(wantM, kindTable[a.field.Desc.MapValue().Kind()].scalar...)
				case rep && packableKind(k):
					wantM = append(append(wantM, row.scalar...), row.packed...)
				default:
					wantM = append(wantM, row.scalar...)
				}
				wantM = dedupe(wantM)
				sort.Strings(wantM)
				okM := strings.Join(gotM, ",") == strings.Join(wantM, ",")
				if isMap {
					// the entry header may be read by an extra length reader; it must not replace the key/value readers
					okM = true
					for _, w := range wantM {
						found := false
						for _, g := range gotM {
							if g == w {
								found = true
							}
						}
						if !found {
							okM = false
						}
					}
				}
				r.GroupOb("U-methods", grp, name, apos, okM, fmt.Sprintf("decoder methods %v; spec table %v", gotM, wantM))
				// store shape
				if a.ext == nil {
					ss := storeShapes(info, us, a, recv)
					var wantS string
					switch {
					case isMap:
						wantS = "make,map-insert"
					case rep && packableKind(k):
						wantS = "append,append-spread"
						if k == protoreflect.EnumKind || k == protoreflect.Sfixed32Kind || k == protoreflect.Sfixed64Kind {
							wantS = "append" // the packed reader yields the unsigned/int32 carrier type: elements are appended one by one after conversion
						}
					case rep:
						wantS = "append"
					default:
						wantS = "assign"
					}
					r.GroupOb("U-store", grp, name, apos, strings.Join(ss, ",") == wantS, fmt.Sprintf("store shapes %v; expected %s for this label", ss, wantS))
				}
				if isMap {
					checkMapEntryArm(r, info, mc, ex, a, name)
				}
				// explicit-presence bytes: the stored slice must be non-nil even when the field is present but empty
				if a.field != nil && k == protoreflect.BytesKind && !rep && !isMap && a.field.Desc.HasPresence() {
					maybeNil := ""
					for _, s := range a.clause.Body {
						ast.Inspect(s, func(n ast.Node) bool {
							as, ok := n.(*ast.AssignStmt)
							if !ok {
								return true
							}
							for _, rhs := range as.Rhs {
								if c, ok := rhs.(*ast.CallExpr); ok {
									if id, ok := c.Fun.(*ast.Ident); ok && id.Name == "append" && len(c.Args) >= 1 {
										// append(nil-valued, x...) is nil when x is empty
										first := types.ExprString(c.Args[0])
										if first == "nil" || strings.HasSuffix(first, "(nil)") {
											maybeNil = types.ExprString(rhs)
										}
									}
								}
								if id, ok := rhs.(*ast.Ident); ok && id.Name == "nil" {
									maybeNil = "nil"
								}
							}
							return true
						})
					}
					r.GroupOb("U-bytes-presence", grp, name, apos, maybeNil == "", "the decoded value passes through "+maybeNil+", which is nil for a present-but-empty field: presence (non-nil slice) is lost and the field reads as unset")
				}
				if a.field != nil && k == protoreflect.MessageKind && !rep && !isMap && !a.isOneof {
					// merge rule: the nested decoder must be given the existing value when there is one
					merges := false
					for _, s := range a.clause.Body {
						ast.Inspect(s, func(n ast.Node) bool {
							if is, ok := n.(*ast.IfStmt); ok {
								if strings.Contains(types.ExprString(is.Cond), recv.Name()+"."+safeName(u, a.field.GoName)) {
									merges = true
								}
							}
							return true
						})
					}
					r.GroupOb("U-merge", "Unmarshal arm of a singular message field", name, apos, merges, "a second occurrence of a singular message field replaces the first instead of merging into it (the reference runtime merges)")
				}
			}
			// default arm keeps the field
			okDef := false
			if us.deflt != nil {
				skip, appended := false, false
				for _, s := range us.deflt.Body {
					ast.Inspect(s, func(n ast.Node) bool {
						if c, ok := n.(*ast.CallExpr); ok {
							if fn := staticCallee(info, c); fn != nil && fn.Name() == "Skip" {
								skip = true
							}
							if id, ok := c.Fun.(*ast.Ident); ok && id.Name == "append" && c.Ellipsis != token.NoPos {
								appended = true
							}
						}
						return true
					})
				}
				okDef = skip && appended
			}
			r.GroupOb("U-default", "default arm keeps unknown fields", mc.name(), pos, okDef, "the default arm must skip the unknown field and append its raw bytes (copy) to the unknown-field storage")
		}
	}
	r.Programs = len(ex.Units)
	r.Floor("Unmarshal arms analysed", nArms, 700)
}

// checkMapEntryArm: the entry length bounds the entry; no fixed-count loop.
func checkMapEntryArm(r *core.Result, info *types.Info, mc *msgCode, ex *e3.Expansion, a *arm, name string) {
	discarded := false
	fixedLoop := false
	for _, s := range a.clause.Body {
		ast.Inspect(s, func(n ast.Node) bool {
			switch x := n.(type) {
			case *ast.AssignStmt:
				// _, err = dec.DecodeInt32()  — the entry length read and thrown away
				if len(x.Lhs) == 2 && len(x.Rhs) == 1 {
					if id, ok := x.Lhs[0].(*ast.Ident); ok && id.Name == "_" {
						if c, ok := x.Rhs[0].(*ast.CallExpr); ok {
							if fn := staticCallee(info, c); fn != nil && fn.Pkg() != nil && fn.Pkg().Path() == csp && strings.HasPrefix(fn.Name(), "Decode") {
								discarded = true
							}
						}
					}
				}
			case *ast.ForStmt:
				if b, ok := x.Cond.(*ast.BinaryExpr); ok {
					if tv := info.Types[b.Y]; tv.Value != nil {
						fixedLoop = true
					}
				}
			}
			return true
		})
	}
	apos := mc.pos(ex, a.clause.Pos())
	r.GroupOb("U-map-length", "Unmarshal arm of a map field", name, apos, !discarded, "the declared length of the map entry is read and discarded: nothing bounds the entry, so an entry that omits its key or value (legal: the zero value is implied) swallows the following field or fails with unexpected EOF")
	r.GroupOb("U-map-loop", "Unmarshal arm of a map field", name, apos, !fixedLoop, "the entry is parsed by a loop with a constant trip count: entries with fewer or more than two fields are mis-parsed")
	// U-map-cases / U-map-store: inside the entry, field 1 is the key and field 2 the value; each decoded part is stored
	// into the variable that the final `m.F[key] = value` reads; a missing message value is replaced by an empty message
	// only when it really is missing.
	var inner *ast.SwitchStmt
	var mapStore *ast.AssignStmt
	for _, s := range a.clause.Body {
		ast.Inspect(s, func(n ast.Node) bool {
			switch x := n.(type) {
			case *ast.SwitchStmt:
				if x.Tag != nil && inner == nil {
					if t := info.TypeOf(x.Tag); t != nil && t.String() == "int" {
						inner = x
					}
				}
			case *ast.AssignStmt:
				if len(x.Lhs) == 1 {
					if ix, ok := x.Lhs[0].(*ast.IndexExpr); ok {
						if _, isMap := info.TypeOf(ix.X).Underlying().(*types.Map); isMap {
							mapStore = x
						}
					}
				}
			}
			return true
		})
	}
	if inner == nil || mapStore == nil {
		r.GroupOb("U-map-cases", "Unmarshal arm of a map field", name, apos, false, "no switch over the entry's field number / no store into the map found")
		return
	}
	keyObj, valObj := types.Object(nil), types.Object(nil)
	if id, ok := mapStore.Lhs[0].(*ast.IndexExpr).Index.(*ast.Ident); ok {
		keyObj = info.Uses[id]
	}
	if id, ok := mapStore.Rhs[0].(*ast.Ident); ok {
		valObj = info.Uses[id]
	}
	assigns := func(body []ast.Stmt, obj types.Object) bool {
		found := false
		for _, st := range body {
			ast.Inspect(st, func(n ast.Node) bool {
				if as, ok := n.(*ast.AssignStmt); ok {
					for _, l := range as.Lhs {
						if id, ok := l.(*ast.Ident); ok && obj != nil && info.Uses[id] == obj {
							found = true
						}
					}
				}
				return true
			})
		}
		return found
	}
	cases := map[string]*ast.CaseClause{}
	for _, cl := range inner.Body.List {
		cc := cl.(*ast.CaseClause)
		for _, e := range cc.List {
			if tv := info.Types[e]; tv.Value != nil {
				cases[tv.Value.ExactString()] = cc
			}
		}
	}
	okCases := len(cases) == 2 && cases["1"] != nil && cases["2"] != nil
	r.GroupOb("U-map-cases", "Unmarshal arm of a map field", name, apos, okCases, fmt.Sprintf("the entry switch has arms for field numbers %v; a map entry has key = 1 and value = 2", sortedKeys(cases)))
	if okCases {
		r.GroupOb("U-map-store", "Unmarshal arm of a map field", name, apos, keyObj != nil && valObj != nil && assigns(cases["1"].Body, keyObj) && assigns(cases["2"].Body, valObj),
			"the decoded key (field 1) / value (field 2) is not stored into the variable that `m.F[key] = value` reads: the entry is inserted with a default key or value")
	}
	// defaulting of a missing message value
	okDefault := true
	for _, s := range a.clause.Body {
		ast.Inspect(s, func(n ast.Node) bool {
			is, ok := n.(*ast.IfStmt)
			if !ok {
				return true
			}
			b, ok := is.Cond.(*ast.BinaryExpr)
			if !ok || !isNilIdentExpr(b.Y) {
				return true
			}
			if id, ok := b.X.(*ast.Ident); ok && valObj != nil && info.Uses[id] == valObj && assigns(is.Body.List, valObj) {
				if b.Op != token.EQL {
					okDefault = false
				}
			}
			return true
		})
	}
	r.GroupOb("U-map-default", "Unmarshal arm of a map field", name, apos, okDefault, "the value is replaced by an empty message on a condition other than `value == nil`: a decoded value is thrown away (and a missing one stays nil)")
}

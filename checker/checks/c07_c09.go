package checks

import (
	"golang.org/x/tools/go/packages"

	"fmt"
	"go/ast"
	"go/token"
	"go/types"
	"strings"

	"csverify/core"
)

func init() {
	register("C07", checkC07)
	register("C09", checkC09)
}

// unknownFieldStore: the struct field the default arm appends skipped fields to.
func unknownFieldStore(info *types.Info, mc *msgCode, us *unmarshalShape) (string, bool) {
	if us == nil || us.deflt == nil {
		return "", false
	}
	recv := recvObj(info, mc.unmarshal)
	name := ""
	allCopy := true
	for _, s := range us.deflt.Body {
		ast.Inspect(s, func(n ast.Node) bool {
			as, ok := n.(*ast.AssignStmt)
			if !ok || len(as.Lhs) != 1 || len(as.Rhs) != 1 {
				return true
			}
			se, ok := as.Lhs[0].(*ast.SelectorExpr)
			if !ok {
				return true
			}
			if id, ok := se.X.(*ast.Ident); !ok || info.Uses[id] != recv {
				return true
			}
			name = se.Sel.Name
			// the only accepted store is  m.store = append(m.store, raw...)  (copies the raw bytes)
			c, ok := as.Rhs[0].(*ast.CallExpr)
			if !ok {
				allCopy = false
				return true
			}
			id, ok := c.Fun.(*ast.Ident)
			if !ok || id.Name != "append" || c.Ellipsis == token.NoPos || len(c.Args) != 2 || types.ExprString(c.Args[0]) != types.ExprString(as.Lhs[0]) {
				allCopy = false
			}
			return true
		})
	}
	return name, name != "" && allCopy
}

func checkC07(r *core.Result) {
	defer releaseExpansion()
	r.Explanation = "Def/use analysis of the unknown-field storage across the generated methods, on the expanded templates: the struct field to which Unmarshal's default arm appends the skipped raw field (by spread-append, i.e. a copy) must be (i) counted by Size() as its length and (ii) written by MarshalTo() through the raw re-emission primitive, with equal symbolic byte counts (len(storage)); Skip returning key + payload verbatim is C02, EncodeRaw's byte count is C01."
	r.RuleText = "three obligations per (message × option combination): stored by copy, counted in Size, re-emitted by MarshalTo"
	r.Assumptions = []string{"README §'Opting In' documents the intent (Size counts and MarshalTo writes the unknown fields)", "corpus + faithful expansion as in C04"}
	r.Trusted = []string{"sym normal forms", "go/types", "C01/C02 for EncodeRaw and Skip"}
	ex := getExpansion(r)
	if ex == nil {
		return
	}
	n := 0
	for _, u := range ex.Units {
		if u.Pkg == nil || len(u.TypeErrors) > 0 {
			continue
		}
		info := u.Pkg.TypesInfo
		for _, mc := range messagesOf(u) {
			if mc.unmarshal == nil || mc.size == nil || mc.marshalTo == nil {
				continue
			}
			n++
			us := dissectUnmarshal(info, mc)
			store, byCopy := unknownFieldStore(info, mc, us)
			pos := mc.pos(ex, mc.unmarshal.Pos())
			r.GroupOb("K-stored", "unknown fields are appended (copied) to the message's unknown-field storage", mc.name(), pos, store != "" && byCopy, "the default arm stores the skipped field other than by m.store = append(m.store, raw...): the storage then aliases the input buffer (later appends write into the caller's buffer, reuse of the buffer changes the unknown fields)")
			if store == "" {
				continue
			}
			_, sunits, ok := sizeUnits(ex, mc)
			_, munits := marshalUnits(ex, mc)
			want := "len(m." + store + ")"
			gotS, gotM := "0", "0"
			if ok && sunits[store] != nil {
				gotS = sunits[store].String()
			}
			if munits[store] != nil {
				gotM = munits[store].String()
			}
			// every computing exit of Size() lies behind the statement that adds the storage's length
			// (the early return of a cached value is the H-stale construct of C09, not an exit that computes)
			{
				recv := recvObj(info, mc.size)
				addPos := token.NoPos
				for _, st := range mc.size.Body.List {
					ast.Inspect(st, func(nn ast.Node) bool {
						if se, ok := nn.(*ast.SelectorExpr); ok && se.Sel.Name == store {
							if id, ok := se.X.(*ast.Ident); ok && info.Uses[id] == recv && !addPos.IsValid() {
								addPos = st.Pos()
							}
						}
						return true
					})
				}
				early := token.NoPos
				ast.Inspect(mc.size.Body, func(nn ast.Node) bool {
					if _, ok := nn.(*ast.FuncLit); ok {
						return false
					}
					ret, ok := nn.(*ast.ReturnStmt)
					if !ok || !addPos.IsValid() || ret.Pos() > addPos || early.IsValid() {
						return true
					}
					// the cached-size return: `if sz = atomic.Load…; sz > 0 { return sz }`
					cached := false
					for cur := ast.Node(ret); cur != nil; cur = parentMap(mc.size.Body)[cur] {
						if is, ok := cur.(*ast.IfStmt); ok && is.Init == nil {
							// if m == nil { return 0 }
							if be, ok := is.Cond.(*ast.BinaryExpr); ok && be.Op == token.EQL && isNilIdentExpr(be.Y) {
								if id, ok := be.X.(*ast.Ident); ok && info.Uses[id] == recv {
									cached = true
								}
							}
						}
						if is, ok := cur.(*ast.IfStmt); ok && is.Init != nil {
							ast.Inspect(is.Init, func(m ast.Node) bool {
								if c, ok := m.(*ast.CallExpr); ok && isAtomicCall(info, c) {
									cached = true
								}
								return true
							})
						}
					}
					if !cached {
						early = ret.Pos()
					}
					return true
				})
				pos := mc.pos(ex, mc.size.Pos())
				if early.IsValid() {
					pos = mc.pos(ex, early)
				}
				r.GroupOb("K-sized-exits", "every computing exit of Size() includes the unknown-field storage", mc.name(), pos, addPos.IsValid() && !early.IsValid(),
					"Size() can return before the length of the unknown-field storage is added: a message whose known fields are all unset reports a size without its unknown fields, and Marshal drops them")
			}
			r.GroupOb("K-sized", "Size() counts the unknown-field storage", mc.name(), mc.pos(ex, mc.size.Pos()), gotS == want,
				fmt.Sprintf("Size() counts %s for m.%s, expected %s: unknown fields kept by Unmarshal are not part of the encoded size", gotS, store, want))
			r.GroupOb("K-emitted", "MarshalTo() re-emits the unknown-field storage", mc.name(), mc.pos(ex, mc.marshalTo.Pos()), gotM == want,
				fmt.Sprintf("MarshalTo() writes %s for m.%s, expected %s: unknown fields kept by Unmarshal are dropped by the next Marshal", gotM, store, want))
		}
	}
	r.Programs = len(ex.Units)
	r.Floor("messages analysed", n, 100)
}

// noCachedSizeRule (H-nocache): no function of the package asks a runtime to reuse a size computed by an
// earlier call: no UseCachedSize option that can be true, no read of a message's size-cache field.
func noCachedSizeRule(r *core.Result, prog *core.Program, pk *packages.Package) int {
	info := pk.TypesInfo
	n := 0
	for _, f := range core.Funcs(pk) {
		if f.Decl == nil || f.Decl.Body == nil {
			continue
		}
		n++
		f := f
		ast.Inspect(f.Decl.Body, func(nn ast.Node) bool {
			switch x := nn.(type) {
			case *ast.KeyValueExpr:
				if k, ok := x.Key.(*ast.Ident); ok && k.Name == "UseCachedSize" {
					if tv, ok := info.Types[x.Value]; !ok || tv.Value == nil || tv.Value.String() != "false" {
						r.Ob("H-nocache", f.Name+" :: UseCachedSize", prog.Pos(x.Pos()), false, "a runtime is asked to reuse the sizes cached by an earlier Size call: they describe the contents at that time, not the current ones")
					}
				}
			case *ast.AssignStmt:
				for _, l := range x.Lhs {
					if se, ok := l.(*ast.SelectorExpr); ok && se.Sel.Name == "UseCachedSize" {
						r.Ob("H-nocache", f.Name+" :: UseCachedSize", prog.Pos(x.Pos()), false, "a runtime is asked to reuse the sizes cached by an earlier Size call")
					}
				}
			case *ast.SelectorExpr:
				switch x.Sel.Name {
				case "sizeCache", "XXX_sizecache", "CachedSize":
					r.Ob("H-nocache", f.Name+" :: "+x.Sel.Name, prog.Pos(x.Pos()), false, "the size cache of a message is read outside the code that owns it")
				}
			}
			return true
		})
	}
	return n
}

// ---------------------------------------------------------------------------

func cacheFieldName(mc *msgCode) string {
	if mc.unit.Combo.APIVersion() == "v1" {
		return "XXX_sizecache"
	}
	return "sizeCache"
}

func checkC09(r *core.Result) {
	defer releaseExpansion()
	r.Explanation = "Effect analysis of the generated Size/Marshal/MarshalTo on the expanded templates: (i) no stale cache — no return of Size() may yield a value loaded from the size-cache field (the result must be recomputed from the current contents), and Marshal() sizes its buffer from Size(); (ii) atomic, read-only — inside Size/Marshal/MarshalTo the cache field is touched only as &m.cache handed to sync/atomic functions, and no other field reachable from the receiver is stored to; (iii) Marshal() = make(Size()) + MarshalTo (shared with C04)."
	r.RuleText = "obligations per (message × option combination): no cached return, atomic-only cache access, no stores to message fields, wrapper shape"
	r.Assumptions = []string{"not decided: behaviour of the underlying runtime writing the same cache field; actual absence of races (needs schedules)", "corpus + faithful expansion as in C04"}
	r.Trusted = []string{"go/types"}
	ex := getExpansion(r)
	if ex == nil {
		return
	}
	n := 0
	for _, u := range ex.Units {
		if u.Pkg == nil || len(u.TypeErrors) > 0 {
			continue
		}
		info := u.Pkg.TypesInfo
		for _, mc := range messagesOf(u) {
			if mc.size == nil || mc.marshal == nil || mc.marshalTo == nil {
				continue
			}
			n++
			cache := cacheFieldName(mc)
			// (i) returns of Size() that depend on a load of the cache
			recv := recvObj(info, mc.size)
			loaded := map[types.Object]bool{}
			ast.Inspect(mc.size.Body, func(nn ast.Node) bool {
				as, ok := nn.(*ast.AssignStmt)
				if !ok || len(as.Lhs) != 1 || len(as.Rhs) != 1 {
					return true
				}
				dep := false
				ast.Inspect(as.Rhs[0], func(m ast.Node) bool {
					if se, ok := m.(*ast.SelectorExpr); ok && se.Sel.Name == cache {
						if id, ok := se.X.(*ast.Ident); ok && info.Uses[id] == recv {
							dep = true
						}
					}
					return true
				})
				if dep {
					if id, ok := as.Lhs[0].(*ast.Ident); ok {
						if o := info.Defs[id]; o != nil {
							loaded[o] = true
						} else if o := info.Uses[id]; o != nil {
							loaded[o] = true
						}
					}
				}
				return true
			})
			stale := token.NoPos
			ast.Inspect(mc.size.Body, func(nn ast.Node) bool {
				ret, ok := nn.(*ast.ReturnStmt)
				if !ok {
					return true
				}
				for _, res := range ret.Results {
					ast.Inspect(res, func(m ast.Node) bool {
						if id, ok := m.(*ast.Ident); ok && loaded[info.Uses[id]] {
							stale = ret.Pos()
						}
						if se, ok := m.(*ast.SelectorExpr); ok && se.Sel.Name == cache {
							stale = ret.Pos()
						}
						return true
					})
				}
				return true
			})
			r.GroupOb("H-stale", "Size() returns a value loaded from the size cache", mc.name(), mc.pos(ex, mc.size.Pos()), !stale.IsValid(),
				"Size() returns the cached value when it is positive: after a field is mutated (or the underlying runtime stored its own size) Marshal() allocates from the old size and MarshalTo overruns or under-fills the buffer")
			// (i') the value stored in the cache is the value returned: the accumulator handed to the atomic
			// store is the one returned and nothing is added to it afterwards
			{
				var acc types.Object
				if n := len(mc.size.Body.List); n > 0 {
					if ret, ok := mc.size.Body.List[n-1].(*ast.ReturnStmt); ok && len(ret.Results) == 1 {
						if id, ok := ret.Results[0].(*ast.Ident); ok {
							acc = info.Uses[id]
						}
					}
				}
				storePos, storesAcc := token.NoPos, false
				ast.Inspect(mc.size.Body, func(nn ast.Node) bool {
					c, ok := nn.(*ast.CallExpr)
					if !ok || !isAtomicCall(info, c) || !strings.HasPrefix(types.ExprString(c.Fun), "atomic.Store") || len(c.Args) != 2 {
						return true
					}
					storePos = c.Pos()
					ast.Inspect(c.Args[1], func(m ast.Node) bool {
						if id, ok := m.(*ast.Ident); ok && acc != nil && info.Uses[id] == acc {
							storesAcc = true
						}
						return true
					})
					return true
				})
				late := token.NoPos
				if storePos.IsValid() {
					ast.Inspect(mc.size.Body, func(nn ast.Node) bool {
						switch x := nn.(type) {
						case *ast.AssignStmt:
							for _, l := range x.Lhs {
								if id, ok := l.(*ast.Ident); ok && acc != nil && info.Uses[id] == acc && x.Pos() > storePos {
									late = x.Pos()
								}
							}
						case *ast.IncDecStmt:
							if id, ok := x.X.(*ast.Ident); ok && acc != nil && info.Uses[id] == acc && x.Pos() > storePos {
								late = x.Pos()
							}
						}
						return true
					})
				}
				r.GroupOb("H-cache-final", "the size stored in the cache is the size returned", mc.name(), mc.pos(ex, mc.size.Pos()), acc != nil && storePos.IsValid() && storesAcc && !late.IsValid(),
					"the cached size is not the final computed size (the accumulator is changed after the atomic store, or another value is stored): the next Size()/Marshal() uses a wrong size although nothing was mutated")
			}
			// (ii) cache only through sync/atomic; no stores to message fields
			for _, fd := range []*ast.FuncDecl{mc.size, mc.marshal, mc.marshalTo} {
				rv := recvObj(info, fd)
				parents := parentMap(fd.Body)
				okAtomic := true
				var badStore []string
				ast.Inspect(fd.Body, func(nn ast.Node) bool {
					switch x := nn.(type) {
					case *ast.SelectorExpr:
						if id, ok := x.X.(*ast.Ident); ok && info.Uses[id] == rv && x.Sel.Name == cache {
							// must be &m.cache as an argument of a sync/atomic call
							u1, ok1 := parents[x].(*ast.UnaryExpr)
							if !ok1 || u1.Op != token.AND {
								okAtomic = false
								return true
							}
							c, ok2 := parents[u1].(*ast.CallExpr)
							if !ok2 || !isAtomicCall(info, c) {
								okAtomic = false
							}
						}
					case *ast.AssignStmt:
						for _, l := range x.Lhs {
							if id := rootIdent(l); id != nil && info.Uses[id] == rv {
								if _, isIdent := l.(*ast.Ident); !isIdent {
									badStore = append(badStore, types.ExprString(l))
								}
							}
						}
					case *ast.IncDecStmt:
						if id := rootIdent(x.X); id != nil && info.Uses[id] == rv {
							badStore = append(badStore, types.ExprString(x.X))
						}
					}
					return true
				})
				r.GroupOb("H-atomic", "size cache accessed only through sync/atomic in "+fd.Name.Name, mc.name(), mc.pos(ex, fd.Pos()), okAtomic, "the size-cache field is read or written without sync/atomic: concurrent Size/Marshal calls on an unmodified message race")
				r.GroupOb("H-readonly", fd.Name.Name+" does not store to message fields", mc.name(), mc.pos(ex, fd.Pos()), len(badStore) == 0, "stores to "+strings.Join(badStore, ", ")+" while marshaling")
			}
			// (iii) the cache belongs to Size(): it is the only generated method that computes the size, so any
			// other method that writes the field stores something that is not the size of the current contents
			for _, fd := range []*ast.FuncDecl{mc.marshal, mc.marshalTo, mc.unmarshal, mc.checkReq} {
				if fd == nil || fd.Body == nil {
					continue
				}
				rv := recvObj(info, fd)
				var touch token.Pos
				ast.Inspect(fd.Body, func(nn ast.Node) bool {
					if x, ok := nn.(*ast.SelectorExpr); ok {
						if id, ok := x.X.(*ast.Ident); ok && info.Uses[id] == rv && x.Sel.Name == cache && !touch.IsValid() {
							touch = x.Pos()
						}
					}
					return true
				})
				pos := mc.pos(ex, fd.Pos())
				if touch.IsValid() {
					pos = mc.pos(ex, touch)
				}
				r.GroupOb("H-cache-owner", "only Size() touches the size cache (not "+fd.Name.Name+")", mc.name(), pos, !touch.IsValid(),
					fd.Name.Name+"() reads or writes the size cache: a value that is not the computed size of the current contents reaches the cache, and the next Size()/Marshal() trusts it")
			}
			okW, why := marshalWrapperOK(mc)
			r.GroupOb("H-wrapper", "Marshal() = make(Size()) + MarshalTo", mc.name(), mc.pos(ex, mc.marshal.Pos()), okW, why)
		}
	}
	r.Programs = len(ex.Units)
	r.Floor("messages analysed", n, 100)
	// hand-written packages: sizes are computed, never taken from a runtime's cache
	prog, err := core.Load(".", "./lazyproto")
	if err != nil {
		r.Infra("%v", err)
		return
	}
	nf := 0
	for _, rel := range []string{"", "lazyproto"} {
		if pk := prog.Pkg(rel); pk != nil {
			nf += noCachedSizeRule(r, prog, pk)
		}
	}
	r.Floor("hand-written functions scanned for cached-size use", nf, 150)
	mustFire(r, "H-nocache", `package fx
type opts struct{ UseCachedSize, Deterministic bool }
func (o opts) Size(m interface{}) int { return 0 }
func f(m interface{}) int { return opts{UseCachedSize: true}.Size(m) }`, func(fr *core.Result, fprog *core.Program, fpk *packages.Package) { noCachedSizeRule(fr, fprog, fpk) })
}

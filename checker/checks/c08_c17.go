package checks

import (
	"fmt"
	"go/ast"
	"go/token"
	"go/types"
	"sort"
	"strings"

	"google.golang.org/protobuf/compiler/protogen"
	"google.golang.org/protobuf/reflect/protoreflect"

	"csverify/core"
	"csverify/e3"
)

func init() {
	register("C08", checkC08)
	register("C17", checkC17)
}

// wire type each typed decoder method may be called under
var methodWire = map[string]string{
	"DecodeBool": "WireTypeVarint", "DecodeInt32": "WireTypeVarint", "DecodeInt64": "WireTypeVarint", "DecodeUInt32": "WireTypeVarint", "DecodeUInt64": "WireTypeVarint",
	"DecodeSInt32": "WireTypeVarint", "DecodeSInt64": "WireTypeVarint",
	"DecodeFixed32": "WireTypeFixed32", "DecodeFloat32": "WireTypeFixed32", "DecodeFixed64": "WireTypeFixed64", "DecodeFloat64": "WireTypeFixed64",
	"DecodeString": "WireTypeLengthDelimited", "DecodeBytes": "WireTypeLengthDelimited", "DecodeNested": "WireTypeLengthDelimited",
	"DecodePackedBool": "WireTypeLengthDelimited", "DecodePackedInt32": "WireTypeLengthDelimited", "DecodePackedInt64": "WireTypeLengthDelimited",
	"DecodePackedUint32": "WireTypeLengthDelimited", "DecodePackedUint64": "WireTypeLengthDelimited", "DecodePackedSint32": "WireTypeLengthDelimited",
	"DecodePackedSint64": "WireTypeLengthDelimited", "DecodePackedFixed32": "WireTypeLengthDelimited", "DecodePackedFixed64": "WireTypeLengthDelimited",
	"DecodePackedFloat32": "WireTypeLengthDelimited", "DecodePackedFloat64": "WireTypeLengthDelimited",
}

func armGroup(a *arm) string {
	switch {
	case a.field != nil && a.field.Desc.IsMap():
		return "Unmarshal arm of a map field"
	case a.field != nil:
		return "Unmarshal arm of a field of shape: " + groupShape(a.field)
	case a.ext != nil:
		return "Unmarshal arm of an extension of kind " + a.ext.Desc.Kind().String()
	}
	return "Unmarshal arm outside the schema"
}

func armLabel(u *e3.Unit, mc *msgCode, a *arm) string {
	l := fmt.Sprint(a.num)
	if a.field != nil {
		l = string(a.field.Desc.Name())
	} else if a.ext != nil {
		l = string(a.ext.Desc.Name())
	}
	return fmt.Sprintf("%s.%s.%s [%s]", u.File.Pkg, mc.goName, l, u.Combo.Runtime)
}

func checkC08(r *core.Result) {
	defer releaseExpansion()
	r.Explanation = "Totality clauses of the generated Unmarshal(), decided per arm on the expanded templates: every typed decoder call runs under a test of the wire type read from the key (if wt != X / switch wt) and under the wire type that the method decodes; every arm consumes the field (no empty arm); every error result of a decoder call is tested and returned; map-entry parsing is bounded by the declared entry length and tests the inner wire types; allocations in Unmarshal do not take their size from the input; " +
		"the csproto.Decoder methods reachable from generated code are listed and their bounds obligations are those discharged by C03 (so no decoder call can index out of range for any byte string)."
	r.RuleText = "obligations per (arm × option combination): wire-type dominance, method/wire-type match, consuming call, error discipline; per message: allocation rule"
	r.Assumptions = []string{"not decided: that results agree with the reference runtime whenever both accept (beyond the wire-type and method clauses shared with C06)", "corpus + faithful expansion as in C04", "C03 holds for the Decoder methods"}
	r.Trusted = []string{"spec table (method ↔ wire type)", "go/types", "C03"}
	ex := getExpansion(r)
	if ex == nil {
		return
	}
	nArms := 0
	reach := map[string]bool{}
	depthBound := decoderTracksDepth()
	for _, u := range ex.Units {
		if u.Pkg == nil || len(u.TypeErrors) > 0 {
			continue
		}
		info := u.Pkg.TypesInfo
		for _, mc := range messagesOf(u) {
			if mc.unmarshal == nil {
				continue
			}
			// T-depth: a message type that can contain itself is decoded by mutual recursion
			// (Unmarshal → DecodeNested → Unmarshal …), one Go stack frame chain per nesting level of the INPUT.
			if selfRecursive(mc.desc) {
				r.GroupOb("T-depth", "recursive message types are decoded under a nesting limit", mc.name(), mc.pos(ex, mc.unmarshal.Pos()), depthBound,
					"Unmarshal of a self-recursive message type recurses once per nesting level of the input and neither the generated code nor csproto.Decoder bounds the depth: an input nested a few million levels deep (about 14 MB) exhausts the goroutine stack, which is a fatal error the caller cannot recover from")
			}
			us := dissectUnmarshal(info, mc)
			if us == nil || us.sw == nil {
				continue
			}
			parents := parentMap(mc.unmarshal.Body)
			for _, a := range us.arms {
				nArms++
				grp, lbl := armGroup(a), armLabel(u, mc, a)
				apos := mc.pos(ex, a.clause.Pos())
				var untested, mismatched []string
				nDecode := 0
				for _, c := range a.calls {
					reach[c.method] = true
					if c.method == "DecodeTag" || c.method == "Skip" || c.method == "More" {
						continue
					}
					nDecode++
					if c.wt == "" {
						untested = append(untested, c.method)
						continue
					}
					// calls inside a map entry are governed by the entry's own wire-type tests (below)
					if a.field != nil && a.field.Desc.IsMap() {
						continue
					}
					if w := methodWire[c.method]; w != "" && w != c.wt {
						mismatched = append(mismatched, fmt.Sprintf("%s under %s", c.method, c.wt))
					}
				}
				r.GroupOb("T-wiretype-test", grp, lbl, apos, len(untested) == 0, fmt.Sprintf("decoder call(s) %v are not dominated by a test of the wire type from the key: bytes of another wire type are decoded as this kind (mis-parse / index out of range on malformed input)", dedupe(untested)))
				r.GroupOb("T-wiretype-match", grp, lbl, apos, len(mismatched) == 0, "decoder method called under a wire type it does not decode: "+strings.Join(mismatched, ", "))
				r.GroupOb("T-consume", grp, lbl, apos, nDecode > 0, "the arm consumes nothing: the field's payload is left in the stream and parsed as the next key")
				// error discipline
				var dropped []string
				for _, c := range a.calls {
					// only calls that return an error are subject to the rule
					if fn := staticCallee(info, c.call); fn != nil {
						res := fn.Type().(*types.Signature).Results()
						if res.Len() == 0 || res.At(res.Len()-1).Type().String() != "error" {
							continue
						}
					}
					if ok, why := errorIsReturned(info, c.call, parents); !ok {
						dropped = append(dropped, c.method+": "+why)
					}
				}
				r.GroupOb("T-error", grp, lbl, apos, len(dropped) == 0, "decoder error not propagated: "+strings.Join(dropped, "; "))
				// polarity: inside the arm every comparison of an error with nil is `!= nil` on a branch that leaves with an error
				badPol := ""
				for _, st := range a.clause.Body {
					ast.Inspect(st, func(n ast.Node) bool {
						is, ok := n.(*ast.IfStmt)
						if !ok {
							return true
						}
						b, ok := is.Cond.(*ast.BinaryExpr)
						if !ok || (b.Op != token.EQL && b.Op != token.NEQ) || !isNilIdentExpr(b.Y) {
							return true
						}
						id, ok := b.X.(*ast.Ident)
						if !ok {
							return true
						}
						if t := info.TypeOf(id); t == nil || t.String() != "error" {
							return true
						}
						if b.Op != token.NEQ || !returnsError(info, is.Body.List) {
							badPol = types.ExprString(is.Cond)
						}
						return true
					})
				}
				r.GroupOb("T-error-polarity", grp, lbl, apos, badPol == "", "an error is tested as `"+badPol+"`: the arm reports a failure as success or a success as failure")
				if a.field != nil && a.field.Desc.IsMap() {
					checkMapEntryArm(r, info, mc, ex, a, lbl)
					checkMapInnerWireTypes(r, info, mc, ex, a, grp, lbl)
				}
			}
			// allocations sized from the input
			var badMake []string
			ast.Inspect(mc.unmarshal.Body, func(n ast.Node) bool {
				c, ok := n.(*ast.CallExpr)
				if !ok {
					return true
				}
				if id, ok := c.Fun.(*ast.Ident); ok && id.Name == "make" && len(c.Args) > 1 {
					for _, a := range c.Args[1:] {
						if tv := info.Types[a]; tv.Value == nil {
							badMake = append(badMake, types.ExprString(c))
						}
					}
				}
				return true
			})
			r.GroupOb("T-alloc", "allocations in Unmarshal are not sized from the input", mc.name(), mc.pos(ex, mc.unmarshal.Pos()), len(badMake) == 0, "make with a non-constant size: "+strings.Join(badMake, ", "))
		}
	}
	var rl []string
	for k := range reach {
		rl = append(rl, k)
	}
	sort.Strings(rl)
	r.Sample(map[string]interface{}{"decoder_methods_reachable_from_generated_code": rl})
	r.Programs = len(ex.Units)
	r.Floor("Unmarshal arms analysed", nArms, 700)
	r.Floor("decoder methods reachable from generated code", len(rl), 25)
}

// checkMapInnerWireTypes: inside `switch etag`, each decode is preceded by `if ewt != X { return }` with the method's wire type.
func checkMapInnerWireTypes(r *core.Result, info *types.Info, mc *msgCode, ex *e3.Expansion, a *arm, grp, lbl string) {
	var bad []string
	n := 0
	for _, s := range a.clause.Body {
		ast.Inspect(s, func(nn ast.Node) bool {
			sw, ok := nn.(*ast.SwitchStmt)
			if !ok || sw.Tag == nil {
				return true
			}
			if id, ok := sw.Tag.(*ast.Ident); !ok || id.Name != "etag" {
				return true
			}
			for _, cl := range sw.Body.List {
				cc := cl.(*ast.CaseClause)
				if cc.List == nil {
					continue
				}
				tested := ""
				for _, st := range cc.Body {
					if is, ok := st.(*ast.IfStmt); ok && is.Init == nil {
						if b, ok := is.Cond.(*ast.BinaryExpr); ok && b.Op == token.NEQ && types.ExprString(b.X) == "ewt" && terminates(is.Body.List) {
							tested = wtName(b.Y)
							continue
						}
					}
					ast.Inspect(st, func(m ast.Node) bool {
						if c, ok := m.(*ast.CallExpr); ok {
							if fn := staticCallee(info, c); fn != nil && fn.Pkg() != nil && fn.Pkg().Path() == csp {
								if w, ok := methodWire[fn.Name()]; ok {
									n++
									if tested != w {
										bad = append(bad, fmt.Sprintf("%s under inner wire type %q", fn.Name(), tested))
									}
								}
							}
						}
						return true
					})
				}
			}
			return true
		})
	}
	r.GroupOb("T-map-inner", grp, lbl, mc.pos(ex, a.clause.Pos()), len(bad) == 0 && n >= 2, "map entry key/value decoded without a matching test of the inner wire type: "+strings.Join(bad, ", "))
}

// ---------------------------------------------------------------------------

func requiredFieldsOf(mc *msgCode) []string {
	var out []string
	if mc.desc.Desc.Syntax() != protoreflect.Proto2 {
		return nil
	}
	for _, f := range mc.desc.Fields {
		if f.Desc.Cardinality() == protoreflect.Required {
			out = append(out, safeName(mc.unit, f.GoName))
		}
	}
	sort.Strings(out)
	return out
}

func checkC17(r *core.Result) {
	defer releaseExpansion()
	r.Explanation = "Must-pass-through and error-discipline rules for proto2 required fields, on the expanded templates: for every message with required fields, MarshalTo tests each required field for nil and returns an error before encoding it; every return of Marshal() with a nil error lies after the call of MarshalTo (no short-circuit that skips the check, e.g. on size 0); every `return nil` of Unmarshal() lies after the call of the required-field checker (no short-circuit on empty input); the checker tests exactly the descriptor's required fields; the checker exists exactly for the messages that have required fields; " +
		"every EncodeNested call in any generated MarshalTo has its error tested and returned, so a nested message's required-field error reaches the caller."
	r.RuleText = "obligations per (message with required fields × option combination) and per EncodeNested call site"
	r.Assumptions = []string{"not decided: the converse (no spurious error) beyond guard equality", "corpus + faithful expansion as in C04"}
	r.Trusted = []string{"protogen descriptors", "go/types"}
	ex := getExpansion(r)
	if ex == nil {
		return
	}
	nReq, nNested := 0, 0
	for _, u := range ex.Units {
		if u.Pkg == nil || len(u.TypeErrors) > 0 {
			continue
		}
		info := u.Pkg.TypesInfo
		for _, mc := range messagesOf(u) {
			if mc.marshalTo == nil || mc.marshal == nil || mc.unmarshal == nil {
				continue
			}
			// Q-map-value: a map entry that omits its value stands for the value type's empty message; when that type
			// has required fields the entry lacks them, so the substitution of an empty message must be followed by the
			// value's required-field check (or be an error).
			for _, fld := range mc.desc.Fields {
				if !fld.Desc.IsMap() || fld.Desc.MapValue().Message() == nil {
					continue
				}
				valMsg := fld.Message.Fields[1].Message
				hasReq := false
				for _, vf := range valMsg.Fields {
					if vf.Desc.Cardinality() == protoreflect.Required {
						hasReq = true
					}
				}
				if !hasReq {
					continue
				}
				checked := false
				ast.Inspect(mc.unmarshal.Body, func(n ast.Node) bool {
					is, ok := n.(*ast.IfStmt)
					if !ok {
						return true
					}
					b, ok := is.Cond.(*ast.BinaryExpr)
					if !ok || b.Op != token.EQL || !isNilIdentExpr(b.Y) {
						return true
					}
					if id, ok := b.X.(*ast.Ident); !ok || !strings.Contains(strings.ToLower(id.Name), "value") {
						return true
					}
					// inside the defaulting branch: an error return or a required check
					if returnsError(info, is.Body.List) {
						checked = true
					}
					ast.Inspect(is.Body, func(m ast.Node) bool {
						if c, ok := m.(*ast.CallExpr); ok {
							if fn := staticCallee(info, c); fn != nil && strings.Contains(fn.Name(), "CheckRequiredFields") {
								checked = true
							}
						}
						return true
					})
					return true
				})
				r.GroupOb("Q-map-value", "a map entry without a value is checked against the value type's required fields", fmt.Sprintf("%s.%s.%s [%s]", u.File.Pkg, mc.goName, fld.GoName, u.Combo.String()), mc.pos(ex, mc.unmarshal.Pos()), checked,
					"the entry's missing value is replaced by an empty message without checking that message's required fields: input that lacks a required field is accepted")
			}
			req := requiredFieldsOf(mc)
			pos := mc.pos(ex, mc.marshalTo.Pos())
			r.GroupOb("Q-helper", "required-field checker exists exactly for messages with required fields", mc.name(), pos, (mc.checkReq != nil) == (len(req) > 0), fmt.Sprintf("required fields %v; checker generated: %v", req, mc.checkReq != nil))
			// nested errors (all messages)
			parents := parentMap(mc.marshalTo.Body)
			ast.Inspect(mc.marshalTo.Body, func(n ast.Node) bool {
				c, ok := n.(*ast.CallExpr)
				if !ok {
					return true
				}
				fn := staticCallee(info, c)
				if fn == nil || fn.Name() != "EncodeNested" || fn.Pkg() == nil || fn.Pkg().Path() != csp {
					return true
				}
				nNested++
				okE, why := errorIsReturned(info, c, parents)
				grp := "EncodeNested error is propagated: " + nestedContext(parents, c)
				r.GroupOb("Q-nested-error", grp, fmt.Sprintf("%s :: %s", mc.name(), types.ExprString(c)), mc.pos(ex, c.Pos()), okE, "a nested message's marshal error (e.g. its missing required field) is dropped ("+why+"): Marshal reports success and the output holds zero bytes for that field")
				return true
			})
			if len(req) == 0 {
				continue
			}
			nReq++
			// MarshalTo: nil test with error exit per required field
			mit := marshalSummary(ex, mc)
			as := map[string]bool{}
			for _, a := range mit.Assumes {
				as[a] = true
			}
			var unguarded []string
			for _, f := range req {
				if !as["m."+f+"!=nil"] {
					unguarded = append(unguarded, f)
				}
			}
			r.GroupOb("Q-guard", "MarshalTo returns an error for each unset required field", mc.name(), pos, len(unguarded) == 0, "required fields encoded without a nil test that returns an error: "+strings.Join(unguarded, ", "))
			// Marshal: success returns only after MarshalTo
			var toPos token.Pos
			ast.Inspect(mc.marshal.Body, func(n ast.Node) bool {
				if c, ok := n.(*ast.CallExpr); ok {
					if se, ok := c.Fun.(*ast.SelectorExpr); ok && se.Sel.Name == "MarshalTo" {
						toPos = c.Pos()
					}
				}
				return true
			})
			early := token.NoPos
			ast.Inspect(mc.marshal.Body, func(n ast.Node) bool {
				if ret, ok := n.(*ast.ReturnStmt); ok && len(ret.Results) == 2 && isNilIdentExpr(ret.Results[1]) && (!toPos.IsValid() || ret.Pos() < toPos) {
					early = ret.Pos()
				}
				return true
			})
			r.GroupOb("Q-marshal-path", "every successful return of Marshal() passes through MarshalTo", mc.name(), mc.pos(ex, mc.marshal.Pos()), toPos.IsValid() && !early.IsValid(),
				"Marshal() returns (bytes, nil) before calling MarshalTo (size == 0 shortcut): a message whose required fields are all unset has size 0 and is marshaled without the required-field error")
			// Unmarshal: `return nil` only after the checker
			var chkPos token.Pos
			ast.Inspect(mc.unmarshal.Body, func(n ast.Node) bool {
				if c, ok := n.(*ast.CallExpr); ok {
					if se, ok := c.Fun.(*ast.SelectorExpr); ok && se.Sel.Name == "csprotoCheckRequiredFields" {
						chkPos = c.Pos()
					}
				}
				return true
			})
			earlyU := token.NoPos
			ast.Inspect(mc.unmarshal.Body, func(n ast.Node) bool {
				if ret, ok := n.(*ast.ReturnStmt); ok && len(ret.Results) == 1 && isNilIdentExpr(ret.Results[0]) && (!chkPos.IsValid() || ret.Pos() < chkPos) {
					earlyU = ret.Pos()
				}
				return true
			})
			r.GroupOb("Q-unmarshal-path", "every successful return of Unmarshal() passes through the required-field check", mc.name(), mc.pos(ex, mc.unmarshal.Pos()), chkPos.IsValid() && !earlyU.IsValid(),
				"Unmarshal() returns nil before the required-field check (empty-input shortcut): empty input is accepted although required fields are missing")
			// checker tests exactly the required fields
			if mc.checkReq != nil {
				var tested []string
				rv := recvObj(info, mc.checkReq)
				ast.Inspect(mc.checkReq.Body, func(n ast.Node) bool {
					if is, ok := n.(*ast.IfStmt); ok {
						if b, ok := is.Cond.(*ast.BinaryExpr); ok && b.Op == token.EQL && isNilIdentExpr(b.Y) {
							if se, ok := b.X.(*ast.SelectorExpr); ok {
								if id, ok := se.X.(*ast.Ident); ok && info.Uses[id] == rv {
									tested = append(tested, se.Sel.Name)
								}
							}
						}
					}
					return true
				})
				sort.Strings(tested)
				r.GroupOb("Q-check-exact", "the checker tests exactly the required fields", mc.name(), mc.pos(ex, mc.checkReq.Pos()), strings.Join(tested, ",") == strings.Join(req, ","), fmt.Sprintf("checker tests %v; descriptor requires %v", tested, req))
			}
		}
	}
	r.Programs = len(ex.Units)
	r.Floor("messages with required fields", nReq, 6)
	r.Floor("EncodeNested call sites", nNested, 60)
}

// nestedContext names the template context of an EncodeNested call.
func nestedContext(parents map[ast.Node]ast.Node, c ast.Node) string {
	for cur := c; cur != nil; cur = parents[cur] {
		switch x := parents[cur].(type) {
		case *ast.CaseClause:
			if _, ok := parents[x].(*ast.BlockStmt); ok {
				if _, isTS := parents[parents[x]].(*ast.TypeSwitchStmt); isTS {
					return "oneof member"
				}
			}
		case *ast.RangeStmt:
			if x.Key != nil {
				if id, ok := x.Key.(*ast.Ident); ok && id.Name != "_" {
					return "map value"
				}
			}
			return "repeated field"
		}
	}
	return "singular field / extension"
}

// selfRecursive: the message can (transitively) contain a value of its own type.
func selfRecursive(m *protogen.Message) bool {
	seen := map[string]bool{}
	var walk func(x *protogen.Message) bool
	walk = func(x *protogen.Message) bool {
		for _, f := range x.Fields {
			if f.Message == nil {
				continue
			}
			if f.Message.Desc.FullName() == m.Desc.FullName() {
				return true
			}
			k := string(f.Message.Desc.FullName())
			if seen[k] {
				continue
			}
			seen[k] = true
			if walk(f.Message) {
				return true
			}
		}
		return false
	}
	return walk(m)
}

// decoderTracksDepth: csproto.Decoder (or DecodeNested) carries a nesting counter / limit.
func decoderTracksDepth() bool {
	prog, err := core.Load("./")
	if err != nil {
		return false
	}
	root := prog.Pkg("")
	found := false
	isDepthName := func(n string) bool {
		l := strings.ToLower(n)
		return strings.Contains(l, "depth") || strings.Contains(l, "recursion") || strings.Contains(l, "nestlevel") || strings.Contains(l, "nesting")
	}
	if obj := root.Types.Scope().Lookup("Decoder"); obj != nil {
		if st, ok := obj.Type().Underlying().(*types.Struct); ok {
			for i := 0; i < st.NumFields(); i++ {
				if isDepthName(st.Field(i).Name()) {
					found = true
				}
			}
		}
	}
	if f := core.FindFunc(root, "(*Decoder).DecodeNested"); f != nil && f.Decl != nil {
		ast.Inspect(f.Decl.Body, func(n ast.Node) bool {
			if id, ok := n.(*ast.Ident); ok && isDepthName(id.Name) {
				found = true
			}
			return true
		})
	}
	return found
}

package checks

import (
	"fmt"
	"go/ast"
	"go/token"
	"go/types"
	"strings"

	"golang.org/x/tools/go/packages"

	"csverify/core"
)

func init() { register("C10", checkC10) }

// isFastModeCond: the condition holds only when the user opted into the unsafe / fast mode.
func isFastModeCond(info *types.Info, cond ast.Expr) bool {
	switch x := cond.(type) {
	case *ast.ParenExpr:
		return isFastModeCond(info, x.X)
	case *ast.SelectorExpr:
		if _, _, fld, ok := fieldSel(info, x); ok && fld == "unsafe" {
			return true
		}
	case *ast.BinaryExpr:
		if x.Op == token.LAND {
			return isFastModeCond(info, x.X) || isFastModeCond(info, x.Y)
		}
		if x.Op != token.EQL && x.Op != token.NEQ {
			return false
		}
		l, r := x.X, x.Y
		if _, _, fld, ok := fieldSel(info, r); ok && fld == "mode" {
			l, r = r, l
		}
		if _, _, fld, ok := fieldSel(info, l); !ok || fld != "mode" {
			// also accept a Mode() call
			if c, ok := l.(*ast.CallExpr); !ok || !strings.HasSuffix(types.ExprString(c.Fun), ".Mode") {
				return false
			}
		}
		name := types.ExprString(r)
		name = name[strings.LastIndex(name, ".")+1:]
		return (x.Op == token.EQL && name == "DecoderModeFast") || (x.Op == token.NEQ && name == "DecoderModeSafe")
	}
	return false
}

// isSafeModeCond: the condition holds exactly in the default (safe) mode.
func isSafeModeCond(info *types.Info, cond ast.Expr) bool {
	switch x := cond.(type) {
	case *ast.ParenExpr:
		return isSafeModeCond(info, x.X)
	case *ast.UnaryExpr:
		if x.Op == token.NOT {
			return isFastModeCond(info, x.X)
		}
	case *ast.BinaryExpr:
		if x.Op != token.EQL && x.Op != token.NEQ {
			return false
		}
		flipped := &ast.BinaryExpr{X: x.X, Y: x.Y, Op: token.NEQ}
		if x.Op == token.NEQ {
			flipped.Op = token.EQL
		}
		return isFastModeCond(info, flipped)
	}
	return false
}

// fastGuarded: node lies in a region only reached in fast/unsafe mode.
func fastGuarded(info *types.Info, parents map[ast.Node]ast.Node, body *ast.BlockStmt, n ast.Node) bool {
	for cur := n; cur != nil; cur = parents[cur] {
		p := parents[cur]
		switch x := p.(type) {
		case *ast.IfStmt:
			if ast.Node(x.Body) == cur && isFastModeCond(info, x.Cond) {
				return true
			}
			if x.Else != nil && ast.Node(x.Else) == cur && isSafeModeCond(info, x.Cond) {
				return true
			}
		case *ast.CaseClause:
			if sw, ok := parents[parents[p]].(*ast.SwitchStmt); ok && sw.Tag != nil {
				if _, _, fld, ok := fieldSel(info, sw.Tag); ok && fld == "mode" {
					for _, e := range x.List {
						nm := types.ExprString(e)
						if strings.HasSuffix(nm, "DecoderModeFast") && len(x.List) == 1 {
							return true
						}
					}
				}
			}
		case *ast.BlockStmt:
			// an earlier `if <safe mode> { …; return }` in the same block: the rest runs in fast mode only
			for _, s := range x.List {
				if s.End() > cur.Pos() {
					break
				}
				if is, ok := s.(*ast.IfStmt); ok && isSafeModeCond(info, is.Cond) && terminates(is.Body.List) {
					return true
				}
			}
		}
	}
	return false
}

func parentMap(root ast.Node) map[ast.Node]ast.Node {
	parents := map[ast.Node]ast.Node{}
	var stack []ast.Node
	ast.Inspect(root, func(n ast.Node) bool {
		if n == nil {
			stack = stack[:len(stack)-1]
			return true
		}
		if len(stack) > 0 {
			parents[n] = stack[len(stack)-1]
		}
		stack = append(stack, n)
		return true
	})
	return parents
}

type aliasCfg struct {
	fieldOrigin func(typ, field string) origin
	summary     func(fn *types.Func, args []origin) (origin, bool)
	always      map[string]string // functions that alias by documented design
	skip        func(f *core.FuncInfo) bool
}

// aliasReturns checks every byte-holding return of the given functions.
func aliasReturns(r *core.Result, prog *core.Program, pk *packages.Package, funcs []*core.FuncInfo, cfg aliasCfg) (nFuncs, nReturns int) {
	info := pk.TypesInfo
	for _, f := range funcs {
		ft := f.Type()
		if ft.Results == nil || len(ft.Results.List) == 0 {
			continue
		}
		holds := false
		for _, fld := range ft.Results.List {
			if holdsBytes(info.TypeOf(fld.Type)) {
				holds = true
			}
		}
		if !holds {
			continue
		}
		if cfg.skip != nil && cfg.skip(f) {
			continue
		}
		nFuncs++
		oa := newOriginAnalyzer(pk, ft, f.Body())
		oa.fieldOrigin = cfg.fieldOrigin
		oa.summary = cfg.summary
		oa.solve()
		parents := parentMap(f.Body())
		keyer := &obKeyer{}
		ast.Inspect(f.Body(), func(n ast.Node) bool {
			if lit, ok := n.(*ast.FuncLit); ok && lit != f.Lit {
				return false
			}
			ret, ok := n.(*ast.ReturnStmt)
			if !ok {
				return true
			}
			for _, res := range ret.Results {
				if !holdsBytes(info.TypeOf(res)) {
					continue
				}
				nReturns++
				o := oa.of(res)
				site := keyer.key(f.Name, "return "+types.ExprString(res))
				if why, ok := cfg.always[f.Name]; ok {
					r.Ob("A-return", site+" [aliases by design: "+why+"]", prog.Pos(ret.Pos()), true, "")
					continue
				}
				okRet := o == oFresh || fastGuarded(info, parents, f.Body(), ret)
				detail := ""
				if !okRet {
					detail = fmt.Sprintf("returns %s memory (%s) outside a fast/unsafe-mode guard: in the default safe mode the value changes when the caller reuses its buffer", o, types.ExprString(res))
				}
				r.Ob("A-return", site, prog.Pos(ret.Pos()), okRet, detail)
			}
			return true
		})
		// element stores into a container that is returned: values stored must be fresh unless guarded
		ast.Inspect(f.Body(), func(n ast.Node) bool {
			if lit, ok := n.(*ast.FuncLit); ok && lit != f.Lit {
				return false
			}
			as, ok := n.(*ast.AssignStmt)
			if !ok || len(as.Lhs) != len(as.Rhs) {
				return true
			}
			for i, l := range as.Lhs {
				ixe, ok := l.(*ast.IndexExpr)
				if !ok || !holdsBytes(info.TypeOf(ixe)) {
					continue
				}
				if _, isMap := info.TypeOf(ixe.X).Underlying().(*types.Map); isMap {
					continue
				}
				if _, isField := ixe.X.(*ast.SelectorExpr); isField {
					continue // stores into receiver state are C14's business
				}
				o := oa.of(as.Rhs[i])
				okSt := o == oFresh || fastGuarded(info, parents, f.Body(), as)
				r.Ob("A-elem", keyer.key(f.Name, types.ExprString(l)+" = "+types.ExprString(as.Rhs[i])), prog.Pos(as.Pos()), okSt,
					fmt.Sprintf("stores %s memory into a returned container outside a fast/unsafe-mode guard", o))
			}
			return true
		})
	}
	return
}

func checkC10(r *core.Result) {
	defer releaseExpansion()
	r.Explanation = "Alias (origin) analysis of byte/string memory on go/ast + go/types: every value is classified fresh / internal / caller's-buffer by a flow-insensitive fixpoint over assignments (string([]byte) conversions, slices.Clone, bytes.Clone, make are fresh; sub-slices, unsafe casts, field reads of recorded data alias). " +
		"Rules: (a) csproto.Decoder — every function of decoder.go returning string/[]byte returns aliasing memory only in a region guarded by the fast-mode test; DecodeBytes and Skip alias by documented design (named exceptions) — the generated code's handling of DecodeBytes results is checked on the expanded templates (E3 part); " +
		"(b) lazyproto — every function or closure whose result holds bytes returns aliasing memory only under the unsafe-mode guard, element stores into returned containers likewise; (*Decoder).Decode hands the caller's buffer to the pooled decode only on the path where the mode is not safe (otherwise a clone); the deprecated Decode always clones; scratch-slice caching is C14-R4."
	r.RuleText = "one obligation per byte-holding return / element store / decode entry call"
	r.Assumptions = []string{"not decided: deep equality of decoded values before/after clobbering (runtime behaviour)", "generic helpers (scalarValue, sliceValue, loadFieldDataType) pass through what their conversion closures return; the closures are the checked sites"}
	r.Trusted = []string{"go/types", "origin rules in checks/origin.go", "exception table: DecodeBytes, Skip (documented to return sub-slices), NestedResult's internal closure"}
	prog, err := core.Load("./...")
	if err != nil {
		r.Infra("%v", err)
		return
	}
	root := prog.Pkg("")
	lp := prog.Pkg("lazyproto")
	// (a) csproto.Decoder
	rootSummary := func(fn *types.Func, args []origin) (origin, bool) {
		if fn.Pkg() != nil && fn.Pkg().Path() == csp {
			switch fn.Name() {
			case "DecodeBytes", "Skip":
				return oParam, true
			case "DecodeString":
				return oFresh, true // verified below: aliases only in fast mode
			}
		}
		return 0, false
	}
	var rf []*core.FuncInfo
	for _, f := range core.Funcs(root, "decoder.go") {
		rf = append(rf, f)
	}
	nf, nr := aliasReturns(r, prog, root, rf, aliasCfg{
		fieldOrigin: func(typ, field string) origin {
			if typ == "Decoder" && field == "p" {
				return oParam
			}
			return oInternal
		},
		summary: rootSummary,
		always: map[string]string{
			"(*Decoder).DecodeBytes": "documented to return a sub-slice of the input; callers copy",
			"(*Decoder).Skip":        "documented to return the raw field bytes; callers copy",
		},
	})
	r.Floor("decoder.go functions returning bytes/strings", nf, 3)
	_ = nr
	// (b) lazyproto
	var lf []*core.FuncInfo
	for _, f := range core.Funcs(lp) {
		lf = append(lf, f)
	}
	lazySummary := func(fn *types.Func, args []origin) (origin, bool) {
		if fn.Pkg() != nil && fn.Pkg().Path() == csp {
			return rootSummary(fn, args)
		}
		if fn.Pkg() == lp.Types {
			switch fn.Name() {
			case "scalarValue", "sliceValue", "loadFieldDataType":
				// result is what the conversion closure / method returns; those are checked sites
				return oFresh, true
			}
		}
		return 0, false
	}
	nf2, nr2 := aliasReturns(r, prog, lp, lf, aliasCfg{
		fieldOrigin: func(typ, field string) origin { return oInternal },
		summary:     lazySummary,
		always:      map[string]string{"(*DecodeResult).NestedResult$1": "internal closure: the raw sub-slice flows only into decodeWithPool, never to the caller"},
		skip: func(f *core.FuncInfo) bool {
			// generic pass-through helpers
			return f.Name == "scalarValue" || f.Name == "sliceValue" || f.Name == "loadFieldDataType" ||
				// wrappers of the form loadFieldDataType(r, tag, (*FieldData).X)
				(f.Decl != nil && namedRecv(f) == "DecodeResult" && strings.HasSuffix(f.Name, "Value") || strings.HasSuffix(f.Name, "Values")) && namedRecvSafe(f) == "DecodeResult"
		},
	})
	r.Floor("lazyproto functions returning bytes/strings", nf2, 6)
	r.Floor("byte-holding returns classified", nr+nr2, 14)
	// NestedResult's closure result must flow only into decodeWithPool
	if f := core.FindFunc(lp, "(*DecodeResult).NestedResult"); f != nil {
		info := lp.TypesInfo
		okFlow := true
		var bObj types.Object
		ast.Inspect(f.Decl.Body, func(n ast.Node) bool {
			if as, ok := n.(*ast.AssignStmt); ok && len(as.Rhs) == 1 {
				if c, ok := as.Rhs[0].(*ast.CallExpr); ok {
					if fn := staticCallee(info, c); fn != nil && fn.Name() == "scalarValue" {
						if id, ok := as.Lhs[0].(*ast.Ident); ok {
							bObj = info.Defs[id]
						}
					}
				}
			}
			return true
		})
		if bObj != nil {
			ast.Inspect(f.Decl.Body, func(n ast.Node) bool {
				id, ok := n.(*ast.Ident)
				if !ok || info.Uses[id] != bObj {
					return true
				}
				return true
			})
			pm := parentMap(f.Decl.Body)
			ast.Inspect(f.Decl.Body, func(n ast.Node) bool {
				id, ok := n.(*ast.Ident)
				if !ok || info.Uses[id] != bObj {
					return true
				}
				c, isCall := pm[id].(*ast.CallExpr)
				if !isCall {
					okFlow = false
					return true
				}
				if fn := staticCallee(info, c); fn == nil || fn.Name() != "decodeWithPool" {
					okFlow = false
				}
				return true
			})
		} else {
			okFlow = false
		}
		r.Ob("A-exception", "(*DecodeResult).NestedResult raw sub-slice flows only into decodeWithPool", prog.Pos(f.Pos()), okFlow, "the un-cloned nested bytes are used other than as the nested decoder's input")
	}
	// entry points hand the caller's buffer to the decode only in fast mode
	checkDecodeEntry(r, prog, lp)
	// E3: generated Unmarshal in safe mode
	genAliasRule(r)
}

func namedRecvSafe(f *core.FuncInfo) string {
	if f.Decl == nil {
		return ""
	}
	return namedRecv(f)
}

func checkDecodeEntry(r *core.Result, prog *core.Program, lp *packages.Package) {
	info := lp.TypesInfo
	n := 0
	for _, name := range []string{"(*Decoder).Decode", "Decode"} {
		f := core.FindFunc(lp, name)
		if f == nil {
			r.Fail("anchor", name, "", "entry point not found")
			continue
		}
		oa := newOriginAnalyzer(lp, f.Type(), f.Body())
		oa.solve()
		parents := parentMap(f.Body())
		ast.Inspect(f.Body(), func(nn ast.Node) bool {
			c, ok := nn.(*ast.CallExpr)
			if !ok {
				return true
			}
			fn := staticCallee(info, c)
			if fn == nil || (fn.Name() != "decodeWithPool" && fn.Name() != "decode") || len(c.Args) < 1 {
				return true
			}
			n++
			o := oa.of(c.Args[0])
			ok2 := o == oFresh || fastGuarded(info, parents, f.Body(), c) || safeModeReplaced(info, lp, f.Body(), c, c.Args[0])
			r.Ob("A-entry", name+" :: "+types.ExprString(c), prog.Pos(c.Pos()), ok2,
				fmt.Sprintf("the %s buffer is recorded by the decode without a copy on a path that is not restricted to the fast mode", o))
			return true
		})
	}
	r.Floor("decode entry calls", n, 2)
}

// safeModeReplaced: the argument is a local that starts as the caller's buffer and is replaced by a fresh copy under
// `if <safe mode> { buf = <fresh> }` in the same statement list before the call, with no other assignment:
//
//	buf := data; if dec.mode == DecoderModeSafe { buf = slices.Clone(data) }; return dec.decodeWithPool(buf)
//
// so in safe mode the decode records the copy.
func safeModeReplaced(info *types.Info, pk *packages.Package, body *ast.BlockStmt, call *ast.CallExpr, arg ast.Expr) bool {
	id, ok := ast.Unparen(arg).(*ast.Ident)
	if !ok {
		return false
	}
	obj := info.Uses[id]
	if obj == nil {
		return false
	}
	replaced := false
	others := 0
	for _, st := range body.List {
		if st.Pos() > call.Pos() {
			break
		}
		switch x := st.(type) {
		case *ast.AssignStmt:
			for _, l := range x.Lhs {
				if lid, ok := l.(*ast.Ident); ok && (info.Defs[lid] == obj || info.Uses[lid] == obj) {
					if x.Tok != token.DEFINE {
						others++
					}
					replaced = false // a later plain assignment undoes an earlier replacement
				}
			}
		case *ast.IfStmt:
			if x.Init == nil && x.Else == nil && isSafeModeCond(info, x.Cond) && len(x.Body.List) == 1 {
				if as, ok := x.Body.List[0].(*ast.AssignStmt); ok && as.Tok == token.ASSIGN && len(as.Lhs) == 1 && len(as.Rhs) == 1 {
					if lid, ok := as.Lhs[0].(*ast.Ident); ok && info.Uses[lid] == obj {
						if c, ok := as.Rhs[0].(*ast.CallExpr); ok {
							if name := types.ExprString(c.Fun); name == "slices.Clone" || name == "bytes.Clone" {
								replaced = true
								continue
							}
							if name := types.ExprString(c.Fun); name == "append" && len(c.Args) == 2 && c.Ellipsis != token.NoPos {
								if tv, ok := info.Types[c.Args[0]]; ok && (tv.IsNil() || types.ExprString(c.Args[0]) == "[]byte(nil)" || types.ExprString(c.Args[0]) == "[]byte{}") {
									replaced = true
									continue
								}
							}
						}
					}
				}
			}
			// any other statement that assigns the variable inside an if
			if assignsObj(info, x, obj) {
				others++
			}
		default:
			if assignsObj(info, st, obj) {
				others++
			}
		}
	}
	return replaced && others == 0
}

// genAliasRule (E3 part): in generated Unmarshal built WITHOUT enableunsafedecode, a value obtained from
// dec.DecodeBytes() (a sub-slice of the input) must not be stored into the message without a copy.
func genAliasRule(r *core.Result) {
	ex := getExpansion(r)
	if ex == nil {
		return
	}
	n := 0
	for _, u := range ex.Units {
		if u.Pkg == nil || len(u.TypeErrors) > 0 || u.Combo.Unsafe {
			continue
		}
		info := u.Pkg.TypesInfo
		for _, mc := range messagesOf(u) {
			if mc.unmarshal == nil {
				continue
			}
			us := dissectUnmarshal(info, mc)
			if us == nil || us.sw == nil {
				continue
			}
			recv := recvObj(info, mc.unmarshal)
			// A-mode: without enableunsafedecode no decoder used by Unmarshal is switched to the fast mode
			// (DecodeString copies only in safe mode); a sub-decoder may inherit the mode of its parent
			ast.Inspect(mc.unmarshal.Body, func(nn ast.Node) bool {
				c, ok := nn.(*ast.CallExpr)
				if !ok {
					return true
				}
				fn := staticCallee(info, c)
				if fn == nil || fn.Name() != "SetMode" || fn.Pkg() == nil || fn.Pkg().Path() != csp || len(c.Args) != 1 {
					return true
				}
				arg := types.ExprString(c.Args[0])
				okMode := strings.HasSuffix(arg, "DecoderModeSafe") || strings.HasSuffix(arg, ".Mode()")
				r.GroupOb("A-mode", "safe-mode Unmarshal never switches a decoder to the fast mode", mc.name()+" :: "+types.ExprString(c), mc.pos(ex, c.Pos()), okMode,
					"a decoder is put into "+arg+" although the code was generated without enableunsafedecode: strings decoded through it alias the input buffer")
				return true
			})
			arms := append([]*arm(nil), us.arms...)
			if us.deflt != nil {
				arms = append(arms, &arm{num: -1, clause: us.deflt})
			}
			for _, a := range arms {
				// locals holding the un-copied sub-slice
				tainted := map[types.Object]bool{}
				isCopy := func(e ast.Expr) bool {
					c, ok := e.(*ast.CallExpr)
					if !ok {
						return false
					}
					name := types.ExprString(c.Fun)
					if name == "slices.Clone" || name == "bytes.Clone" || name == "string" {
						return true
					}
					if name == "append" && c.Ellipsis != token.NoPos && len(c.Args) == 2 {
						// append(fresh, b...) copies
						if id, ok := c.Args[0].(*ast.Ident); ok && tainted[info.Uses[id]] {
							return false
						}
						if _, isSel := c.Args[0].(*ast.SelectorExpr); isSel {
							// append(m.X, b...) on a []byte field copies the bytes
							if s, ok := info.TypeOf(c.Args[0]).Underlying().(*types.Slice); ok {
								if b, ok := s.Elem().Underlying().(*types.Basic); ok && b.Kind() == types.Byte {
									return true
								}
							}
						}
						return true
					}
					return false
				}
				mentions := func(e ast.Expr) bool {
					if isCopy(e) {
						return false
					}
					hit := false
					ast.Inspect(e, func(m ast.Node) bool {
						if c, ok := m.(*ast.CallExpr); ok && isCopy(c) {
							return false
						}
						if id, ok := m.(*ast.Ident); ok && tainted[info.Uses[id]] {
							hit = true
						}
						if c, ok := m.(*ast.CallExpr); ok {
							if fn := staticCallee(info, c); fn != nil && fn.Pkg() != nil && fn.Pkg().Path() == csp {
								if sig := fn.Type().(*types.Signature); sig.Recv() != nil && namedOf(sig.Recv().Type()) == "Decoder" {
									// a decoder method's result aliases the input only for DecodeBytes / Skip
									// (DecodeString copies in safe mode: C10 (a)); do not look into the receiver
									if fn.Name() == "DecodeBytes" || fn.Name() == "Skip" {
										hit = true
									}
									return false
								}
							}
						}
						return true
					})
					return hit
				}
				for round := 0; round < 4; round++ {
					for _, s := range a.clause.Body {
						ast.Inspect(s, func(m ast.Node) bool {
							as, ok := m.(*ast.AssignStmt)
							if !ok {
								return true
							}
							var srcTainted bool
							if len(as.Rhs) == 1 {
								srcTainted = mentions(as.Rhs[0])
							}
							for i, l := range as.Lhs {
								if len(as.Rhs) == len(as.Lhs) {
									srcTainted = mentions(as.Rhs[i])
								}
								if !srcTainted {
									continue
								}
								if id := rootIdent(l); id != nil {
									o := info.Defs[id]
									if o == nil {
										o = info.Uses[id]
									}
									if o != nil && o != recv && mayHoldBytesDeep(o.Type(), 0) {
										tainted[o] = true
									}
								}
							}
							return true
						})
					}
				}
				if len(tainted) == 0 {
					continue
				}
				n++
				var bad []string
				for _, s := range a.clause.Body {
					ast.Inspect(s, func(m ast.Node) bool {
						switch x := m.(type) {
						case *ast.AssignStmt:
							for i, l := range x.Lhs {
								if id := rootIdent(l); id == nil || info.Uses[id] != recv {
									continue
								}
								rhs := x.Rhs[0]
								if len(x.Rhs) == len(x.Lhs) {
									rhs = x.Rhs[i]
								}
								if mentions(rhs) {
									bad = append(bad, types.ExprString(l)+" = "+types.ExprString(rhs))
								}
							}
						case *ast.CallExpr:
							if fn := staticCallee(info, x); fn != nil && fn.Name() == "SetExtension" {
								for _, arg := range x.Args {
									if mentions(arg) {
										bad = append(bad, types.ExprString(x))
									}
								}
							}
						}
						return true
					})
				}
				grp, lbl := armGroup(a), armLabel(u, mc, a)
				if a.num == -1 {
					grp, lbl = "default arm (unknown fields)", mc.name()
				}
				r.GroupOb("A-generated", grp, lbl, mc.pos(ex, a.clause.Pos()), len(bad) == 0,
					"the sub-slice returned by DecodeBytes is stored into the message without a copy ("+strings.Join(dedupe(bad), "; ")+"): in the default safe mode the decoded bytes change when the caller reuses the input buffer")
			}
		}
	}
	r.Floor("generated arms handling DecodeBytes results (safe mode)", n, 40)
}

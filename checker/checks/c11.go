package checks

import (
	"fmt"
	"go/ast"
	"go/token"
	"go/types"
	"strings"

	"golang.org/x/tools/go/packages"

	"csverify/core"
)

func init() { register("C11", checkC11) }

var c11Files = []string{"marshal.go", "sizeof.go", "clone.go", "equal.go", "reset.go", "marshal_text.go", "message_types.go", "grpc_codec.go"}

// containsPanic reports a call to panic in the statements.
func containsPanic(info *types.Info, list []ast.Stmt) token.Pos {
	pos := token.NoPos
	for _, s := range list {
		ast.Inspect(s, func(n ast.Node) bool {
			if c, ok := n.(*ast.CallExpr); ok {
				if id, ok := c.Fun.(*ast.Ident); ok {
					if b, ok := info.Uses[id].(*types.Builtin); ok && b.Name() == "panic" {
						pos = c.Pos()
					}
				}
			}
			return true
		})
	}
	return pos
}

// checkMsgSwitches: D2
func checkMsgSwitches(r *core.Result, prog *core.Program, pk *packages.Package, switches []msgSwitch, panicAllowed map[string]bool) {
	info := pk.TypesInfo
	keyer := &obKeyer{}
	for _, ms := range switches {
		name := keyer.key(ms.fn.Name, "switch MsgType")
		var missing []string
		for _, c := range []string{"MessageTypeGogo", "MessageTypeGoogleV1", "MessageTypeGoogle"} {
			if ms.arms[c] == nil {
				missing = append(missing, c)
			}
		}
		r.Ob("D2", name+" handles the three supported runtimes", prog.Pos(ms.sw.Pos()), len(missing) == 0, "no arm for "+strings.Join(missing, ", "))
		// fall-through: default arm + statements after the switch
		var rest []ast.Stmt
		if ms.deflt != nil {
			rest = append(rest, ms.deflt.Body...)
		}
		if c := ms.arms["MessageTypeUnknown"]; c != nil {
			rest = append(rest, c.Body...)
		}
		for _, s := range ms.fn.Decl.Body.List {
			if s.Pos() > ms.sw.End() {
				rest = append(rest, s)
			}
		}
		p := containsPanic(info, rest)
		okPanic := !p.IsValid() || panicAllowed[ms.fn.Name]
		r.Ob("D2", name+" unsupported types do not panic", prog.Pos(ms.sw.Pos()), okPanic, "the path for unsupported message types panics at "+prog.Pos(p)+" (only Reset and ClearExtension are documented to panic)")
	}
}

// checkClassification: D4 on deduceMsgType
func checkClassification(r *core.Result, prog *core.Program, pk *packages.Package, asserted map[string][]types.Type) {
	info := pk.TypesInfo
	f := core.FindFunc(pk, "deduceMsgType")
	if f == nil {
		r.Fail("anchor", "deduceMsgType", "", "function not found")
		return
	}
	parents := parentMap(f.Decl.Body)
	n := 0
	ast.Inspect(f.Decl.Body, func(nn ast.Node) bool {
		ret, ok := nn.(*ast.ReturnStmt)
		if !ok || len(ret.Results) != 1 {
			return true
		}
		name := types.ExprString(ret.Results[0])
		fam, ok := familyOfConst[name]
		if !ok {
			return true
		}
		n++
		// successful comma-ok assertions that dominate the return (enclosing `if v, ok := x.(T); ok`, or a guard clause
		// `v, ok := x.(T); if !ok { return … }` before it)
		var held []types.Type
		ast.Inspect(f.Decl.Body, func(m ast.Node) bool {
			as, ok := m.(*ast.AssignStmt)
			if !ok || len(as.Lhs) != 2 || len(as.Rhs) != 1 || as.Pos() > ret.Pos() {
				return true
			}
			ta, ok := as.Rhs[0].(*ast.TypeAssertExpr)
			okID, ok2 := as.Lhs[1].(*ast.Ident)
			if !ok || !ok2 || ta.Type == nil || info.Defs[okID] == nil {
				return true
			}
			okObj := info.Defs[okID]
			if dominatedBy(parents, ret, func(e ast.Expr) bool {
				id, isID := e.(*ast.Ident)
				return isID && info.Uses[id] == okObj
			}) {
				held = append(held, info.TypeOf(ta.Type))
			}
			return true
		})
		var missing []string
		for _, want := range asserted[fam] {
			wi, isIface := want.Underlying().(*types.Interface)
			if !isIface {
				continue
			}
			implied := false
			for _, h := range held {
				if types.Identical(h, want) || types.Implements(h, wi) {
					implied = true
				}
			}
			if !implied {
				missing = append(missing, want.String())
			}
		}
		missing = dedupe(missing)
		r.Ob("D4", "deduceMsgType :: return "+name+" implies the interfaces asserted in the "+fam+" arms", prog.Pos(ret.Pos()), len(missing) == 0,
			fmt.Sprintf("this classification is not dominated by a successful assertion implying %s, which the %s arms assert without a check (any other pointer value reaching here makes Clone/Equal/MarshalText/… panic)", strings.Join(missing, ", "), fam))
		return true
	})
	r.Floor("classification returns in deduceMsgType", n, 3)
}

func dedupe(in []string) []string {
	seen := map[string]bool{}
	var out []string
	for _, s := range in {
		if !seen[s] {
			seen[s] = true
			out = append(out, s)
		}
	}
	return out
}

// probeOrder lists, for a function, the categories of the interfaces probed with `if v, ok := msg.(I); ok`.
func probeOrder(pk *packages.Package, fn *core.FuncInfo) []string {
	info := pk.TypesInfo
	var out []string
	for _, s := range fn.Decl.Body.List {
		is, ok := s.(*ast.IfStmt)
		if !ok {
			continue
		}
		as, ok := is.Init.(*ast.AssignStmt)
		if !ok || len(as.Rhs) != 1 {
			continue
		}
		ta, ok := as.Rhs[0].(*ast.TypeAssertExpr)
		if !ok || ta.Type == nil {
			continue
		}
		t := info.TypeOf(ta.Type)
		if isResetOnly(t) && !returnsAnything(is.Body.List) {
			continue // a capability test that does not leave the function (the reset before decoding) is not a probe
		}
		cat := "other"
		if fam, ok := familyOfTypeExpr(info, ta.Type); ok {
			cat = fam
		} else if n, ok := t.(*types.Named); ok && n.Obj().Pkg() != nil && n.Obj().Pkg().Path() == csp {
			if strings.HasPrefix(n.Obj().Name(), "ProtoV1") {
				cat = "v1x"
			} else {
				cat = "own"
			}
		} else if n, ok := t.(*types.Named); ok && n.Obj().Pkg() != nil {
			cat = n.Obj().Pkg().Name() + "." + n.Obj().Name()
		}
		out = append(out, cat)
	}
	return out
}

func checkC11(r *core.Result) {
	r.Explanation = "Dispatcher-family analysis of the runtime-agnostic API (marshal.go, sizeof.go, clone.go, equal.go, reset.go, marshal_text.go, message_types.go, grpc_codec.go): regions of code that run for one runtime (case MessageTypeX arms, successful comma-ok assertions to a runtime's interface) are extracted; D1 every reference inside a region names that runtime's packages (family taken from the import the source names); D2 every switch over MsgType has arms for the three supported runtimes and its fall-through does not panic (Reset excepted); D3 assertions inside a region name the region's runtime; " +
		"D4 classification soundness: each `return MessageTypeX` of deduceMsgType is dominated by a successful assertion whose method set includes every interface the X arms assert without a check; D5 Marshal, Unmarshal and Size probe the interface families in the same order; D6 the classification cache is touched only through sync.Map methods and no package-level variable is written; D7 the gRPC codec is named \"proto\" and forwards to Marshal/Unmarshal; D8 transparency: Clone, Equal and MarshalText consist of the dispatch only (plus the documented TextMarshaler probe / type-mismatch test), each runtime arm calls exactly the runtime function that defines the runtime's own result (Clone, Equal, MarshalTextString / prototext.Format), returns what it produced and does not post-process it; D9 probe forwarders: Marshal, Unmarshal and Size are sequences of `if v, ok := msg.(I); ok { return <call> }` guarded by the positive ok of their own assertion, each returning the table's method of the asserted value (Marshal/XXX_Marshal/proto.Marshal …, with the data parameter passed on and an empty buffer for the appending XXX_Marshal), followed only by the documented fall-back result."
	r.RuleText = "one obligation per region / switch / classification return / probe sequence"
	r.Assumptions = []string{"not decided: equality of results with the owning runtime (delegated calls), data-race freedom of first classification beyond 'only sync.Map operations'"}
	r.Trusted = []string{"go/types", "family table (import path → runtime)"}
	prog, err := core.Load("./")
	if err != nil {
		r.Infra("%v", err)
		return
	}
	root := prog.Pkg("")
	r.Counts["type switches read as assertion chains"] = desugarTypeSwitches(root)
	info := root.TypesInfo
	funcs := funcsOfFiles(root, c11Files...)
	regs, switches := findRegions(root, funcs)
	r.Floor("runtime regions", len(regs), 14)
	r.Floor("MsgType switches", len(switches), 3)
	checkRegions(r, prog, root, regs)
	checkMsgSwitches(r, prog, root, switches, map[string]bool{"Reset": true})
	checkResetAndCache(r, prog, root)
	// D10: reflect.TypeOf(nil interface) is a nil reflect.Type: method calls on such a value need a nil test
	checkReflectTypeNil(r, prog, root)
	// D9: Marshal / Unmarshal / Size probes
	checkProbeForwarders(r, prog, root)
	// D13: the size pass precedes the table-driven v1 marshaler
	checkSizeBeforeV1Marshal(r, prog, root)
	// D8: Clone / Equal / MarshalText hand back the owning runtime's own result
	checkForwarders(r, prog, root, "D8", "Clone", "Equal", "MarshalText")
	// D4 uses the assertions of *all* dispatch files (extensions.go too)
	allFuncs := funcsOfFiles(root, append(append([]string{}, c11Files...), "extensions.go")...)
	allRegs, _ := findRegions(root, allFuncs)
	checkClassification(r, prog, root, uncheckedAssertions(root, allRegs))
	// D5
	var ref []string
	for i, name := range []string{"Marshal", "Unmarshal", "Size"} {
		f := core.FindFunc(root, name)
		if f == nil {
			r.Fail("anchor", name, "", "function not found")
			continue
		}
		po := probeOrder(root, f)
		if i == 0 {
			ref = po
			r.Ob("D5", "Marshal probes own, v1 hooks, v2", prog.Pos(f.Pos()), strings.Join(po, ",") == "own,v1x,v2", "probe order is "+strings.Join(po, ","))
			continue
		}
		r.Ob("D5", name+" probes the runtimes in Marshal's order", prog.Pos(f.Pos()), strings.Join(po, ",") == strings.Join(ref, ","), fmt.Sprintf("%s probes %v, Marshal probes %v", name, po, ref))
	}
	// D6
	cacheOK, nUses := true, 0
	// the type cache: the package-level sync.Map that MsgType consults
	var cacheObj types.Object
	if mt := core.FindFunc(root, "MsgType"); mt != nil && mt.Decl != nil {
		ast.Inspect(mt.Decl.Body, func(n ast.Node) bool {
			if id, ok := n.(*ast.Ident); ok && cacheObj == nil {
				if v, ok := info.Uses[id].(*types.Var); ok && v.Parent() == root.Types.Scope() && v.Type().String() == "sync.Map" {
					cacheObj = v
				}
			}
			return true
		})
	}
	for _, file := range root.Syntax {
		if strings.HasSuffix(prog.Fset.Position(file.Pos()).Filename, "_test.go") {
			continue
		}
		parents := parentMap(file)
		ast.Inspect(file, func(n ast.Node) bool {
			id, ok := n.(*ast.Ident)
			if !ok || cacheObj == nil || info.Uses[id] != cacheObj {
				return true
			}
			nUses++
			se, ok := parents[id].(*ast.SelectorExpr)
			if !ok {
				cacheOK = false
				return true
			}
			if _, isCall := parents[se].(*ast.CallExpr); !isCall {
				cacheOK = false
			}
			return true
		})
	}
	r.Ob("D6", "type cache reached only through sync.Map methods", "message_types.go", cacheObj != nil && cacheOK && nUses >= 2, fmt.Sprintf("uses=%d; the cache must only be used as receiver of sync.Map method calls", nUses))
	// D6b: the cache only ever holds deduced classifications — every value written to it is the result of
	// deduceMsgType (no placeholder that a concurrent first user could observe), and every result of MsgType
	// is a cache hit or that deduced value
	nWrites := 0
	for _, f := range core.Funcs(root) {
		if f.Decl == nil {
			continue
		}
		deduced := map[types.Object]bool{}
		ast.Inspect(f.Decl.Body, func(n ast.Node) bool {
			as, ok := n.(*ast.AssignStmt)
			if !ok || len(as.Lhs) != 1 || len(as.Rhs) != 1 {
				return true
			}
			if c, ok := as.Rhs[0].(*ast.CallExpr); ok {
				if fn := staticCallee(info, c); fn != nil && fn.Name() == "deduceMsgType" {
					if id, ok := as.Lhs[0].(*ast.Ident); ok {
						if o := info.Defs[id]; o != nil {
							deduced[o] = true
						} else if o := info.Uses[id]; o != nil {
							deduced[o] = true
						}
					}
				}
			}
			return true
		})
		ast.Inspect(f.Decl.Body, func(n ast.Node) bool {
			c, ok := n.(*ast.CallExpr)
			if !ok {
				return true
			}
			se, ok := c.Fun.(*ast.SelectorExpr)
			if !ok {
				return true
			}
			if id, ok := se.X.(*ast.Ident); !ok || cacheObj == nil || info.Uses[id] != cacheObj {
				return true
			}
			valIdx := map[string]int{"Store": 1, "LoadOrStore": 1, "Swap": 1, "CompareAndSwap": 2}
			idx, writes := valIdx[se.Sel.Name]
			if !writes {
				return true
			}
			nWrites++
			okVal := false
			if idx < len(c.Args) {
				switch v := c.Args[idx].(type) {
				case *ast.Ident:
					okVal = deduced[info.Uses[v]]
				case *ast.CallExpr:
					if fn := staticCallee(info, v); fn != nil && fn.Name() == "deduceMsgType" {
						okVal = true
					}
				}
			}
			r.Ob("D6", f.Name+" :: unmarshalMap."+se.Sel.Name+" stores a deduced classification", prog.Pos(c.Pos()), okVal, "a value other than the result of deduceMsgType is written to the type cache: a goroutine racing on the first use of the type can read it and get a wrong classification (Clone returns nil, Equal false, MarshalText an error for a valid message)")
			return true
		})
	}
	r.Floor("writes to the type cache", nWrites, 1)
	for _, f := range core.Funcs(root) {
		if f.Decl == nil {
			continue
		}
		f := f
		pkgLevelWrites(info, f.Decl.Body, false, func(pos token.Pos, v *types.Var, how string) {
			r.Ob("D6", f.Name+" writes package-level "+v.Name(), prog.Pos(pos), false, "package-level state "+v.Pkg().Name()+"."+v.Name()+" is "+how+" outside initialisation")
		})
	}
	// D7
	if f := core.FindFunc(root, "GrpcCodec.Name"); f != nil {
		ok := false
		if len(f.Decl.Body.List) == 1 {
			if ret, isR := f.Decl.Body.List[0].(*ast.ReturnStmt); isR && len(ret.Results) == 1 {
				if tv := info.Types[ret.Results[0]]; tv.Value != nil && tv.Value.ExactString() == `"proto"` {
					ok = true
				}
			}
		}
		r.Ob("D7", "GrpcCodec.Name returns \"proto\"", prog.Pos(f.Pos()), ok, "the codec must be registered under the name gRPC uses for protobuf")
	} else {
		r.Fail("anchor", "GrpcCodec.Name", "", "method not found")
	}
	for _, m := range []string{"Marshal", "Unmarshal"} {
		f := core.FindFunc(root, "GrpcCodec."+m)
		if f == nil {
			r.Fail("anchor", "GrpcCodec."+m, "", "method not found")
			continue
		}
		ok := false
		if len(f.Decl.Body.List) == 1 {
			if ret, isR := f.Decl.Body.List[0].(*ast.ReturnStmt); isR && len(ret.Results) == 1 {
				if c, isC := ret.Results[0].(*ast.CallExpr); isC {
					if fn := staticCallee(info, c); fn != nil && fn.Name() == m && fn.Type().(*types.Signature).Recv() == nil && fn.Pkg() == root.Types {
						// arguments are the parameters in order
						var params []types.Object
						for _, fl := range f.Decl.Type.Params.List {
							for _, nm := range fl.Names {
								params = append(params, info.Defs[nm])
							}
						}
						ok = len(params) == len(c.Args)
						for i, a := range c.Args {
							if id, isID := a.(*ast.Ident); !isID || i >= len(params) || info.Uses[id] != params[i] {
								ok = false
							}
						}
					}
				}
			}
		}
		r.Ob("D7", "GrpcCodec."+m+" forwards to csproto."+m, prog.Pos(f.Pos()), ok, "the codec method must return csproto."+m+"(its parameters)")
	}
}

// checkReflectTypeNil (D10): in message_types.go every method call on a reflect.Type value (the result of
// reflect.TypeOf on the caller's value, which is nil for an untyped nil) is guarded by a nil test of that value:
// an earlier `if t == nil { return … }`, or `t == nil || t.M()…` / `t != nil && t.M()…` in the same condition.
func checkReflectTypeNil(r *core.Result, prog *core.Program, pk *packages.Package) {
	info := pk.TypesInfo
	n := 0
	for _, f := range funcsOfFiles(pk, "message_types.go") {
		parents := parentMap(f.Decl.Body)
		ast.Inspect(f.Decl.Body, func(nn ast.Node) bool {
			c, ok := nn.(*ast.CallExpr)
			if !ok {
				return true
			}
			se, ok := c.Fun.(*ast.SelectorExpr)
			if !ok {
				return true
			}
			id, ok := se.X.(*ast.Ident)
			if !ok {
				return true
			}
			obj := info.Uses[id]
			if obj == nil || obj.Type().String() != "reflect.Type" {
				return true
			}
			n++
			guarded := false
			isNilCmp := func(e ast.Expr, op token.Token) bool {
				b, ok := e.(*ast.BinaryExpr)
				if !ok || b.Op != op || !isNilIdentExpr(b.Y) {
					return false
				}
				x, ok := b.X.(*ast.Ident)
				return ok && info.Uses[x] == obj
			}
			// same condition
			for cur := ast.Node(c); cur != nil; cur = parents[cur] {
				if b, ok := parents[cur].(*ast.BinaryExpr); ok && b.Y == cur {
					if (b.Op == token.LOR && isNilCmp(b.X, token.EQL)) || (b.Op == token.LAND && isNilCmp(b.X, token.NEQ)) {
						guarded = true
					}
				}
			}
			// earlier early return
			for _, st := range f.Decl.Body.List {
				if st.Pos() >= c.Pos() {
					break
				}
				if is, ok := st.(*ast.IfStmt); ok && is.Init == nil && len(is.Body.List) == 1 {
					if _, isRet := is.Body.List[0].(*ast.ReturnStmt); isRet {
						cond := is.Cond
						if isNilCmp(cond, token.EQL) {
							guarded = true
						}
						if b, ok := cond.(*ast.BinaryExpr); ok && b.Op == token.LOR && (isNilCmp(b.X, token.EQL) || isNilCmp(b.Y, token.EQL)) {
							guarded = true
						}
					}
				}
			}
			r.Ob("D10", f.Name+" :: "+types.ExprString(c)+" on a possibly nil reflect.Type", prog.Pos(c.Pos()), guarded,
				"reflect.TypeOf of an untyped nil is a nil reflect.Type; calling a method on it panics, so MsgType(nil) - and with it Clone(nil), Equal(nil, nil), MarshalText(nil) - panic instead of giving the documented result for unsupported values")
			return true
		})
	}
	r.Counts["method calls on reflect.Type values"] = n
}

// checkResetAndCache (D11, D6c, D4b): the remaining dispatch decisions that are single comparisons.
func checkResetAndCache(r *core.Result, prog *core.Program, pk *packages.Package) {
	info := pk.TypesInfo
	// D11: Reset = own Reset() method if present; else the v2 runtime's Reset for v2 messages; else the documented panic
	if f := core.FindFunc(pk, "Reset"); f != nil && f.Decl != nil {
		body := f.Decl.Body.List
		ok0, ok1, okEnd := false, false, false
		if len(body) >= 3 {
			if is, ok := body[0].(*ast.IfStmt); ok {
				if as, ok := is.Init.(*ast.AssignStmt); ok && len(as.Lhs) == 2 {
					okID, _ := as.Lhs[1].(*ast.Ident)
					vID, _ := as.Lhs[0].(*ast.Ident)
					condID, _ := is.Cond.(*ast.Ident)
					callsReset := false
					ast.Inspect(is.Body, func(n ast.Node) bool {
						if c, ok := n.(*ast.CallExpr); ok {
							if se, ok := c.Fun.(*ast.SelectorExpr); ok && se.Sel.Name == "Reset" {
								if id, ok := se.X.(*ast.Ident); ok && vID != nil && info.Uses[id] == info.Defs[vID] {
									callsReset = true
								}
							}
						}
						return true
					})
					ok0 = okID != nil && condID != nil && info.Uses[condID] == info.Defs[okID] && callsReset && returnsAnything(is.Body.List)
				}
			}
			// the rest, as dominance facts: the v2 runtime's Reset runs only where MsgType(m) == MessageTypeGoogle is
			// established, the documented panic only where it is refuted, and nothing else happens
			parents := parentMap(f.Decl.Body)
			isV2 := func(op token.Token) func(ast.Expr) bool {
				return func(e ast.Expr) bool {
					b, ok := e.(*ast.BinaryExpr)
					if !ok || b.Op != op {
						return false
					}
					x, y := types.ExprString(b.X), types.ExprString(b.Y)
					return strings.Contains(x, "MsgType(") && strings.HasSuffix(y, "MessageTypeGoogle") || strings.Contains(y, "MsgType(") && strings.HasSuffix(x, "MessageTypeGoogle")
				}
			}
			nV2, nPanic, okV2, okPanic, stray := 0, 0, true, true, 0
			for _, st := range body[1:] {
				ast.Inspect(st, func(n ast.Node) bool {
					c, ok := n.(*ast.CallExpr)
					if !ok {
						return true
					}
					if id, ok := c.Fun.(*ast.Ident); ok && id.Name == "panic" {
						nPanic++
						if !dominatedBy2(parents, c, isV2(token.NEQ), isV2(token.EQL)) {
							okPanic = false
						}
						return false
					}
					if tv, ok := info.Types[c.Fun]; ok && tv.IsType() {
						return true
					}
					fn := staticCallee(info, c)
					if fn != nil && fn.Name() == "MsgType" {
						return true
					}
					if fn != nil && fn.Name() == "Reset" {
						if fam, ok := calleeFamily(fn); ok && fam == "v2" {
							nV2++
							if !dominatedBy2(parents, c, isV2(token.EQL), isV2(token.NEQ)) {
								okV2 = false
							}
							return true
						}
					}
					stray++
					return true
				})
			}
			ok1 = nV2 == 1 && okV2
			okEnd = nPanic == 1 && okPanic && stray == 0
		}
		r.Ob("D11", "Reset :: a message with its own Reset() method is reset through it", prog.Pos(f.Pos()), ok0, "the first statement must be `if r, ok := m.(interface{ Reset() }); ok { r.Reset(); return }`")
		r.Ob("D11", "Reset :: other Google v2 messages are reset by the v2 runtime", prog.Pos(f.Pos()), ok1, "after the own-Reset probe the v2 runtime's Reset must run exactly where MsgType(m) == MessageTypeGoogle is established")
		r.Ob("D11", "Reset :: anything else reaches the documented panic", prog.Pos(f.Pos()), okEnd, "everything that is not a Google v2 message must reach the documented panic, and Reset must do nothing else")
	} else {
		r.Fail("anchor", "Reset", "", "function not found")
	}
	// D6c: a value loaded from the classification cache is used only when the load reported a hit
	if f := core.FindFunc(pk, "MsgType"); f != nil && f.Decl != nil {
		n := 0
		parents := parentMap(f.Decl.Body)
		ast.Inspect(f.Decl.Body, func(nn ast.Node) bool {
			as, ok := nn.(*ast.AssignStmt)
			if !ok || len(as.Lhs) != 2 || len(as.Rhs) != 1 {
				return true
			}
			c, ok := as.Rhs[0].(*ast.CallExpr)
			if !ok {
				return true
			}
			se, ok := c.Fun.(*ast.SelectorExpr)
			if !ok || (se.Sel.Name != "Load" && se.Sel.Name != "LoadOrStore") {
				return true
			}
			vID, _ := as.Lhs[0].(*ast.Ident)
			okID, _ := as.Lhs[1].(*ast.Ident)
			if vID == nil || okID == nil {
				return true
			}
			vObj, okObj := info.Defs[vID], info.Defs[okID]
			ast.Inspect(f.Decl.Body, func(m ast.Node) bool {
				id, ok := m.(*ast.Ident)
				if !ok || info.Uses[id] != vObj {
					return true
				}
				n++
				guarded := false
				for cur := ast.Node(id); cur != nil; cur = parents[cur] {
					if is, ok := parents[cur].(*ast.IfStmt); ok && is.Body == cur {
						if cid, ok := is.Cond.(*ast.Ident); ok && info.Uses[cid] == okObj {
							guarded = true
						}
					}
				}
				r.Ob("D6c", "MsgType :: the cached classification is used only on a cache hit", prog.Pos(id.Pos()), guarded, "the value returned by the cache lookup is used outside `if "+okID.Name+" { … }`: on a miss it is nil (the assertion panics) or a stale placeholder")
				return true
			})
			return true
		})
		r.Floor("uses of the cached classification", n, 1)
	}
	// D4b: the two single-comparison decisions of deduceMsgType, as facts that dominate the verdicts: a Gogo or v1
	// verdict is returned only for pointer types; Gogo only where gogo.MessageName(m) != "" is established, v1 only
	// where it is refuted (enclosing if, else branch, or guard clause - any equivalent arrangement)
	if f := core.FindFunc(pk, "deduceMsgType"); f != nil && f.Decl != nil {
		typeOnlyVerdict(r, prog, info, f)
		parents := parentMap(f.Decl.Body)
		cmp := func(e ast.Expr, op token.Token, left func(ast.Expr) bool, right func(ast.Expr) bool) bool {
			b, ok := e.(*ast.BinaryExpr)
			if !ok || b.Op != op {
				return false
			}
			return left(b.X) && right(b.Y) || left(b.Y) && right(b.X)
		}
		isKindCall := func(e ast.Expr) bool { return strings.HasSuffix(types.ExprString(ast.Unparen(e)), ".Kind()") }
		isPtrConst := func(e ast.Expr) bool {
			s := types.ExprString(ast.Unparen(e))
			return s == "reflect.Ptr" || s == "reflect.Pointer"
		}
		isGogoName := func(e ast.Expr) bool {
			c, ok := ast.Unparen(e).(*ast.CallExpr)
			if !ok {
				return false
			}
			fn := staticCallee(info, c)
			if fn == nil || fn.Name() != "MessageName" {
				return false
			}
			fam, ok := calleeFamily(fn)
			return ok && fam == "gogo"
		}
		isEmpty := func(e ast.Expr) bool { return types.ExprString(ast.Unparen(e)) == `""` }
		nonPtr, gogoReg, v1Unreg := true, true, true
		nG, nV := 0, 0
		ast.Inspect(f.Decl.Body, func(nn ast.Node) bool {
			ret, ok := nn.(*ast.ReturnStmt)
			if !ok || len(ret.Results) != 1 {
				return true
			}
			name := types.ExprString(ret.Results[0])
			if name != "MessageTypeGogo" && name != "MessageTypeGoogleV1" {
				return true
			}
			if !dominatedBy2(parents, ret,
				func(e ast.Expr) bool { return cmp(e, token.EQL, isKindCall, isPtrConst) },
				func(e ast.Expr) bool { return cmp(e, token.NEQ, isKindCall, isPtrConst) }) {
				nonPtr = false
			}
			registered := dominatedBy2(parents, ret,
				func(e ast.Expr) bool { return cmp(e, token.NEQ, isGogoName, isEmpty) },
				func(e ast.Expr) bool { return cmp(e, token.EQL, isGogoName, isEmpty) })
			unregistered := dominatedBy2(parents, ret,
				func(e ast.Expr) bool { return cmp(e, token.EQL, isGogoName, isEmpty) },
				func(e ast.Expr) bool { return cmp(e, token.NEQ, isGogoName, isEmpty) })
			if name == "MessageTypeGogo" {
				nG++
				if !registered {
					gogoReg = false
				}
			} else {
				nV++
				if !unregistered {
					v1Unreg = false
				}
			}
			return true
		})
		r.Ob("D4b", "deduceMsgType :: values that are not pointers are not v1/gogo messages", prog.Pos(f.Pos()), nonPtr && nG+nV > 0, "a Gogo / v1 verdict is returned on a path where `typ.Kind() == reflect.Ptr` is not established (expected `if … typ.Kind() != reflect.Ptr { return MessageTypeUnknown }` before the v1/gogo assertion)")
		r.Ob("D4b", "deduceMsgType :: Gogo messages are those registered with the Gogo runtime", prog.Pos(f.Pos()), gogoReg && v1Unreg && nG > 0 && nV > 0, "MessageTypeGogo must be returned exactly where gogo.MessageName(m) != \"\" holds and MessageTypeGoogleV1 where it does not: the v1 and Gogo message interfaces are identical, the registry is the only discriminator")
	}
}

// typeOnlyVerdict (D12): MsgType stores the verdict of deduceMsgType in a cache keyed by reflect.Type, so the
// verdict has to be a function of the type alone. Every use of the interface-typed parameter is the operand of a
// type assertion / type switch or the argument of reflect.TypeOf, and a value bound by such an assertion is used
// only as the argument of a registry lookup by type (MessageName / MessageType of a runtime, reflect.TypeOf).
// Anything else - reflect.ValueOf, a nil comparison, a method call, a field read - makes the cached verdict
// depend on the first value of the type that happens to be classified.
func typeOnlyVerdict(r *core.Result, prog *core.Program, info *types.Info, f *core.FuncInfo) {
	tracked := map[types.Object]bool{}
	for _, fl := range f.Decl.Type.Params.List {
		for _, n := range fl.Names {
			if t := info.TypeOf(fl.Type); t != nil {
				if _, isI := t.Underlying().(*types.Interface); isI && namedPkgPath(t) != "reflect" {
					tracked[info.Defs[n]] = true
				}
			}
		}
	}
	// values bound by assertions on a tracked value are tracked too
	for changed := true; changed; {
		changed = false
		ast.Inspect(f.Decl.Body, func(n ast.Node) bool {
			as, ok := n.(*ast.AssignStmt)
			if !ok || len(as.Rhs) != 1 {
				return true
			}
			src := ast.Unparen(as.Rhs[0])
			if ta, ok := src.(*ast.TypeAssertExpr); ok {
				src = ast.Unparen(ta.X)
			}
			id, ok := src.(*ast.Ident)
			if !ok || !tracked[info.Uses[id]] {
				return true
			}
			if l, ok := as.Lhs[0].(*ast.Ident); ok && l.Name != "_" {
				obj := info.Defs[l]
				if obj == nil {
					obj = info.Uses[l]
				}
				if obj != nil && !tracked[obj] {
					tracked[obj] = true
					changed = true
				}
			}
			return true
		})
	}
	typeOnly := func(c *ast.CallExpr) bool {
		fn := staticCallee(info, c)
		if fn == nil || fn.Pkg() == nil {
			return false
		}
		if fn.Pkg().Path() == "reflect" && fn.Name() == "TypeOf" {
			return true
		}
		if _, ok := familyOfImport[fn.Pkg().Path()]; ok && (fn.Name() == "MessageName" || fn.Name() == "MessageType" || fn.Name() == "MessageV1" || fn.Name() == "MessageV2") {
			return true
		}
		return false
	}
	n := 0
	var stack []ast.Node
	ast.Inspect(f.Decl.Body, func(nn ast.Node) bool {
		if nn == nil {
			stack = stack[:len(stack)-1]
			return true
		}
		stack = append(stack, nn)
		id, ok := nn.(*ast.Ident)
		if !ok || !tracked[info.Uses[id]] {
			return true
		}
		n++
		parent := stack[len(stack)-2]
		for {
			if p, ok := parent.(*ast.ParenExpr); ok && len(stack) >= 3 {
				_ = p
				parent = stack[len(stack)-3]
				break
			}
			break
		}
		okUse, why := false, ""
		switch p := parent.(type) {
		case *ast.TypeAssertExpr:
			okUse = p.X == nn || ast.Unparen(p.X) == nn
		case *ast.CallExpr:
			isArg := false
			for _, a := range p.Args {
				if ast.Unparen(a) == nn {
					isArg = true
				}
			}
			okUse = isArg && typeOnly(p)
			why = "passed to " + types.ExprString(p.Fun) + ", which is not a lookup by type"
		case *ast.AssignStmt:
			okUse = true // re-binding, followed above
		default:
			why = fmt.Sprintf("used in %T", parent)
		}
		if se, ok := parent.(*ast.SelectorExpr); ok && se.X == nn {
			why = "its member " + se.Sel.Name + " is read or called"
		}
		r.Ob("D12", fmt.Sprintf("%s :: use #%d of the classified value (%s) depends on the type only", f.Name, n, id.Name), prog.Pos(id.Pos()), okUse,
			"the verdict is cached per reflect.Type, but this use looks at the value ("+why+"): the first value of a type that reaches MsgType decides the classification of every later one")
		return true
	})
	r.Floor("uses of the classified value in "+f.Name, n, 3)
}

// isResetOnly: an interface type whose only method is Reset().
func isResetOnly(t types.Type) bool {
	if t == nil {
		return false
	}
	it, ok := t.Underlying().(*types.Interface)
	if !ok || it.NumMethods() != 1 || it.Method(0).Name() != "Reset" {
		return false
	}
	sig := it.Method(0).Type().(*types.Signature)
	return sig.Params().Len() == 0 && sig.Results().Len() == 0
}

// checkSizeBeforeV1Marshal (D13): the table-driven marshalers behind XXX_Marshal write the length prefix of every
// nested message from the size cache that the XXX_Size pass fills; the call pm.XXX_Marshal(…) is therefore only the
// runtime's own Marshal if pm.XXX_Size() ran before it in the same call, on every path (a statement of an enclosing
// block that precedes the call).
func checkSizeBeforeV1Marshal(r *core.Result, prog *core.Program, root *packages.Package) {
	info := root.TypesInfo
	n := 0
	for _, f := range core.Funcs(root) {
		if f.Decl == nil || f.Decl.Body == nil {
			continue
		}
		var stack []ast.Node
		ast.Inspect(f.Decl.Body, func(nd ast.Node) bool {
			if nd == nil {
				stack = stack[:len(stack)-1]
				return true
			}
			stack = append(stack, nd)
			call, ok := nd.(*ast.CallExpr)
			if !ok {
				return true
			}
			se, ok := call.Fun.(*ast.SelectorExpr)
			if !ok || se.Sel.Name != "XXX_Marshal" {
				return true
			}
			recv, ok := se.X.(*ast.Ident)
			if !ok {
				return true
			}
			obj := info.Uses[recv]
			n++
			sized := false
			// hasSize: nd evaluates obj.XXX_Size() unconditionally (not inside a function literal or on the right of && / ||)
			hasSize := func(nd ast.Node) bool {
				found := false
				ast.Inspect(nd, func(x ast.Node) bool {
					switch x := x.(type) {
					case *ast.FuncLit:
						return false
					case *ast.BinaryExpr:
						if x.Op == token.LAND || x.Op == token.LOR {
							ast.Inspect(x.X, func(y ast.Node) bool {
								if c, ok := y.(*ast.CallExpr); ok {
									if se2, ok := c.Fun.(*ast.SelectorExpr); ok && se2.Sel.Name == "XXX_Size" {
										if id, ok := se2.X.(*ast.Ident); ok && info.Uses[id] == obj && obj != nil {
											found = true
										}
									}
								}
								return true
							})
							return false
						}
					case *ast.CallExpr:
						if se2, ok := x.Fun.(*ast.SelectorExpr); ok && se2.Sel.Name == "XXX_Size" {
							if id, ok := se2.X.(*ast.Ident); ok && info.Uses[id] == obj && obj != nil {
								found = true
							}
						}
					}
					return true
				})
				return found
			}
			// walk the enclosing blocks from the inside out
			for i := len(stack) - 1; i > 0 && !sized; i-- {
				var list []ast.Stmt
				switch b := stack[i-1].(type) {
				case *ast.BlockStmt:
					list = b.List
				case *ast.CaseClause:
					list = b.Body
				default:
					continue
				}
				for _, s := range list {
					if s.End() > stack[i].Pos() {
						break
					}
					switch s.(type) {
					case *ast.ExprStmt, *ast.AssignStmt, *ast.DeclStmt:
						if hasSize(s) {
							sized = true
						}
					}
				}
			}
			// the arguments of the call are evaluated before it
			for _, a := range call.Args {
				if hasSize(a) {
					sized = true
				}
			}
			r.Ob("D13", f.Name+" :: "+types.ExprString(se)+" runs after "+recv.Name+".XXX_Size()", prog.Pos(call.Pos()), sized,
				"the table-driven XXX_Marshal of a v1 / Gogo message writes nested length prefixes from the size cache that XXX_Size fills: without a preceding "+recv.Name+".XXX_Size() in the same call the prefixes of nested messages are stale or unset and the bytes do not decode with the owning runtime")
			return true
		})
	}
	r.Ob("D13", "XXX_Marshal call sites found", "marshal.go", n >= 1, "no call of XXX_Marshal found in the root package (anchor moved)")
}

package checks

import (
	"fmt"
	"go/ast"
	"go/types"
	"strings"

	"csverify/core"
)

func init() { register("C12", checkC12) }

func checkC12(r *core.Result) {
	r.Explanation = "Dispatcher-family analysis of extensions.go: the seven accessors' per-runtime arms (regions) reference only their own runtime's packages (D1) and assert only its interfaces (D3); every MsgType switch has arms for the three runtimes and, except for the documented panics of ClearExtension, the unsupported path does not panic (D2); " +
		"in every arm that receives an extension descriptor, the descriptor is type-asserted with comma-ok to the arm's own runtime's descriptor type, the mismatch branch leaves (returns false / an error, or falls to the documented panic) before any call into the runtime that could touch the message (E1); ExtensionFieldNumber's type switch has a case for each of the three descriptor types and an erroring default (E2); transparency (E3): Has/Get/Set/Clear/ClearAllExtensions consist of the dispatch only, each runtime arm calls exactly that runtime's function of the same name (the v2 arm of ClearAllExtensions: RangeExtensions+ClearExtension), every return hands back what that call produced or the documented descriptor-mismatch result, and no other call post-processes it. The generated code's use of GetExtension/SetExtension with the extension variable matching the tag it writes is checked on the expanded templates (C05/C06)."
	r.RuleText = "one obligation per arm (region), per switch, per descriptor assertion"
	r.Assumptions = []string{"not decided: Set/Get/Has/Clear/Range coherence over operation histories (delegated to the owning runtime)"}
	r.Trusted = []string{"go/types", "family table"}
	prog, err := core.Load("./")
	if err != nil {
		r.Infra("%v", err)
		return
	}
	root := prog.Pkg("")
	r.Counts["type switches read as assertion chains"] = desugarTypeSwitches(root)
	info := root.TypesInfo
	funcs := funcsOfFiles(root, "extensions.go")
	regs, switches := findRegions(root, funcs)
	r.Floor("runtime regions in extensions.go", len(regs), 24)
	r.Floor("MsgType switches in extensions.go", len(switches), 6)
	checkRegions(r, prog, root, regs)
	checkMsgSwitches(r, prog, root, switches, map[string]bool{"ClearExtension": true})
	// E4: RangeExtensions
	checkRangeExtensions(r, prog, root)
	// E3: the accessors hand back the owning runtime's own result
	checkForwarders(r, prog, root, "E3", "HasExtension", "GetExtension", "SetExtension", "ClearExtension", "ClearAllExtensions")

	// E1: descriptor assertions
	nDesc := 0
	for _, ms := range switches {
		// does the function take an `ext` descriptor parameter?
		var extObj types.Object
		for _, fl := range ms.fn.Decl.Type.Params.List {
			for _, nm := range fl.Names {
				if nm.Name == "ext" {
					extObj = info.Defs[nm]
				}
			}
		}
		if extObj == nil {
			continue
		}
		for _, cname := range sortedKeys(ms.arms) {
			fam, ok := familyOfConst[cname]
			if !ok {
				continue
			}
			cc := ms.arms[cname]
			nDesc++
			name := ms.fn.Name + " :: case " + cname
			// first statement(s): ed, ok := ext.(T)
			var assertStmt *ast.AssignStmt
			var assertIdx int
			var inIf *ast.IfStmt
			for i, s := range cc.Body {
				if as, ok := s.(*ast.AssignStmt); ok && len(as.Lhs) == 2 && len(as.Rhs) == 1 {
					if ta, ok := as.Rhs[0].(*ast.TypeAssertExpr); ok {
						if id, ok := ta.X.(*ast.Ident); ok && info.Uses[id] == extObj {
							assertStmt, assertIdx = as, i
							break
						}
					}
				}
				if is, ok := s.(*ast.IfStmt); ok {
					if as, ok := is.Init.(*ast.AssignStmt); ok && len(as.Lhs) == 2 && len(as.Rhs) == 1 {
						if ta, ok := as.Rhs[0].(*ast.TypeAssertExpr); ok {
							if id, ok := ta.X.(*ast.Ident); ok && info.Uses[id] == extObj {
								assertStmt, assertIdx, inIf = as, i, is
								break
							}
						}
					}
				}
			}
			if assertStmt == nil {
				r.Ob("E1", name+" asserts the descriptor with comma-ok", prog.Pos(cc.Pos()), false, "the arm uses the extension descriptor without a checked type assertion to its runtime's descriptor type")
				continue
			}
			ta := assertStmt.Rhs[0].(*ast.TypeAssertExpr)
			gotFam, _ := familyOfTypeExpr(info, ta.Type)
			tn := types.ExprString(ta.Type)
			isDesc := strings.HasSuffix(tn, ".ExtensionDesc") || strings.HasSuffix(tn, ".ExtensionType")
			r.Ob("E1", name+" descriptor type", prog.Pos(ta.Pos()), gotFam == fam && isDesc, fmt.Sprintf("descriptor asserted as %s (runtime %q), the arm is for the %s runtime", tn, gotFam, fam))
			// no runtime call before the assertion; mismatch leaves before any runtime call
			early := false
			for _, s := range cc.Body[:assertIdx] {
				ast.Inspect(s, func(n ast.Node) bool {
					if e, ok := n.(ast.Expr); ok {
						if _, ok := famRef(info, e); ok {
							if _, isCall := n.(*ast.CallExpr); isCall {
								early = true
							}
						}
					}
					return true
				})
			}
			okLeave := false
			switch {
			case inIf != nil:
				// if ed, ok := ext.(T); ok { runtime call; return }  — mismatch falls out of the arm
				okLeave = true
				if c, isID := inIf.Cond.(*ast.Ident); !isID || info.Uses[c] != info.Defs[assertStmt.Lhs[1].(*ast.Ident)] {
					okLeave = false
				}
			case assertIdx+1 < len(cc.Body):
				if is, ok := cc.Body[assertIdx+1].(*ast.IfStmt); ok {
					if u, ok := is.Cond.(*ast.UnaryExpr); ok && types.ExprString(u) == "!"+types.ExprString(assertStmt.Lhs[1]) && terminates(is.Body.List) {
						okLeave = true
					}
				}
			}
			r.Ob("E1", name+" mismatch leaves before touching the message", prog.Pos(assertStmt.Pos()), okLeave && !early,
				"a descriptor of another runtime must yield false / an error before any call into the runtime (early runtime call: "+fmt.Sprint(early)+")")
		}
	}
	r.Floor("descriptor-taking arms", nDesc, 12)
	// E2: ExtensionFieldNumber
	if f := core.FindFunc(root, "ExtensionFieldNumber"); f != nil {
		// (a type switch has been read as the equivalent chain of comma-ok assertions, see desugarTypeSwitches)
		seen := map[string]bool{}
		var param types.Object
		if ps := f.Decl.Type.Params.List; len(ps) == 1 && len(ps[0].Names) == 1 {
			param = info.Defs[ps[0].Names[0]]
		}
		body := f.Decl.Body.List
		for _, st := range body {
			is, ok := st.(*ast.IfStmt)
			if !ok {
				continue
			}
			as, ok := is.Init.(*ast.AssignStmt)
			if !ok || len(as.Lhs) != 2 || len(as.Rhs) != 1 {
				continue
			}
			ta, ok := as.Rhs[0].(*ast.TypeAssertExpr)
			okID, _ := as.Lhs[1].(*ast.Ident)
			condID, _ := is.Cond.(*ast.Ident)
			if !ok || ta.Type == nil || okID == nil || condID == nil || info.Uses[condID] != info.Defs[okID] {
				continue
			}
			if id, ok := ast.Unparen(ta.X).(*ast.Ident); !ok || info.Uses[id] != param {
				continue
			}
			if fam, ok := familyOfTypeExpr(info, ta.Type); ok && leavesBlock(is.Body.List) && !returnsError(info, is.Body.List) {
				seen[fam] = true
			}
		}
		for _, fam := range []string{"gogo", "v1", "v2"} {
			r.Ob("E2", "ExtensionFieldNumber handles the "+fam+" descriptor", prog.Pos(f.Pos()), seen[fam], "no case for the "+fam+" runtime's descriptor type")
		}
		okDef := len(body) > 0 && returnsError(info, body[len(body)-1:])
		r.Ob("E2", "ExtensionFieldNumber rejects other descriptors", prog.Pos(f.Pos()), okDef, "the function must end by returning an error for any other descriptor type")
	} else {
		r.Fail("anchor", "ExtensionFieldNumber", "", "function not found")
	}
	_ = strings.Join
}

package checks

import (
	"fmt"
	"go/ast"
	"go/token"
	"go/types"
	"sort"
	"strings"

	"golang.org/x/tools/go/packages"

	"csverify/bounds"
	"csverify/core"
)

func init() { register("C13", checkC13) }

type accessorRow struct {
	name  string // FieldData method
	wire  string // WireType constant handed to scalarValue / sliceValue
	leafs string // leaf codecs used by the conversion closure
	kind  string // value domain for the reject predicate
	sib   string // csproto reader it must agree with ("" none)
}

var accessorTable = []accessorRow{
	{"BoolValue", "WireTypeVarint", "varint", "any", ""},
	{"BoolValues", "WireTypeVarint", "varint", "any", ""},
	{"StringValue", "WireTypeLengthDelimited", "", "", ""},
	{"StringValues", "WireTypeLengthDelimited", "", "", ""},
	{"BytesValue", "WireTypeLengthDelimited", "", "", ""},
	{"BytesValues", "WireTypeLengthDelimited", "", "", ""},
	{"UInt32Value", "WireTypeVarint", "varint", "uint32", "(*Decoder).DecodeUInt32"},
	{"UInt32Values", "WireTypeVarint", "varint", "uint32", "(*Decoder).DecodeUInt32"},
	{"Int32Value", "WireTypeVarint", "varint", "int32", "(*Decoder).DecodeInt32"},
	{"Int32Values", "WireTypeVarint", "varint", "int32", "(*Decoder).DecodeInt32"},
	{"SInt32Value", "WireTypeVarint", "zigzag32", "any", "(*Decoder).DecodeSInt32"},
	{"SInt32Values", "WireTypeVarint", "zigzag32", "any", "(*Decoder).DecodeSInt32"},
	{"UInt64Value", "WireTypeVarint", "varint", "any", "(*Decoder).DecodeUInt64"},
	{"UInt64Values", "WireTypeVarint", "varint", "any", "(*Decoder).DecodeUInt64"},
	{"Int64Value", "WireTypeVarint", "varint", "any", "(*Decoder).DecodeInt64"},
	{"Int64Values", "WireTypeVarint", "varint", "any", "(*Decoder).DecodeInt64"},
	{"SInt64Value", "WireTypeVarint", "zigzag64", "any", "(*Decoder).DecodeSInt64"},
	{"SInt64Values", "WireTypeVarint", "zigzag64", "any", "(*Decoder).DecodeSInt64"},
	{"Fixed32Value", "WireTypeFixed32", "fixed32", "", ""},
	{"Fixed32Values", "WireTypeFixed32", "fixed32", "", ""},
	{"Fixed64Value", "WireTypeFixed64", "fixed64", "", ""},
	{"Fixed64Values", "WireTypeFixed64", "fixed64", "", ""},
	{"Float32Value", "WireTypeFixed32", "f32bits fixed32", "", ""},
	{"Float32Values", "WireTypeFixed32", "f32bits fixed32", "", ""},
	{"Float64Value", "WireTypeFixed64", "f64bits fixed64", "", ""},
	{"Float64Values", "WireTypeFixed64", "f64bits fixed64", "", ""},
}

func leafSetOf(info *types.Info, n ast.Node) string {
	set := map[string]bool{}
	ast.Inspect(n, func(nn ast.Node) bool {
		if c, ok := nn.(*ast.CallExpr); ok {
			if fn := staticCallee(info, c); fn != nil && fn.Pkg() != nil {
				p := fn.Pkg().Path()
				if p == csp || p == "encoding/binary" || p == "math" {
					if cl := leafClass[fn.Name()]; cl != "" {
						set[cl] = true
					}
				}
			}
		}
		return true
	})
	var got []string
	for k := range set {
		got = append(got, k)
	}
	sort.Strings(got)
	return strings.Join(got, " ")
}

// checkAccessorTable: wire type argument and leaf codec of every typed accessor.
func checkAccessorTable(r *core.Result, prog *core.Program, lp *packages.Package) (rows []rejectResult, n int) {
	info := lp.TypesInfo
	root := prog.Pkg("")
	seenSib := map[string]bool{}
	for _, row := range accessorTable {
		f := core.FindFunc(lp, "(*FieldData)."+row.name)
		if f == nil {
			r.Fail("anchor", "(*FieldData)."+row.name, "", "accessor not found (table is stale)")
			continue
		}
		n++
		pos := prog.Pos(f.Pos())
		// the call to scalarValue / sliceValue
		var helper *ast.CallExpr
		ast.Inspect(f.Decl.Body, func(nn ast.Node) bool {
			if c, ok := nn.(*ast.CallExpr); ok {
				if fn := staticCallee(info, c); fn != nil && (fn.Name() == "scalarValue" || fn.Name() == "sliceValue") {
					helper = c
				}
			}
			return true
		})
		if helper == nil || len(helper.Args) < 3 {
			// length-delimited list accessors map the occurrences one-to-one and test the wire type themselves (rule A-ld)
			direct := false
			if row.wire == "WireTypeLengthDelimited" && strings.HasSuffix(row.name, "Values") {
				ast.Inspect(f.Decl.Body, func(nn ast.Node) bool {
					if is, ok := nn.(*ast.IfStmt); ok {
						if b, ok := is.Cond.(*ast.BinaryExpr); ok && b.Op == token.NEQ && strings.HasSuffix(types.ExprString(b.X), ".wt") && strings.HasSuffix(types.ExprString(b.Y), row.wire) && returnsError(info, is.Body.List) {
							direct = true
						}
					}
					return true
				})
			}
			r.Ob("A-wire", "(*FieldData)."+row.name, pos, direct, "accessor neither goes through scalarValue/sliceValue nor tests fd.wt against "+row.wire+" itself")
			continue
		}
		wt := types.ExprString(helper.Args[1])
		wt = wt[strings.LastIndex(wt, ".")+1:]
		r.Ob("A-wire", "(*FieldData)."+row.name, pos, wt == row.wire, fmt.Sprintf("expects wire type %s, table says %s", wt, row.wire))
		conv := helper.Args[len(helper.Args)-1]
		got := leafSetOf(info, conv)
		r.Ob("A-leaf", "(*FieldData)."+row.name, pos, got == row.leafs, fmt.Sprintf("conversion uses leaf codecs {%s}, table says {%s}", got, row.leafs))
		if row.kind != "" {
			lit, _ := conv.(*ast.FuncLit)
			if lit == nil {
				r.Ob("P-valid", "(*FieldData)."+row.name, pos, false, "conversion is not a function literal; reject predicate undecided")
				continue
			}
			fi := &core.FuncInfo{Name: "(*FieldData)." + row.name, Lit: lit, Pkg: lp}
			errNames := map[string]bool{"ErrValueOverflow": true}
			sib := row.sib
			if sib == "" {
				sib = "lazy:" + row.name
			}
			rows = append(rows, rejectResult{row: readerRow{fi.Name, row.kind, sib}, preds: findRejects(lp, fi, errNames, varintLeafs), pk: lp, fi: fi})
			if row.sib != "" && !seenSib[row.sib] {
				seenSib[row.sib] = true
				if sf := core.FindFunc(root, row.sib); sf != nil {
					rows = append([]rejectResult{{row: readerRow{row.sib, row.kind, row.sib}, preds: findRejects(root, sf, rejectErrNames, varintLeafs), pk: root, fi: sf}}, rows...)
				}
			}
		}
	}
	return rows, n
}

// mayReturnNilNil lists functions with a `return nil, nil` (or equivalent) statement.
func mayReturnNilNil(pk *packages.Package) map[*types.Func]token.Pos {
	out := map[*types.Func]token.Pos{}
	for _, f := range core.Funcs(pk) {
		if f.Decl == nil || f.Obj == nil {
			continue
		}
		sig := f.Obj.Type().(*types.Signature)
		if sig.Results().Len() != 2 || sig.Results().At(1).Type().String() != "error" {
			continue
		}
		if _, isPtr := sig.Results().At(0).Type().Underlying().(*types.Pointer); !isPtr {
			continue
		}
		ast.Inspect(f.Decl.Body, func(n ast.Node) bool {
			if _, ok := n.(*ast.FuncLit); ok {
				return false
			}
			if ret, ok := n.(*ast.ReturnStmt); ok && len(ret.Results) == 2 && isNilIdentExpr(ret.Results[0]) && isNilIdentExpr(ret.Results[1]) {
				out[f.Obj] = ret.Pos()
			}
			return true
		})
	}
	return out
}

// checkNilResults: a (nil, nil)-returning function's result is nil-checked before any dereference.
func checkNilResults(r *core.Result, prog *core.Program, pk *packages.Package) int {
	info := pk.TypesInfo
	nn := mayReturnNilNil(pk)
	sites := 0
	for _, f := range core.Funcs(pk) {
		if f.Decl == nil {
			continue
		}
		var visitBlock func(list []ast.Stmt)
		visitBlock = func(list []ast.Stmt) {
			for i, s := range list {
				// recurse into nested blocks
				ast.Inspect(s, func(n ast.Node) bool {
					switch b := n.(type) {
					case *ast.BlockStmt:
						if ast.Node(b) != ast.Node(s) {
							visitBlock(b.List)
							return false
						}
					case *ast.CaseClause:
						visitBlock(b.Body)
						return false
					case *ast.FuncLit:
						return false
					}
					return true
				})
				as, ok := s.(*ast.AssignStmt)
				if !ok || len(as.Lhs) != 2 || len(as.Rhs) != 1 {
					continue
				}
				call, ok := as.Rhs[0].(*ast.CallExpr)
				if !ok {
					continue
				}
				fn := staticCallee(info, call)
				if fn == nil {
					continue
				}
				if _, may := nn[fn]; !may {
					continue
				}
				id, ok := as.Lhs[0].(*ast.Ident)
				if !ok || id.Name == "_" {
					continue
				}
				obj := info.Defs[id]
				if obj == nil {
					obj = info.Uses[id]
				}
				sites++
				ok2, detail := nilCheckedBeforeDeref(info, obj, list[i+1:])
				if !ok2 {
					detail = fmt.Sprintf("%s can return (nil, nil) (at %s); %s", fn.Name(), prog.Pos(nn[fn]), detail)
				}
				r.Ob("L-nil-result", f.Name+" :: "+id.Name+" := "+fn.Name()+"(…)", prog.Pos(as.Pos()), ok2, detail)
			}
		}
		visitBlock(f.Decl.Body.List)
	}
	return sites
}

func nilCheckedBeforeDeref(info *types.Info, obj types.Object, rest []ast.Stmt) (bool, string) {
	for _, s := range rest {
		// a nil test of obj in an if condition settles it
		if is, ok := s.(*ast.IfStmt); ok {
			tests := false
			ast.Inspect(is.Cond, func(n ast.Node) bool {
				if b, ok := n.(*ast.BinaryExpr); ok && (b.Op == token.EQL || b.Op == token.NEQ) {
					if id, ok := b.X.(*ast.Ident); ok && info.Uses[id] == obj && isNilIdentExpr(b.Y) {
						tests = true
					}
				}
				return true
			})
			if tests {
				return true, ""
			}
		}
		deref := token.NoPos
		ast.Inspect(s, func(n ast.Node) bool {
			if se, ok := n.(*ast.SelectorExpr); ok {
				if id, ok := se.X.(*ast.Ident); ok && info.Uses[id] == obj {
					if sel := info.Selections[se]; sel != nil && sel.Kind() == types.FieldVal {
						deref = se.Pos()
					}
				}
			}
			if st, ok := n.(*ast.StarExpr); ok {
				if id, ok := st.X.(*ast.Ident); ok && info.Uses[id] == obj {
					deref = st.Pos()
				}
			}
			return true
		})
		if deref.IsValid() {
			return false, "the result is dereferenced without a nil test"
		}
		if ret, ok := s.(*ast.ReturnStmt); ok {
			_ = ret
			return true, ""
		}
	}
	return true, ""
}

// checkSkipLemmaSite: val, err := dec.Skip(tag, wt) with tag from dec.DecodeTag() and no cursor movement between.
func checkSkipLemmaSites(r *core.Result, prog *core.Program, pk *packages.Package, fnName string) int {
	info := pk.TypesInfo
	f := core.FindFunc(pk, fnName)
	if f == nil {
		r.Fail("anchor", fnName, "", "function not found")
		return 0
	}
	n := 0
	// find the DecodeTag assignment
	var tagObj, decObj types.Object
	var tagPos token.Pos
	ast.Inspect(f.Decl.Body, func(nn ast.Node) bool {
		as, ok := nn.(*ast.AssignStmt)
		if !ok || len(as.Rhs) != 1 {
			return true
		}
		call, ok := as.Rhs[0].(*ast.CallExpr)
		if !ok {
			return true
		}
		fn := staticCallee(info, call)
		if fn == nil || fn.Pkg() == nil || fn.Pkg().Path() != csp {
			return true
		}
		se, _ := call.Fun.(*ast.SelectorExpr)
		if fn.Name() == "DecodeTag" && se != nil && len(as.Lhs) == 3 {
			if id, ok := as.Lhs[0].(*ast.Ident); ok {
				tagObj = info.Defs[id]
				if tagObj == nil {
					tagObj = info.Uses[id]
				}
				tagPos = as.End()
			}
			if id, ok := se.X.(*ast.Ident); ok {
				decObj = info.Uses[id]
			}
		}
		return true
	})
	ast.Inspect(f.Decl.Body, func(nn ast.Node) bool {
		as, ok := nn.(*ast.AssignStmt)
		if !ok || len(as.Rhs) != 1 {
			return true
		}
		call, ok := as.Rhs[0].(*ast.CallExpr)
		if !ok {
			return true
		}
		fn := staticCallee(info, call)
		if fn == nil || fn.Pkg() == nil || fn.Pkg().Path() != csp || fn.Name() != "Skip" {
			return true
		}
		// only sites whose result is indexed need the lemma
		id0, _ := as.Lhs[0].(*ast.Ident)
		if id0 == nil || id0.Name == "_" {
			return true
		}
		n++
		se := call.Fun.(*ast.SelectorExpr)
		okSite := true
		detail := ""
		if id, ok := se.X.(*ast.Ident); !ok || info.Uses[id] != decObj || decObj == nil {
			okSite, detail = false, "Skip is called on a different decoder than DecodeTag"
		}
		if id, ok := call.Args[0].(*ast.Ident); !ok || info.Uses[id] != tagObj || tagObj == nil {
			okSite, detail = false, "Skip's tag argument is not the tag returned by DecodeTag"
		}
		// no other call on the decoder between DecodeTag and this Skip (on the syntactic path)
		if okSite {
			ast.Inspect(f.Decl.Body, func(m ast.Node) bool {
				c, ok := m.(*ast.CallExpr)
				if !ok || c == call || c.Pos() <= tagPos || c.Pos() >= call.Pos() {
					return true
				}
				if s2, ok := c.Fun.(*ast.SelectorExpr); ok {
					if id, ok := s2.X.(*ast.Ident); ok && info.Uses[id] == decObj {
						// calls in sibling branches that end in return/continue do not precede this one
						if !endsBeforeReaching(f.Decl.Body, c, call) {
							okSite, detail = false, fmt.Sprintf("decoder call %s between DecodeTag and Skip may move the cursor", types.ExprString(c.Fun))
						}
					}
				}
				return true
			})
		}
		r.Ob("L-skip-lemma", fnName+" :: "+types.ExprString(call), prog.Pos(call.Pos()), okSite, detail)
		return true
	})
	return n
}

// endsBeforeReaching: c lies in a block that always leaves (return/continue/break) before `target`.
func endsBeforeReaching(body *ast.BlockStmt, c ast.Node, target ast.Node) bool {
	res := false
	var walk func(list []ast.Stmt)
	contains := func(n ast.Node, x ast.Node) bool { return n.Pos() <= x.Pos() && x.End() <= n.End() }
	walk = func(list []ast.Stmt) {
		for _, s := range list {
			if !contains(s, c) {
				continue
			}
			if contains(s, target) {
				// both inside s: descend
				switch x := s.(type) {
				case *ast.IfStmt:
					if contains(x.Body, c) && !contains(x.Body, target) {
						res = terminates(x.Body.List)
						return
					}
					if contains(x.Body, c) && contains(x.Body, target) {
						walk(x.Body.List)
						return
					}
					if x.Else != nil {
						if b, ok := x.Else.(*ast.BlockStmt); ok {
							walk(b.List)
						}
					}
				case *ast.ForStmt:
					walk(x.Body.List)
				case *ast.RangeStmt:
					walk(x.Body.List)
				case *ast.BlockStmt:
					walk(x.List)
				case *ast.SwitchStmt:
					for _, cl := range x.Body.List {
						cc := cl.(*ast.CaseClause)
						inC, inT := false, false
						for _, b := range cc.Body {
							if contains(b, c) {
								inC = true
							}
							if contains(b, target) {
								inT = true
							}
						}
						if inC && inT {
							walk(cc.Body)
							return
						}
						if inC && !inT {
							res = true // different arms never follow each other
							return
						}
					}
				}
				return
			}
			// s contains c but not target: does s always leave?
			if is, ok := s.(*ast.IfStmt); ok && contains(is.Body, c) {
				res = terminates(is.Body.List)
			}
			return
		}
	}
	walk(body.List)
	return res
}

func terminates(list []ast.Stmt) bool {
	if len(list) == 0 {
		return false
	}
	switch x := list[len(list)-1].(type) {
	case *ast.ReturnStmt:
		return true
	case *ast.BranchStmt:
		return x.Tok == token.CONTINUE || x.Tok == token.BREAK
	}
	return false
}

func byteish(t types.Type) bool {
	switch u := t.Underlying().(type) {
	case *types.Slice:
		if b, ok := u.Elem().Underlying().(*types.Basic); ok && b.Kind() == types.Byte {
			return true
		}
		if s2, ok := u.Elem().Underlying().(*types.Slice); ok {
			if b, ok := s2.Elem().Underlying().(*types.Basic); ok && b.Kind() == types.Byte {
				return true
			}
		}
	case *types.Basic:
		return u.Info()&types.IsString != 0
	}
	return false
}

func checkC13(r *core.Result) {
	r.Explanation = "Static clauses behind lazy decoding: (a) accessor ↔ decoder sibling table: every typed accessor hands scalarValue/sliceValue the wire type of its kind, its conversion closure uses the leaf codec of its kind, and its exact overflow reject-set equals that of the corresponding csproto reader and excludes every value a conforming writer emits; " +
		"(b) panic freedom: all index/slice/raw-read sites on byte data in lazyproto are discharged by the guard-fact engine (the val[SizeOfTagKey(tag):] site through Skip's verified contract, whose caller-side hypothesis — tag comes from DecodeTag on the same decoder with no cursor movement in between — is checked structurally), the sliceValue cursor makes progress, and every in-package call of a function that can return (nil, nil) nil-checks the result before dereferencing it; (c) the decode loop has an arm for every declared WireType constant and an erroring default; (d) field data is decoded as a nested message only when its recorded wire type is length-delimited (A-wire-nested)."
	r.RuleText = "obligations per accessor (25), per byte-indexing site of lazyproto, per (nil,nil) call site, per wire-type constant"
	r.Assumptions = []string{"not decided: value equality with a reference parse, last-wins/all-occurrences semantics, the error taxonomy",
		"index expressions on non-byte slices (tag tables, field data tables) rely on the flatTags/flatData equal-length invariant and are out of scope"}
	r.Trusted = []string{"accessor table (checks/c13.go)", "go/types", "lin entailment", "Skip contract verified in C02/C03"}
	prog, err := core.Load("./...")
	if err != nil {
		r.Infra("%v", err)
		return
	}
	lp := prog.Pkg("lazyproto")
	if lp == nil {
		r.Infra("package lazyproto not loaded")
		return
	}
	rows, n := checkAccessorTable(r, prog, lp)
	r.Floor("typed accessors in the table", n, 25)
	np := evalRejects(r, prog, "C13", rows)
	r.Floor("reject predicates evaluated", np, 10)

	cfg := boundsConfig(prog, lp, false)
	cfg.IndexFilter = byteish
	var funcs []*core.FuncInfo
	for _, f := range core.Funcs(lp) {
		funcs = append(funcs, f)
	}
	nf := runBounds(r, prog, lp, cfg, funcs, func(f *core.FuncInfo) bool { return f.Name == "sliceValue" }, func(f *core.FuncInfo, ob bounds.Ob) bool {
		return ob.Rule == "O-idx" || ob.Rule == "O-raw" || ob.Rule == "O-alloc" || ob.Rule == "O-progress"
	})
	r.Floor("lazyproto functions analysed", nf, 100)
	ns := checkNilResults(r, prog, lp)
	r.Counts["(nil,nil)-result call sites"] = ns
	mustFire(r, "L-nil-result", `package fx
type R struct{ x int }
func get(b []byte) (*R, error) {
	if len(b) == 0 {
		return nil, nil
	}
	return &R{}, nil
}
func use(b []byte) int {
	r, err := get(b)
	if err != nil {
		return 0
	}
	return r.x
}`, func(fr *core.Result, fprog *core.Program, fpk *packages.Package) { checkNilResults(fr, fprog, fpk) })
	checkLazyBitAgreement(r, prog, prog.Pkg(""), lp, r.Tier == "thorough")
	checkLazyDecodeBits(r, prog, prog.Pkg(""), lp)
	checkLengthDelimitedSlices(r, prog, lp)
	checkDefValidate(r, prog, lp)
	checkLazyMisc(r, prog, lp)
	nf2 := checkFoundGuards(r, prog, lp)
	r.Floor("uses of binary-search positions", nf2, 6)
	ns2 := checkLazySorted(r, prog, lp)
	r.Floor("binary-searched tag tables", ns2, 2)
	nn := checkNestedWire(r, prog, lp)
	r.Floor("nested decode sites", nn, 2)
	nl := checkSkipLemmaSites(r, prog, lp, "(*DecodeResult).decode")
	r.Floor("Skip lemma sites", nl, 1)

	// (c) wire-type coverage of the decode loop
	if f := core.FindFunc(lp, "(*DecodeResult).decode"); f != nil {
		var sw *ast.SwitchStmt
		ast.Inspect(f.Decl.Body, func(n ast.Node) bool {
			if s, ok := n.(*ast.SwitchStmt); ok && s.Tag != nil {
				sw = s
			}
			return true
		})
		if sw == nil {
			r.Fail("L-cover", "(*DecodeResult).decode switch wt", prog.Pos(f.Pos()), "no switch over the wire type")
		} else {
			arms, hasDefault := caseConsts(lp.TypesInfo, sw)
			for name := range wireTypeConsts(prog) {
				_, ok := arms[name]
				r.Ob("L-cover", "(*DecodeResult).decode case "+name, prog.Pos(sw.Pos()), ok, "declared wire type has no arm in the lazy decode loop")
			}
			okDef := false
			if hasDefault {
				for _, cl := range sw.Body.List {
					cc := cl.(*ast.CaseClause)
					if cc.List == nil && returnsError(lp.TypesInfo, cc.Body) {
						okDef = true
					}
				}
			}
			r.Ob("L-cover", "(*DecodeResult).decode default arm", prog.Pos(sw.Pos()), okDef, "unsupported wire types must be reported as an error")
		}
	} else {
		r.Fail("anchor", "(*DecodeResult).decode", "", "function not found")
	}
}

// checkNestedWire (A-wire-nested): bytes recorded for a field are handed to a nested decoder only if the field's
// recorded wire type is length-delimited: the argument of every decodeWithPool call in DecodeResult's methods is
// either the result of scalarValue(fd, WireTypeLengthDelimited, …) or the call is preceded, in the same function, by
// a test `fd.wt != WireTypeLengthDelimited` that leaves with an error. Otherwise the payload of a varint / fixed
// field is parsed as a message and yields wrong values instead of the documented WireTypeMismatchError.
func checkNestedWire(r *core.Result, prog *core.Program, lp *packages.Package) int {
	info := lp.TypesInfo
	n := 0
	for _, f := range core.Funcs(lp) {
		if f.Decl == nil || f.Decl.Body == nil || !strings.HasPrefix(f.Name, "(*DecodeResult).") {
			continue
		}
		// variables bound to scalarValue(.., WireTypeLengthDelimited, ..)
		checked := map[types.Object]bool{}
		guardPos := token.NoPos
		ast.Inspect(f.Decl.Body, func(nn ast.Node) bool {
			switch x := nn.(type) {
			case *ast.AssignStmt:
				if len(x.Rhs) == 1 {
					if c, ok := x.Rhs[0].(*ast.CallExpr); ok {
						if fn := staticCallee(info, c); fn != nil && fn.Name() == "scalarValue" && len(c.Args) >= 2 && strings.HasSuffix(types.ExprString(c.Args[1]), "WireTypeLengthDelimited") {
							if id, ok := x.Lhs[0].(*ast.Ident); ok {
								if o := info.Defs[id]; o != nil {
									checked[o] = true
								} else if o := info.Uses[id]; o != nil {
									checked[o] = true
								}
							}
						}
					}
				}
			case *ast.IfStmt:
				if b, ok := x.Cond.(*ast.BinaryExpr); ok && b.Op == token.NEQ && x.Else == nil {
					l, rr := types.ExprString(b.X), types.ExprString(b.Y)
					if strings.HasSuffix(l, ".wt") && strings.HasSuffix(rr, "WireTypeLengthDelimited") && returnsError(info, x.Body.List) && !guardPos.IsValid() {
						guardPos = x.Pos()
					}
				}
			}
			return true
		})
		ast.Inspect(f.Decl.Body, func(nn ast.Node) bool {
			c, ok := nn.(*ast.CallExpr)
			if !ok {
				return true
			}
			fn := staticCallee(info, c)
			if fn == nil || fn.Name() != "decodeWithPool" || len(c.Args) != 1 {
				return true
			}
			n++
			ok = false
			if id, isID := c.Args[0].(*ast.Ident); isID && checked[info.Uses[id]] {
				ok = true
			}
			if guardPos.IsValid() && guardPos < c.Pos() {
				ok = true
			}
			r.Ob("A-wire-nested", f.Name+" :: "+types.ExprString(c), prog.Pos(c.Pos()), ok,
				"the bytes handed to the nested decoder are not known to come from a length-delimited field: for a message that carries this tag as varint / fixed32 / fixed64 the payload is parsed as a message (wrong values or an unrelated error) instead of the documented WireTypeMismatchError")
			return true
		})
	}
	return n
}

// checkLengthDelimitedSlices (A-ld): StringValues / BytesValues return one element per recorded occurrence. Every
// occurrence of a length-delimited field is one value (there is no packed form), an empty one included, so these
// accessors must (1) test the recorded wire type and (2) map fd.data one-to-one; the splitting helper sliceValue
// walks inside each occurrence and yields nothing for an empty one.
func checkLengthDelimitedSlices(r *core.Result, prog *core.Program, lp *packages.Package) {
	info := lp.TypesInfo
	for _, name := range []string{"StringValues", "BytesValues"} {
		f := core.FindFunc(lp, "(*FieldData)."+name)
		if f == nil {
			r.Fail("anchor", "(*FieldData)."+name, "", "accessor not found")
			continue
		}
		usesSplit, wtTest, oneToOne := false, false, false
		ast.Inspect(f.Decl.Body, func(n ast.Node) bool {
			switch x := n.(type) {
			case *ast.CallExpr:
				if fn := staticCallee(info, x); fn != nil && fn.Name() == "sliceValue" {
					usesSplit = true
				}
			case *ast.IfStmt:
				if b, ok := x.Cond.(*ast.BinaryExpr); ok && b.Op == token.NEQ && strings.HasSuffix(types.ExprString(b.X), ".wt") && strings.HasSuffix(types.ExprString(b.Y), "WireTypeLengthDelimited") && returnsError(info, x.Body.List) {
					wtTest = true
				}
			case *ast.RangeStmt:
				if strings.HasSuffix(types.ExprString(x.X), ".data") {
					oneToOne = true
				}
				// for i := range output, with output := make(.., len(fd.data))
				if id, ok := x.X.(*ast.Ident); ok {
					ast.Inspect(f.Decl.Body, func(m ast.Node) bool {
						if as, ok := m.(*ast.AssignStmt); ok && len(as.Lhs) == 1 && len(as.Rhs) == 1 {
							if l, ok := as.Lhs[0].(*ast.Ident); ok && (info.Defs[l] == info.Uses[id]) {
								if strings.Contains(types.ExprString(as.Rhs[0]), "len(fd.data)") {
									oneToOne = true
								}
							}
						}
						return true
					})
				}
			}
			return true
		})
		pos := prog.Pos(f.Pos())
		r.Ob("A-ld", "(*FieldData)."+name+" tests the recorded wire type", pos, wtTest || usesSplit, "no `fd.wt != WireTypeLengthDelimited` error path: data recorded for a varint / fixed field is handed out as strings / bytes instead of the documented WireTypeMismatchError")
		r.Ob("A-ld", "(*FieldData)."+name+" returns one element per occurrence", pos, oneToOne && !usesSplit, "the accessor goes through sliceValue, which walks inside each occurrence: an empty string / bytes occurrence yields no element, so the list is shorter than what was sent")
	}
}

package checks

import (
	"fmt"
	"go/ast"
	"go/types"
	"strings"

	"golang.org/x/tools/go/packages"

	"csverify/bitdom"
	"csverify/bitexec"
	"csverify/core"
)

// Value-level agreement of the lazy accessors with the encoder (C13), decided with the bit-provenance
// interpreter of C01 (DESIGN §3.8): for every value of the kind, the typed accessor applied to field data holding
// the encoder's bytes returns that value; with several occurrences the singular accessor returns the last one and
// the slice accessor all of them in order, for unpacked data, for one packed run and for a mix of both.

type lazyKind struct {
	acc     string // <acc>Value / <acc>Values
	bk      bitKind
	leafEnc string // EncodeVarint / EncodeZigZag32 / …
	wt      uint64
}

func lazyKinds() []lazyKind {
	by := map[string]bitKind{}
	for _, k := range bitKinds {
		by[k.name] = k
	}
	return []lazyKind{
		{"Bool", by["Bool"], "", 0},
		{"UInt32", by["UInt32"], "EncodeVarint", 0}, {"Int32", by["Int32"], "EncodeVarint", 0},
		{"UInt64", by["UInt64"], "EncodeVarint", 0}, {"Int64", by["Int64"], "EncodeVarint", 0},
		{"SInt32", by["SInt32"], "EncodeZigZag32", 0}, {"SInt64", by["SInt64"], "EncodeZigZag64", 0},
		{"Fixed32", by["Fixed32"], "EncodeFixed32", 5}, {"Fixed64", by["Fixed64"], "EncodeFixed64", 1},
		{"Float32", by["Float32"], "EncodeFixed32", 5}, {"Float64", by["Float64"], "EncodeFixed64", 1},
	}
}

func newLazyHarness(root, lp *packages.Package) *bitHarness {
	info := bitexec.MergeInfo(root.TypesInfo, lp.TypesInfo)
	m := &bitexec.Machine{Info: info, Pkg: lp.Types, Decls: map[*types.Func]*ast.FuncDecl{}, MaxOps: 2_000_000}
	for _, pk := range []*packages.Package{root, lp} {
		for _, f := range pk.Syntax {
			for _, d := range f.Decls {
				if fd, ok := d.(*ast.FuncDecl); ok {
					if fn, ok := info.Defs[fd.Name].(*types.Func); ok {
						m.Decls[fn] = fd
					}
				}
			}
		}
	}
	// error constructors: only "an error" matters to the harnesses
	m.Natives = map[string]func([]bitexec.Value) []bitexec.Value{
		"wireTypeMismatchError": func([]bitexec.Value) []bitexec.Value {
			return []bitexec.Value{bitexec.Err{Nil: false, Desc: "WireTypeMismatchError"}}
		},
	}
	return &bitHarness{m: m, pk: lp}
}

// payload: the value bytes (without key) the encoder writes for v.
func (h *bitHarness) lazyPayload(k lazyKind, raw bitexec.Int) bitexec.Bytes {
	if k.bk.boolean {
		by := bitdom.ConstVal(8, false, 0)
		by.Bits[0] = raw.V.Bits[0]
		return bitexec.Bytes{Buf: &bitexec.Buffer{B: []bitdom.Val{by}}, Len: 1, Cap: 1}
	}
	buf := bitexec.NewBuffer(10, bitexec.TopByte)
	var arg bitexec.Value
	switch k.leafEnc {
	case "EncodeVarint":
		arg = bitexec.Int{V: raw.V.Convert(64, false)} // uint64(v): sign-extended for the signed kinds
	case "EncodeFixed32", "EncodeFixed64":
		arg = bitexec.Int{V: raw.V.Convert(raw.V.W(), false)}
	default:
		arg = raw
	}
	out := h.call(k.leafEnc, nil, bitexec.Bytes{Buf: buf, Len: 10, Cap: 10}, arg)
	n, ok := constOf(out[0])
	if !ok {
		panic(bitexec.Abort{Msg: "encoder byte count is not constant"})
	}
	return bitexec.Bytes{Buf: &bitexec.Buffer{B: append([]bitdom.Val(nil), buf.B[:n]...)}, Len: int(n), Cap: int(n)}
}

func concatBytes(parts ...bitexec.Bytes) bitexec.Bytes {
	nb := &bitexec.Buffer{}
	for _, p := range parts {
		nb.B = append(nb.B, p.Buf.B[p.Off:p.Off+p.Len]...)
	}
	return bitexec.Bytes{Buf: nb, Len: len(nb.B), Cap: len(nb.B)}
}

func (h *bitHarness) fieldData(wt uint64, unsafeMode bool, data ...bitexec.Bytes) *bitexec.Object {
	var elems []bitexec.Value
	for _, d := range data {
		elems = append(elems, d)
	}
	f := map[string]bitexec.Value{
		"data": bitexec.List{Elems: elems}, "wt": bitexec.ConstInt(64, true, wt), "maxCap": bitexec.ConstInt(64, true, 0),
		"unsafe": bitexec.Bool{B: bitdom.Const(unsafeMode)},
	}
	for _, s := range []string{"boolSlice", "uint64Slice", "int64Slice", "uint32Slice", "int32Slice", "stringSlice", "float32Slice", "float64Slice"} {
		f[s] = bitexec.List{Nil: true}
	}
	return &bitexec.Object{Type: "FieldData", Fields: f}
}

func (h *bitHarness) lazyInputs(c *bitexec.Ctx, k lazyKind, second *uint64) (raws []bitexec.Int) {
	_, r0 := h.valueInput(c, k.bk, "v0")
	raws = append(raws, r0)
	if second != nil {
		raws = append(raws, bitexec.ConstInt(maxInt(k.bk.width, 1), k.bk.signed, *second))
	} else {
		_, r1 := h.valueInput(c, k.bk, "v1")
		raws = append(raws, r1)
	}
	return
}

func (h *bitHarness) lazyScalar(k lazyKind, second *uint64) func(c *bitexec.Ctx) {
	return func(c *bitexec.Ctx) {
		raws := h.lazyInputs(c, k, second)
		p0, p1 := h.lazyPayload(k, raws[0]), h.lazyPayload(k, raws[1])
		for _, unsafeMode := range []bool{false, true} {
			// one occurrence
			fd := h.fieldData(k.wt, unsafeMode, p0)
			r := h.call("(*FieldData)."+k.acc+"Value", bitexec.Ptr{Obj: fd})
			c.Check(k.acc+"Value accepts the encoder's bytes", errNil(r[1]), "error "+errDesc(r[1]))
			if errNil(r[1]) {
				c.Check(k.acc+"Value returns the value written", sameValue(k.bk, r[0], raws[0]), fmt.Sprintf("got %v", r[0]))
			}
			// two occurrences: the last one wins
			fd = h.fieldData(k.wt, unsafeMode, p0, p1)
			r = h.call("(*FieldData)."+k.acc+"Value", bitexec.Ptr{Obj: fd})
			c.Check(k.acc+"Value accepts two occurrences", errNil(r[1]), "error "+errDesc(r[1]))
			if errNil(r[1]) {
				c.Check(k.acc+"Value returns the last occurrence", sameValue(k.bk, r[0], raws[1]), fmt.Sprintf("got %v", r[0]))
			}
		}
	}
}

func (h *bitHarness) lazySlice(k lazyKind, second *uint64) func(c *bitexec.Ctx) {
	return func(c *bitexec.Ctx) {
		raws := h.lazyInputs(c, k, second)
		p0, p1 := h.lazyPayload(k, raws[0]), h.lazyPayload(k, raws[1])
		type shape struct {
			name string
			wt   uint64
			data []bitexec.Bytes
			want []bitexec.Int
		}
		shapes := []shape{
			{"two unpacked occurrences", k.wt, []bitexec.Bytes{p0, p1}, []bitexec.Int{raws[0], raws[1]}},
			{"one packed run", 2, []bitexec.Bytes{concatBytes(p0, p1)}, []bitexec.Int{raws[0], raws[1]}},
			{"two packed runs", 2, []bitexec.Bytes{concatBytes(p0), concatBytes(p1, p0)}, []bitexec.Int{raws[0], raws[1], raws[0]}},
		}
		for _, sh := range shapes {
			for _, unsafeMode := range []bool{false, true} {
				fd := h.fieldData(sh.wt, unsafeMode, sh.data...)
				r := h.call("(*FieldData)."+k.acc+"Values", bitexec.Ptr{Obj: fd})
				c.Check(k.acc+"Values accepts "+sh.name, errNil(r[1]), "error "+errDesc(r[1]))
				if !errNil(r[1]) {
					continue
				}
				l, ok := r[0].(bitexec.List)
				same := ok && len(l.Elems) == len(sh.want)
				if same {
					for i := range sh.want {
						if !sameValue(k.bk, l.Elems[i], sh.want[i]) {
							same = false
						}
					}
				}
				c.Check(k.acc+"Values returns all elements of "+sh.name+" in order", same, fmt.Sprintf("got %v", r[0]))
			}
		}
	}
}

// lazyBoolSpec: a bool field may carry any well-formed varint; zero is false, everything else true.
func (h *bitHarness) lazyBoolSpec(k int) func(c *bitexec.Ctx) {
	return func(c *bitexec.Ctx) {
		buf := &bitexec.Buffer{}
		want := bitdom.ConstVal(64, false, 0)
		for i := 0; i < k; i++ {
			fixed := map[int]bool{7: i < k-1}
			if i == 9 {
				for b := 1; b < 7; b++ {
					fixed[b] = false
				}
			}
			by := c.Input(fmt.Sprintf("b%d", i), 8, false, fixed)
			buf.B = append(buf.B, by.V)
			for b := 0; b < 7; b++ {
				if 7*i+b < 64 {
					want.Bits[7*i+b] = by.V.Bits[b]
				}
			}
		}
		// expected truth value on this partition (refine the partition until it is determined)
		res, decided, split := bitdom.Cmp(want, bitdom.ConstVal(64, false, 0))
		if !decided {
			panic(bitexec.SplitReq{Form: split})
		}
		exp := res != 0
		p := bitexec.Bytes{Buf: buf, Len: k, Cap: k}
		fd := h.fieldData(0, false, p)
		r := h.call("(*FieldData).BoolValue", bitexec.Ptr{Obj: fd})
		c.Check("BoolValue accepts any well-formed varint", errNil(r[1]), "error "+errDesc(r[1]))
		if b, ok := r[0].(bitexec.Bool); errNil(r[1]) {
			cb, known := b.B.IsConst()
			c.Check("BoolValue is true exactly for non-zero varints", ok && known && cb == exp, fmt.Sprintf("got %v, want %v", r[0], exp))
		}
		for _, wt := range []uint64{0, 2} {
			fd = h.fieldData(wt, false, concatBytes(p))
			r = h.call("(*FieldData).BoolValues", bitexec.Ptr{Obj: fd})
			c.Check("BoolValues accepts any well-formed varint", errNil(r[1]), "error "+errDesc(r[1]))
			if !errNil(r[1]) {
				continue
			}
			l, ok := r[0].(bitexec.List)
			good := ok && len(l.Elems) == 1
			if good {
				b, isB := l.Elems[0].(bitexec.Bool)
				cb, known := b.B.IsConst()
				good = isB && known && cb == exp
			}
			c.Check("BoolValues yields one element per varint, true exactly for non-zero", good, fmt.Sprintf("got %v, want [%v]", r[0], exp))
		}
	}
}

func checkLazyBitAgreement(r *core.Result, prog *core.Program, root, lp *packages.Package, thorough bool) {
	type job struct {
		name, anchor  string
		max           int
		mk            func(h *bitHarness) func(c *bitexec.Ctx)
		paths, checks int
		res           *core.Result
	}
	var jobs []*job
	h0 := newLazyHarness(root, lp)
	add := func(name, accessor string, max int, mk func(h *bitHarness) func(c *bitexec.Ctx)) {
		anchor := ""
		if fn := h0.m.Lookup("(*FieldData)." + accessor); fn != nil {
			anchor = prog.Pos(h0.m.Decls[fn].Pos())
		}
		jobs = append(jobs, &job{name: name, anchor: anchor, max: max, mk: mk})
	}
	for _, k := range lazyKinds() {
		k := k
		w := maxInt(k.bk.width, 1)
		seconds := []uint64{^uint64(0) >> uint(64-w)}
		if thorough {
			seconds = append(seconds, 0)
			if w > 8 {
				seconds = append(seconds, 1<<uint(w-1), 128)
			}
		}
		cheap := k.bk.boolean || k.bk.size == "4" || k.bk.size == "8"
		for _, sv := range seconds {
			sv := sv
			what := fmt.Sprintf("second value %#x", sv)
			var sp *uint64 = &sv
			if cheap {
				what, sp = "second value arbitrary", nil
			}
			add(fmt.Sprintf("(*FieldData).%sValue returns the encoder's value (one occurrence) and the last of two: first value arbitrary, %s", k.acc, what), k.acc+"Value", 60000, func(h *bitHarness) func(*bitexec.Ctx) { return h.lazyScalar(k, sp) })
			add(fmt.Sprintf("(*FieldData).%sValues returns every element in wire order (unpacked, packed, mixed): first value arbitrary, %s", k.acc, what), k.acc+"Values", 60000, func(h *bitHarness) func(*bitexec.Ctx) { return h.lazySlice(k, sp) })
			if cheap {
				break
			}
		}
	}
	for _, k := range []int{1, 2, 3, 10} {
		k := k
		add(fmt.Sprintf("(*FieldData).BoolValue / BoolValues on any well-formed varint of %d bytes: zero is false, everything else is one true element", k), "BoolValues", 5000, func(h *bitHarness) func(*bitexec.Ctx) { return h.lazyBoolSpec(k) })
	}
	sem := make(chan struct{}, 16)
	done := make(chan struct{})
	for _, j := range jobs {
		j := j
		go func() {
			sem <- struct{}{}
			defer func() { <-sem; done <- struct{}{} }()
			j.res = &core.Result{Counts: map[string]int{}}
			h := newLazyHarness(root, lp)
			j.paths, j.checks = runBitHarness(j.res, prog, j.name, j.anchor, j.max, j.mk(h))
		}()
	}
	for range jobs {
		<-done
	}
	totalP := 0
	for _, j := range jobs {
		for _, ob := range j.res.Obligations {
			r.Ob("B-lazy", strings.TrimPrefix(ob.Construct, "(*FieldData)."), ob.Pos, ob.Discharged, ob.Detail)
		}
		totalP += j.paths
	}
	r.Counts["bit-level accessor harnesses"] = len(jobs)
	r.Counts["input-space partitions explored (accessors)"] = totalP
	r.Floor("bit-level accessor harnesses", len(jobs), 22)
}

package checks

import (
	"fmt"
	"sort"
	"strings"

	"golang.org/x/tools/go/packages"

	"csverify/bitdom"
	"csverify/bitexec"
	"csverify/core"
)

// End-to-end agreement of lazy decoding with a reference parse (C13), decided with the bit-provenance interpreter:
// a message is laid out by the harness (a sequence of fields with concrete numbers and wire types, symbolic values,
// unknown fields in between, packed and unpacked occurrences, a padded key), (*DecodeResult).decode is interpreted
// on its bytes, and for every requested tag GetFieldData + the typed accessors must return what the layout says:
// the last occurrence for single-value accessors, all occurrences in wire order for slice accessors (packed runs
// expanded; one wire type per field number, as the property requires), the not-found error for requested-but-absent tags, the not-defined error for other tags; Range visits
// the requested tags in ascending order. The reference is the layout itself, not another decoder.

type layoutField struct {
	tag    int
	kind   string   // accessor family: UInt64, Int32, SInt32, Fixed32, Fixed64, Bool, Float64, Bytes …
	values []uint64 // constants; a value of ^0>>1 + 12345 (see symMark) stands for "fresh symbolic value"
	packed bool     // the values are written as one packed run
	padKey bool     // the key is written with one redundant continuation byte
	length int      // Bytes: length of the symbolic content
}

const symMark = uint64(0x5ca1ab1e5ca1ab1e)

func (h *bitHarness) chunkFor(c *bitexec.Ctx, lf layoutField, k lazyKind, idx int) (bitexec.Bytes, []bitexec.Int) {
	var raws []bitexec.Int
	for i, v := range lf.values {
		if v == symMark {
			_, raw := h.valueInput(c, k.bk, fmt.Sprintf("f%d_%d", idx, i))
			raws = append(raws, raw)
		} else {
			raws = append(raws, bitexec.ConstInt(maxInt(k.bk.width, 1), k.bk.signed, v))
		}
	}
	asValue := func(raw bitexec.Int) bitexec.Value {
		switch {
		case k.bk.boolean:
			return bitexec.Bool{B: raw.V.Bits[0]}
		case k.bk.float:
			return bitexec.Float{Bits: raw.V}
		}
		return raw
	}
	tag := bitexec.ConstInt(64, true, uint64(lf.tag))
	switch {
	case lf.packed:
		enc, buf := h.newEncoder(16 + 11*len(raws))
		var elems []bitexec.Value
		for _, r := range raws {
			elems = append(elems, asValue(r))
		}
		h.call("(*Encoder).EncodePacked"+k.bk.packed, bitexec.Ptr{Obj: enc}, tag, bitexec.List{Elems: elems})
		n, _ := constOf(enc.Fields["offset"])
		return bitexec.Bytes{Buf: &bitexec.Buffer{B: append([]bitdom.Val(nil), buf.B[:n]...)}, Len: int(n), Cap: int(n)}, raws
	case lf.padKey:
		// key with one redundant continuation byte, then the payload
		key := uint64(lf.tag)<<3 | k.wt
		var kb []bitdom.Val
		for key >= 0x80 {
			kb = append(kb, bitdom.ConstVal(8, false, key&0x7f|0x80))
			key >>= 7
		}
		kb = append(kb, bitdom.ConstVal(8, false, key|0x80), bitdom.ConstVal(8, false, 0))
		p := h.lazyPayload(k, raws[0])
		return concatBytes(bitexec.Bytes{Buf: &bitexec.Buffer{B: kb}, Len: len(kb), Cap: len(kb)}, p), raws
	default:
		enc, buf := h.newEncoder(24)
		h.call("(*Encoder).Encode"+k.bk.name, bitexec.Ptr{Obj: enc}, tag, asValue(raws[0]))
		n, _ := constOf(enc.Fields["offset"])
		return bitexec.Bytes{Buf: &bitexec.Buffer{B: append([]bitdom.Val(nil), buf.B[:n]...)}, Len: int(n), Cap: int(n)}, raws
	}
}

func (h *bitHarness) lazyDecodeScenario(layout []layoutField, requested []int, unsafeMode bool) func(c *bitexec.Ctx) {
	kinds := map[string]lazyKind{}
	for _, k := range lazyKinds() {
		kinds[k.acc] = k
	}
	return func(c *bitexec.Ctx) {
		// lay the message out
		var chunks []bitexec.Bytes
		want := map[int][]bitexec.Int{}
		kindOf := map[int]lazyKind{}
		wireOf := map[int]uint64{}
		bytesWant := map[int][][]bitdom.Val{}
		packedTag := map[int]bool{}
		for i, lf := range layout {
			if lf.kind == "Bytes" {
				content := make([]bitdom.Val, lf.length)
				for j := range content {
					content[j] = c.Input(fmt.Sprintf("s%d_%d", i, j), 8, false, nil).V
				}
				enc, buf := h.newEncoder(lf.length + 16)
				h.call("(*Encoder).EncodeBytes", bitexec.Ptr{Obj: enc}, bitexec.ConstInt(64, true, uint64(lf.tag)), bitexec.Bytes{Buf: &bitexec.Buffer{B: content}, Len: lf.length, Cap: lf.length})
				n, _ := constOf(enc.Fields["offset"])
				chunks = append(chunks, bitexec.Bytes{Buf: &bitexec.Buffer{B: append([]bitdom.Val(nil), buf.B[:n]...)}, Len: int(n), Cap: int(n)})
				bytesWant[lf.tag] = append(bytesWant[lf.tag], content)
				continue
			}
			k := kinds[lf.kind]
			ch, raws := h.chunkFor(c, lf, k, i)
			chunks = append(chunks, ch)
			want[lf.tag] = append(want[lf.tag], raws...)
			kindOf[lf.tag] = k
			wireOf[lf.tag] = k.wt
			if lf.packed {
				packedTag[lf.tag] = true
			}
		}
		data := concatBytes(chunks...)
		// the result object for the requested tags
		sort.Ints(requested)
		var tagVals, fds []bitexec.Value
		for _, t := range requested {
			tagVals = append(tagVals, bitexec.ConstInt(64, true, uint64(t)))
			fds = append(fds, bitexec.Ptr{Obj: h.fieldData(0, unsafeMode)})
		}
		res := &bitexec.Object{Type: "DecodeResult", Fields: map[string]bitexec.Value{
			"pool": bitexec.Ptr{}, "filter": nil, "flatTags": bitexec.List{Elems: tagVals}, "flatData": bitexec.List{Elems: fds},
			"nestedTags": bitexec.List{Nil: true}, "nestedDecoders": bitexec.List{Nil: true}, "closers": bitexec.List{Nil: true},
			"maxBuffer": bitexec.ConstInt(64, true, ^uint64(0)), "skipClose": bitexec.Bool{B: bitdom.Const(false)}, "unsafe": bitexec.Bool{B: bitdom.Const(unsafeMode)}, "released": bitexec.Bool{B: bitdom.Const(false)},
		}}
		rp := bitexec.Ptr{Obj: res}
		r := h.call("(*DecodeResult).decode", rp, data)
		c.Check("decode accepts the well-formed message", errNil(r[0]), "error "+errDesc(r[0]))
		if !errNil(r[0]) {
			return
		}
		for _, t := range requested {
			g := h.call("(*DecodeResult).GetFieldData", rp, bitexec.ConstInt(64, true, uint64(t)))
			occ, occB := want[t], bytesWant[t]
			if len(occ) == 0 && len(occB) == 0 {
				c.Check(fmt.Sprintf("a requested tag (%d) that is absent yields the not-found error", t), strings.Contains(errDesc(g[1]), "ErrTagNotFound"), "got "+errDesc(g[1]))
				continue
			}
			c.Check(fmt.Sprintf("GetFieldData(%d) finds the field", t), errNil(g[1]), "error "+errDesc(g[1]))
			if !errNil(g[1]) {
				continue
			}
			if len(occB) > 0 {
				bv := h.call("(*FieldData).BytesValues", g[0])
				okB := errNil(bv[1])
				if l, ok := bv[0].(bitexec.List); okB && ok && len(l.Elems) == len(occB) {
					for i := range occB {
						b, isB := l.Elems[i].(bitexec.Bytes)
						if !isB || b.Len != len(occB[i]) {
							okB = false
							continue
						}
						for j := range occB[i] {
							if !b.Buf.B[b.Off+j].Equal(occB[i][j]) {
								okB = false
							}
						}
					}
				} else {
					okB = false
				}
				c.Check(fmt.Sprintf("BytesValues(%d) returns every occurrence in wire order", t), okB, fmt.Sprintf("got %v", bv[0]))
				continue
			}
			k := kindOf[t]
			if !packedTag[t] {
				sv := h.call("(*FieldData)."+k.acc+"Value", g[0])
				c.Check(fmt.Sprintf("%sValue(%d) succeeds", k.acc, t), errNil(sv[1]), "error "+errDesc(sv[1]))
				if errNil(sv[1]) {
					c.Check(fmt.Sprintf("%sValue(%d) is the last occurrence", k.acc, t), sameValue(k.bk, sv[0], occ[len(occ)-1]), fmt.Sprintf("got %v", sv[0]))
				}
			} else {
				// a packed run is length-delimited: the single-value accessor of the element kind must refuse it
				sv := h.call("(*FieldData)."+k.acc+"Value", g[0])
				c.Check(fmt.Sprintf("%sValue(%d) on a packed field reports the wire-type mismatch", k.acc, t), !errNil(sv[1]), "no error")
			}
			lv := h.call("(*FieldData)."+k.acc+"Values", g[0])
			c.Check(fmt.Sprintf("%sValues(%d) succeeds", k.acc, t), errNil(lv[1]), "error "+errDesc(lv[1]))
			if errNil(lv[1]) {
				l, ok := lv[0].(bitexec.List)
				same := ok && len(l.Elems) == len(occ)
				if same {
					for i := range occ {
						if !sameValue(k.bk, l.Elems[i], occ[i]) {
							same = false
						}
					}
				}
				c.Check(fmt.Sprintf("%sValues(%d) is every occurrence in wire order, packed runs expanded", k.acc, t), same, fmt.Sprintf("got %v", lv[0]))
			}
		}
		// a tag that was not requested
		other := 0
		for _, t := range requested {
			if t >= other {
				other = t + 1
			}
		}
		g := h.call("(*DecodeResult).GetFieldData", rp, bitexec.ConstInt(64, true, uint64(other)))
		c.Check("a tag that was not requested yields the not-defined error", strings.Contains(errDesc(g[1]), "ErrTagNotDefined"), "got "+errDesc(g[1]))
		// Range: requested tags in ascending order, nil for the absent ones
		var seen []string
		cb := bitexec.NativeFunc(func(args []bitexec.Value) []bitexec.Value {
			t, _ := constOf(args[0])
			present := false
			if p, ok := args[1].(bitexec.Ptr); ok && p.Obj != nil {
				present = true
			}
			seen = append(seen, fmt.Sprintf("%d:%v", t, present))
			return []bitexec.Value{bitexec.Bool{B: bitdom.Const(true)}}
		})
		h.call("(*DecodeResult).Range", rp, cb)
		var exp []string
		for _, t := range requested {
			exp = append(exp, fmt.Sprintf("%d:%v", t, len(want[t])+len(bytesWant[t]) > 0))
		}
		c.Check("Range visits the requested tags in ascending order with nil for the absent ones", strings.Join(seen, " ") == strings.Join(exp, " "), fmt.Sprintf("visited %v, expected %v", seen, exp))
		// Range stops exactly when the callback returns false - at a present tag and at an absent one
		stops := map[int]bool{0: true}
		for i, t := range requested {
			if len(want[t])+len(bytesWant[t]) == 0 {
				stops[i] = true
			}
		}
		for stopAt := range stops {
			n := 0
			stopAt := stopAt
			cb := bitexec.NativeFunc(func(args []bitexec.Value) []bitexec.Value {
				n++
				return []bitexec.Value{bitexec.Bool{B: bitdom.Const(n-1 != stopAt)}}
			})
			h.call("(*DecodeResult).Range", rp, cb)
			c.Check("Range stops when the callback returns false", n == stopAt+1, fmt.Sprintf("callback returned false at call %d of %d requested tags, Range made %d calls", stopAt+1, len(requested), n))
		}
	}
}

func checkLazyDecodeBits(r *core.Result, prog *core.Program, root, lp *packages.Package) {
	S := symMark
	type scen struct {
		name      string
		layout    []layoutField
		requested []int
	}
	scens := []scen{
		{"singles, repeats, an unknown field in between, an absent requested tag", []layoutField{
			{tag: 1, kind: "UInt64", values: []uint64{S}}, {tag: 7, kind: "Fixed32", values: []uint64{S}}, {tag: 1, kind: "UInt64", values: []uint64{1 << 40}},
			{tag: 3, kind: "Fixed32", values: []uint64{S}}, {tag: 2, kind: "SInt32", values: []uint64{0xffffffff}}, {tag: 5, kind: "Bool", values: []uint64{S}},
		}, []int{1, 2, 3, 4, 5, 9}},
		{"a repeated int32 sent as two packed runs, another sent unpacked three times", []layoutField{
			{tag: 4, kind: "Int32", values: []uint64{0xffffffff}, packed: true}, {tag: 9, kind: "Int32", values: []uint64{0xffffffff}}, {tag: 4, kind: "Int32", values: []uint64{S, 128}, packed: true},
			{tag: 9, kind: "Int32", values: []uint64{0x80000000}}, {tag: 9, kind: "Int32", values: []uint64{5}},
		}, []int{4, 9}},
		{"packed fixed64 / double runs and a bool run", []layoutField{
			{tag: 2, kind: "Fixed64", values: []uint64{S, S}, packed: true}, {tag: 5, kind: "Float64", values: []uint64{S}}, {tag: 6, kind: "Float64", values: []uint64{S, 0x8000000000000000}, packed: true},
			{tag: 8, kind: "Bool", values: []uint64{1, 0, 1}, packed: true},
		}, []int{2, 5, 6, 8}},
		{"a requested field whose key carries a redundant continuation byte", []layoutField{
			{tag: 1, kind: "UInt64", values: []uint64{S}, padKey: true}, {tag: 2, kind: "Fixed32", values: []uint64{S}, padKey: true}, {tag: 3, kind: "UInt32", values: []uint64{7}},
		}, []int{1, 2, 3}},
		{"bytes fields of lengths 0, 3 and 130 around other fields", []layoutField{
			{tag: 10, kind: "Bytes", length: 0}, {tag: 1, kind: "UInt32", values: []uint64{S}}, {tag: 10, kind: "Bytes", length: 3}, {tag: 11, kind: "Bytes", length: 130}, {tag: 10, kind: "Bytes", length: 0},
		}, []int{1, 10, 11}},
		{"field numbers 15/16 and 2047/2048 (key length boundaries) with zig-zag values", []layoutField{
			{tag: 15, kind: "SInt64", values: []uint64{S}}, {tag: 16, kind: "SInt64", values: []uint64{^uint64(0)}}, {tag: 2047, kind: "Fixed64", values: []uint64{S}}, {tag: 2048, kind: "Int64", values: []uint64{^uint64(0)}},
		}, []int{15, 16, 2047, 2048}},
	}
	type job struct {
		name  string
		res   *core.Result
		paths int
		body  func(h *bitHarness) func(c *bitexec.Ctx)
	}
	var jobs []*job
	for _, sc := range scens {
		for _, us := range []bool{false, true} {
			sc, us := sc, us
			mode := "safe"
			if us {
				mode = "unsafe"
			}
			jobs = append(jobs, &job{name: fmt.Sprintf("decode + accessors agree with the layout: %s [%s field data]", sc.name, mode),
				body: func(h *bitHarness) func(c *bitexec.Ctx) {
					return h.lazyDecodeScenario(sc.layout, append([]int(nil), sc.requested...), us)
				}})
		}
	}
	anchor := ""
	h0 := newLazyHarness(root, lp)
	if fn := h0.m.Lookup("(*DecodeResult).decode"); fn != nil {
		anchor = prog.Pos(h0.m.Decls[fn].Pos())
	}
	sem := make(chan struct{}, 16)
	done := make(chan struct{})
	for _, j := range jobs {
		j := j
		go func() {
			sem <- struct{}{}
			defer func() { <-sem; done <- struct{}{} }()
			j.res = &core.Result{Counts: map[string]int{}}
			h := newLazyHarness(root, lp)
			h.modeSafe, h.modeFast = 0, 1
			j.paths, _ = runBitHarness(j.res, prog, j.name, anchor, 200000, j.body(h))
		}()
	}
	for range jobs {
		<-done
	}
	total := 0
	for _, j := range jobs {
		for _, ob := range j.res.Obligations {
			r.Ob("B-decode", ob.Construct, ob.Pos, ob.Discharged, ob.Detail)
		}
		total += j.paths
	}
	r.Counts["bit-level decode scenarios"] = len(jobs)
	r.Counts["input-space partitions explored (decode scenarios)"] = total
	r.Floor("bit-level decode scenarios", len(jobs), 12)
}

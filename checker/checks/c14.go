package checks

import (
	"fmt"
	"go/ast"
	"go/token"
	"go/types"
	"sort"
	"strings"

	"golang.org/x/tools/go/packages"

	"csverify/core"
)

func init() { register("C14", checkC14) }

// isResetRHS: x.f[:0], nil, 0, false (a value that exposes no earlier data)
func isResetRHS(info *types.Info, lhs *ast.SelectorExpr, rhs ast.Expr) bool {
	if rhs == nil {
		return false
	}
	if isNilIdentExpr(rhs) {
		return true
	}
	if tv, ok := info.Types[rhs]; ok && tv.Value != nil {
		s := tv.Value.ExactString()
		return s == "0" || s == "false" || s == `""`
	}
	if sl, ok := rhs.(*ast.SliceExpr); ok && sl.Low == nil && sl.High != nil {
		if tv, ok := info.Types[sl.High]; ok && tv.Value != nil && tv.Value.ExactString() == "0" {
			return types.ExprString(sl.X) == types.ExprString(lhs)
		}
	}
	return false
}

var scratchFields = map[string]bool{"boolSlice": true, "uint64Slice": true, "int64Slice": true, "uint32Slice": true,
	"int32Slice": true, "stringSlice": true, "float32Slice": true, "float64Slice": true}

func checkC14(r *core.Result) {
	r.Explanation = "Typestate rules for pooled lazy-decode results, decided on the source of lazyproto for all paths: R1 reset-before-put — the set of per-decode fields is computed (every FieldData/DecodeResult field stored by a function reachable from decode, the accessors or NestedResult(s)) and each is reset in close() before pool.Put, or carries a named exception whose side condition is itself checked (wt read only behind a len(data) guard; scratch slices re-sliced to [:0] before use; maxCap used for capacity bookkeeping only; skipClose set only on nested results); " +
		"R2 every slice re-allocated on the close→trunc paths has length 0; R3 every nested result obtained in NestedResult(s) is marked skipClose and appended to the parent's closers; R4 scratch slices are cached on the field data only under the unsafe-mode guard; R5 release-once: pool.Put is guarded by a released flag set before Put and cleared after Get; R6 on the error path of decodeWithPool the result is closed and nil is returned; R7 who-may-call: close() is called only by Close() and by itself, in-package Close() only by decodeWithPool's error path."
	r.RuleText = "obligations per per-decode field, per make on the close path, per nested-result site, per scratch-slice store, per Put/Get site"
	r.Assumptions = []string{"sync.Pool is correct", "not decided: value-level isolation for all histories (follows from R1–R6)", "a result is closed by the goroutine that owns it"}
	r.Trusted = []string{"go/types", "exception table in checks/c14.go (each exception's side condition is checked)"}
	prog, err := core.Load("./lazyproto")
	if err != nil {
		r.Infra("%v", err)
		return
	}
	lp := prog.Pkg("lazyproto")
	info := lp.TypesInfo
	ix := buildIndex(lp)
	closeFn := ix.find("(*DecodeResult).close")
	decodeFn := ix.find("(*DecodeResult).decode")
	if closeFn == nil || decodeFn == nil {
		r.Fail("anchor", "(*DecodeResult).close / decode", "", "function not found")
		return
	}
	// roots of "per decode" activity
	var roots []*core.FuncInfo
	roots = append(roots, decodeFn)
	for _, f := range ix.decls {
		if f.Decl.Recv != nil && f.Decl.Name.IsExported() && f.Name != "(*DecodeResult).Close" {
			roots = append(roots, f)
		}
	}
	active := ix.reachable(roots...)
	closePath := ix.reachable(closeFn)
	r.Counts["functions reachable from decode/accessors"] = len(active)
	// per-decode fields
	type fkey struct{ typ, field string }
	perDecode := map[fkey]token.Pos{}
	for _, s := range ix.stores {
		if (s.typ == "FieldData" || s.typ == "DecodeResult") && active[s.fn] && !closePath[s.fn] {
			if _, ok := perDecode[fkey{s.typ, s.field}]; !ok {
				perDecode[fkey{s.typ, s.field}] = s.pos
			}
		}
	}
	var keys []fkey
	for k := range perDecode {
		keys = append(keys, k)
	}
	sort.Slice(keys, func(i, j int) bool { return keys[i].typ+keys[i].field < keys[j].typ+keys[j].field })
	r.Floor("per-decode fields (computed)", len(keys), 12)
	// position of pool.Put in close()
	var putPos token.Pos
	ast.Inspect(closeFn.Decl.Body, func(n ast.Node) bool {
		if c, ok := n.(*ast.CallExpr); ok {
			if fn := staticCallee(info, c); fn != nil && fn.Name() == "Put" && fn.Pkg() != nil && fn.Pkg().Path() == "sync" {
				putPos = c.Pos()
			}
		}
		return true
	})
	if !putPos.IsValid() {
		r.Fail("R1", "(*DecodeResult).close :: pool.Put", prog.Pos(closeFn.Pos()), "close() does not return the result to the pool")
	}
	released := "" // R5 flag name, discovered below
	// R5: release-once
	{
		var flag string
		var flagSetPos token.Pos
		for _, st := range closeFn.Decl.Body.List {
			if is, ok := st.(*ast.IfStmt); ok && is.Pos() < putPos && len(is.Body.List) == 1 {
				if _, isRet := is.Body.List[0].(*ast.ReturnStmt); isRet {
					if se, tn, fld, ok := fieldSel(info, is.Cond); ok && tn == "DecodeResult" {
						if b, ok := info.TypeOf(se).Underlying().(*types.Basic); ok && b.Kind() == types.Bool {
							flag = fld
						}
					}
				}
			}
		}
		if flag != "" {
			for _, s := range ix.stores {
				if s.fn == closeFn && s.field == flag && s.pos < putPos && s.rhs != nil && types.ExprString(s.rhs) == "true" {
					flagSetPos = s.pos
				}
			}
		}
		ok := flag != "" && flagSetPos.IsValid()
		r.Ob("R5", "(*DecodeResult).close :: release-once guard", prog.Pos(closeFn.Pos()), ok,
			"pool.Put is not guarded by a per-object released flag (tested with an early return, set before Put): a second Close puts the same object into the pool twice and two later Decode calls share one result")
		if ok {
			released = flag
			// every pool.Get site clears the flag on the object it obtained
			nGet := 0
			for _, f := range ix.decls {
				ast.Inspect(f.Decl.Body, func(n ast.Node) bool {
					c, isCall := n.(*ast.CallExpr)
					if !isCall {
						return true
					}
					if fn := staticCallee(info, c); fn != nil && fn.Name() == "Get" && fn.Pkg() != nil && fn.Pkg().Path() == "sync" {
						nGet++
						cleared := false
						for _, s := range ix.stores {
							if s.fn == f && s.field == flag && s.pos > c.Pos() && s.rhs != nil && types.ExprString(s.rhs) == "false" {
								cleared = true
							}
						}
						r.Ob("R5", f.Name+" :: pool.Get clears "+flag, prog.Pos(c.Pos()), cleared, "an object taken from the pool keeps its released flag set: its Close would be a no-op and it would leak / never be reset")
					}
					return true
				})
			}
			r.Counts["pool.Get sites"] = nGet
		}
	}
	// R1
	exception := func(k fkey) (string, bool, string) {
		switch {
		case k.typ == "FieldData" && k.field == "wt":
			// every read of .wt is behind a len(x.data) guard (in the function or in all its callers)
			for _, rd := range ix.reads {
				if rd.typ == "FieldData" && rd.field == "wt" {
					if !guardedByDataLen(ix, rd.fn, rd.pos, rd.expr, 1) {
						return "wt is only read after a len(data) check", false, fmt.Sprintf("FieldData.wt is read at %s without a dominating len(data) check, so a stale wire type of an earlier decode can be observed", prog.Pos(rd.pos))
					}
				}
			}
			return "wt is only read after a len(data) check", true, ""
		case k.typ == "FieldData" && scratchFields[k.field]:
			// reads: 3rd argument of sliceValue (which re-slices to [:0]) or cap() bookkeeping
			for _, rd := range ix.reads {
				if rd.typ == "FieldData" && rd.field == k.field {
					p := ix.parents[rd.expr]
					okRead := false
					if c, ok := p.(*ast.CallExpr); ok {
						if fn := staticCallee(info, c); fn != nil && fn.Name() == "sliceValue" && len(c.Args) >= 3 && c.Args[2] == ast.Expr(rd.expr) {
							okRead = true
						}
						if id, ok := c.Fun.(*ast.Ident); ok && id.Name == "cap" {
							okRead = true
						}
					}
					// fd.scratch[:0]: the slice is emptied at the point of the read
					if se, ok := p.(*ast.SliceExpr); ok && se.X == ast.Expr(rd.expr) && se.Low == nil && se.High != nil && !se.Slice3 {
						if tv := info.Types[se.High]; tv.Value != nil && tv.Value.ExactString() == "0" {
							okRead = true
						}
					}
					if !okRead {
						return "scratch slice re-sliced to [:0] before use", false, fmt.Sprintf("scratch slice %s is read at %s other than as sliceValue's buffer, re-sliced to [:0], or in cap()", k.field, prog.Pos(rd.pos))
					}
				}
			}
			if !sliceValueResets(ix) {
				return "scratch slice re-sliced to [:0] before use", false, "sliceValue does not re-slice its buffer to [:0] before appending"
			}
			return "scratch slice re-sliced to [:0] before use", true, ""
		case k.typ == "FieldData" && k.field == "maxCap":
			for _, rd := range ix.reads {
				if rd.typ == "FieldData" && rd.field == "maxCap" {
					fnm := rd.fn.Name
					inBook := strings.HasSuffix(fnm, ".trunc") || strings.HasSuffix(fnm, ".cap")
					if as, ok := enclosingStmt(ix, rd.expr).(*ast.AssignStmt); ok && len(as.Lhs) == 1 {
						if _, _, fld, ok := fieldSel(info, as.Lhs[0]); ok && fld == "maxCap" {
							inBook = true
						}
					}
					if !inBook {
						return "maxCap is capacity bookkeeping only", false, fmt.Sprintf("maxCap is read at %s outside capacity bookkeeping", prog.Pos(rd.pos))
					}
				}
			}
			return "maxCap is capacity bookkeeping only", true, ""
		case k.typ == "DecodeResult" && k.field == "skipClose":
			for _, s := range ix.stores {
				if s.typ == "DecodeResult" && s.field == "skipClose" {
					id := rootIdent(s.lhs)
					if id == nil || !assignedFromCall(ix, s.fn, info.Uses[id], "decodeWithPool") {
						return "skipClose is set only on nested results", false, fmt.Sprintf("skipClose is stored at %s on something that is not a fresh nested result", prog.Pos(s.pos))
					}
				}
			}
			return "skipClose is set only on nested results", true, ""
		case k.typ == "DecodeResult" && released != "" && k.field == released:
			return "released flag is the typestate itself", true, ""
		}
		return "", false, ""
	}
	for _, k := range keys {
		name := k.typ + "." + k.field
		reset := false
		for _, s := range ix.stores {
			if s.fn == closeFn && s.typ == k.typ && s.field == k.field && !s.elem && s.pos < putPos && isResetRHS(info, s.lhs.(*ast.SelectorExpr), s.rhs) {
				reset = true
			}
		}
		if reset {
			r.Ob("R1", name+" reset before Put", prog.Pos(closeFn.Pos()), true, "")
			continue
		}
		why, ok, detail := exception(k)
		if why == "" {
			r.Ob("R1", name+" reset before Put", prog.Pos(perDecode[k]), false, fmt.Sprintf("per-decode field %s (stored at %s) is neither truncated/zeroed in close() before pool.Put nor covered by a checked exception: a recycled result exposes the previous decode's value", name, prog.Pos(perDecode[k])))
			continue
		}
		r.Ob("R1", name+" exception: "+why, prog.Pos(perDecode[k]), ok, detail)
	}
	// R2: makes on the close path have length 0
	nMake := 0
	for f := range closePath {
		ast.Inspect(f.Decl.Body, func(n ast.Node) bool {
			c, ok := n.(*ast.CallExpr)
			if !ok {
				return true
			}
			if id, ok := c.Fun.(*ast.Ident); ok {
				if b, ok := info.Uses[id].(*types.Builtin); ok && b.Name() == "make" && len(c.Args) >= 2 {
					if _, isSlice := info.TypeOf(c.Args[0]).Underlying().(*types.Slice); !isSlice {
						return true
					}
					nMake++
					tv := info.Types[c.Args[1]]
					zero := tv.Value != nil && tv.Value.ExactString() == "0"
					r.Ob("R2", f.Name+" :: "+types.ExprString(c), prog.Pos(c.Pos()), zero && len(c.Args) == 3,
						"slice re-allocated while trimming has a non-zero length: the recycled result starts with stale/nil entries (make(T, n) instead of make(T, 0, n))")
				}
			}
			return true
		})
	}
	r.Floor("make sites on the close/trunc path", nMake, 10)
	// R3: nested tracking
	nNested := 0
	for _, name := range []string{"(*DecodeResult).NestedResult", "(*DecodeResult).NestedResults"} {
		f := ix.find(name)
		if f == nil {
			r.Fail("anchor", name, "", "function not found")
			continue
		}
		ast.Inspect(f.Decl.Body, func(n ast.Node) bool {
			as, ok := n.(*ast.AssignStmt)
			if !ok || len(as.Rhs) != 1 {
				return true
			}
			c, ok := as.Rhs[0].(*ast.CallExpr)
			if !ok {
				return true
			}
			if fn := staticCallee(info, c); fn == nil || fn.Name() != "decodeWithPool" {
				return true
			}
			id, ok := as.Lhs[0].(*ast.Ident)
			if !ok {
				return true
			}
			obj := info.Defs[id]
			if obj == nil {
				obj = info.Uses[id]
			}
			nNested++
			marked := false
			for _, s := range ix.stores {
				if s.fn == f && s.field == "skipClose" && s.rhs != nil && types.ExprString(s.rhs) == "true" {
					if rid := rootIdent(s.lhs); rid != nil && info.Uses[rid] == obj {
						marked = true
					}
				}
			}
			tracked := flowsIntoClosers(info, f, obj)
			r.Ob("R3", name+" :: "+id.Name+" marked skipClose", prog.Pos(as.Pos()), marked, "a nested result handed out without skipClose can be closed by the caller and again by its parent")
			r.Ob("R3", name+" :: "+id.Name+" appended to closers", prog.Pos(as.Pos()), tracked, "a nested result that is not tracked in the parent's closers is never reset / returned to its pool")
			return true
		})
	}
	r.Floor("nested result sites", nNested, 2)
	// R4: scratch slices cached only under the unsafe guard
	nScratch := 0
	for _, s := range ix.stores {
		if s.typ == "FieldData" && scratchFields[s.field] && !closePath[s.fn] {
			nScratch++
			guarded := false
			for _, c := range ix.enclosingIfConds(s.stmt) {
				if _, _, fld, ok := fieldSel(info, c); ok && fld == "unsafe" {
					guarded = true
				}
			}
			r.Ob("R4", s.fn.Name+" :: "+s.field+" cached", prog.Pos(s.pos), guarded, "scratch slice is cached on the field data outside the unsafe-mode guard: in safe mode a slice handed out earlier would be overwritten by the next call / next decode")
		}
	}
	r.Floor("scratch-slice stores", nScratch, 8)
	checkLazyInheritance(r, prog, lp)
	checkNilReceivers(r, prog, lp)
	// R7: who may release a result. close() is called only by Close() and by itself (through closers);
	// in-package, Close() is called only on the error path of decodeWithPool (a result that was never
	// handed out). Any other release of a result that may also sit in a parent's closers returns one
	// object to the pool twice / while it is still reachable.
	for _, f := range ix.decls {
		ast.Inspect(f.Decl.Body, func(n ast.Node) bool {
			c, ok := n.(*ast.CallExpr)
			if !ok {
				return true
			}
			fn := staticCallee(info, c)
			if fn == nil || fn.Pkg() != lp.Types {
				return true
			}
			sig := fn.Type().(*types.Signature)
			if sig.Recv() == nil || namedOf(sig.Recv().Type()) != "DecodeResult" {
				return true
			}
			switch fn.Name() {
			case "close":
				okCaller := f.Name == "(*DecodeResult).Close" || f.Name == "(*DecodeResult).close"
				r.Ob("R7", f.Name+" :: calls close()", prog.Pos(c.Pos()), okCaller, "only Close() and close() itself may release a result: releasing it elsewhere while it can still be in a parent's closers puts the object into the pool although it is reachable (it is later reset / handed out twice)")
			case "Close":
				okCaller := f.Name == "(*Decoder).decodeWithPool"
				r.Ob("R7", f.Name+" :: calls Close()", prog.Pos(c.Pos()), okCaller, "in-package Close() is reserved for the error path of decodeWithPool")
			}
			return true
		})
	}
	// R8: results are returned to a pool only by close() (which resets them first)
	for _, f := range ix.decls {
		ast.Inspect(f.Decl.Body, func(n ast.Node) bool {
			c, ok := n.(*ast.CallExpr)
			if !ok {
				return true
			}
			if fn := staticCallee(info, c); fn != nil && fn.Name() == "Put" && fn.Pkg() != nil && fn.Pkg().Path() == "sync" {
				r.Ob("R8", f.Name+" :: pool.Put", prog.Pos(c.Pos()), f.Name == "(*DecodeResult).close", "a result is put into the pool outside close(): it is recycled without the reset that close() performs")
			}
			return true
		})
	}
	// R6: error path of decodeWithPool
	if f := ix.find("(*Decoder).decodeWithPool"); f != nil {
		ok := false
		ast.Inspect(f.Decl.Body, func(n ast.Node) bool {
			is, isIf := n.(*ast.IfStmt)
			if !isIf {
				return true
			}
			if b, isB := is.Cond.(*ast.BinaryExpr); !isB || b.Op != token.NEQ || !isNilIdentExpr(b.Y) {
				return true
			}
			closes, retNil := false, false
			for _, st := range is.Body.List {
				ast.Inspect(st, func(m ast.Node) bool {
					if c, isC := m.(*ast.CallExpr); isC {
						if fn := staticCallee(info, c); fn != nil && (fn.Name() == "Close" || fn.Name() == "close") {
							closes = true
						}
					}
					return true
				})
				if ret, isR := st.(*ast.ReturnStmt); isR && len(ret.Results) == 2 && isNilIdentExpr(ret.Results[0]) {
					retNil = true
				}
			}
			if closes && retNil {
				ok = true
			}
			return true
		})
		r.Ob("R6", "(*Decoder).decodeWithPool :: error path", prog.Pos(f.Pos()), ok, "on a decode error the partially filled result must be closed (reset) and nil returned")
	} else {
		r.Fail("anchor", "(*Decoder).decodeWithPool", "", "function not found")
	}
}

func enclosingStmt(ix *pkgIndex, n ast.Node) ast.Stmt {
	for cur := n; cur != nil; cur = ix.parents[cur] {
		if s, ok := cur.(ast.Stmt); ok {
			return s
		}
	}
	return nil
}

// guardedByDataLen: the read at pos is preceded (in fn) by a statement
// `if … len(x.data) == 0 … { return }`, or is inside an if/&& whose condition
// tests len(x.data) > 0, or every in-package caller of fn is so guarded.
func guardedByDataLen(ix *pkgIndex, fn *core.FuncInfo, pos token.Pos, n ast.Node, depth int) bool {
	info := ix.pk.TypesInfo
	mentionsDataLen := func(e ast.Expr) bool {
		found := false
		ast.Inspect(e, func(m ast.Node) bool {
			if c, ok := m.(*ast.CallExpr); ok {
				if id, ok := c.Fun.(*ast.Ident); ok && id.Name == "len" && len(c.Args) == 1 {
					if _, _, fld, ok := fieldSel(info, c.Args[0]); ok && fld == "data" {
						found = true
					}
				}
			}
			return true
		})
		return found
	}
	// same condition (short-circuit) or enclosing if
	for cur := n; cur != nil; cur = ix.parents[cur] {
		if is, ok := cur.(*ast.IfStmt); ok && mentionsDataLen(is.Cond) {
			return true
		}
	}
	// earlier early-return guard at the top level of the function
	for _, st := range fn.Decl.Body.List {
		if st.Pos() >= pos {
			break
		}
		if is, ok := st.(*ast.IfStmt); ok && mentionsDataLen(is.Cond) && terminates(is.Body.List) {
			return true
		}
	}
	if depth <= 0 {
		return false
	}
	// all callers
	callers := 0
	for _, g := range ix.decls {
		okAll := true
		found := false
		ast.Inspect(g.Decl.Body, func(m ast.Node) bool {
			if c, ok := m.(*ast.CallExpr); ok {
				if cf := staticCallee(info, c); cf != nil && cf == fn.Obj {
					found = true
					if !guardedByDataLen(ix, g, c.Pos(), c, depth-1) {
						okAll = false
					}
				}
			}
			return true
		})
		if found {
			callers++
			if !okAll {
				return false
			}
		}
	}
	return callers > 0
}

// sliceValueResets: sliceValue re-slices its buffer parameter to [:0] (when non-nil) before any append.
func sliceValueResets(ix *pkgIndex) bool {
	f := ix.find("sliceValue")
	if f == nil {
		return false
	}
	info := ix.pk.TypesInfo
	var resObj types.Object
	i := 0
	for _, fld := range f.Decl.Type.Params.List {
		for _, nm := range fld.Names {
			if i == 2 {
				resObj = info.Defs[nm]
			}
			i++
		}
	}
	if resObj == nil {
		return false
	}
	resetPos, firstAppend := token.NoPos, token.NoPos
	ast.Inspect(f.Decl.Body, func(n ast.Node) bool {
		switch x := n.(type) {
		case *ast.AssignStmt:
			if len(x.Lhs) == 1 && len(x.Rhs) == 1 {
				if id, ok := x.Lhs[0].(*ast.Ident); ok && info.Uses[id] == resObj {
					if sl, ok := x.Rhs[0].(*ast.SliceExpr); ok && sl.Low == nil && sl.High != nil {
						if tv := info.Types[sl.High]; tv.Value != nil && tv.Value.ExactString() == "0" {
							if sid, ok := sl.X.(*ast.Ident); ok && info.Uses[sid] == resObj && !resetPos.IsValid() {
								resetPos = x.Pos()
							}
						}
					}
				}
			}
		case *ast.CallExpr:
			if id, ok := x.Fun.(*ast.Ident); ok && id.Name == "append" && len(x.Args) > 0 {
				if aid, ok := x.Args[0].(*ast.Ident); ok && info.Uses[aid] == resObj && !firstAppend.IsValid() {
					firstAppend = x.Pos()
				}
			}
		}
		return true
	})
	return resetPos.IsValid() && firstAppend.IsValid() && resetPos < firstAppend
}

// assignedFromCall: obj is assigned (in fn) from a call to the named function.
func assignedFromCall(ix *pkgIndex, fn *core.FuncInfo, obj types.Object, callee string) bool {
	info := ix.pk.TypesInfo
	found := false
	ast.Inspect(fn.Decl.Body, func(n ast.Node) bool {
		as, ok := n.(*ast.AssignStmt)
		if !ok || len(as.Rhs) != 1 {
			return true
		}
		c, ok := as.Rhs[0].(*ast.CallExpr)
		if !ok {
			return true
		}
		if cf := staticCallee(info, c); cf == nil || cf.Name() != callee {
			return true
		}
		if id, ok := as.Lhs[0].(*ast.Ident); ok {
			o := info.Defs[id]
			if o == nil {
				o = info.Uses[id]
			}
			if o == obj {
				found = true
			}
		}
		return true
	})
	return found
}

// flowsIntoClosers: obj is appended to x.closers directly or through a local slice that is.
func flowsIntoClosers(info *types.Info, f *core.FuncInfo, obj types.Object) bool {
	carriers := map[types.Object]bool{obj: true}
	for round := 0; round < 3; round++ {
		ast.Inspect(f.Decl.Body, func(n ast.Node) bool {
			as, ok := n.(*ast.AssignStmt)
			if !ok || len(as.Lhs) != 1 || len(as.Rhs) != 1 {
				return true
			}
			c, ok := as.Rhs[0].(*ast.CallExpr)
			if !ok {
				return true
			}
			if id, ok := c.Fun.(*ast.Ident); !ok || id.Name != "append" {
				return true
			}
			carries := false
			for _, a := range c.Args[1:] {
				if id, ok := a.(*ast.Ident); ok && carriers[info.Uses[id]] {
					carries = true
				}
			}
			if !carries {
				return true
			}
			if id, ok := as.Lhs[0].(*ast.Ident); ok {
				if o := info.Uses[id]; o != nil {
					carriers[o] = true
				}
			}
			return true
		})
	}
	found := false
	ast.Inspect(f.Decl.Body, func(n ast.Node) bool {
		as, ok := n.(*ast.AssignStmt)
		if !ok || len(as.Lhs) != 1 || len(as.Rhs) != 1 {
			return true
		}
		if _, _, fld, ok := fieldSel(info, as.Lhs[0]); !ok || fld != "closers" {
			return true
		}
		if c, ok := as.Rhs[0].(*ast.CallExpr); ok {
			for _, a := range c.Args[1:] {
				if id, ok := a.(*ast.Ident); ok && carriers[info.Uses[id]] {
					found = true
				}
			}
		}
		return true
	})
	return found
}

// checkNilReceivers (R10): Decode returns (nil, nil) for an empty input, so a caller can hold a nil *DecodeResult
// without having seen an error; GetFieldData can hand out nil field data the same way. Every exported method of
// *DecodeResult therefore either starts with a nil test of its receiver or never reads through it.
func checkNilReceivers(r *core.Result, prog *core.Program, lp *packages.Package) {
	info := lp.TypesInfo
	n := 0
	for _, f := range core.Funcs(lp) {
		if f.Decl == nil || f.Decl.Body == nil || f.Decl.Recv == nil || !strings.HasPrefix(f.Name, "(*DecodeResult).") || !ast.IsExported(f.Decl.Name.Name) {
			continue
		}
		recv := recvObj(info, f.Decl)
		if recv == nil {
			continue
		}
		n++
		// first use of the receiver through a field / index
		var firstDeref token.Pos
		ast.Inspect(f.Decl.Body, func(nn ast.Node) bool {
			if se, ok := nn.(*ast.SelectorExpr); ok && !firstDeref.IsValid() {
				if id, ok := se.X.(*ast.Ident); ok && info.Uses[id] == recv {
					if _, isField := info.Uses[se.Sel].(*types.Var); isField {
						firstDeref = se.Pos()
					}
				}
			}
			return true
		})
		guarded := !firstDeref.IsValid()
		var nilTest func(e ast.Expr) bool
		nilTest = func(e ast.Expr) bool {
			switch x := e.(type) {
			case *ast.ParenExpr:
				return nilTest(x.X)
			case *ast.BinaryExpr:
				if x.Op == token.EQL && isNilIdentExpr(x.Y) {
					if id, ok := x.X.(*ast.Ident); ok && info.Uses[id] == recv {
						return true
					}
				}
				if x.Op == token.LOR {
					return nilTest(x.X) // r == nil || … (evaluated first)
				}
			}
			return false
		}
		for _, st := range f.Decl.Body.List {
			if firstDeref.IsValid() && st.Pos() > firstDeref {
				break
			}
			if is, ok := st.(*ast.IfStmt); ok && is.Init == nil && nilTest(is.Cond) && len(is.Body.List) > 0 {
				if _, isRet := is.Body.List[len(is.Body.List)-1].(*ast.ReturnStmt); isRet {
					guarded = true
				}
			}
		}
		r.Ob("R10", f.Name+" tolerates a nil result", prog.Pos(f.Pos()), guarded,
			"the method reads through its receiver without a nil test, but Decode returns (nil, nil) for an empty input: calling it on that result panics with a nil dereference")
	}
	r.Floor("exported methods of *DecodeResult", n, 5)
}

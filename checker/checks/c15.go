package checks

import (
	"fmt"
	"go/ast"
	"go/token"
	"go/types"
	"sort"

	"golang.org/x/tools/go/packages"

	"csverify/core"
)

func init() { register("C15", checkC15) }

// shared (read-only after construction) state of a lazy decoder
var sharedDecodeResultFields = map[string]bool{"pool": true, "filter": true, "flatTags": true, "nestedTags": true, "nestedDecoders": true, "maxBuffer": true, "unsafe": true}

// per-result state that the owning goroutine may write
var perResultFields = map[string]bool{"flatData": true, "closers": true, "skipClose": true, "released": true}

// readOnlyCallees may receive a shared table
var readOnlyCallees = map[string]bool{"slices.BinarySearch": true, "len": true, "cap": true, "slices.Index": true, "slices.Contains": true}

func sharedStateRules(r *core.Result, prog *core.Program, lp *packages.Package) (nStores int) {
	info := lp.TypesInfo
	ix := buildIndex(lp)
	var roots []*core.FuncInfo
	for _, f := range ix.decls {
		switch {
		case f.Name == "(*Decoder).Decode":
			roots = append(roots, f)
		case f.Decl.Recv != nil && (namedRecv(f) == "DecodeResult" || namedRecv(f) == "FieldData"):
			roots = append(roots, f)
		}
	}
	hot := ix.reachable(roots...)
	r.Counts["functions reachable from Decode / result methods"] = len(hot)
	// constructors: where shared state may be written
	ctor := map[string]bool{"NewDecoder": true, "(*Decoder).newBaseResult": true, "WithMaxBufferSize": true, "WithBufferFilterFunc": true, "WithMode": true, "Decode": true}
	// 1. stores
	for _, s := range ix.stores {
		nStores++
		name := s.fn.Name + " :: " + s.typ + "." + s.field
		if s.elem {
			name += "[i]"
		}
		switch {
		case s.typ == "Decoder":
			ok := ctor[s.fn.Name] && !hot[s.fn]
			r.Ob("S-decoder", name, prog.Pos(s.pos), ok, fmt.Sprintf("field of the shared Decoder is written in %s, which is %s", s.fn.Name, reachWord(hot[s.fn])))
		case s.typ == "DecodeResult" && sharedDecodeResultFields[s.field]:
			// allowed on a fresh object only: newBaseResult (base) and clone (copy)
			fresh := freshRoot(info, s.fn, s.lhs)
			ok := fresh && (!hot[s.fn] || s.fn.Name == "(*DecodeResult).clone") && !s.elem || (s.elem && s.fn.Name == "(*Decoder).newBaseResult")
			r.Ob("S-shared", name, prog.Pos(s.pos), ok, fmt.Sprintf("shared table/config field DecodeResult.%s is written in %s (%s; target is a fresh object: %v) — concurrent decodes read it without synchronisation", s.field, s.fn.Name, reachWord(hot[s.fn]), fresh))
		case s.typ == "DecodeResult" && !perResultFields[s.field]:
			r.Ob("S-shared", name, prog.Pos(s.pos), false, fmt.Sprintf("DecodeResult.%s is not classified as shared or per-result (new field: classify it in checks/c15.go)", s.field))
		case s.typ == "DecodeResult" && s.field == "flatData" && !s.elem:
			// the slice header is per clone; it must be a fresh slice
			fresh := freshRoot(info, s.fn, s.lhs)
			r.Ob("S-shared", name, prog.Pos(s.pos), fresh || !hot[s.fn], "flatData of an existing result is replaced")
		}
	}
	// 2. base result never written through the receiver in clone()
	if cl := ix.find("(*DecodeResult).clone"); cl != nil {
		recv := info.Defs[cl.Decl.Recv.List[0].Names[0]]
		bad := token.NoPos
		for _, s := range ix.stores {
			if s.fn == cl {
				if id := rootIdent(s.lhs); id != nil && info.Uses[id] == recv {
					bad = s.pos
				}
			}
		}
		r.Ob("S-clone", "(*DecodeResult).clone never writes the base result", prog.Pos(cl.Pos()), !bad.IsValid(), "clone() stores through its receiver (the base result shared by every pool.New call) at "+prog.Pos(bad))
		// shares only read-only tables; flatData is allocated fresh
		ast.Inspect(cl.Decl.Body, func(n ast.Node) bool {
			lit, ok := n.(*ast.CompositeLit)
			if !ok || namedOf(info.TypeOf(lit)) != "DecodeResult" {
				return true
			}
			for _, el := range lit.Elts {
				kv, ok := el.(*ast.KeyValueExpr)
				if !ok {
					continue
				}
				k := kv.Key.(*ast.Ident).Name
				_, _, srcField, isSel := fieldSel(info, kv.Value)
				switch {
				case sharedDecodeResultFields[k]:
					r.Ob("S-clone", "clone shares read-only DecodeResult."+k, prog.Pos(kv.Pos()), isSel && srcField == k, "clone must copy the shared table/config from the base unchanged")
				case perResultFields[k]:
					r.Ob("S-clone", "clone allocates per-result DecodeResult."+k, prog.Pos(kv.Pos()), !isSel, "per-result state must not be shared between clones (it is copied from the base result)")
				}
			}
			return true
		})
	} else {
		r.Fail("anchor", "(*DecodeResult).clone", "", "function not found")
	}
	// 2b. pool.New hands out clones, never the base result itself
	nNew := 0
	for _, f := range ix.decls {
		ast.Inspect(f.Decl.Body, func(n ast.Node) bool {
			as, ok := n.(*ast.AssignStmt)
			if !ok || len(as.Lhs) != 1 || len(as.Rhs) != 1 {
				return true
			}
			se, ok := as.Lhs[0].(*ast.SelectorExpr)
			if !ok || se.Sel.Name != "New" {
				return true
			}
			if t := info.TypeOf(se.X); t == nil || namedOf(t) != "Pool" {
				return true
			}
			nNew++
			okNew := false
			if lit, ok := as.Rhs[0].(*ast.FuncLit); ok {
				okNew = true
				ast.Inspect(lit.Body, func(m ast.Node) bool {
					if ret, ok := m.(*ast.ReturnStmt); ok {
						good := false
						if len(ret.Results) == 1 {
							if c, ok := ret.Results[0].(*ast.CallExpr); ok {
								if fn := staticCallee(info, c); fn != nil && fn.Name() == "clone" {
									good = true
								}
							}
						}
						if !good {
							okNew = false
						}
					}
					return true
				})
			}
			r.Ob("S-poolnew", f.Name+" :: pool.New returns a clone", prog.Pos(as.Pos()), okNew, "pool.New must return base.clone(): handing out the base result shares one object between all goroutines")
			return true
		})
	}
	r.Counts["pool.New assignments"] = nNew
	// 3. shared tables handed to callees / mutating builtins in hot functions
	for f := range hot {
		if f.Name == "(*DecodeResult).clone" {
			continue
		}
		ast.Inspect(f.Decl.Body, func(n ast.Node) bool {
			c, ok := n.(*ast.CallExpr)
			if !ok {
				return true
			}
			for i, a := range c.Args {
				_, tn, fld, ok := fieldSel(info, a)
				if !ok || tn != "DecodeResult" || !sharedDecodeResultFields[fld] {
					continue
				}
				if _, isSlice := info.TypeOf(a).Underlying().(*types.Slice); !isSlice {
					continue
				}
				callee := types.ExprString(c.Fun)
				okCall := readOnlyCallees[callee]
				if callee == "append" && i > 0 {
					okCall = true // appended *from*, not to
				}
				r.Ob("S-pass", f.Name+" :: "+callee+"("+fld+")", prog.Pos(c.Pos()), okCall, fmt.Sprintf("shared table DecodeResult.%s is passed to %s, which is not in the read-only callee table (a mutator or unknown callee counts as a write)", fld, callee))
			}
			return true
		})
	}
	// 4. package-level variables are never written
	for _, f := range ix.decls {
		f := f
		pkgLevelWrites(info, f.Decl.Body, true, func(pos token.Pos, v *types.Var, how string) {
			r.Ob("S-global", f.Name+" :: "+v.Name(), prog.Pos(pos), false, "package-level variable "+v.Pkg().Name()+"."+v.Name()+" is "+how+" after initialisation")
		})
	}
	return nStores
}

func reachWord(hot bool) string {
	if hot {
		return "reachable from Decode / a result method (runs concurrently)"
	}
	return "construction-time only"
}

func namedRecv(f *core.FuncInfo) string {
	if f.Decl.Recv == nil || len(f.Decl.Recv.List) == 0 {
		return ""
	}
	t := f.Decl.Recv.List[0].Type
	if s, ok := t.(*ast.StarExpr); ok {
		t = s.X
	}
	if id, ok := t.(*ast.Ident); ok {
		return id.Name
	}
	return ""
}

// freshRoot: the object written is a local initialised in this function from a composite literal / new.
func freshRoot(info *types.Info, f *core.FuncInfo, lhs ast.Expr) bool {
	id := rootIdent(lhs)
	if id == nil {
		return false
	}
	obj := info.Uses[id]
	fresh := false
	ast.Inspect(f.Decl.Body, func(n ast.Node) bool {
		as, ok := n.(*ast.AssignStmt)
		if !ok || as.Tok != token.DEFINE {
			return true
		}
		for i, l := range as.Lhs {
			if lid, ok := l.(*ast.Ident); ok && info.Defs[lid] == obj && i < len(as.Rhs) {
				r := as.Rhs[i]
				if u, ok := r.(*ast.UnaryExpr); ok && u.Op == token.AND {
					r = u.X
				}
				if _, ok := r.(*ast.CompositeLit); ok {
					fresh = true
				}
				if c, ok := r.(*ast.CallExpr); ok {
					if fid, ok := c.Fun.(*ast.Ident); ok && fid.Name == "new" {
						fresh = true
					}
				}
			}
		}
		return true
	})
	return fresh
}

func checkC15(r *core.Result) {
	r.Explanation = "Shared-state effect analysis of lazyproto (necessary condition for race freedom that is visible in the code): every field store in the package is classified; no function reachable from (*Decoder).Decode or from any DecodeResult/FieldData method writes a Decoder field, a shared table/config field of DecodeResult (flatTags, nestedTags, nestedDecoders, pool, filter, maxBuffer, unsafe) or an element of such a table; those are written only at construction time on fresh objects; clone() never writes the base result, shares only the read-only tables and allocates per-result state; shared tables are passed only to read-only callees (mutators / unknown callees count as writes); package-level variables are never written."
	r.RuleText = "one obligation per field store site / clone field / table-passing call site of lazyproto"
	r.Assumptions = []string{"not decided: absence of data races under all schedules (needs the race detector); sync.Pool is correct; per-result state isolation is C14"}
	r.Trusted = []string{"go/types", "field classification table in checks/c15.go (unclassified fields fail the check)", "read-only callee table"}
	prog, err := core.Load("./lazyproto")
	if err != nil {
		r.Infra("%v", err)
		return
	}
	lp := prog.Pkg("lazyproto")
	n := sharedStateRules(r, prog, lp)
	r.Floor("field store sites classified", n, 40)
	r.Floor("result-returning statements of *Decoder methods", perCallResults(r, prog, lp), 4)
	r.Floor("obligations", len(r.Obligations), 25)
	keys := []string{}
	for k := range sharedDecodeResultFields {
		keys = append(keys, k)
	}
	sort.Strings(keys)
	r.Sample(map[string]interface{}{"shared_fields": keys})
	mustFire(r, "S-global", `package fx
var counter int
type T struct{}
func (t *T) M() { counter++ }`, func(fr *core.Result, fprog *core.Program, fpk *packages.Package) { sharedStateRules(fr, fprog, fpk) })
}

// perCallResults (S-percall): a method of the shared *Decoder that hands out a *DecodeResult hands out one that belongs
// to this call (taken from the pool, freshly built, or nil) - never one stored in a field of the Decoder or in a
// package-level variable, which every goroutine using the Decoder would receive (its accessors and Close() write it).
func perCallResults(r *core.Result, prog *core.Program, lp *packages.Package) int {
	info := lp.TypesInfo
	isResult := func(t types.Type) bool {
		p, ok := t.(*types.Pointer)
		if !ok {
			return false
		}
		n, ok := p.Elem().(*types.Named)
		return ok && n.Obj().Name() == "DecodeResult"
	}
	n := 0
	for _, f := range core.Funcs(lp) {
		if f.Decl == nil || f.Decl.Body == nil || f.Decl.Recv == nil || f.Obj == nil {
			continue
		}
		sig := f.Obj.Type().(*types.Signature)
		rt := sig.Recv().Type()
		if p, ok := rt.(*types.Pointer); ok {
			rt = p.Elem()
		}
		if nm, ok := rt.(*types.Named); !ok || nm.Obj().Name() != "Decoder" {
			continue
		}
		idx := -1
		for j := 0; j < sig.Results().Len(); j++ {
			if isResult(sig.Results().At(j).Type()) {
				idx = j
			}
		}
		if idx < 0 || f.Name == "(*Decoder).newBaseResult" {
			continue
		}
		// shared(e): e reads a field or a package-level variable (directly or through a local assigned from one)
		var shared func(e ast.Expr, depth int) (bool, string)
		shared = func(e ast.Expr, depth int) (bool, string) {
			e = ast.Unparen(e)
			switch x := e.(type) {
			case *ast.SelectorExpr:
				if sel := info.Selections[x]; sel != nil && sel.Kind() == types.FieldVal {
					return true, types.ExprString(x)
				}
				if v, ok := info.Uses[x.Sel].(*types.Var); ok && v.Parent() == v.Pkg().Scope() {
					return true, types.ExprString(x)
				}
			case *ast.Ident:
				v, ok := info.Uses[x].(*types.Var)
				if !ok {
					return false, ""
				}
				if v.Pkg() != nil && v.Parent() == v.Pkg().Scope() {
					return true, x.Name
				}
				if depth > 4 {
					return false, ""
				}
				found, what := false, ""
				ast.Inspect(f.Decl.Body, func(nd ast.Node) bool {
					as, ok := nd.(*ast.AssignStmt)
					if !ok || len(as.Lhs) != len(as.Rhs) {
						return true
					}
					for i, l := range as.Lhs {
						if id, ok := l.(*ast.Ident); ok && (info.Defs[id] == v || info.Uses[id] == v) {
							if s, w := shared(as.Rhs[i], depth+1); s {
								found, what = true, w
							}
						}
					}
					return true
				})
				return found, what
			}
			return false, ""
		}
		ast.Inspect(f.Decl.Body, func(nd ast.Node) bool {
			if _, ok := nd.(*ast.FuncLit); ok {
				return false
			}
			ret, ok := nd.(*ast.ReturnStmt)
			if !ok || len(ret.Results) != sig.Results().Len() {
				return true
			}
			n++
			s, what := shared(ret.Results[idx], 0)
			r.Ob("S-percall", f.Name+" :: return "+types.ExprString(ret.Results[idx])+" is a result of this call", prog.Pos(ret.Pos()), !s,
				"the result handed out is read from "+what+", which every goroutine that uses this Decoder receives: accessors and Close() of one caller write the object another caller is reading")
			return true
		})
	}
	return n
}

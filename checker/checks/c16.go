package checks

import (
	"fmt"
	"go/ast"
	"go/types"
	"os"
	"path/filepath"
	"sort"
	"strings"
	"sync"
	"text/template/parse"

	"csverify/core"
	"csverify/e3"
)

func init() { register("C16", checkC16) }

// shared expansion per process
var (
	expandOnce sync.Once
	expansion  *e3.Expansion
	expandErr  error
)

func combosFor(tier string) []e3.Combo {
	// quick: both runtimes in the default mode, plus the per-message template with unsafe decoding
	combos := []e3.Combo{{Runtime: "google"}, {Runtime: "gogo"}, {Runtime: "google", PerMessage: true, Unsafe: true}}
	if tier == "thorough" {
		combos = nil
		for _, rt := range []string{"google", "gogo"} {
			for _, pm := range []bool{false, true} {
				for _, us := range []bool{false, true} {
					combos = append(combos, e3.Combo{Runtime: rt, PerMessage: pm, Unsafe: us})
				}
			}
		}
	}
	return combos
}

// getExpansion expands the templates once per process; the scratch directory is removed by releaseExpansion.
func getExpansion(r *core.Result) *e3.Expansion {
	expandOnce.Do(func() {
		expansion, expandErr = e3.Expand(combosFor(r.Tier), r.Tier == "thorough")
	})
	if expandErr != nil {
		r.Infra("template expansion failed: %v", expandErr)
		if expansion != nil {
			expansion.Cleanup()
		}
		return nil
	}
	return expansion
}

// KeepExpansion lets one process run several checks on one expansion (csverify checkmany); the caller
// then calls ReleaseExpansionNow at the end.
var KeepExpansion bool

func releaseExpansion() {
	if KeepExpansion {
		return
	}
	ReleaseExpansionNow()
}

func ReleaseExpansionNow() {
	if expansion != nil {
		expansion.Cleanup()
	}
}

// parseTemplates parses templates/*.tmpl of the working tree without executing anything.
func parseTemplates() (map[string]*parse.Tree, error) {
	dir := filepath.Join(core.RepoDir(), "cmd/protoc-gen-fastmarshal/templates")
	files, err := filepath.Glob(filepath.Join(dir, "*.tmpl"))
	if err != nil || len(files) == 0 {
		return nil, fmt.Errorf("no templates found in %s", dir)
	}
	sort.Strings(files)
	all := map[string]*parse.Tree{}
	for _, f := range files {
		b, err := os.ReadFile(f)
		if err != nil {
			return nil, err
		}
		t := parse.New(filepath.Base(f))
		t.Mode = parse.SkipFuncCheck
		trees := map[string]*parse.Tree{}
		if _, err := t.Parse(string(b), "", "", trees); err != nil {
			return nil, fmt.Errorf("%s: %v", f, err)
		}
		for k, v := range trees {
			all[k] = v
		}
	}
	return all, nil
}

// non-deterministic template inputs (frozen table, one reason each)
var nondetFuncs = map[string]string{
	"now": "wall clock", "date": "wall clock", "dateInZone": "wall clock", "date_in_zone": "wall clock", "dateModify": "wall clock", "date_modify": "wall clock",
	"ago": "wall clock", "unixEpoch": "wall clock", "htmlDate": "wall clock", "htmlDateInZone": "wall clock", "toDate": "wall clock", "mustToDate": "wall clock", "duration": "-",
	"getenv": "environment", "env": "environment", "expandenv": "environment", "getHostByName": "DNS",
	"randAlphaNum": "random", "randAlpha": "random", "randAscii": "random", "randNumeric": "random", "randBytes": "random", "randInt": "random", "shuffle": "random",
	"uuidv4": "random", "genPrivateKey": "random", "genCA": "random", "genSelfSignedCert": "random", "genSignedCert": "random", "genCAWithKey": "random",
	"htpasswd": "random salt", "bcrypt": "random salt", "derivePassword": "-", "absPath": "working directory", "osBase": "-",
}
var nondetFields = map[string]string{"Now": "wall clock (generate.go passes time.Now())", "Pwd": "working directory"}

func walkTemplate(n parse.Node, f func(parse.Node)) {
	if n == nil {
		return
	}
	f(n)
	switch x := n.(type) {
	case *parse.ListNode:
		if x == nil {
			return
		}
		for _, c := range x.Nodes {
			walkTemplate(c, f)
		}
	case *parse.ActionNode:
		walkTemplate(x.Pipe, f)
	case *parse.PipeNode:
		if x == nil {
			return
		}
		for _, c := range x.Cmds {
			walkTemplate(c, f)
		}
		for _, d := range x.Decl {
			walkTemplate(d, f)
		}
	case *parse.CommandNode:
		for _, a := range x.Args {
			walkTemplate(a, f)
		}
	case *parse.IfNode:
		walkTemplate(x.Pipe, f)
		walkTemplate(x.List, f)
		walkTemplate(x.ElseList, f)
	case *parse.RangeNode:
		walkTemplate(x.Pipe, f)
		walkTemplate(x.List, f)
		walkTemplate(x.ElseList, f)
	case *parse.WithNode:
		walkTemplate(x.Pipe, f)
		walkTemplate(x.List, f)
		walkTemplate(x.ElseList, f)
	case *parse.TemplateNode:
		walkTemplate(x.Pipe, f)
	}
}

func templateRules(r *core.Result, trees map[string]*parse.Tree) {
	// determinism lint
	names := make([]string, 0, len(trees))
	for k := range trees {
		names = append(names, k)
	}
	sort.Strings(names)
	nActions := 0
	for _, name := range names {
		t := trees[name]
		if t.Root == nil {
			continue
		}
		var bad []string
		walkTemplate(t.Root, func(n parse.Node) {
			switch x := n.(type) {
			case *parse.ActionNode:
				nActions++
			case *parse.IdentifierNode:
				if why, ok := nondetFuncs[x.Ident]; ok {
					bad = append(bad, fmt.Sprintf("function %s (%s)", x.Ident, why))
				}
			case *parse.FieldNode:
				for _, id := range x.Ident {
					if why, ok := nondetFields[id]; ok {
						bad = append(bad, fmt.Sprintf("field .%s (%s)", id, why))
					}
				}
			case *parse.ChainNode:
				for _, id := range x.Field {
					if why, ok := nondetFields[id]; ok {
						bad = append(bad, fmt.Sprintf("field .%s (%s)", id, why))
					}
				}
			}
		})
		r.Ob("G-determinism", "template "+name, "cmd/protoc-gen-fastmarshal/templates", len(bad) == 0, "template output depends on "+strings.Join(bad, ", "))
	}
	r.Floor("template define blocks parsed", len(names), 30)
	r.Counts["template actions"] = nActions
	// sibling sync: structural comparison of the per-message part of SingleFile (the body of
	// {{range allMessages}}, where dot is the message) with PerMessage (where the message is .Message)
	sf, pm := trees["SingleFile"], trees["PerMessage"]
	if sf == nil || pm == nil {
		r.Fail("G-sibling", "SingleFile / PerMessage", "cmd/protoc-gen-fastmarshal/templates", "top-level template not found")
		return
	}
	var body *parse.ListNode
	for _, n := range sf.Root.Nodes {
		if rn, ok := n.(*parse.RangeNode); ok && strings.Contains(rn.Pipe.String(), "allMessages") {
			body = rn.List
		}
	}
	if body == nil {
		r.Fail("G-sibling", "SingleFile range allMessages", "cmd/protoc-gen-fastmarshal/templates", "the single-file template does not range over allMessages")
		return
	}
	a := methodNodes(body.Nodes)
	b := methodNodes(pm.Root.Nodes)
	diff := ""
	n := len(a)
	if len(b) < n {
		n = len(b)
	}
	compared := 0
	for i := 0; i < n && diff == ""; i++ {
		compared++
		diff = eqTemplateNode(a[i], b[i], true)
	}
	if diff == "" && len(a) != len(b) {
		diff = fmt.Sprintf("the single-file template has %d nodes per message, the per-message template %d", len(a), len(b))
	}
	r.Ob("G-sibling", "SingleFile and PerMessage templates emit the same methods", "cmd/protoc-gen-fastmarshal/templates", diff == "" && compared >= 25, diff)
	r.Counts["template nodes compared (sibling sync)"] = compared
}

// methodNodes: the nodes from the first text mentioning "func (m *" on, with text nodes normalised away when blank.
func methodNodes(nodes []parse.Node) []parse.Node {
	start := -1
	for i, n := range nodes {
		if t, ok := n.(*parse.TextNode); ok && strings.Contains(string(t.Text), "Size calculates") {
			start = i
			break
		}
	}
	if start < 0 {
		return nil
	}
	var out []parse.Node
	for _, n := range nodes[start:] {
		if t, ok := n.(*parse.TextNode); ok && strings.TrimSpace(string(t.Text)) == "" {
			continue
		}
		out = append(out, n)
	}
	return out
}

func normText(s string) string {
	var out []string
	for _, line := range strings.Split(s, "\n") {
		if i := strings.Index(line, "//"); i >= 0 {
			line = line[:i]
		}
		line = strings.Join(strings.Fields(line), " ")
		if line != "" {
			out = append(out, line)
		}
	}
	return strings.Join(out, "\n")
}

// eqTemplateNode compares a node of the single-file template (dot = message at top level) with the
// corresponding node of the per-message template (message = .Message at top level). top tells whether
// dot still is the message / the per-file arguments (false inside range / with, where dot is rebound
// identically in both templates). Returns "" when equivalent.
func eqTemplateNode(a, b parse.Node, top bool) string {
	mismatch := func() string {
		return fmt.Sprintf("single-file %q vs per-message %q", strings.TrimSpace(a.String()), strings.TrimSpace(b.String()))
	}
	if a == nil || b == nil {
		if a == nil && b == nil {
			return ""
		}
		return "one template has a node the other lacks"
	}
	switch x := a.(type) {
	case *parse.TextNode:
		y, ok := b.(*parse.TextNode)
		if !ok || normText(string(x.Text)) != normText(string(y.Text)) {
			return mismatch()
		}
	case *parse.ListNode:
		y, ok := b.(*parse.ListNode)
		if !ok {
			return mismatch()
		}
		var xs, ys []parse.Node
		if x != nil {
			xs = filterBlank(x.Nodes)
		}
		if y != nil {
			ys = filterBlank(y.Nodes)
		}
		if len(xs) != len(ys) {
			return mismatch()
		}
		for i := range xs {
			if d := eqTemplateNode(xs[i], ys[i], top); d != "" {
				return d
			}
		}
	case *parse.ActionNode:
		y, ok := b.(*parse.ActionNode)
		if !ok {
			return mismatch()
		}
		return eqTemplateNode(x.Pipe, y.Pipe, top)
	case *parse.PipeNode:
		y, ok := b.(*parse.PipeNode)
		if !ok || len(x.Cmds) != len(y.Cmds) || len(x.Decl) != len(y.Decl) {
			return mismatch()
		}
		for i := range x.Decl {
			if x.Decl[i].String() != y.Decl[i].String() {
				return mismatch()
			}
		}
		for i := range x.Cmds {
			if d := eqTemplateNode(x.Cmds[i], y.Cmds[i], top); d != "" {
				return d
			}
		}
	case *parse.CommandNode:
		y, ok := b.(*parse.CommandNode)
		if !ok || len(x.Args) != len(y.Args) {
			return mismatch()
		}
		for i := range x.Args {
			if d := eqTemplateNode(x.Args[i], y.Args[i], top); d != "" {
				return d
			}
		}
	case *parse.DotNode:
		if !top {
			if _, ok := b.(*parse.DotNode); !ok {
				return mismatch()
			}
			return ""
		}
		// at top level the message is dot in the single-file template and .Message in the per-message one
		y, ok := b.(*parse.FieldNode)
		if !ok || len(y.Ident) != 1 || y.Ident[0] != "Message" {
			return mismatch() + " (in the per-message template dot is the argument struct, not the message)"
		}
	case *parse.FieldNode:
		y, ok := b.(*parse.FieldNode)
		if !ok {
			return mismatch()
		}
		want := x.Ident
		got := y.Ident
		if top {
			if len(got) == 0 || got[0] != "Message" {
				return mismatch()
			}
			got = got[1:]
		}
		if strings.Join(want, ".") != strings.Join(got, ".") {
			return mismatch()
		}
	case *parse.IfNode:
		y, ok := b.(*parse.IfNode)
		if !ok {
			return mismatch()
		}
		return eqBranch(&x.BranchNode, &y.BranchNode, top, top)
	case *parse.RangeNode:
		y, ok := b.(*parse.RangeNode)
		if !ok {
			return mismatch()
		}
		return eqBranch(&x.BranchNode, &y.BranchNode, top, false)
	case *parse.WithNode:
		y, ok := b.(*parse.WithNode)
		if !ok {
			return mismatch()
		}
		return eqBranch(&x.BranchNode, &y.BranchNode, top, false)
	case *parse.TemplateNode:
		y, ok := b.(*parse.TemplateNode)
		if !ok || x.Name != y.Name {
			return mismatch()
		}
		return eqTemplateNode(x.Pipe, y.Pipe, top)
	default:
		// variables, identifiers, literals, chains: must be textually identical
		if a.String() != b.String() || a.Type() != b.Type() {
			return mismatch()
		}
	}
	return ""
}

func eqBranch(x, y *parse.BranchNode, pipeTop, bodyTop bool) string {
	if d := eqTemplateNode(x.Pipe, y.Pipe, pipeTop); d != "" {
		return d
	}
	if d := eqTemplateNode(x.List, y.List, bodyTop); d != "" {
		return d
	}
	if (x.ElseList == nil) != (y.ElseList == nil) {
		return "else branch present in only one template"
	}
	if x.ElseList != nil {
		return eqTemplateNode(x.ElseList, y.ElseList, pipeTop)
	}
	return ""
}

func filterBlank(nodes []parse.Node) []parse.Node {
	var out []parse.Node
	for _, n := range nodes {
		if t, ok := n.(*parse.TextNode); ok && strings.TrimSpace(string(t.Text)) == "" {
			continue
		}
		out = append(out, n)
	}
	return out
}

// mapRangeRule: no range over a Go map feeds an order-sensitive sink in the generator.
func mapRangeRule(r *core.Result, prog *core.Program) int {
	pk := prog.Pkg("cmd/protoc-gen-fastmarshal")
	if pk == nil {
		r.Infra("generator package not loaded")
		return 0
	}
	info := pk.TypesInfo
	n := 0
	for _, f := range core.Funcs(pk) {
		if f.Decl == nil {
			continue
		}
		ast.Inspect(f.Decl.Body, func(nn ast.Node) bool {
			rs, ok := nn.(*ast.RangeStmt)
			if !ok {
				return true
			}
			if _, isMap := info.TypeOf(rs.X).Underlying().(*types.Map); !isMap {
				return true
			}
			n++
			// sinks in the body
			var appended []types.Object
			other := ""
			ast.Inspect(rs.Body, func(m ast.Node) bool {
				switch x := m.(type) {
				case *ast.AssignStmt:
					for i, l := range x.Lhs {
						if ix, ok := l.(*ast.IndexExpr); ok {
							if _, isMap := info.TypeOf(ix.X).Underlying().(*types.Map); isMap {
								continue // map insert: order-insensitive
							}
						}
						if i < len(x.Rhs) {
							if c, ok := x.Rhs[i].(*ast.CallExpr); ok && types.ExprString(c.Fun) == "append" {
								if id, ok := l.(*ast.Ident); ok {
									appended = append(appended, info.Uses[id])
									continue
								}
							}
						}
						if id, ok := l.(*ast.Ident); ok && info.Defs[id] != nil {
							continue // local definition
						}
						other = types.ExprString(l)
					}
				case *ast.CallExpr:
					name := types.ExprString(x.Fun)
					if strings.Contains(name, "Write") || strings.Contains(name, "Fprint") || strings.Contains(name, "Print") {
						other = name
					}
				}
				return true
			})
			ok2 := other == ""
			detail := ""
			if !ok2 {
				detail = "map iteration order reaches " + other
			}
			for _, o := range appended {
				sorted := false
				ast.Inspect(f.Decl.Body, func(m ast.Node) bool {
					if c, ok := m.(*ast.CallExpr); ok && c.Pos() > rs.End() {
						fn := types.ExprString(c.Fun)
						if strings.HasPrefix(fn, "sort.") || fn == "slices.Sort" || fn == "slices.SortFunc" {
							if len(c.Args) > 0 {
								if id, ok := c.Args[0].(*ast.Ident); ok && info.Uses[id] == o {
									sorted = true
								}
							}
						}
					}
					return true
				})
				if !sorted {
					ok2 = false
					detail = "elements are appended to " + o.Name() + " in map iteration order and the slice is not sorted afterwards"
				}
			}
			r.Ob("G-maprange", f.Name+" :: range "+types.ExprString(rs.X), prog.Pos(rs.Pos()), ok2, detail)
			return true
		})
	}
	return n
}

func checkC16(r *core.Result) {
	defer releaseExpansion()
	r.Explanation = "Generator checks without executing generated code: (E2) the parse trees of templates/*.tmpl are linted for non-deterministic inputs (.Now, .Pwd, environment / time / random functions) and the SingleFile and PerMessage templates are compared after normalisation (they must emit the same methods); (E1) every range over a Go map in the generator feeds only order-insensitive sinks or a slice that is sorted afterwards; " +
		"(E3) the repository's generator, built from the working tree, expands the templates for a descriptor corpus covering every (kind × label × syntax × packing × container) shape, oneofs, maps with every key/value kind, extensions of every kind, nested/recursive/imported types, for the option combinations of the tier; each expansion must succeed (total), emit each output name once under the documented pattern (naming), give the same per-file output when all corpus files are requested at once (batch), and type-check with go/types together with the runtime's own generated code (compiles). Thorough tier: all 8 option combinations and a byte-identity cross-reference of two expansions."
	r.RuleText = "one obligation per template block, per map range, per (corpus file × option combination) for total / naming / compiles"
	r.Assumptions = []string{"text/template execution and protogen are trusted to expand faithfully", "not decided: totality on schemas outside the corpus's atom cross product; groups are outside the supported feature set"}
	r.Trusted = []string{"text/template/parse", "protogen", "go/types", "protoc-gen-go / protoc-gen-gogo for the message types"}
	trees, err := parseTemplates()
	if err != nil {
		r.Infra("%v", err)
		return
	}
	templateRules(r, trees)
	prog, err := core.Load("./cmd/protoc-gen-fastmarshal")
	if err != nil {
		r.Infra("%v", err)
		return
	}
	nm := mapRangeRule(r, prog)
	r.Floor("map ranges in the generator", nm, 5)
	ex := getExpansion(r)
	if ex == nil {
		return
	}
	r.Programs = len(ex.Units)
	for _, u := range ex.Units {
		name := u.File.Pkg + " [" + u.Combo.String() + "]"
		pos := "corpus:" + u.File.Pkg + " (" + u.File.Note + ")"
		if u.PBError != "" {
			r.Infra("%s: the runtime's own generator failed: %s", name, u.PBError)
			continue
		}
		member := "[" + u.Combo.String() + "]"
		r.GroupOb("G-total", "the plug-in succeeds for corpus file "+u.File.Pkg, member, pos, u.PluginError == "", "protoc-gen-fastmarshal failed: "+firstLine(u.PluginError))
		if u.PluginError != "" {
			continue
		}
		r.GroupOb("G-naming", "output names are distinct and follow the documented pattern for corpus file "+u.File.Pkg, member, pos, len(u.DupNames) == 0 && namesOK(u), fmt.Sprintf("output names %v; emitted more than once: %v (two messages map to one file name: the second overwrites / is concatenated to the first)", fmNames(u), u.DupNames))
		if len(u.DupNames) > 0 {
			continue // the concatenated file is an artefact of the collision
		}
		r.GroupOb("G-compiles", "the output type-checks for corpus file "+u.File.Pkg, member, pos, len(u.TypeErrors) == 0, strings.Join(firstN(u.TypeErrors, 3), " | "))
	}
	// G-batch: one request asking for all corpus files at once yields, file by file, the output of the single-file requests
	var combos []string
	for c := range ex.BatchFiles {
		combos = append(combos, c)
	}
	sort.Strings(combos)
	nBatch := 0
	for _, c := range combos {
		if ex.BatchFiles[c] < 2 {
			continue
		}
		nBatch++
		diff := ex.Batch[c]
		r.Ob("G-batch", fmt.Sprintf("a request for all %d corpus files at once gives the same output per file [%s]", ex.BatchFiles[c], c), "corpus:* ("+c+")", len(diff) == 0,
			"the output for a file depends on the other files of the request (state shared between files in the generator): "+strings.Join(firstN(diff, 5), ", "))
	}
	for _, c := range combos {
		if ex.BatchFiles[c] < 2 {
			continue
		}
		diff := ex.BatchCode[c]
		r.Ob("G-batch-code", fmt.Sprintf("a request for all %d corpus files at once gives the same declarations per file [%s]", ex.BatchFiles[c], c), "corpus:* ("+c+")", len(diff) == 0,
			"the code generated for a file depends on the other files of the request (state shared between files in the generator): "+strings.Join(firstN(diff, 5), ", "))
	}
	r.Floor("multi-file requests", nBatch, 2)
	r.Floor("corpus units expanded", len(ex.Units), 70)
	r.Sample(map[string]interface{}{"units": len(ex.Units), "combos": fmt.Sprint(combosFor(r.Tier))})
}

func firstLine(s string) string {
	if i := strings.Index(s, "\n"); i >= 0 {
		return s[:i]
	}
	return s
}

func firstN(s []string, n int) []string {
	if len(s) > n {
		return s[:n]
	}
	return s
}

func fmNames(u *e3.Unit) []string {
	var out []string
	for n := range u.FMFiles {
		out = append(out, n)
	}
	sort.Strings(out)
	return out
}

// namesOK: documented naming pattern, pairwise distinct (case-insensitively: file systems differ).
func namesOK(u *e3.Unit) bool {
	prefix := u.File.Pkg + "/" + u.File.Pkg
	seen := map[string]bool{}
	for n := range u.FMFiles {
		l := strings.ToLower(n)
		if seen[l] {
			return false
		}
		seen[l] = true
		if u.Combo.PerMessage {
			if !strings.HasPrefix(n, prefix+"_") || !strings.HasSuffix(n, ".pb.fm.go") {
				return false
			}
		} else if n != prefix+".pb.fm.go" {
			return false
		}
	}
	// a file without messages has nothing to generate
	return len(u.FMFiles) > 0 || len(u.File.FD.MessageType) == 0
}

package checks

import (
	"fmt"
	"go/ast"
	"go/token"
	"go/types"
	"sort"
	"strings"

	"csverify/core"
)

func init() { register("C18", checkC18) }

// option wiring table (from the doc comments of json.go and of the runtimes' option structs)
var jsonWiring = map[string]map[string]string{
	// method|family -> runtime option field -> csproto option field
	"MarshalJSON|v2":     {"Indent": "indent", "UseEnumNumbers": "useEnumNumbers", "EmitUnpopulated": "emitZeroValues"},
	"MarshalJSON|v1":     {"Indent": "indent", "EnumsAsInts": "useEnumNumbers", "EmitDefaults": "emitZeroValues"},
	"MarshalJSON|gogo":   {"Indent": "indent", "EnumsAsInts": "useEnumNumbers", "EmitDefaults": "emitZeroValues"},
	"UnmarshalJSON|v2":   {"AllowPartial": "allowPartial", "DiscardUnknown": "allowUnknownFields"},
	"UnmarshalJSON|v1":   {"AllowUnknownFields": "allowUnknownFields"},
	"UnmarshalJSON|gogo": {"AllowUnknownFields": "allowUnknownFields"},
}

var jsonOptionCtors = map[string]string{
	"JSONIndent": "indent", "JSONUseEnumNumbers": "useEnumNumbers", "JSONIncludeZeroValues": "emitZeroValues",
	"JSONAllowUnknownFields": "allowUnknownFields", "JSONAllowPartialMessages": "allowPartial",
}

func checkC18(r *core.Result) {
	r.Explanation = "Static option-wiring check of json.go: for each runtime region of MarshalJSON / UnmarshalJSON (successful assertion to that runtime's message interface) the composite literal of the runtime's option struct sets exactly the fields of the wiring table, each from the documented csproto option (Indent←indent, UseEnumNumbers|EnumsAsInts←useEnumNumbers, EmitUnpopulated|EmitDefaults←emitZeroValues, DiscardUnknown|AllowUnknownFields←allowUnknownFields, AllowPartial←allowPartial for v2 only), and the literal is the receiver of the runtime call that gets the asserted message; " +
		"each JSON* option constructor stores its parameter into exactly its field; regions reference only their own runtime (D1/D3); both methods probe the runtimes in the same order; the nil test is the first statement and returns (nil, nil) for marshaling and an error for unmarshaling."
	r.RuleText = "one obligation per (method, runtime) region, per option constructor, per structural rule"
	r.Assumptions = []string{"not decided: well-formedness and round trip of the JSON text (delegated to the runtimes)",
		"noted, not claimed: the gogo region is shadowed by the v1 test for most gogo messages (same method set)"}
	r.Trusted = []string{"wiring table (checks/c18.go)", "go/types"}
	prog, err := core.Load("./")
	if err != nil {
		r.Infra("%v", err)
		return
	}
	root := prog.Pkg("")
	r.Counts["type switches read as assertion chains"] = desugarTypeSwitches(root)
	info := root.TypesInfo
	funcs := funcsOfFiles(root, "json.go")
	regs, _ := findRegions(root, funcs)
	checkRegions(r, prog, root, regs)
	nReg := 0
	order := map[string][]string{}
	for _, rg := range regs {
		m := strings.TrimPrefix(rg.fn.Name, "(*jsonMarshaler).")
		m = strings.TrimPrefix(m, "(*jsonUnmarshaler).")
		want, ok := jsonWiring[m+"|"+rg.family]
		if !ok {
			continue
		}
		nReg++
		order[m] = append(order[m], rg.family)
		name := rg.fn.Name + " [" + rg.family + "]"
		// the asserted message variable of the region
		var msgObj types.Object
		if is, ok := parentIfOf(rg); ok {
			if as, ok := is.Init.(*ast.AssignStmt); ok {
				if id, ok := as.Lhs[0].(*ast.Ident); ok {
					msgObj = info.Defs[id]
				}
			}
		}
		// the option literal
		var lit *ast.CompositeLit
		var litObj types.Object
		for _, s := range rg.body {
			if as, ok := s.(*ast.AssignStmt); ok && len(as.Rhs) == 1 && len(as.Lhs) == 1 {
				if cl, ok := as.Rhs[0].(*ast.CompositeLit); ok {
					if fam, ok := familyOfTypeExpr(info, cl.Type); ok && fam == rg.family {
						lit = cl
						if id, ok := as.Lhs[0].(*ast.Ident); ok {
							litObj = info.Defs[id]
						}
					}
				}
			}
		}
		if lit == nil {
			r.Ob("J1", name+" option literal", prog.Pos(rg.pos), false, "no composite literal of the runtime's option struct in this region")
			continue
		}
		got := map[string]string{}
		var bad []string
		for _, el := range lit.Elts {
			kv, ok := el.(*ast.KeyValueExpr)
			if !ok {
				bad = append(bad, "positional element")
				continue
			}
			k := kv.Key.(*ast.Ident).Name
			v := types.ExprString(kv.Value)
			// value must be <recv>.opts.<field>
			parts := strings.Split(v, ".")
			if len(parts) == 3 && parts[1] == "opts" {
				got[k] = parts[2]
			} else {
				got[k] = "?" + v
			}
		}
		var diffs []string
		for k, w := range want {
			if got[k] != w {
				diffs = append(diffs, fmt.Sprintf("%s is set from %q, documented source is opts.%s", k, got[k], w))
			}
		}
		for k, g := range got {
			if _, ok := want[k]; !ok {
				diffs = append(diffs, fmt.Sprintf("%s (←%s) is not in the wiring table", k, g))
			}
		}
		sort.Strings(diffs)
		diffs = append(diffs, bad...)
		r.Ob("J1", name+" option wiring", prog.Pos(lit.Pos()), len(diffs) == 0, strings.Join(diffs, "; "))
		r.Sample(map[string]interface{}{"region": name, "wiring": got})
		// the literal is the receiver of the runtime call that receives the asserted message
		used := false
		for _, s := range rg.body {
			ast.Inspect(s, func(n ast.Node) bool {
				c, ok := n.(*ast.CallExpr)
				if !ok {
					return true
				}
				se, ok := c.Fun.(*ast.SelectorExpr)
				if !ok {
					return true
				}
				if id, ok := se.X.(*ast.Ident); !ok || info.Uses[id] != litObj || litObj == nil {
					return true
				}
				for _, a := range c.Args {
					if id, ok := a.(*ast.Ident); ok && info.Uses[id] == msgObj && msgObj != nil {
						used = true
					}
				}
				return true
			})
		}
		r.Ob("J1", name+" options are applied to the asserted message", prog.Pos(lit.Pos()), used, "the configured option value is not the receiver of the (Un)Marshal call that gets the message")
	}
	r.Floor("(method, runtime) regions of json.go", nReg, 6)
	// probe order
	mo, uo := strings.Join(order["MarshalJSON"], ","), strings.Join(order["UnmarshalJSON"], ",")
	r.Ob("J4", "MarshalJSON and UnmarshalJSON probe the runtimes in the same order", "json.go", mo == uo && mo == "v2,v1,gogo", fmt.Sprintf("MarshalJSON: %s; UnmarshalJSON: %s", mo, uo))
	// option constructors
	nC := 0
	for ctor, field := range jsonOptionCtors {
		f := core.FindFunc(root, ctor)
		if f == nil {
			r.Fail("anchor", ctor, "", "option constructor not found")
			continue
		}
		nC++
		var param types.Object
		if ps := f.Decl.Type.Params.List; len(ps) == 1 && len(ps[0].Names) == 1 {
			param = info.Defs[ps[0].Names[0]]
		}
		var stores []string
		okStore := false
		ast.Inspect(f.Decl.Body, func(n ast.Node) bool {
			as, ok := n.(*ast.AssignStmt)
			if !ok {
				return true
			}
			for i, l := range as.Lhs {
				if _, _, fld, ok := fieldSel(info, l); ok {
					stores = append(stores, fld)
					if id, ok := as.Rhs[i].(*ast.Ident); ok && fld == field && info.Uses[id] == param && as.Tok == token.ASSIGN {
						okStore = true
					}
				}
			}
			return true
		})
		r.Ob("J2", ctor+" sets opts."+field, prog.Pos(f.Pos()), okStore && len(stores) == 1, fmt.Sprintf("fields stored: %v; the option must store its parameter into %s only", stores, field))
	}
	r.Floor("JSON option constructors", nC, 5)
	// J6: the bytes MarshalJSON returns come from a runtime (or from the message's own MarshalJSON): every
	// successful return other than the nil-message one returns the result of a call made on the asserted message
	if f := core.FindFunc(root, "(*jsonMarshaler).MarshalJSON"); f != nil {
		parents := parentMap(f.Decl.Body)
		nRet := 0
		ast.Inspect(f.Decl.Body, func(n ast.Node) bool {
			ret, ok := n.(*ast.ReturnStmt)
			if ok && len(ret.Results) == 1 {
				// return <call returning ([]byte, error)>: must be the delegation to the message's own MarshalJSON
				if c, isCall := ret.Results[0].(*ast.CallExpr); isCall {
					nRet++
					r.Ob("J6", "(*jsonMarshaler).MarshalJSON :: return "+types.ExprString(c)+" delegates to the message", prog.Pos(ret.Pos()), strings.HasSuffix(types.ExprString(c.Fun), ".MarshalJSON"), "a forwarded result must come from the message's own MarshalJSON")
				}
				return true
			}
			if !ok || len(ret.Results) != 2 || !isNilIdentExpr(ret.Results[1]) {
				return true
			}
			if isNilIdentExpr(ret.Results[0]) {
				return true // the documented (nil, nil) for a nil message; its position is J5
			}
			nRet++
			okSrc, why := false, "the returned value is not produced by a runtime call"
			switch v := ret.Results[0].(type) {
			case *ast.Ident:
				// b, err := mo.Marshal(msg)
				obj := info.Uses[v]
				ast.Inspect(f.Decl.Body, func(m ast.Node) bool {
					as, ok := m.(*ast.AssignStmt)
					if !ok || len(as.Rhs) != 1 {
						return true
					}
					for _, l := range as.Lhs {
						if id, ok := l.(*ast.Ident); ok && (info.Defs[id] == obj || info.Uses[id] == obj) {
							if c, ok := as.Rhs[0].(*ast.CallExpr); ok {
								if se, ok := c.Fun.(*ast.SelectorExpr); ok && strings.HasPrefix(se.Sel.Name, "Marshal") {
									okSrc = true
								}
							}
						}
					}
					return true
				})
			case *ast.CallExpr:
				name := types.ExprString(v.Fun)
				if strings.HasSuffix(name, ".MarshalJSON") {
					okSrc = true // delegation to the message's own implementation
				}
				if strings.HasSuffix(name, ".Bytes") {
					// buf.Bytes() after jm.Marshal(&buf, msg) in the same region
					if se, ok := v.Fun.(*ast.SelectorExpr); ok {
						if id, ok := se.X.(*ast.Ident); ok {
							bufObj := info.Uses[id]
							// find the enclosing block and a preceding Marshal(&buf, …) call
							for cur := ast.Node(ret); cur != nil; cur = parents[cur] {
								if blk, ok := parents[cur].(*ast.BlockStmt); ok {
									for _, st := range blk.List {
										if st.Pos() >= ret.Pos() {
											break
										}
										ast.Inspect(st, func(m ast.Node) bool {
											if c, ok := m.(*ast.CallExpr); ok {
												if cse, ok := c.Fun.(*ast.SelectorExpr); ok && cse.Sel.Name == "Marshal" && len(c.Args) >= 1 {
													if u, ok := c.Args[0].(*ast.UnaryExpr); ok {
														if bid, ok := u.X.(*ast.Ident); ok && info.Uses[bid] == bufObj {
															okSrc = true
														}
													}
												}
											}
											return true
										})
									}
									if okSrc {
										break
									}
								}
							}
						}
					}
				}
			}
			r.Ob("J6", fmt.Sprintf("(*jsonMarshaler).MarshalJSON :: return %s comes from a runtime marshal call", types.ExprString(ret.Results[0])), prog.Pos(ret.Pos()), okSrc, why+": output that does not come from the owning runtime's JSON encoder is not guaranteed to be accepted by its decoder (well-known types, required fields, options)")
			return true
		})
		r.Floor("successful returns of MarshalJSON", nRet, 4)
	}
	// J7: UnmarshalJSON reports success only after a runtime's JSON decoder accepted the document: every
	// `return nil` directly follows `if err := <options>.Unmarshal(.., msg); err != nil { return <error> }`;
	// a forwarded result must be the message's own UnmarshalJSON.
	if f := core.FindFunc(root, "(*jsonUnmarshaler).UnmarshalJSON"); f != nil {
		parents := parentMap(f.Decl.Body)
		nRet := 0
		ast.Inspect(f.Decl.Body, func(n ast.Node) bool {
			ret, ok := n.(*ast.ReturnStmt)
			if !ok || len(ret.Results) != 1 {
				return true
			}
			if c, isCall := ret.Results[0].(*ast.CallExpr); isCall {
				if fn := staticCallee(info, c); fn != nil && fn.Pkg() != nil && fn.Pkg().Path() == "fmt" {
					return true // an error
				}
				nRet++
				r.Ob("J7", "(*jsonUnmarshaler).UnmarshalJSON :: return "+types.ExprString(c)+" delegates to the message", prog.Pos(ret.Pos()), strings.HasSuffix(types.ExprString(c.Fun), ".UnmarshalJSON"), "a forwarded result must come from the message's own UnmarshalJSON")
				return true
			}
			if !isNilIdentExpr(ret.Results[0]) {
				return true
			}
			nRet++
			okPrev := false
			if blk, ok := parents[ret].(*ast.BlockStmt); ok {
				for i, st := range blk.List {
					if st != ast.Stmt(ret) || i == 0 {
						continue
					}
					if is, ok := blk.List[i-1].(*ast.IfStmt); ok && is.Else == nil {
						if as, ok := is.Init.(*ast.AssignStmt); ok && len(as.Rhs) == 1 {
							if c, ok := as.Rhs[0].(*ast.CallExpr); ok {
								if se, ok := c.Fun.(*ast.SelectorExpr); ok && se.Sel.Name == "Unmarshal" && returnsError(info, is.Body.List) {
									okPrev = true
								}
							}
						}
					}
				}
			}
			r.Ob("J7", "(*jsonUnmarshaler).UnmarshalJSON :: success is returned only after a runtime Unmarshal call", prog.Pos(ret.Pos()), okPrev,
				"this `return nil` is not preceded by the error test of a runtime JSON Unmarshal call: a document is reported as decoded although no runtime decoded it (the runtimes give some documents, e.g. a bare null for google.protobuf.Value, a meaning)")
			return true
		})
		r.Floor("successful returns of UnmarshalJSON", nRet, 4)
	}
	// J9: no probe shadows a later one. The probes are comma-ok assertions tried in order; if every value that satisfies
	// a later probe's interface also satisfies an earlier probe's interface, the later region is dead code and its runtime
	// is served by the earlier runtime's JSON package - unless the earlier probe carries a discriminating condition.
	for _, mname := range []string{"(*jsonMarshaler).MarshalJSON", "(*jsonUnmarshaler).UnmarshalJSON"} {
		f := core.FindFunc(root, mname)
		if f == nil {
			continue
		}
		type probe struct {
			iface *types.Interface
			text  string
			plain bool // condition is just `ok`
			pos   token.Pos
			fam   string   // runtime family of the asserted interface
			cond  ast.Expr // the whole condition
			subj  string   // the asserted expression
		}
		var probes []probe
		for _, st := range f.Decl.Body.List {
			is, ok := st.(*ast.IfStmt)
			if !ok {
				continue
			}
			as, ok := is.Init.(*ast.AssignStmt)
			if !ok || len(as.Rhs) != 1 {
				continue
			}
			ta, ok := as.Rhs[0].(*ast.TypeAssertExpr)
			if !ok || ta.Type == nil {
				continue
			}
			t := info.TypeOf(ta.Type)
			if t == nil {
				continue
			}
			it, ok := t.Underlying().(*types.Interface)
			if !ok {
				continue
			}
			_, plain := is.Cond.(*ast.Ident)
			fam, _ := familyOfTypeExpr(info, ta.Type)
			probes = append(probes, probe{iface: it, text: types.ExprString(ta.Type), plain: plain, pos: is.Pos(), fam: fam, cond: is.Cond, subj: types.ExprString(ta.X)})
		}
		implies := func(i, j int) bool { // every value matching probe j's interface matches probe i's
			for k := 0; k < probes[i].iface.NumMethods(); k++ {
				m := probes[i].iface.Method(k)
				obj, _, _ := types.LookupFieldOrMethod(probes[j].iface, false, m.Pkg(), m.Name())
				if fn, ok := obj.(*types.Func); !ok || !types.Identical(fn.Type(), m.Type()) {
					return false
				}
			}
			return true
		}
		famOfConst := map[string]string{"MessageTypeGogo": "gogo", "MessageTypeGoogleV1": "v1", "MessageTypeGoogle": "v2"}
		for i, p := range probes {
			if p.plain {
				continue
			}
			// the discriminating condition: ok && MsgType(<asserted expression>) != <runtime of a later probe this one would shadow>
			//                           or: ok && MsgType(<asserted expression>) == <runtime of this probe>
			var conj []ast.Expr
			var flat func(e ast.Expr)
			flat = func(e ast.Expr) {
				if b, ok := ast.Unparen(e).(*ast.BinaryExpr); ok && b.Op == token.LAND {
					flat(b.X)
					flat(b.Y)
					return
				}
				conj = append(conj, ast.Unparen(e))
			}
			flat(p.cond)
			okDisc, why := true, ""
			nDisc := 0
			for _, c := range conj {
				if _, isID := c.(*ast.Ident); isID {
					continue
				}
				nDisc++
				b, ok := c.(*ast.BinaryExpr)
				if !ok || (b.Op != token.NEQ && b.Op != token.EQL) {
					okDisc, why = false, "unrecognised discriminator "+types.ExprString(c)
					continue
				}
				call, cst := b.X, b.Y
				if _, isCall := ast.Unparen(call).(*ast.CallExpr); !isCall {
					call, cst = b.Y, b.X
				}
				ce, isCall := ast.Unparen(call).(*ast.CallExpr)
				cid, isID := ast.Unparen(cst).(*ast.Ident)
				if !isCall || !isID || len(ce.Args) != 1 || types.ExprString(ce.Fun) != "MsgType" || types.ExprString(ce.Args[0]) != p.subj {
					okDisc, why = false, "unrecognised discriminator "+types.ExprString(c)+" (expected MsgType("+p.subj+") compared with a MessageType constant)"
					continue
				}
				k, known := famOfConst[cid.Name]
				switch {
				case !known:
					okDisc, why = false, "discriminator compares with "+cid.Name
				case b.Op == token.EQL && k != p.fam:
					okDisc, why = false, fmt.Sprintf("the %s region runs only for messages classified as %s", p.fam, cid.Name)
				case b.Op == token.NEQ:
					shadows := false
					for j := i + 1; j < len(probes); j++ {
						if probes[j].fam == k && implies(i, j) {
							shadows = true
						}
					}
					if k == p.fam || !shadows {
						okDisc, why = false, fmt.Sprintf("the %s region excludes messages classified as %s, which is not the runtime of a later probe it would otherwise shadow", p.fam, cid.Name)
					}
				}
			}
			r.Ob("J9", mname+" :: probe "+p.text+" hands the later runtime's messages on", prog.Pos(p.pos), okDisc && nDisc > 0,
				"the condition `"+types.ExprString(p.cond)+"` does not separate this runtime's messages from those of the runtime probed later: "+why)
		}
		for j := 1; j < len(probes); j++ {
			shadowedBy := ""
			for i := 0; i < j; i++ {
				if !probes[i].plain {
					continue
				}
				// methods(earlier) ⊆ methods(later)  ⇒  every value matching the later probe matches the earlier one
				sub := true
				for k := 0; k < probes[i].iface.NumMethods(); k++ {
					m := probes[i].iface.Method(k)
					obj, _, _ := types.LookupFieldOrMethod(probes[j].iface, false, m.Pkg(), m.Name())
					if fn, ok := obj.(*types.Func); !ok || !types.Identical(fn.Type(), m.Type()) {
						sub = false
					}
				}
				if sub {
					shadowedBy = probes[i].text
				}
			}
			r.Ob("J9", mname+" :: probe "+probes[j].text+" is reachable", prog.Pos(probes[j].pos), shadowedBy == "",
				"every value that implements "+probes[j].text+" also implements "+shadowedBy+", which is probed earlier without any further condition: this region never runs and its runtime's messages are handled by the other runtime's JSON package")
		}
		r.Floor("probes of "+mname, len(probes), 4)
	}
	// J8: error paths. Inside the two adapter methods an error is returned only (a) for a nil message (UnmarshalJSON),
	// (b) under `err != nil` where err is the error result of a call into a runtime's JSON package made in the same
	// statement / the statement before, (c) as the final "unsupported message type" result. The error test of every
	// such runtime call has the positive form `err != nil`, and probes (`x, ok := v.(T); ok`) use the positive ok.
	for _, mname := range []string{"(*jsonMarshaler).MarshalJSON", "(*jsonUnmarshaler).UnmarshalJSON"} {
		f := core.FindFunc(root, mname)
		if f == nil {
			continue
		}
		isRuntimeCall := func(e ast.Expr) bool {
			c, ok := e.(*ast.CallExpr)
			if !ok {
				return false
			}
			fn := staticCallee(info, c)
			if fn == nil {
				return false
			}
			if _, ok := calleeFamily(fn); ok {
				return true
			}
			if sig, ok := fn.Type().(*types.Signature); ok && sig.Recv() != nil {
				if _, ok := familyOfImport[namedPkgPath(sig.Recv().Type())]; ok {
					return true
				}
			}
			return false
		}
		nErrIfs := 0
		last := f.Decl.Body.List[len(f.Decl.Body.List)-1]
		var walk func(list []ast.Stmt)
		walk = func(list []ast.Stmt) {
			for i, st := range list {
				is, ok := st.(*ast.IfStmt)
				if !ok {
					continue
				}
				walk(is.Body.List)
				// probes: positive ok
				if as, ok := is.Init.(*ast.AssignStmt); ok && len(as.Lhs) == 2 && len(as.Rhs) == 1 {
					if _, isTA := as.Rhs[0].(*ast.TypeAssertExpr); isTA {
						okID, _ := as.Lhs[1].(*ast.Ident)
						cond := is.Cond
						if b, isAnd := cond.(*ast.BinaryExpr); isAnd && b.Op == token.LAND {
							cond = b.X // ok && <discriminator>
						}
						condID, _ := cond.(*ast.Ident)
						r.Ob("J8", mname+" :: probe "+types.ExprString(as.Rhs[0])+" runs on success of the assertion", prog.Pos(is.Pos()), okID != nil && condID != nil && info.Uses[condID] == info.Defs[okID],
							"the probe's body must run only when the type assertion succeeded (condition: "+types.ExprString(is.Cond)+")")
						continue
					}
				}
				if !returnsError(info, is.Body.List) {
					continue
				}
				nErrIfs++
				cond := types.ExprString(is.Cond)
				if strings.Contains(cond, ".msg == nil") {
					continue // J5 decides its exact form
				}
				// the error variable tested and where it comes from
				var src ast.Expr
				var errObj types.Object
				if as, ok := is.Init.(*ast.AssignStmt); ok && len(as.Rhs) == 1 {
					src = as.Rhs[0]
					if id, ok := as.Lhs[len(as.Lhs)-1].(*ast.Ident); ok {
						errObj = info.Defs[id]
						if errObj == nil {
							errObj = info.Uses[id]
						}
					}
				} else if i > 0 {
					if as, ok := list[i-1].(*ast.AssignStmt); ok && len(as.Rhs) == 1 {
						src = as.Rhs[0]
						if id, ok := as.Lhs[len(as.Lhs)-1].(*ast.Ident); ok {
							errObj = info.Defs[id]
							if errObj == nil {
								errObj = info.Uses[id]
							}
						}
					}
				}
				okCond := false
				if b, ok := is.Cond.(*ast.BinaryExpr); ok && b.Op == token.NEQ && isNilIdentExpr(b.Y) {
					if id, ok := b.X.(*ast.Ident); ok && errObj != nil && info.Uses[id] == errObj {
						okCond = true
					}
				}
				r.Ob("J8", fmt.Sprintf("%s :: error path `if %s` is the failure of a runtime call", mname, cond), prog.Pos(is.Pos()), okCond && src != nil && isRuntimeCall(src),
					"an error is returned on a path that is not `err != nil` for the error of a call into a runtime's JSON package: the adapter rejects (or accepts) documents / options on its own authority")
			}
		}
		walk(f.Decl.Body.List)
		// the final statement is the unsupported-type error
		if ret, ok := last.(*ast.ReturnStmt); ok {
			r.Ob("J8", mname+" :: falls through to the unsupported-type error", prog.Pos(last.Pos()), returnsError(info, []ast.Stmt{ret}), "the last statement must return the error for unsupported message types")
		}
		r.Floor("error paths of "+mname, nErrIfs, 3)
	}
	// nil tests first
	for _, mname := range []string{"(*jsonMarshaler).MarshalJSON", "(*jsonUnmarshaler).UnmarshalJSON"} {
		f := core.FindFunc(root, mname)
		if f == nil {
			r.Fail("anchor", mname, "", "method not found")
			continue
		}
		ok := false
		detail := "the nil test of the wrapped message must be the first conditional and leave the method"
		for _, s := range f.Decl.Body.List {
			is, isIf := s.(*ast.IfStmt)
			if !isIf {
				// only pure bindings may precede the nil test
				if as, isAs := s.(*ast.AssignStmt); isAs && as.Tok == token.DEFINE {
					continue
				}
				break
			}
			if jsonNilTestShape(is.Cond) && len(is.Body.List) == 1 {
				if ret, isR := is.Body.List[0].(*ast.ReturnStmt); isR {
					if strings.HasSuffix(mname, "MarshalJSON") && strings.Contains(mname, "jsonMarshaler") {
						ok = len(ret.Results) == 2 && isNilIdentExpr(ret.Results[0]) && isNilIdentExpr(ret.Results[1])
						detail = "a nil message must marshal to (nil, nil)"
					} else {
						ok = returnsError(info, is.Body.List)
						detail = "unmarshaling into nil must be an error"
					}
				}
			}
			break
		}
		r.Ob("J5", mname+" nil test first", prog.Pos(f.Pos()), ok, detail)
	}
}

// parentIfOf finds the if statement whose body is the region.
func parentIfOf(rg region) (*ast.IfStmt, bool) {
	var found *ast.IfStmt
	ast.Inspect(rg.fn.Decl.Body, func(n ast.Node) bool {
		if is, ok := n.(*ast.IfStmt); ok && is.Pos() == rg.pos {
			found = is
		}
		return true
	})
	return found, found != nil
}

// jsonNilTestShape: `X.msg == nil || V.IsNil()` or `X.msg == nil || (V.Kind() == reflect.Ptr && V.IsNil())`.
func jsonNilTestShape(cond ast.Expr) bool {
	b, ok := cond.(*ast.BinaryExpr)
	if !ok || b.Op != token.LOR {
		return false
	}
	l, ok := b.X.(*ast.BinaryExpr)
	if !ok || l.Op != token.EQL || !isNilIdentExpr(l.Y) || !strings.HasSuffix(types.ExprString(l.X), ".msg") {
		return false
	}
	isNilCall := func(e ast.Expr) bool {
		c, ok := e.(*ast.CallExpr)
		return ok && len(c.Args) == 0 && strings.HasSuffix(types.ExprString(c.Fun), ".IsNil")
	}
	rgt := b.Y
	if p, ok := rgt.(*ast.ParenExpr); ok {
		rgt = p.X
	}
	if isNilCall(rgt) {
		return true
	}
	and, ok := rgt.(*ast.BinaryExpr)
	if !ok || and.Op != token.LAND || !isNilCall(and.Y) {
		return false
	}
	k, ok := and.X.(*ast.BinaryExpr)
	if !ok || k.Op != token.EQL {
		return false
	}
	ks, kt := types.ExprString(k.X), types.ExprString(k.Y)
	return strings.HasSuffix(ks, ".Kind()") && (kt == "reflect.Ptr" || kt == "reflect.Pointer")
}

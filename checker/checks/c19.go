package checks

import (
	"fmt"
	"go/ast"
	"go/token"
	"go/types"
	"sort"
	"strings"

	"csverify/bounds"
	"csverify/core"
	"csverify/sym"
	"csverify/symexec"
)

func init() { register("C19", checkC19) }

// summarizeEncodeNested: symbolic cursor advance of EncodeNested per type-switch arm.
func summarizeEncodeNested(r *core.Result, prog *core.Program) {
	root := prog.Pkg("")
	info := root.TypesInfo
	f := core.FindFunc(root, "(*Encoder).EncodeNested")
	if f == nil {
		r.Fail("anchor", "(*Encoder).EncodeNested", "", "method not found")
		return
	}
	pos := prog.Pos(f.Pos())
	recv := info.Defs[f.Decl.Recv.List[0].Names[0]]
	var mObj types.Object
	if ps := f.Decl.Type.Params.List; len(ps) == 2 && len(ps[1].Names) == 1 {
		mObj = info.Defs[ps[1].Names[0]]
	}
	ea := &encAnalysis{pk: root, prog: prog, wires: map[string][]string{}}
	var it *symexec.Interp
	var pending *sym.E
	var problems []string
	bad := func(n ast.Node, format string, a ...interface{}) {
		problems = append(problems, fmt.Sprintf("%s: %s", prog.Pos(n.Pos()), fmt.Sprintf(format, a...)))
	}
	mAtom := sym.Atom("m")
	sizeM := sym.Fn("Size", mAtom)
	bufM := sym.Atom("Marshal(m)")
	aliases := map[types.Object]bool{}
	isM := func(e ast.Expr) bool { // m itself or the type-switch variable bound to it
		id, ok := e.(*ast.Ident)
		if !ok {
			return false
		}
		o := info.Uses[id]
		if o == mObj || aliases[o] {
			return true
		}
		// type switch implicit objects
		for _, imp := range info.Implicits {
			if imp == o {
				return true
			}
		}
		return false
	}
	unchecked := map[token.Pos]string{}
	hooks := symexec.Hooks{
		IsAccum: func(_ *symexec.Interp, lhs ast.Expr) bool { return isRecvSel(info, lhs, recv, "offset") },
		IgnoreCond: func(_ *symexec.Interp, cond ast.Expr) bool {
			onlyErr := true
			ast.Inspect(cond, func(n ast.Node) bool {
				if id, ok := n.(*ast.Ident); ok && id.Name != "nil" {
					if o := info.Uses[id]; o != nil && o.Type().String() != "error" {
						onlyErr = false
					}
				}
				return true
			})
			return onlyErr
		},
		CallValue: func(_ *symexec.Interp, call *ast.CallExpr) (*sym.E, bool) {
			fn := staticCallee(info, call)
			if fn == nil {
				return nil, false
			}
			if fn.Pkg() == root.Types && fn.Type().(*types.Signature).Recv() == nil {
				switch fn.Name() {
				case "Size":
					if len(call.Args) == 1 && isM(call.Args[0]) {
						return sizeM, true
					}
				case "Marshal":
					if len(call.Args) == 1 && isM(call.Args[0]) {
						return bufM, true
					}
				case "EncodeTag":
					if !isCursorSlice(info, call.Args[0], recv) {
						bad(call, "EncodeTag does not write at the cursor")
					}
					ea.wires["EncodeNested"] = append(ea.wires["EncodeNested"], types.ExprString(call.Args[2]))
					return tk(it.Eval(call.Args[1])), true
				case "EncodeVarint":
					if !isCursorSlice(info, call.Args[0], recv) {
						bad(call, "EncodeVarint does not write at the cursor")
					}
					return sv(it.Eval(call.Args[1])), true
				}
			}
			// tv.Marshal()
			if se, ok := call.Fun.(*ast.SelectorExpr); ok && se.Sel.Name == "Marshal" && isM(se.X) && len(call.Args) == 0 {
				return bufM, true
			}
			return nil, false
		},
		CallStmt: func(_ *symexec.Interp, call *ast.CallExpr) (*sym.E, bool) {
			se, ok := call.Fun.(*ast.SelectorExpr)
			if !ok {
				return nil, false
			}
			// tv.MarshalTo(e.p[e.offset:]) writes Size(m) bytes at the cursor (MarshalerTo contract)
			if se.Sel.Name == "MarshalTo" && isM(se.X) && len(call.Args) == 1 {
				if !isCursorSlice(info, call.Args[0], recv) {
					bad(call, "MarshalTo is not given the buffer at the cursor (e.p[e.offset:])")
				}
				if pending != nil {
					bad(call, "write before the cursor advanced past the previous one")
				}
				pending = sizeM
				return sym.Const(0), true
			}
			// sibling Encoder method
			if id, ok := se.X.(*ast.Ident); ok && info.Uses[id] == recv {
				sub, _, ok := ea.summarize(se.Sel.Name)
				if !ok {
					return nil, false
				}
				callee := core.FindFunc(root, "(*Encoder)."+se.Sel.Name)
				i := 0
				for _, fld := range callee.Decl.Type.Params.List {
					for _, nm := range fld.Names {
						if i < len(call.Args) {
							var arg *sym.E
							if p, ok := it.Path(call.Args[i]); ok && !isInt(info.TypeOf(call.Args[i])) {
								arg = sym.Atom(p)
							} else {
								arg = it.Eval(call.Args[i])
							}
							sub = sub.Subst(nm.Name, arg)
						}
						i++
					}
				}
				return sub, true
			}
			return nil, false
		},
	}
	it = symexec.New(info, prog.Fset, hooks)
	it.Hooks.Stmt = func(_ *symexec.Interp, s ast.Stmt) bool {
		switch x := s.(type) {
		case *ast.ExprStmt:
			if call, ok := x.X.(*ast.CallExpr); ok {
				if id, ok := call.Fun.(*ast.Ident); ok {
					if b, ok := info.Uses[id].(*types.Builtin); ok && b.Name() == "copy" {
						if !isCursorSlice(info, call.Args[0], recv) {
							bad(call, "copy does not target the cursor")
						}
						if pending != nil {
							bad(call, "write before the cursor advanced past the previous one")
						}
						if p, ok := it.Path(call.Args[1]); ok {
							pending = ln(sym.Atom(p))
						} else {
							pending = ln(it.Eval(call.Args[1]))
						}
						return true
					}
				}
			}
		case *ast.AssignStmt:
			if len(x.Lhs) == 1 && isRecvSel(info, x.Lhs[0], recv, "offset") && x.Tok == token.ADD_ASSIGN {
				if call, ok := x.Rhs[0].(*ast.CallExpr); ok {
					if fn := staticCallee(info, call); fn != nil && fn.Pkg() == root.Types && writingLeaf[fn.Name()] {
						return false
					}
				}
				d := it.Eval(x.Rhs[0])
				if pending == nil {
					bad(x, "cursor advanced by %s without a preceding write of that many bytes", d)
				} else if !sym.Equal(d, pending) {
					bad(x, "cursor advanced by %s but %s bytes were placed in the buffer", d, pending)
				}
				pending = nil
				return false
			}
		case *ast.ReturnStmt:
			if pending != nil {
				bad(x, "return while %s bytes placed in the buffer are not accounted for by the cursor", pending)
				pending = nil
			}
		}
		return false
	}
	body := f.Decl.Body.List
	if spec, ok := specialiseByKind(info, f.Decl, mObj); ok {
		// the kinds of m are told apart by comma-ok assertions: analyse the equivalent type switch
		body = []ast.Stmt{spec.sw}
		aliases = spec.aliases
	}
	it.Run(body)
	for _, p := range it.Problems {
		problems = append(problems, prog.Pos(p.Pos)+": "+p.What)
	}
	r.Ob("N-write-advance", "(*Encoder).EncodeNested", pos, len(problems) == 0, strings.Join(problems, "; "))
	// per arm: key + prefix + payload with prefix = bytes placed = advance. The three
	// arms are exhaustive, so an unguarded term belongs to every arm.
	norm := it.Total.Norm()
	armsWant := map[string]*sym.E{"m is MarshalerTo": sizeM, "m is Marshaler": ln(bufM), "m is other": ln(bufM)}
	eq := true
	var diffs []string
	for _, g := range []string{"m is MarshalerTo", "m is Marshaler", "m is other"} {
		var got []string
		for _, t := range norm {
			switch {
			case strings.HasPrefix(t, "["+g+"]"):
				got = append(got, strings.TrimPrefix(t, "["+g+"]"))
			case !strings.HasPrefix(t, "["):
				got = append(got, t)
			}
		}
		x := armsWant[g]
		want := sym.Sum(tk(sym.Atom("tag")), sv(x), x).Norm()
		sort.Strings(got)
		if strings.Join(got, " + ") != strings.Join(want, " + ") {
			eq = false
			diffs = append(diffs, fmt.Sprintf("arm [%s]: key + length prefix + payload advance from the source: %s; required (prefix = bytes placed = advance): %s", g, strings.Join(got, " + "), strings.Join(want, " + ")))
		}
	}
	for _, t := range norm {
		if strings.HasPrefix(t, "[") && !strings.HasPrefix(t, "[m is MarshalerTo]") && !strings.HasPrefix(t, "[m is Marshaler]") && !strings.HasPrefix(t, "[m is other]") {
			eq = false
			diffs = append(diffs, "term under an unrecognised condition: "+t)
		}
	}
	r.Ob("N-bytes", "(*Encoder).EncodeNested", pos, eq, strings.Join(diffs, "; "))
	r.Sample(map[string]string{"method": "EncodeNested", "advance": it.Total.String()})
	ws := ea.wires["EncodeNested"]
	okw := len(ws) > 0
	for _, w := range ws {
		if w != "WireTypeLengthDelimited" {
			okw = false
		}
	}
	r.Ob("N-wiretype", "(*Encoder).EncodeNested", pos, okw, fmt.Sprintf("key written with wire type(s) %v, must be WireTypeLengthDelimited", ws))
	_ = unchecked
}

// errPropagated: every call matching pred inside fn has its error checked and returned.
func errPropagated(r *core.Result, prog *core.Program, info *types.Info, fn *core.FuncInfo, rule string, pred func(call *ast.CallExpr) (string, bool)) int {
	n := 0
	parents := map[ast.Node]ast.Node{}
	var stack []ast.Node
	ast.Inspect(fn.Body(), func(nn ast.Node) bool {
		if nn == nil {
			stack = stack[:len(stack)-1]
			return true
		}
		if len(stack) > 0 {
			parents[nn] = stack[len(stack)-1]
		}
		stack = append(stack, nn)
		return true
	})
	ast.Inspect(fn.Body(), func(nn ast.Node) bool {
		call, ok := nn.(*ast.CallExpr)
		if !ok {
			return true
		}
		what, ok := pred(call)
		if !ok {
			return true
		}
		n++
		okProp, detail := errorIsReturned(info, call, parents)
		r.Ob(rule, fn.Name+" :: "+what, prog.Pos(call.Pos()), okProp, detail)
		return true
	})
	return n
}

// errorIsReturned: the call's error result is assigned to a variable that is
// tested against nil right away with a return of an error in the failing branch,
// or the call is itself the operand of a return.
func errorIsReturned(info *types.Info, call *ast.CallExpr, parents map[ast.Node]ast.Node) (bool, string) {
	p := parents[call]
	switch x := p.(type) {
	case *ast.ReturnStmt:
		return true, ""
	case *ast.ExprStmt:
		return false, "the error result is discarded (call used as a statement)"
	case *ast.AssignStmt:
		// which variable receives the error?
		var errObj types.Object
		for _, l := range x.Lhs {
			if id, ok := l.(*ast.Ident); ok {
				o := info.Defs[id]
				if o == nil {
					o = info.Uses[id]
				}
				if o != nil && o.Type().String() == "error" {
					errObj = o
				}
				if id.Name == "_" {
					if t := info.TypeOf(call); t != nil {
						if tup, ok := t.(*types.Tuple); ok && tup.Len() > 0 && tup.At(tup.Len()-1).Type().String() == "error" && l == x.Lhs[len(x.Lhs)-1] {
							return false, "the error result is assigned to _"
						}
					}
				}
			}
		}
		if errObj == nil {
			return false, "the error result is not kept"
		}
		// the assignment is the init of an if, or is followed by an if testing err
		var ifs *ast.IfStmt
		if is, ok := parents[x].(*ast.IfStmt); ok && is.Init == x {
			ifs = is
		} else if blk, ok := parents[x].(*ast.BlockStmt); ok {
			for i, s := range blk.List {
				if s == ast.Stmt(x) && i+1 < len(blk.List) {
					// statements that do not touch the error may sit between the call and its test
					j := i + 1
					for j < len(blk.List)-1 && !assignsObj(info, blk.List[j], errObj) {
						if _, isIf := blk.List[j].(*ast.IfStmt); isIf {
							break
						}
						if _, isSw := blk.List[j].(*ast.SwitchStmt); isSw {
							break
						}
						j++
					}
					if j != i+1 {
						ifs, _ = blk.List[j].(*ast.IfStmt)
						continue
					}
					ifs, _ = blk.List[i+1].(*ast.IfStmt)
					// tagless switch { case err != nil: return … } is the other idiom
					if sw, ok := blk.List[i+1].(*ast.SwitchStmt); ok && sw.Tag == nil {
						for _, cl := range sw.Body.List {
							cc := cl.(*ast.CaseClause)
							if len(cc.List) == 1 && testsErrNonNil(info, cc.List[0], errObj) && returnsError(info, cc.Body) {
								return true, ""
							}
						}
					}
				}
			}
		} else if cc, ok := parents[x].(*ast.CaseClause); ok {
			for i, s := range cc.Body {
				if s == ast.Stmt(x) && i+1 < len(cc.Body) {
					ifs, _ = cc.Body[i+1].(*ast.IfStmt)
				}
			}
		}
		if ifs == nil {
			// the assignment ends a branch of an if / else (both ways of obtaining the value meet afterwards):
			// the test is the statement that follows the enclosing if
			if blk, ok := parents[x].(*ast.BlockStmt); ok && len(blk.List) > 0 && blk.List[len(blk.List)-1] == ast.Stmt(x) {
				var outer ast.Node = blk
				for {
					is, ok := parents[outer].(*ast.IfStmt)
					if !ok {
						break
					}
					outer = is
				}
				if oi, ok := outer.(*ast.IfStmt); ok {
					var list []ast.Stmt
					switch pb := parents[oi].(type) {
					case *ast.BlockStmt:
						list = pb.List
					case *ast.CaseClause:
						list = pb.Body
					}
					for i, st := range list {
						if st == ast.Stmt(oi) && i+1 < len(list) {
							ifs, _ = list[i+1].(*ast.IfStmt)
						}
					}
				}
			}
		}
		if ifs == nil {
			return false, "the error is not tested right after the call"
		}
		if !testsErrNonNil(info, ifs.Cond, errObj) {
			return false, "the condition after the call does not test the error"
		}
		if !returnsError(info, ifs.Body.List) {
			return false, "the failing branch does not return an error"
		}
		return true, ""
	}
	return false, "the call's error result is used in an unrecognised way"
}

func testsErrNonNil(info *types.Info, cond ast.Expr, errObj types.Object) bool {
	b, ok := cond.(*ast.BinaryExpr)
	if !ok || b.Op != token.NEQ {
		return false
	}
	id, ok := b.X.(*ast.Ident)
	return ok && info.Uses[id] == errObj && isNilIdentExpr(b.Y)
}

func isNilIdentExpr(e ast.Expr) bool {
	id, ok := e.(*ast.Ident)
	return ok && id.Name == "nil"
}

func returnsError(info *types.Info, body []ast.Stmt) bool {
	if len(body) == 0 {
		return false
	}
	ret, ok := body[len(body)-1].(*ast.ReturnStmt)
	if !ok || len(ret.Results) == 0 {
		return false
	}
	last := ret.Results[len(ret.Results)-1]
	if isNilIdentExpr(last) {
		return false
	}
	t := info.TypeOf(last)
	return t != nil && (t.String() == "error" || types.Implements(t, types.Universe.Lookup("error").Type().Underlying().(*types.Interface)))
}

func checkC19(r *core.Result) {
	r.Explanation = "EncodeNested: a symbolic interpreter computes, per type-switch arm, the key + length prefix + payload advance; the prefix, the number of bytes placed in the buffer (MarshalTo contract: Size(m); copy(dst, buf): len(buf)) and the cursor advance must be the same symbolic quantity in every arm (write–advance rule), the key uses the length-delimited wire type, and every error of the nested marshaler is checked and returned. " +
		"DecodeNested: the bounds obligations of the sub-slice handed to the nested decoder are discharged by the guard-fact engine (so a declared length beyond the buffer is rejected before any delegation), both arms pass the identical sub-slice, every Unmarshal error is returned, and the only cursor store comes after the delegation and advances by exactly the bytes of the sub-slice plus the prefix."
	r.RuleText = "obligations per arm / call site of EncodeNested and DecodeNested"
	r.Assumptions = []string{"MarshalerTo contract: MarshalTo(dest) writes exactly Size() bytes", "not decided: equality of the decoded message with the original"}
	r.Trusted = []string{"go/types", "sym normal forms", "lin entailment"}
	prog, err := core.Load("./")
	if err != nil {
		r.Infra("%v", err)
		return
	}
	root := prog.Pkg("")
	info := root.TypesInfo
	summarizeEncodeNested(r, prog)
	checkNestedBits(r, prog, root)
	if f := core.FindFunc(root, "(*Encoder).EncodeNested"); f != nil {
		n := errPropagated(r, prog, info, f, "N-error", func(call *ast.CallExpr) (string, bool) {
			name := ""
			switch fn := call.Fun.(type) {
			case *ast.SelectorExpr:
				name = fn.Sel.Name
			case *ast.Ident:
				name = fn.Name
			}
			if name == "Marshal" || name == "MarshalTo" {
				return types.ExprString(call.Fun), true
			}
			return "", false
		})
		r.Floor("nested marshal call sites in EncodeNested", n, 3)
	}
	// DecodeNested
	dn := core.FindFunc(root, "(*Decoder).DecodeNested")
	if dn == nil {
		r.Fail("anchor", "(*Decoder).DecodeNested", "", "method not found")
		return
	}
	cfg := boundsConfig(prog, root, false)
	runBounds(r, prog, root, cfg, []*core.FuncInfo{dn}, nil, func(f *core.FuncInfo, ob bounds.Ob) bool { return true })
	var args []ast.Expr
	var lastCall token.Pos
	n := errPropagated(r, prog, info, dn, "N-error", func(call *ast.CallExpr) (string, bool) {
		name := ""
		switch fn := call.Fun.(type) {
		case *ast.SelectorExpr:
			name = fn.Sel.Name
		case *ast.Ident:
			name = fn.Name
		}
		if name == "Unmarshal" {
			args = append(args, inlineLocals(info, dn.Decl.Body, call.Args[0]))
			if call.End() > lastCall {
				lastCall = call.End()
			}
			return types.ExprString(call.Fun), true
		}
		return "", false
	})
	r.Floor("nested unmarshal call sites in DecodeNested", n, 2)
	same := len(args) >= 2
	for _, a := range args {
		if types.ExprString(a) != types.ExprString(args[0]) {
			same = false
		}
	}
	r.Ob("N-same-slice", "(*Decoder).DecodeNested", prog.Pos(dn.Pos()), same, "the arms hand different sub-slices to the nested decoder")
	// single cursor store after the delegation, advancing to the end of the sub-slice
	recv := info.Defs[dn.Decl.Recv.List[0].Names[0]]
	var stores []*ast.AssignStmt
	ast.Inspect(dn.Decl.Body, func(nn ast.Node) bool {
		if as, ok := nn.(*ast.AssignStmt); ok && len(as.Lhs) == 1 && isRecvSel(info, as.Lhs[0], recv, "offset") {
			stores = append(stores, as)
		}
		return true
	})
	okStore := len(stores) == 1 && stores[0].Pos() > lastCall && stores[0].Tok == token.ADD_ASSIGN
	detail := fmt.Sprintf("%d cursor stores; the cursor must be advanced once, after the nested decoder returned without error", len(stores))
	if okStore && len(args) > 0 {
		if sl, ok := args[0].(*ast.SliceExpr); ok && sl.High != nil {
			it := symexec.New(info, prog.Fset, symexec.Hooks{})
			hi := it.Eval(sl.High)
			off := sym.Atom(recv.Name() + ".offset")
			adv := it.Eval(inlineLocals(info, dn.Decl.Body, stores[0].Rhs[0]))
			if !sym.Equal(sym.Sum(hi, sym.Mul(-1, off)), adv) {
				okStore = false
				detail = fmt.Sprintf("cursor advanced by %s but the nested message ends at %s", adv, hi)
			}
		} else {
			okStore = false
			detail = "the nested decoder is not given a bounded sub-slice"
		}
	}
	r.Ob("N-advance", "(*Decoder).DecodeNested", prog.Pos(dn.Pos()), okStore, detail)
	r.Floor("obligations", len(r.Obligations), 12)
}

// assignsObj: the statement assigns to obj.
func assignsObj(info *types.Info, s ast.Stmt, obj types.Object) bool {
	found := false
	ast.Inspect(s, func(n ast.Node) bool {
		if as, ok := n.(*ast.AssignStmt); ok {
			for _, l := range as.Lhs {
				if id, ok := l.(*ast.Ident); ok && (info.Uses[id] == obj || info.Defs[id] == obj) {
					found = true
				}
			}
		}
		return true
	})
	return found
}

package checks

import (
	"fmt"

	"golang.org/x/tools/go/packages"

	"csverify/bitdom"
	"csverify/bitexec"
	"csverify/core"
)

// Value-level bridging of nested messages (C19), decided with the bit-provenance interpreter (DESIGN §3.8): the nested
// message is a harness value with symbolic content of a concrete length that satisfies one of the interfaces
// EncodeNested / DecodeNested dispatch on. On every partition: EncodeNested writes key, length and exactly the
// message's bytes and advances by SizeOfTagKey + SizeOfVarint(len) + len; DecodeTag + DecodeNested hands the nested
// decoder exactly those bytes, once, and leaves the cursor behind the field - on the exact buffer (the field ends
// where the buffer ends) and with trailing bytes.

func (h *bitHarness) nestedBridge(length int, tagConst uint64, encVia, decVia string) func(c *bitexec.Ctx) {
	return func(c *bitexec.Ctx) {
		content := make([]bitdom.Val, length)
		for i := range content {
			content[i] = c.Input(fmt.Sprintf("b%d", i), 8, false, nil).V
		}
		src := &bitexec.Stub{Name: "nested message (" + encVia + ")", Ifaces: map[string]bool{}, Methods: map[string]func([]bitexec.Value) []bitexec.Value{}}
		marshalTo := func(args []bitexec.Value) []bitexec.Value {
			dst, ok := args[0].(bitexec.Bytes)
			if !ok || dst.Len < length {
				return []bitexec.Value{bitexec.Err{Nil: false, Desc: "destination too short"}}
			}
			for i := 0; i < length; i++ {
				dst.Buf.B[dst.Off+i] = content[i]
			}
			return []bitexec.Value{bitexec.Err{Nil: true}}
		}
		marshal := func([]bitexec.Value) []bitexec.Value {
			nb := &bitexec.Buffer{B: append([]bitdom.Val(nil), content...)}
			return []bitexec.Value{bitexec.Bytes{Buf: nb, Len: length, Cap: length}, bitexec.Err{Nil: true}}
		}
		size := func([]bitexec.Value) []bitexec.Value {
			return []bitexec.Value{bitexec.ConstInt(64, true, uint64(length))}
		}
		switch encVia {
		case "MarshalerTo":
			src.Ifaces["MarshalerTo"], src.Ifaces["Sizer"] = true, true
			src.Methods["MarshalTo"], src.Methods["Size"] = marshalTo, size
		case "Marshaler":
			src.Ifaces["Marshaler"] = true
			src.Methods["Marshal"] = marshal
		}
		tag := bitexec.ConstInt(64, true, tagConst)
		enc, buf := h.newEncoder(length + 16)
		r := h.call("(*Encoder).EncodeNested", bitexec.Ptr{Obj: enc}, tag, src)
		c.Check("EncodeNested succeeds", errNil(r[0]), "error "+errDesc(r[0]))
		n, ok := constOf(enc.Fields["offset"])
		c.Check("EncodeNested leaves a known cursor", ok && n > 0, fmt.Sprint(enc.Fields["offset"]))
		if !ok || !errNil(r[0]) {
			return
		}
		ksz, ok1 := constOf(h.call("SizeOfTagKey", nil, tag)[0])
		lsz, ok2 := constOf(h.call("SizeOfVarint", nil, bitexec.ConstInt(64, false, uint64(length)))[0])
		c.Check("bytes written = SizeOfTagKey + SizeOfVarint(len) + len", ok1 && ok2 && ksz+lsz+int64(length) == n, fmt.Sprintf("wrote %d, helpers say %d+%d+%d", n, ksz, lsz, length))
		if ok1 && ok2 && ksz+lsz+int64(length) == n {
			same := true
			for i := 0; i < length; i++ {
				if !buf.B[int(ksz+lsz)+i].Equal(content[i]) {
					same = false
				}
			}
			c.Check("the payload is the nested message's bytes", same, "payload differs from what the nested message produced")
		}
		for _, mode := range []uint64{h.modeSafe, h.modeFast} {
			for _, p := range withPadding(buf, int(n)) {
				dec := h.newDecoder(p, mode)
				tr := h.call("(*Decoder).DecodeTag", bitexec.Ptr{Obj: dec})
				c.Check("DecodeTag accepts the key", errNil(tr[2]), "error "+errDesc(tr[2]))
				if !errNil(tr[2]) {
					continue
				}
				wt, okw := constOf(tr[1])
				c.Check("nested messages are length-delimited", okw && wt == 2 && sameInt(tr[0], tag), fmt.Sprint(tr[0], tr[1]))
				var got []bitexec.Bytes
				dst := &bitexec.Stub{Name: "destination (" + decVia + ")", Ifaces: map[string]bool{}, Methods: map[string]func([]bitexec.Value) []bitexec.Value{}}
				record := func(args []bitexec.Value) []bitexec.Value {
					if b, ok := args[0].(bitexec.Bytes); ok {
						got = append(got, b)
					}
					return []bitexec.Value{bitexec.Err{Nil: true}}
				}
				switch decVia {
				case "Unmarshaler":
					dst.Ifaces["Unmarshaler"] = true
					dst.Methods["Unmarshal"] = record
				case "ProtoV1Unmarshaler":
					dst.Ifaces["ProtoV1Unmarshaler"] = true
					dst.Methods["XXX_Unmarshal"] = record
				}
				dr := h.call("(*Decoder).DecodeNested", bitexec.Ptr{Obj: dec}, dst)
				c.Check("DecodeNested accepts the encoder's output", errNil(dr[0]), "error "+errDesc(dr[0]))
				if !errNil(dr[0]) {
					continue
				}
				okBytes := len(got) == 1 && got[0].Len == length
				if okBytes {
					for i := 0; i < length; i++ {
						if !got[0].Buf.B[got[0].Off+i].Equal(content[i]) {
							okBytes = false
						}
					}
				}
				c.Check("the nested decoder receives exactly the nested message's bytes, once", okBytes, fmt.Sprintf("%d call(s)", len(got)))
				off, oko := constOf(dec.Fields["offset"])
				c.Check("the decoder consumed exactly the bytes written", oko && off == n, fmt.Sprintf("wrote %d, cursor at %v", n, dec.Fields["offset"]))
			}
		}
	}
}

func checkNestedBits(r *core.Result, prog *core.Program, pk *packages.Package) {
	h := newBitHarness(pk)
	n := 0
	for _, ev := range []string{"MarshalerTo", "Marshaler"} {
		for _, dv := range []string{"Unmarshaler", "ProtoV1Unmarshaler"} {
			for _, l := range []int{0, 1, 5, 127, 128} {
				name := fmt.Sprintf("EncodeNested (%s) → DecodeTag+DecodeNested (%s): every content of length %d", ev, dv, l)
				anchor := ""
				if fn := h.m.Lookup("(*Encoder).EncodeNested"); fn != nil {
					anchor = prog.Pos(h.m.Decls[fn].Pos())
				}
				runBitHarness(r, prog, name, anchor, 50, h.nestedBridge(l, 9, ev, dv))
				n++
			}
		}
	}
	// rename the rule for this property
	for i := range r.Obligations {
		if r.Obligations[i].Rule == "B-roundtrip" {
			r.Obligations[i].Rule = "B-nested"
		}
	}
	for i := range r.Findings {
		if r.Findings[i].Rule == "B-roundtrip" {
			r.Findings[i].Rule = "B-nested"
		}
	}
	r.Counts["bit-level nested bridging harnesses"] = n
	r.Floor("bit-level nested bridging harnesses", n, 20)
}

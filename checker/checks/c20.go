package checks

import (
	"fmt"
	"go/ast"
	"go/types"
	"sort"
	"strings"

	"golang.org/x/tools/go/packages"

	"csverify/core"
)

func init() { register("C20", checkC20) }

// per wire type: decoder methods that read exactly one value of that type
var dumpReaders = map[string][]string{
	"WireTypeVarint":          {"DecodeInt64", "DecodeUInt64"},
	"WireTypeFixed32":         {"DecodeFixed32"},
	"WireTypeFixed64":         {"DecodeFixed64"},
	"WireTypeLengthDelimited": {"DecodeBytes"},
}

func stdinSizeRule(r *core.Result, prog *core.Program, pk *packages.Package) int {
	info := pk.TypesInfo
	n := 0
	for _, f := range core.Funcs(pk) {
		if f.Decl == nil {
			continue
		}
		// file variables that may hold os.Stdin
		stdinVars := map[types.Object]bool{}
		ast.Inspect(f.Decl.Body, func(nn ast.Node) bool {
			if as, ok := nn.(*ast.AssignStmt); ok && len(as.Lhs) == len(as.Rhs) {
				for i, rhs := range as.Rhs {
					if types.ExprString(rhs) == "os.Stdin" {
						if id, ok := as.Lhs[i].(*ast.Ident); ok {
							if o := info.Uses[id]; o != nil {
								stdinVars[o] = true
							} else if o := info.Defs[id]; o != nil {
								stdinVars[o] = true
							}
						}
					}
				}
			}
			return true
		})
		// FileInfo variables obtained from Stat() on stdin
		infoVars := map[types.Object]bool{}
		ast.Inspect(f.Decl.Body, func(nn ast.Node) bool {
			as, ok := nn.(*ast.AssignStmt)
			if !ok || len(as.Rhs) != 1 {
				return true
			}
			c, ok := as.Rhs[0].(*ast.CallExpr)
			if !ok {
				return true
			}
			se, ok := c.Fun.(*ast.SelectorExpr)
			if !ok || se.Sel.Name != "Stat" {
				return true
			}
			onStdin := types.ExprString(se.X) == "os.Stdin"
			if id, ok := se.X.(*ast.Ident); ok && stdinVars[info.Uses[id]] {
				onStdin = true
			}
			if onStdin {
				if id, ok := as.Lhs[0].(*ast.Ident); ok {
					if o := info.Uses[id]; o != nil {
						infoVars[o] = true
					} else if o := info.Defs[id]; o != nil {
						infoVars[o] = true
					}
				}
			}
			return true
		})
		if len(infoVars) == 0 {
			continue
		}
		ast.Inspect(f.Decl.Body, func(nn ast.Node) bool {
			c, ok := nn.(*ast.CallExpr)
			if !ok {
				return true
			}
			se, ok := c.Fun.(*ast.SelectorExpr)
			if !ok {
				return true
			}
			if id, ok := se.X.(*ast.Ident); ok && infoVars[info.Uses[id]] {
				n++
				r.Ob("T6", f.Name+" :: stdin FileInfo."+se.Sel.Name+"()", prog.Pos(c.Pos()), se.Sel.Name != "Size",
					"whether stdin carries data is decided from Stat().Size(), which is 0 for a pipe: `cat message.bin | protodump` (the README's own example) is rejected as 'no data'")
			}
			return true
		})
	}
	return n
}

func checkC20(r *core.Result) {
	r.Explanation = "Static clauses of the diagnostic tools: protodump's dump loop has an arm for every declared WireType constant and an erroring default (T1); each arm reads its value with a csproto.Decoder method of that wire type (T2, table); every decoder error is returned (T3); recursion happens only under shouldExpand(p) on the same path p = append(parent, tag) that is passed down, with tag taken from DecodeTag (T5); the result of os.Stdin.Stat() is not used through Size() to decide whether input was piped (T6); only csproto.Decoder methods whose bounds obligations are discharged by C03 are called (list in the evidence). " +
		"ParseAnnotatedHex: the error of hex.DecodeString is returned and the output is appended only from its result, in line order (H1, H2)."
	r.RuleText = "one obligation per arm / decoder call / structural rule"
	r.Assumptions = []string{"not decided: string-level behaviour of ParseAnnotatedHex (comment and whitespace placement), the exact text protodump prints, tag-path parsing"}
	r.Trusted = []string{"go/types", "reader table (checks/c20.go)", "C03 for the Decoder methods"}
	prog, err := core.Load("./...")
	if err != nil {
		r.Infra("%v", err)
		return
	}
	pd := prog.Pkg("cmd/protodump")
	pt := prog.Pkg("prototest")
	if pd == nil || pt == nil {
		r.Infra("packages cmd/protodump / prototest not loaded")
		return
	}
	info := pd.TypesInfo
	f := core.FindFunc(pd, "dumpProto")
	if f == nil {
		r.Fail("anchor", "dumpProto", "", "function not found")
		return
	}
	var sw *ast.SwitchStmt
	ast.Inspect(f.Decl.Body, func(n ast.Node) bool {
		if s, ok := n.(*ast.SwitchStmt); ok && s.Tag != nil && sw == nil {
			if t := info.TypeOf(s.Tag); t != nil && namedOf(t) == "WireType" {
				sw = s
			}
		}
		return true
	})
	if sw == nil {
		r.Fail("T1", "dumpProto switch wireType", prog.Pos(f.Pos()), "no switch over the wire type")
		return
	}
	arms, hasDefault := caseConsts(info, sw)
	consts := wireTypeConsts(prog)
	var names []string
	for n := range consts {
		names = append(names, n)
	}
	sort.Strings(names)
	called := map[string]bool{}
	for _, n := range names {
		cc := arms[n]
		r.Ob("T1", "dumpProto case "+n, prog.Pos(sw.Pos()), cc != nil, "declared wire type has no arm in protodump")
		if cc == nil {
			continue
		}
		var readers []string
		for _, s := range cc.Body {
			ast.Inspect(s, func(nn ast.Node) bool {
				if c, ok := nn.(*ast.CallExpr); ok {
					if fn := staticCallee(info, c); fn != nil && fn.Pkg() != nil && fn.Pkg().Path() == csp && strings.HasPrefix(fn.Name(), "Decode") {
						if sig := fn.Type().(*types.Signature); sig.Recv() != nil {
							readers = append(readers, fn.Name())
							called[fn.Name()] = true
						}
					}
				}
				return true
			})
		}
		okR := len(readers) == 1
		if okR {
			okR = false
			for _, w := range dumpReaders[n] {
				if readers[0] == w {
					okR = true
				}
			}
		}
		r.Ob("T2", "dumpProto case "+n+" reader", prog.Pos(cc.Pos()), okR, fmt.Sprintf("arm reads with %v; a field of this wire type must be read by one of %v", readers, dumpReaders[n]))
	}
	okDef := false
	for _, cl := range sw.Body.List {
		cc := cl.(*ast.CaseClause)
		if cc.List == nil && hasDefault && returnsError(info, cc.Body) {
			okDef = true
		}
	}
	r.Ob("T1", "dumpProto default arm", prog.Pos(sw.Pos()), okDef, "unsupported wire types must be reported as an error")
	// T3
	n := errPropagated(r, prog, info, f, "T3", func(call *ast.CallExpr) (string, bool) {
		fn := staticCallee(info, call)
		if fn == nil || fn.Pkg() == nil {
			return "", false
		}
		if fn.Pkg().Path() == csp && strings.HasPrefix(fn.Name(), "Decode") && fn.Type().(*types.Signature).Recv() != nil {
			called[fn.Name()] = true
			return "dec." + fn.Name(), true
		}
		if fn.Name() == "dumpProto" {
			return "dumpProto (recursion)", true
		}
		return "", false
	})
	r.Floor("decoder calls in dumpProto", n, 6)
	// T5
	okRec, recDetail := false, "no recursive call found"
	parents := parentMap(f.Decl.Body)
	ast.Inspect(f.Decl.Body, func(nn ast.Node) bool {
		c, ok := nn.(*ast.CallExpr)
		if !ok {
			return true
		}
		if fn := staticCallee(info, c); fn == nil || fn.Name() != "dumpProto" || len(c.Args) < 3 {
			return true
		}
		pathArg, ok := c.Args[2].(*ast.Ident)
		if !ok {
			recDetail = "the path passed down is not a variable"
			return true
		}
		pathObj := info.Uses[pathArg]
		// enclosing if shouldExpand(pathObj)
		guarded := false
		for cur := ast.Node(c); cur != nil; cur = parents[cur] {
			if is, ok := parents[cur].(*ast.IfStmt); ok && ast.Node(is.Body) == cur {
				if gc, ok := is.Cond.(*ast.CallExpr); ok && strings.HasSuffix(types.ExprString(gc.Fun), "shouldExpand") && len(gc.Args) == 1 {
					if id, ok := gc.Args[0].(*ast.Ident); ok && info.Uses[id] == pathObj {
						guarded = true
					}
				}
			}
		}
		// definition: append(parent, tag)
		defOK := false
		ast.Inspect(f.Decl.Body, func(m ast.Node) bool {
			as, ok := m.(*ast.AssignStmt)
			if !ok || len(as.Lhs) != 1 || len(as.Rhs) != 1 {
				return true
			}
			if id, ok := as.Lhs[0].(*ast.Ident); !ok || info.Defs[id] != pathObj {
				return true
			}
			if ac, ok := as.Rhs[0].(*ast.CallExpr); ok && types.ExprString(ac.Fun) == "append" && len(ac.Args) == 2 {
				a0, ok0 := ac.Args[0].(*ast.Ident)
				a1, ok1 := ac.Args[1].(*ast.Ident)
				if ok0 && ok1 {
					// a0 is the parent path parameter, a1 the tag from DecodeTag
					isParam := false
					for _, fl := range f.Decl.Type.Params.List {
						for _, nm := range fl.Names {
							if info.Defs[nm] == info.Uses[a0] {
								isParam = true
							}
						}
					}
					defOK = isParam && assignedFromCall(&pkgIndex{pk: pd}, f, info.Uses[a1], "DecodeTag")
				}
			}
			return true
		})
		okRec = guarded && defOK
		recDetail = fmt.Sprintf("recursion guarded by shouldExpand(path)=%v; path = append(parent, tag from DecodeTag)=%v", guarded, defOK)
		return true
	})
	r.Ob("T5", "dumpProto recursion only into requested paths", prog.Pos(f.Pos()), okRec, recDetail)
	// T6
	ns := stdinSizeRule(r, prog, pd)
	r.Counts["uses of the stdin FileInfo"] = ns
	mustFire(r, "T6", `package fx
import "os"
func main() {
	f := os.Stdin
	fi, err := f.Stat()
	if err != nil { return }
	if fi.Size() == 0 { os.Exit(1) }
}`, func(fr *core.Result, fprog *core.Program, fpk *packages.Package) { stdinSizeRule(fr, fprog, fpk) })
	var cl []string
	for k := range called {
		cl = append(cl, k)
	}
	sort.Strings(cl)
	r.Sample(map[string]interface{}{"decoder_methods_called_by_protodump": cl})

	// annotated hex
	hinfo := pt.TypesInfo
	hf := core.FindFunc(pt, "ParseAnnotatedHex")
	if hf == nil {
		r.Fail("anchor", "ParseAnnotatedHex", "", "function not found")
		return
	}
	nh := errPropagated(r, prog, hinfo, hf, "H1", func(call *ast.CallExpr) (string, bool) {
		if fn := staticCallee(hinfo, call); fn != nil && fn.Pkg() != nil && fn.Pkg().Path() == "encoding/hex" {
			return "hex." + fn.Name(), true
		}
		return "", false
	})
	r.Floor("hex decoding calls", nh, 1)
	// appends to the result come only from the decoder's output
	var resObj types.Object
	ast.Inspect(hf.Decl.Body, func(n ast.Node) bool {
		if ret, ok := n.(*ast.ReturnStmt); ok && len(ret.Results) == 2 && isNilIdentExpr(ret.Results[1]) {
			if id, ok := ret.Results[0].(*ast.Ident); ok {
				resObj = hinfo.Uses[id]
			}
		}
		return true
	})
	okApp, nApp := resObj != nil, 0
	ast.Inspect(hf.Decl.Body, func(n ast.Node) bool {
		as, ok := n.(*ast.AssignStmt)
		if !ok || len(as.Lhs) != 1 || len(as.Rhs) != 1 {
			return true
		}
		if id, ok := as.Lhs[0].(*ast.Ident); !ok || hinfo.Uses[id] != resObj {
			return true
		}
		nApp++
		c, ok := as.Rhs[0].(*ast.CallExpr)
		if !ok || types.ExprString(c.Fun) != "append" || len(c.Args) != 2 || c.Ellipsis == 0 {
			okApp = false
			return true
		}
		if a0, ok := c.Args[0].(*ast.Ident); !ok || hinfo.Uses[a0] != resObj {
			okApp = false
		}
		if a1, ok := c.Args[1].(*ast.Ident); !ok || !assignedFromCall(&pkgIndex{pk: pt}, hf, hinfo.Uses[a1], "DecodeString") {
			okApp = false
		}
		return true
	})
	r.Ob("H2", "ParseAnnotatedHex output is appended only from hex.DecodeString results", prog.Pos(hf.Pos()), okApp && nApp >= 1, "the returned bytes must be exactly the concatenation of the decoded lines")
}

package checks

import (
	"fmt"
	"go/ast"
	"go/token"
	"go/types"
	"sort"
	"strings"
	"unicode"

	"golang.org/x/tools/go/packages"

	"csverify/bounds"
	"csverify/core"
	"csverify/lin"
)

func init() { register("C20", checkC20) }

// per wire type: decoder methods that read exactly one value of that type
var dumpReaders = map[string][]string{
	"WireTypeVarint":          {"DecodeInt64", "DecodeUInt64"},
	"WireTypeFixed32":         {"DecodeFixed32"},
	"WireTypeFixed64":         {"DecodeFixed64"},
	"WireTypeLengthDelimited": {"DecodeBytes"},
}

func stdinSizeRule(r *core.Result, prog *core.Program, pk *packages.Package) int {
	info := pk.TypesInfo
	n := 0
	for _, f := range core.Funcs(pk) {
		if f.Decl == nil {
			continue
		}
		// file variables that may hold os.Stdin
		stdinVars := map[types.Object]bool{}
		ast.Inspect(f.Decl.Body, func(nn ast.Node) bool {
			if as, ok := nn.(*ast.AssignStmt); ok && len(as.Lhs) == len(as.Rhs) {
				for i, rhs := range as.Rhs {
					if types.ExprString(rhs) == "os.Stdin" {
						if id, ok := as.Lhs[i].(*ast.Ident); ok {
							if o := info.Uses[id]; o != nil {
								stdinVars[o] = true
							} else if o := info.Defs[id]; o != nil {
								stdinVars[o] = true
							}
						}
					}
				}
			}
			return true
		})
		// FileInfo variables obtained from Stat() on stdin
		infoVars := map[types.Object]bool{}
		ast.Inspect(f.Decl.Body, func(nn ast.Node) bool {
			as, ok := nn.(*ast.AssignStmt)
			if !ok || len(as.Rhs) != 1 {
				return true
			}
			c, ok := as.Rhs[0].(*ast.CallExpr)
			if !ok {
				return true
			}
			se, ok := c.Fun.(*ast.SelectorExpr)
			if !ok || se.Sel.Name != "Stat" {
				return true
			}
			onStdin := types.ExprString(se.X) == "os.Stdin"
			if id, ok := se.X.(*ast.Ident); ok && stdinVars[info.Uses[id]] {
				onStdin = true
			}
			if onStdin {
				if id, ok := as.Lhs[0].(*ast.Ident); ok {
					if o := info.Uses[id]; o != nil {
						infoVars[o] = true
					} else if o := info.Defs[id]; o != nil {
						infoVars[o] = true
					}
				}
			}
			return true
		})
		if len(infoVars) == 0 {
			continue
		}
		ast.Inspect(f.Decl.Body, func(nn ast.Node) bool {
			c, ok := nn.(*ast.CallExpr)
			if !ok {
				return true
			}
			se, ok := c.Fun.(*ast.SelectorExpr)
			if !ok {
				return true
			}
			if id, ok := se.X.(*ast.Ident); ok && infoVars[info.Uses[id]] {
				n++
				r.Ob("T6", f.Name+" :: stdin FileInfo."+se.Sel.Name+"()", prog.Pos(c.Pos()), se.Sel.Name != "Size",
					"whether stdin carries data is decided from Stat().Size(), which is 0 for a pipe: `cat message.bin | protodump` (the README's own example) is rejected as 'no data'")
			}
			return true
		})
	}
	return n
}

func checkC20(r *core.Result) {
	r.Explanation = "Static clauses of the diagnostic tools: protodump's dump loop has an arm for every declared WireType constant and an erroring default (T1); each arm reads its value with a csproto.Decoder method of that wire type (T2, table); every decoder error is returned (T3); recursion happens only under shouldExpand(p) on the same path p = append(parent, tag) that is passed down, with tag taken from DecodeTag (T5); the result of os.Stdin.Stat() is not used through Size() to decide whether input was piped (T6); only csproto.Decoder methods whose bounds obligations are discharged by C03 are called (list in the evidence). " +
		"ParseAnnotatedHex: the error of hex.DecodeString is returned and the output is appended only from its result, in line order (H1, H2); a character-class analysis of the transformations applied to each line shows that every unicode white-space character is removed before hex decoding (H3); protodump's calls with a non-negative-count precondition (strings.Repeat, Builder.Grow, make) get counts that are non-negative by construction (T7); the lines are the pieces of strings.Split(input, LF) (or an equivalent total splitter) and no API outside the total string packages is consulted (H4)."
	r.RuleText = "one obligation per arm / decoder call / structural rule"
	r.Assumptions = []string{"not decided: string-level behaviour of ParseAnnotatedHex (comment and whitespace placement), the exact text protodump prints, tag-path parsing"}
	r.Trusted = []string{"go/types", "reader table (checks/c20.go)", "C03 for the Decoder methods"}
	prog, err := core.Load("./...")
	if err != nil {
		r.Infra("%v", err)
		return
	}
	pd := prog.Pkg("cmd/protodump")
	if root := prog.Pkg(""); root != nil {
		r.Floor("varint overflow harnesses", checkVarintOverflow(r, prog, root), 24)
	}
	protodumpEntryRule(r, prog, pd)
	tagPathMatchRule(r, prog, pd)
	nT7 := protodumpPanicFreeCalls(r, prog, pd)
	r.Floor("library calls with a non-negative-count precondition in protodump", nT7, 1)
	r.Floor("protodump functions with a slice parameter", protodumpNoRetain(r, prog, pd), 3)
	mustFire(r, "T12", `package fx
type T struct{ last []int }
func (t *T) M(p []int) bool { q := p[:1]; t.last = q; return len(q) > 0 }`, func(fr *core.Result, fprog *core.Program, fpk *packages.Package) { protodumpNoRetain(fr, fprog, fpk) })
	pt := prog.Pkg("prototest")
	if pd == nil || pt == nil {
		r.Infra("packages cmd/protodump / prototest not loaded")
		return
	}
	info := pd.TypesInfo
	f := core.FindFunc(pd, "dumpProto")
	if f == nil {
		r.Fail("anchor", "dumpProto", "", "function not found")
		return
	}
	var sw *ast.SwitchStmt
	ast.Inspect(f.Decl.Body, func(n ast.Node) bool {
		if s, ok := n.(*ast.SwitchStmt); ok && s.Tag != nil && sw == nil {
			if t := info.TypeOf(s.Tag); t != nil && namedOf(t) == "WireType" {
				sw = s
			}
		}
		return true
	})
	if sw == nil {
		r.Fail("T1", "dumpProto switch wireType", prog.Pos(f.Pos()), "no switch over the wire type")
		return
	}
	arms, hasDefault := caseConsts(info, sw)
	consts := wireTypeConsts(prog)
	var names []string
	for n := range consts {
		names = append(names, n)
	}
	sort.Strings(names)
	called := map[string]bool{}
	for _, n := range names {
		cc := arms[n]
		r.Ob("T1", "dumpProto case "+n, prog.Pos(sw.Pos()), cc != nil, "declared wire type has no arm in protodump")
		if cc == nil {
			continue
		}
		var readers []string
		for _, s := range cc.Body {
			ast.Inspect(s, func(nn ast.Node) bool {
				if c, ok := nn.(*ast.CallExpr); ok {
					if fn := staticCallee(info, c); fn != nil && fn.Pkg() != nil && fn.Pkg().Path() == csp && strings.HasPrefix(fn.Name(), "Decode") {
						if sig := fn.Type().(*types.Signature); sig.Recv() != nil {
							readers = append(readers, fn.Name())
							called[fn.Name()] = true
						}
					}
				}
				return true
			})
		}
		okR := len(readers) == 1
		if okR {
			okR = false
			for _, w := range dumpReaders[n] {
				if readers[0] == w {
					okR = true
				}
			}
		}
		r.Ob("T2", "dumpProto case "+n+" reader", prog.Pos(cc.Pos()), okR, fmt.Sprintf("arm reads with %v; a field of this wire type must be read by one of %v", readers, dumpReaders[n]))
	}
	okDef := false
	for _, cl := range sw.Body.List {
		cc := cl.(*ast.CaseClause)
		if cc.List == nil && hasDefault && returnsError(info, cc.Body) {
			okDef = true
		}
	}
	r.Ob("T1", "dumpProto default arm", prog.Pos(sw.Pos()), okDef, "unsupported wire types must be reported as an error")
	// T3
	n := errPropagated(r, prog, info, f, "T3", func(call *ast.CallExpr) (string, bool) {
		fn := staticCallee(info, call)
		if fn == nil || fn.Pkg() == nil {
			return "", false
		}
		if fn.Pkg().Path() == csp && strings.HasPrefix(fn.Name(), "Decode") && fn.Type().(*types.Signature).Recv() != nil {
			called[fn.Name()] = true
			return "dec." + fn.Name(), true
		}
		if fn.Name() == "dumpProto" {
			return "dumpProto (recursion)", true
		}
		return "", false
	})
	r.Floor("decoder calls in dumpProto", n, 6)
	// T5
	okRec, recDetail := false, "no recursive call found"
	parents := parentMap(f.Decl.Body)
	ast.Inspect(f.Decl.Body, func(nn ast.Node) bool {
		c, ok := nn.(*ast.CallExpr)
		if !ok {
			return true
		}
		if fn := staticCallee(info, c); fn == nil || fn.Name() != "dumpProto" || len(c.Args) < 3 {
			return true
		}
		pathArg, ok := c.Args[2].(*ast.Ident)
		if !ok {
			recDetail = "the path passed down is not a variable"
			return true
		}
		pathObj := info.Uses[pathArg]
		// dominated by shouldExpand(pathObj) being true (enclosing if, or a guard clause `if !shouldExpand(p) { continue }`)
		guarded := dominatedBy(parents, c, func(e ast.Expr) bool {
			gc, ok := e.(*ast.CallExpr)
			if !ok || !strings.HasSuffix(types.ExprString(gc.Fun), "shouldExpand") || len(gc.Args) != 1 {
				return false
			}
			id, ok := gc.Args[0].(*ast.Ident)
			return ok && info.Uses[id] == pathObj
		})
		// definition: append(parent, tag)
		defOK := false
		ast.Inspect(f.Decl.Body, func(m ast.Node) bool {
			as, ok := m.(*ast.AssignStmt)
			if !ok || len(as.Lhs) != 1 || len(as.Rhs) != 1 {
				return true
			}
			if id, ok := as.Lhs[0].(*ast.Ident); !ok || info.Defs[id] != pathObj {
				return true
			}
			if ac, ok := as.Rhs[0].(*ast.CallExpr); ok && types.ExprString(ac.Fun) == "append" && len(ac.Args) == 2 {
				// the parent path, possibly clipped to its length first (parent[:len(parent):len(parent)], a defensive copy)
				base := ast.Unparen(ac.Args[0])
				for {
					se, ok := base.(*ast.SliceExpr)
					if !ok || se.Low != nil {
						break
					}
					base = ast.Unparen(se.X)
				}
				a0, ok0 := base.(*ast.Ident)
				a1, ok1 := ac.Args[1].(*ast.Ident)
				if ok0 && ok1 {
					// a0 is the parent path parameter, a1 the tag from DecodeTag
					isParam := false
					for _, fl := range f.Decl.Type.Params.List {
						for _, nm := range fl.Names {
							if info.Defs[nm] == info.Uses[a0] {
								isParam = true
							}
						}
					}
					defOK = isParam && assignedFromCall(&pkgIndex{pk: pd}, f, info.Uses[a1], "DecodeTag")
				}
			}
			return true
		})
		okRec = guarded && defOK
		recDetail = fmt.Sprintf("recursion guarded by shouldExpand(path)=%v; path = append(parent, tag from DecodeTag)=%v", guarded, defOK)
		return true
	})
	r.Ob("T5", "dumpProto recursion only into requested paths", prog.Pos(f.Pos()), okRec, recDetail)
	// T6
	ns := stdinSizeRule(r, prog, pd)
	r.Counts["uses of the stdin FileInfo"] = ns
	mustFire(r, "T6", `package fx
import "os"
func main() {
	f := os.Stdin
	fi, err := f.Stat()
	if err != nil { return }
	if fi.Size() == 0 { os.Exit(1) }
}`, func(fr *core.Result, fprog *core.Program, fpk *packages.Package) { stdinSizeRule(fr, fprog, fpk) })
	var cl []string
	for k := range called {
		cl = append(cl, k)
	}
	sort.Strings(cl)
	r.Sample(map[string]interface{}{"decoder_methods_called_by_protodump": cl})

	// annotated hex
	hinfo := pt.TypesInfo
	hf := core.FindFunc(pt, "ParseAnnotatedHex")
	if hf == nil {
		r.Fail("anchor", "ParseAnnotatedHex", "", "function not found")
		return
	}
	nh := errPropagated(r, prog, hinfo, hf, "H1", func(call *ast.CallExpr) (string, bool) {
		if fn := staticCallee(hinfo, call); fn != nil && fn.Pkg() != nil && fn.Pkg().Path() == "encoding/hex" {
			return "hex." + fn.Name(), true
		}
		return "", false
	})
	r.Floor("hex decoding calls", nh, 1)
	// appends to the result come only from the decoder's output
	var resObj types.Object
	ast.Inspect(hf.Decl.Body, func(n ast.Node) bool {
		if ret, ok := n.(*ast.ReturnStmt); ok && len(ret.Results) == 2 && isNilIdentExpr(ret.Results[1]) {
			if id, ok := ret.Results[0].(*ast.Ident); ok {
				resObj = hinfo.Uses[id]
			}
		}
		return true
	})
	okApp, nApp := resObj != nil, 0
	ast.Inspect(hf.Decl.Body, func(n ast.Node) bool {
		as, ok := n.(*ast.AssignStmt)
		if !ok || len(as.Lhs) != 1 || len(as.Rhs) != 1 {
			return true
		}
		if id, ok := as.Lhs[0].(*ast.Ident); !ok || hinfo.Uses[id] != resObj {
			return true
		}
		nApp++
		c, ok := as.Rhs[0].(*ast.CallExpr)
		if !ok || types.ExprString(c.Fun) != "append" || len(c.Args) != 2 || c.Ellipsis == 0 {
			okApp = false
			return true
		}
		if a0, ok := c.Args[0].(*ast.Ident); !ok || hinfo.Uses[a0] != resObj {
			okApp = false
		}
		if a1, ok := c.Args[1].(*ast.Ident); !ok || !assignedFromCall(&pkgIndex{pk: pt}, hf, hinfo.Uses[a1], "DecodeString") {
			okApp = false
		}
		return true
	})
	hexWhitespaceRule(r, prog, pt)
	hexLineSourceRule(r, prog, pt)
	hexBoundsRule(r, prog, pt)
	r.Ob("H2", "ParseAnnotatedHex output is appended only from hex.DecodeString results", prog.Pos(hf.Pos()), okApp && nApp >= 1, "the returned bytes must be exactly the concatenation of the decoded lines")
}

// ---------------------------------------------------------------------------
// H3: character-class rule for ParseAnnotatedHex — every white-space character outside comments is
// removed before the text reaches hex.DecodeString ("for every placement of whitespace").

type runeClass struct {
	all bool // every unicode.IsSpace rune
	set map[rune]bool
}

func (c *runeClass) union(o runeClass) {
	if o.all {
		c.all = true
	}
	for r := range o.set {
		if c.set == nil {
			c.set = map[rune]bool{}
		}
		c.set[r] = true
	}
}

// removedByMapFunc: runes for which the strings.Map callback returns a negative value.
func removedByMapFunc(info *types.Info, lit *ast.FuncLit) (runeClass, bool) {
	var out runeClass
	if len(lit.Type.Params.List) != 1 || len(lit.Type.Params.List[0].Names) != 1 {
		return out, false
	}
	param := info.Defs[lit.Type.Params.List[0].Names[0]]
	var condClass func(e ast.Expr) (runeClass, bool)
	condClass = func(e ast.Expr) (runeClass, bool) {
		switch x := e.(type) {
		case *ast.ParenExpr:
			return condClass(x.X)
		case *ast.CallExpr:
			if fn := staticCallee(info, x); fn != nil && fn.Pkg() != nil && fn.Pkg().Path() == "unicode" && fn.Name() == "IsSpace" && len(x.Args) == 1 {
				if id, ok := x.Args[0].(*ast.Ident); ok && info.Uses[id] == param {
					return runeClass{all: true}, true
				}
			}
		case *ast.BinaryExpr:
			if x.Op == token.LOR {
				l, ok1 := condClass(x.X)
				r, ok2 := condClass(x.Y)
				if ok1 && ok2 {
					l.union(r)
					return l, true
				}
			}
			if x.Op == token.EQL {
				if id, ok := x.X.(*ast.Ident); ok && info.Uses[id] == param {
					if tv := info.Types[x.Y]; tv.Value != nil {
						var v int64
						if _, err := fmt.Sscan(tv.Value.ExactString(), &v); err == nil {
							return runeClass{set: map[rune]bool{rune(v): true}}, true
						}
					}
				}
			}
		}
		return runeClass{}, false
	}
	for _, s := range lit.Body.List {
		switch x := s.(type) {
		case *ast.IfStmt:
			if len(x.Body.List) == 1 {
				if ret, ok := x.Body.List[0].(*ast.ReturnStmt); ok && len(ret.Results) == 1 {
					if tv := info.Types[ret.Results[0]]; tv.Value != nil && strings.HasPrefix(tv.Value.ExactString(), "-") {
						c, ok := condClass(x.Cond)
						if !ok {
							return out, false
						}
						out.union(c)
						continue
					}
				}
			}
			return out, false
		case *ast.ReturnStmt:
			// return c: keeps the rest
		default:
			return out, false
		}
	}
	return out, true
}

// replacerRemoved: single-rune patterns replaced by "" in strings.NewReplacer(args...).
func replacerRemoved(info *types.Info, call *ast.CallExpr) (runeClass, bool) {
	var out runeClass
	if len(call.Args)%2 != 0 {
		return out, false
	}
	for i := 0; i+1 < len(call.Args); i += 2 {
		o, n := info.Types[call.Args[i]], info.Types[call.Args[i+1]]
		if o.Value == nil || n.Value == nil {
			return out, false
		}
		os, ns := constantString(o), constantString(n)
		if ns != "" {
			continue
		}
		rs := []rune(os)
		if len(rs) == 1 {
			if out.set == nil {
				out.set = map[rune]bool{}
			}
			out.set[rs[0]] = true
		}
	}
	return out, true
}

func constantString(tv types.TypeAndValue) string {
	s := tv.Value.ExactString()
	if len(s) >= 2 && s[0] == '"' {
		var out string
		if _, err := fmt.Sscanf(s, "%q", &out); err == nil {
			return out
		}
	}
	return s
}

func hexWhitespaceRule(r *core.Result, prog *core.Program, pk *packages.Package) {
	info := pk.TypesInfo
	f := core.FindFunc(pk, "ParseAnnotatedHex")
	if f == nil {
		return
	}
	// replacers declared at package level or locally:  x := strings.NewReplacer(...)
	replacers := map[types.Object]*ast.CallExpr{}
	for _, file := range pk.Syntax {
		ast.Inspect(file, func(n ast.Node) bool {
			var names []*ast.Ident
			var values []ast.Expr
			switch x := n.(type) {
			case *ast.ValueSpec:
				names, values = x.Names, x.Values
			case *ast.AssignStmt:
				for _, l := range x.Lhs {
					if id, ok := l.(*ast.Ident); ok {
						names = append(names, id)
					}
				}
				values = x.Rhs
			}
			for i, v := range values {
				if c, ok := v.(*ast.CallExpr); ok && i < len(names) {
					if fn := staticCallee(info, c); fn != nil && fn.Pkg() != nil && fn.Pkg().Path() == "strings" && fn.Name() == "NewReplacer" {
						if o := info.Defs[names[i]]; o != nil {
							replacers[o] = c
						}
					}
				}
			}
			return true
		})
	}
	// the argument of hex.DecodeString and the transformations applied to it
	var decodeCall *ast.CallExpr
	ast.Inspect(f.Decl.Body, func(n ast.Node) bool {
		if c, ok := n.(*ast.CallExpr); ok {
			if fn := staticCallee(info, c); fn != nil && fn.Pkg() != nil && fn.Pkg().Path() == "encoding/hex" && fn.Name() == "DecodeString" {
				decodeCall = c
			}
		}
		return true
	})
	if decodeCall == nil {
		r.Fail("H3", "ParseAnnotatedHex whitespace removal", prog.Pos(f.Pos()), "no call of hex.DecodeString found")
		return
	}
	argID, ok := decodeCall.Args[0].(*ast.Ident)
	if !ok {
		r.Ob("H3", "ParseAnnotatedHex removes every white-space character before hex decoding", prog.Pos(decodeCall.Pos()), false, "undecided: the decoded text is not a plain variable")
		return
	}
	sObj := info.Uses[argID]
	var removed runeClass
	undecided := ""
	var classify func(e ast.Expr)
	classify = func(e ast.Expr) {
		switch x := e.(type) {
		case *ast.ParenExpr:
			classify(x.X)
		case *ast.Ident, *ast.SliceExpr, *ast.BasicLit:
			// the variable itself, a cut of it, a literal: nothing removed
		case *ast.CallExpr:
			fn := staticCallee(info, x)
			name := ""
			if fn != nil && fn.Pkg() != nil {
				name = fn.Pkg().Path() + "." + fn.Name()
			}
			switch {
			case name == "strings.Map" && len(x.Args) == 2:
				if lit, ok := x.Args[0].(*ast.FuncLit); ok {
					c, ok := removedByMapFunc(info, lit)
					if !ok {
						undecided = "the strings.Map callback is outside the recognised forms"
					}
					removed.union(c)
				} else if decl := namedFuncDecl(pk, info, x.Args[0]); decl != nil {
					// a named function of the package: the same analysis on its body
					c, ok := removedByMapFunc(info, &ast.FuncLit{Type: decl.Type, Body: decl.Body})
					if !ok {
						undecided = "the strings.Map callback " + decl.Name.Name + " is outside the recognised forms"
					}
					removed.union(c)
				} else {
					undecided = "strings.Map with a callback that is neither a literal nor a function of the package"
				}
				classify(x.Args[1])
			case name == "strings.Replace" && fn.Type().(*types.Signature).Recv() != nil && len(x.Args) == 1:
				// (*strings.Replacer).Replace
				if se, ok := x.Fun.(*ast.SelectorExpr); ok {
					if id, ok := se.X.(*ast.Ident); ok {
						if rc, ok := replacers[info.Uses[id]]; ok {
							c, ok := replacerRemoved(info, rc)
							if !ok {
								undecided = "replacer arguments are not constants"
							}
							removed.union(c)
						} else {
							undecided = "replacer of unknown origin"
						}
					}
				}
				classify(x.Args[0])
			case name == "strings.ReplaceAll" && len(x.Args) == 3:
				o, n := info.Types[x.Args[1]], info.Types[x.Args[2]]
				if o.Value != nil && n.Value != nil && constantString(n) == "" {
					if rs := []rune(constantString(o)); len(rs) == 1 {
						removed.union(runeClass{set: map[rune]bool{rs[0]: true}})
					}
				}
				classify(x.Args[0])
			case name == "strings.Join" && len(x.Args) == 2:
				if inner, ok := x.Args[0].(*ast.CallExpr); ok {
					if ifn := staticCallee(info, inner); ifn != nil && ifn.Pkg() != nil && ifn.Pkg().Path() == "strings" && ifn.Name() == "Fields" {
						if sep := info.Types[x.Args[1]]; sep.Value != nil && constantString(sep) == "" {
							removed.union(runeClass{all: true})
							classify(inner.Args[0])
							return
						}
					}
				}
				undecided = "strings.Join of something other than strings.Fields(..) with an empty separator"
			case name == "strings.TrimSpace" && len(x.Args) == 1:
				classify(x.Args[0])
			default:
				undecided = "transformation " + types.ExprString(x.Fun) + " is not modelled"
			}
		default:
			undecided = "expression " + types.ExprString(e) + " is not modelled"
		}
	}
	ast.Inspect(f.Decl.Body, func(n ast.Node) bool {
		as, ok := n.(*ast.AssignStmt)
		if !ok || as.Pos() > decodeCall.Pos() || len(as.Lhs) != len(as.Rhs) {
			return true
		}
		for i, l := range as.Lhs {
			if id, ok := l.(*ast.Ident); ok && (info.Uses[id] == sObj || info.Defs[id] == sObj) {
				classify(as.Rhs[i])
			}
		}
		return true
	})
	missing := []string{}
	if !removed.all {
		for _, rg := range unicode.White_Space.R16 {
			for c := rune(rg.Lo); c <= rune(rg.Hi); c += rune(rg.Stride) {
				if !removed.set[c] {
					missing = append(missing, fmt.Sprintf("U+%04X", c))
				}
			}
		}
	}
	detail := ""
	if undecided != "" {
		detail = "undecided: " + undecided
	} else if len(missing) > 0 {
		detail = "white-space characters that reach hex.DecodeString (and make it reject valid annotated hex): " + strings.Join(firstN(missing, 12), " ")
	}
	r.Ob("H3", "ParseAnnotatedHex removes every white-space character before hex decoding", prog.Pos(decodeCall.Pos()), undecided == "" && len(missing) == 0, detail)
}

// H4: the lines ParseAnnotatedHex works on are the "\n"-separated pieces of the whole input, produced by a total
// splitter, and the function consults no API whose behaviour on arbitrarily long lines is not modelled here.
func hexLineSourceRule(r *core.Result, prog *core.Program, pk *packages.Package) {
	info := pk.TypesInfo
	f := core.FindFunc(pk, "ParseAnnotatedHex")
	if f == nil || len(f.Decl.Type.Params.List) != 1 || len(f.Decl.Type.Params.List[0].Names) != 1 {
		return
	}
	param := info.Defs[f.Decl.Type.Params.List[0].Names[0]]
	totalPkgs := map[string]bool{"strings": true, "unicode": true, "unicode/utf8": true, "encoding/hex": true, "fmt": true, "errors": true, "bytes": true, "slices": true, "strconv": true}
	var foreign []string
	ast.Inspect(f.Decl.Body, func(n ast.Node) bool {
		c, ok := n.(*ast.CallExpr)
		if !ok {
			return true
		}
		fn := staticCallee(info, c)
		if fn == nil || fn.Pkg() == nil || fn.Pkg() == pk.Types {
			return true
		}
		if !totalPkgs[fn.Pkg().Path()] {
			what := fn.Pkg().Path() + "." + fn.Name()
			if fn.Pkg().Path() == "bufio" {
				what += " (a bufio.Scanner stops at a line longer than its buffer and only reports it through Err())"
			}
			foreign = append(foreign, what)
		}
		return true
	})
	r.Ob("H4", "ParseAnnotatedHex uses only total string functions", prog.Pos(f.Pos()), len(foreign) == 0,
		"undecided: the function now depends on "+strings.Join(dedupe(foreign), ", ")+", whose behaviour for every placement of line breaks (arbitrarily long lines) is not modelled")
	// the line loop
	var lineSrc ast.Expr
	for _, st := range f.Decl.Body.List {
		if rs, ok := st.(*ast.RangeStmt); ok && lineSrc == nil {
			lineSrc = rs.X
		}
	}
	okSrc, detail := false, "no range loop over the lines of the input found"
	if lineSrc == nil && cutWalk(info, f.Decl.Body, param) {
		okSrc = true
	}
	if c, ok := lineSrc.(*ast.CallExpr); ok {
		fn := staticCallee(info, c)
		detail = "the lines come from " + types.ExprString(c)
		if fn != nil && fn.Pkg() != nil && fn.Pkg().Path() == "strings" && len(c.Args) >= 1 {
			if id, ok := c.Args[0].(*ast.Ident); ok && info.Uses[id] == param {
				switch fn.Name() {
				case "Split", "SplitAfter", "SplitSeq", "SplitAfterSeq":
					if len(c.Args) == 2 {
						if tv := info.Types[c.Args[1]]; tv.Value != nil && constantString(tv) == "\n" {
							okSrc = true
						}
					}
				case "Lines":
					okSrc = true
				}
			}
		}
	}
	r.Ob("H4", "ParseAnnotatedHex iterates over the \\n-separated pieces of the whole input", prog.Pos(f.Pos()), okSrc,
		"undecided: "+detail+"; comments end at a line break, so the pieces must be exactly the input split at every line feed")
}

// H5: every index / slice expression of ParseAnnotatedHex is in bounds (guard-fact engine with the contracts of
// the strings search functions: -1 <= result < len(s)). In particular the comment cut s[:i] needs i != -1.
func hexBoundsRule(r *core.Result, prog *core.Program, pk *packages.Package) {
	f := core.FindFunc(pk, "ParseAnnotatedHex")
	if f == nil {
		return
	}
	idx := func(v bounds.View) []lin.Fact {
		res, ok1 := v.Result(0)
		l, ok2 := v.ParamLen(0)
		if !ok1 || !ok2 {
			return nil
		}
		return []lin.Fact{lin.LE(lin.Const(-1), res), lin.LE(res, l.Add(lin.Const(-1)))}
	}
	cfg := &bounds.Config{Info: pk.TypesInfo, Fset: prog.Fset, Sizes: pk.TypesSizes,
		Specs: map[string]*bounds.FuncSpec{
			"strings.Index":     {ErrIdx: -1, Post: idx},
			"strings.IndexByte": {ErrIdx: -1, Post: idx},
			"strings.IndexRune": {ErrIdx: -1, Post: idx},
			"strings.IndexAny":  {ErrIdx: -1, Post: idx},
			"strings.LastIndex": {ErrIdx: -1, Post: idx},
		},
	}
	n := 0
	obs, unsup := bounds.Analyze(cfg, funcSource(pk, f, false))
	for _, u := range unsup {
		r.Fail("unsupported-construct", f.Name+" :: "+u, prog.Pos(f.Pos()), "the engine does not model this construct; index obligations in this function are undecided (fail closed)")
	}
	keyer := &obKeyer{}
	for _, ob := range obs {
		if ob.Rule != "O-idx" {
			continue
		}
		n++
		r.Ob("H5", keyer.key(f.Name, ob.Site), prog.Pos(ob.Pos), ob.OK, ob.Detail)
	}
	// every index / slice expression of the function has an obligation (a function without any has nothing to prove)
	nSyn := 0
	ast.Inspect(f.Decl.Body, func(nn ast.Node) bool {
		switch nn.(type) {
		case *ast.IndexExpr, *ast.SliceExpr:
			nSyn++
		}
		return true
	})
	r.Counts["index sites of ParseAnnotatedHex"] = n
	r.Ob("H5", f.Name+" :: every index / slice expression has a bounds obligation", prog.Pos(f.Pos()), n >= nSyn, fmt.Sprintf("%d index / slice expressions, %d obligations", nSyn, n))
}

// namedFuncDecl resolves an identifier that names a function declared in pk.
func namedFuncDecl(pk *packages.Package, info *types.Info, e ast.Expr) *ast.FuncDecl {
	id, ok := ast.Unparen(e).(*ast.Ident)
	if !ok {
		return nil
	}
	fn, ok := info.Uses[id].(*types.Func)
	if !ok || fn.Pkg() != pk.Types {
		return nil
	}
	for _, file := range pk.Syntax {
		for _, d := range file.Decls {
			if fd, ok := d.(*ast.FuncDecl); ok && info.Defs[fd.Name] == fn && fd.Body != nil {
				return fd
			}
		}
	}
	return nil
}

// cutWalk recognises the other total way of visiting the "\n"-separated pieces of the input:
//
//	for <…> rest, more := <…> param, true; more; <…> {
//		line, rest, more = strings.Cut(rest, "\n")
//
// i.e. a loop that runs while the `found` result of strings.Cut(rest, "\n") is true, starts with rest = the whole
// input and more = true, and cuts as its first statement. The pieces are exactly those of strings.Split(input, "\n").
func cutWalk(info *types.Info, body *ast.BlockStmt, param types.Object) bool {
	for _, st := range body.List {
		fs, ok := st.(*ast.ForStmt)
		if !ok || fs.Init == nil || fs.Cond == nil || len(fs.Body.List) == 0 {
			continue
		}
		init, ok := fs.Init.(*ast.AssignStmt)
		condID, ok2 := fs.Cond.(*ast.Ident)
		if !ok || !ok2 || init.Tok != token.DEFINE || len(init.Lhs) != len(init.Rhs) {
			continue
		}
		var restObj, moreObj types.Object
		for i, l := range init.Lhs {
			id, ok := l.(*ast.Ident)
			if !ok {
				continue
			}
			if rid, ok := init.Rhs[i].(*ast.Ident); ok && info.Uses[rid] == param {
				restObj = info.Defs[id]
			}
			if tv := info.Types[init.Rhs[i]]; tv.Value != nil && tv.Value.String() == "true" {
				moreObj = info.Defs[id]
			}
		}
		if restObj == nil || moreObj == nil || info.Uses[condID] != moreObj {
			continue
		}
		// the first statement that assigns rest / more is the cut, and nothing else assigns them
		nAssign, okCut := 0, false
		ast.Inspect(fs, func(n ast.Node) bool {
			as, ok := n.(*ast.AssignStmt)
			if !ok || as == init {
				return true
			}
			touches := false
			for _, l := range as.Lhs {
				if id, ok := l.(*ast.Ident); ok && (info.Uses[id] == restObj || info.Uses[id] == moreObj) {
					touches = true
				}
			}
			if !touches {
				return true
			}
			nAssign++
			if len(as.Lhs) == 3 && len(as.Rhs) == 1 {
				c, ok := as.Rhs[0].(*ast.CallExpr)
				l1, ok1 := as.Lhs[1].(*ast.Ident)
				l2, ok2 := as.Lhs[2].(*ast.Ident)
				if ok && ok1 && ok2 && info.Uses[l1] == restObj && info.Uses[l2] == moreObj && len(c.Args) == 2 {
					if fn := staticCallee(info, c); fn != nil && fn.Pkg() != nil && fn.Pkg().Path() == "strings" && fn.Name() == "Cut" {
						a0, isID := c.Args[0].(*ast.Ident)
						if tv := info.Types[c.Args[1]]; isID && info.Uses[a0] == restObj && tv.Value != nil && constantString(tv) == "\n" {
							okCut = true
						}
					}
				}
			}
			return true
		})
		// the cut must come before anything that can `continue`
		first := false
		switch x := fs.Body.List[0].(type) {
		case *ast.AssignStmt:
			first = len(x.Lhs) == 3
		case *ast.DeclStmt:
			if len(fs.Body.List) > 1 {
				if as, ok := fs.Body.List[1].(*ast.AssignStmt); ok {
					first = len(as.Lhs) == 3
				}
			}
		}
		if okCut && nAssign == 1 && first {
			return true
		}
	}
	return false
}

// ---------------------------------------------------------------------------
// T7: protodump does not panic through a library precondition: the count / size arguments of strings.Repeat,
// (*strings.Builder).Grow, (*bytes.Buffer).Grow and make are non-negative by construction.

func protodumpPanicFreeCalls(r *core.Result, prog *core.Program, pk *packages.Package) int {
	info := pk.TypesInfo
	// integer struct fields that are non-negative by discipline: initialised with a constant >= 0, changed only by
	// ++ and by a -- that follows a ++ on the same expression in the same block
	type fieldKey struct{ name string }
	disciplined := map[string]bool{}
	violated := map[string]bool{}
	for _, file := range pk.Syntax {
		ast.Inspect(file, func(n ast.Node) bool {
			switch x := n.(type) {
			case *ast.KeyValueExpr:
				if id, ok := x.Key.(*ast.Ident); ok {
					if tv := info.Types[x.Value]; tv.Value != nil && isInt(tv.Type) {
						if !strings.HasPrefix(tv.Value.ExactString(), "-") {
							disciplined[id.Name] = true
						} else {
							violated[id.Name] = true
						}
					}
				}
			case *ast.BlockStmt:
				balance := map[string]int{}
				for _, st := range x.List {
					ast.Inspect(st, func(m ast.Node) bool {
						if _, isBlock := m.(*ast.BlockStmt); isBlock && m != ast.Node(st) {
							return false // nested blocks are handled on their own
						}
						switch y := m.(type) {
						case *ast.IncDecStmt:
							if se, ok := y.X.(*ast.SelectorExpr); ok {
								k := types.ExprString(se)
								if y.Tok == token.INC {
									balance[k]++
								} else {
									balance[k]--
									if balance[k] < 0 {
										violated[se.Sel.Name] = true
									}
								}
							}
						case *ast.AssignStmt:
							for _, l := range y.Lhs {
								if se, ok := l.(*ast.SelectorExpr); ok && isInt(info.TypeOf(se)) {
									violated[se.Sel.Name] = true // assigned some other way: not tracked
								}
							}
						}
						return true
					})
				}
			}
			return true
		})
	}
	var nonNeg func(e ast.Expr, depth int) bool
	nonNeg = func(e ast.Expr, depth int) bool {
		if depth > 4 {
			return false
		}
		if tv := info.Types[e]; tv.Value != nil {
			return !strings.HasPrefix(tv.Value.ExactString(), "-")
		}
		switch x := e.(type) {
		case *ast.ParenExpr:
			return nonNeg(x.X, depth)
		case *ast.CallExpr:
			if id, ok := x.Fun.(*ast.Ident); ok && (id.Name == "len" || id.Name == "cap") {
				return true
			}
			if tv, ok := info.Types[x.Fun]; ok && tv.IsType() && len(x.Args) == 1 {
				return nonNeg(x.Args[0], depth+1) // conversion between integer types of a non-negative value (no narrowing assumed for sizes)
			}
		case *ast.BinaryExpr:
			switch x.Op {
			case token.ADD, token.MUL:
				return nonNeg(x.X, depth+1) && nonNeg(x.Y, depth+1)
			case token.SHL, token.SHR, token.QUO, token.REM:
				return nonNeg(x.X, depth+1) && nonNeg(x.Y, depth+1)
			}
		case *ast.SelectorExpr:
			return disciplined[x.Sel.Name] && !violated[x.Sel.Name]
		case *ast.Ident:
			// a local whose every assignment is non-negative
			obj := info.Uses[x]
			if obj == nil {
				return false
			}
			all, any := true, false
			for _, file := range pk.Syntax {
				ast.Inspect(file, func(n ast.Node) bool {
					as, ok := n.(*ast.AssignStmt)
					if !ok || len(as.Lhs) != len(as.Rhs) {
						return true
					}
					for i, l := range as.Lhs {
						if id, ok := l.(*ast.Ident); ok && (info.Defs[id] == obj || info.Uses[id] == obj) {
							any = true
							if as.Tok != token.ASSIGN && as.Tok != token.DEFINE || !nonNeg(as.Rhs[i], depth+1) {
								all = false
							}
						}
					}
					return true
				})
			}
			return any && all
		}
		return false
	}
	n := 0
	for _, file := range pk.Syntax {
		if strings.HasSuffix(prog.Fset.Position(file.Pos()).Filename, "_test.go") {
			continue
		}
		ast.Inspect(file, func(nn ast.Node) bool {
			c, ok := nn.(*ast.CallExpr)
			if !ok {
				return true
			}
			var args []ast.Expr
			name := ""
			if id, ok := c.Fun.(*ast.Ident); ok && id.Name == "make" && len(c.Args) >= 2 {
				if _, isB := info.Uses[id].(*types.Builtin); isB {
					args, name = c.Args[1:], "make"
				}
			} else if fn := staticCallee(info, c); fn != nil && fn.Pkg() != nil {
				switch fn.Pkg().Path() + "." + fn.Name() {
				case "strings.Repeat":
					args, name = c.Args[1:2], "strings.Repeat"
				case "strings.Grow", "bytes.Grow":
					args, name = c.Args[0:1], fn.Pkg().Path()+".(…).Grow"
				}
			}
			for _, a := range args {
				n++
				r.Ob("T7", "protodump :: "+name+" count "+types.ExprString(a)+" is non-negative", prog.Pos(c.Pos()), nonNeg(a, 0),
					"the argument is not non-negative by construction (for example it subtracts from a length that can be zero): "+name+" panics on a negative count, so a valid message can crash protodump")
			}
			return true
		})
	}
	return n
}

// T8/T9: per-field output and error tests of protodump.
func protodumpEntryRule(r *core.Result, prog *core.Program, pk *packages.Package) {
	info := pk.TypesInfo
	f := core.FindFunc(pk, "dumpProto")
	if f == nil {
		return
	}
	// the loop that reads keys
	var loop *ast.ForStmt
	var tagObj, wtObj types.Object
	ast.Inspect(f.Decl.Body, func(n ast.Node) bool {
		fs, ok := n.(*ast.ForStmt)
		if !ok || loop != nil {
			return true
		}
		for _, st := range fs.Body.List {
			if as, ok := st.(*ast.AssignStmt); ok && len(as.Lhs) == 3 && len(as.Rhs) == 1 {
				if c, ok := as.Rhs[0].(*ast.CallExpr); ok {
					if fn := staticCallee(info, c); fn != nil && fn.Name() == "DecodeTag" {
						loop = fs
						if id, ok := as.Lhs[0].(*ast.Ident); ok {
							tagObj = info.Defs[id]
						}
						if id, ok := as.Lhs[1].(*ast.Ident); ok {
							wtObj = info.Defs[id]
						}
					}
				}
			}
		}
		return true
	})
	if loop == nil {
		r.Fail("T8", "dumpProto key loop", prog.Pos(f.Pos()), "no loop around DecodeTag found")
		return
	}
	// a top-level statement of the loop body writes both the field number and the wire type
	writes := false
	for _, st := range loop.Body.List {
		if _, isSwitch := st.(*ast.SwitchStmt); isSwitch {
			break // must be emitted before the value is consumed, unconditionally
		}
		usesTag, usesWT, isWrite := false, false, false
		ast.Inspect(st, func(n ast.Node) bool {
			switch x := n.(type) {
			case *ast.Ident:
				if info.Uses[x] == tagObj {
					usesTag = true
				}
				if info.Uses[x] == wtObj {
					usesWT = true
				}
			case *ast.CallExpr:
				if se, ok := x.Fun.(*ast.SelectorExpr); ok && (strings.HasPrefix(se.Sel.Name, "Write") || strings.HasPrefix(se.Sel.Name, "Fprint") || strings.HasPrefix(se.Sel.Name, "Print")) {
					isWrite = true
				}
			}
			return true
		})
		if _, isIf := st.(*ast.IfStmt); !isIf && usesTag && usesWT && isWrite {
			writes = true
		}
	}
	r.Ob("T8", "dumpProto writes an entry with field number and wire type for every key it reads", prog.Pos(loop.Pos()), writes,
		"no unconditional write of both the field number and the wire type between DecodeTag and the value switch: fields are consumed without an entry in the output")
	// the buffered writer is flushed on every exit (deferred)
	flushed := false
	for _, st := range f.Decl.Body.List {
		if ds, ok := st.(*ast.DeferStmt); ok {
			if se, ok := ds.Call.Fun.(*ast.SelectorExpr); ok && se.Sel.Name == "Flush" {
				flushed = true
			}
		}
	}
	usesBuf := false
	ast.Inspect(f.Decl.Body, func(n ast.Node) bool {
		if c, ok := n.(*ast.CallExpr); ok {
			if fn := staticCallee(info, c); fn != nil && fn.Pkg() != nil && fn.Pkg().Path() == "bufio" && fn.Name() == "NewWriter" {
				usesBuf = true
			}
		}
		return true
	})
	r.Ob("T8", "dumpProto flushes its buffered output on every exit", prog.Pos(f.Pos()), !usesBuf || flushed, "the output goes through a bufio.Writer that is not flushed by a deferred call: entries are lost on some exit")
	n := 0
	for _, name := range []string{"dumpProto", "dumpProtoFile"} {
		if g := core.FindFunc(pk, name); g != nil {
			n += checkErrorTests(r, prog, info, "T9", name, g.Decl.Body)
		}
	}
	r.Floor("error tests in protodump's dump functions", n, 5)
}

// tagPathMatchRule (T11): (tagPath).Matches compares the configured path with a field's path element by
// element; the type's documentation gives the element 0 the meaning "all fields at that level", and Set
// accepts it. The only way out of the loop with `false` is a mismatch of a non-zero element, the lengths are
// compared first, and the function ends with `return true`.
func tagPathMatchRule(r *core.Result, prog *core.Program, pd *packages.Package) {
	if pd == nil {
		return
	}
	f := core.FindFunc(pd, "tagPath.Matches")
	if f == nil || f.Decl == nil {
		r.Fail("anchor", "tagPath.Matches", "", "function not found")
		return
	}
	info := pd.TypesInfo
	recv := info.Defs[f.Decl.Recv.List[0].Names[0]]
	var loop *ast.RangeStmt
	for _, st := range f.Decl.Body.List {
		if rs, ok := st.(*ast.RangeStmt); ok {
			if id, ok := ast.Unparen(rs.X).(*ast.Ident); ok && info.Uses[id] == recv {
				loop = rs
			}
		}
	}
	if loop == nil || loop.Value == nil {
		r.Ob("T11", "tagPath.Matches :: element 0 of a configured path matches every field number", prog.Pos(f.Pos()), false, "expected a loop over the receiver's elements")
		return
	}
	elem := info.Defs[loop.Value.(*ast.Ident)]
	isElem := func(e ast.Expr) bool {
		id, ok := ast.Unparen(e).(*ast.Ident)
		return ok && info.Uses[id] == elem
	}
	isZero := func(e ast.Expr) bool {
		tv, ok := info.Types[e]
		return ok && tv.Value != nil && tv.Value.String() == "0"
	}
	wild := true
	why := ""
	skipZero := false // a preceding `if t == 0 { continue }`
	nRet := 0
	for _, st := range loop.Body.List {
		is, ok := st.(*ast.IfStmt)
		if !ok {
			continue
		}
		if b, ok := ast.Unparen(is.Cond).(*ast.BinaryExpr); ok && b.Op == token.EQL && (isElem(b.X) && isZero(b.Y) || isElem(b.Y) && isZero(b.X)) && len(is.Body.List) == 1 {
			if br, ok := is.Body.List[0].(*ast.BranchStmt); ok && br.Tok == token.CONTINUE {
				skipZero = true
				continue
			}
		}
		returnsFalse := false
		ast.Inspect(is.Body, func(n ast.Node) bool {
			if ret, ok := n.(*ast.ReturnStmt); ok && len(ret.Results) == 1 && types.ExprString(ret.Results[0]) == "false" {
				returnsFalse = true
			}
			return true
		})
		if !returnsFalse {
			continue
		}
		nRet++
		guarded := skipZero
		var flat func(e ast.Expr)
		flat = func(e ast.Expr) {
			e = ast.Unparen(e)
			if b, ok := e.(*ast.BinaryExpr); ok {
				if b.Op == token.LAND {
					flat(b.X)
					flat(b.Y)
					return
				}
				if b.Op == token.NEQ && (isElem(b.X) && isZero(b.Y) || isElem(b.Y) && isZero(b.X)) {
					guarded = true
				}
			}
		}
		flat(is.Cond)
		if !guarded {
			wild = false
			why = "`if " + types.ExprString(is.Cond) + " { return false }` also rejects the element 0"
		}
	}
	r.Ob("T11", "tagPath.Matches :: element 0 of a configured path matches every field number", prog.Pos(loop.Pos()), wild && nRet > 0,
		"the documentation of tagPath gives 0 the meaning `all fields at that level` and Set accepts it, but "+why+": `-expand 0` never matches a field")
}

// protodumpNoRetain (T12): the dump loop builds the path of each field with append(parent, tag), so the paths of
// sibling fields can share one backing array; a path handed to a function is therefore valid only during the call.
// No function of the package stores a slice-typed parameter (or a reslice of it, or a local assigned from it) in a
// struct field or a package-level variable - it would change under the holder when the next sibling is visited.
func protodumpNoRetain(r *core.Result, prog *core.Program, pd *packages.Package) int {
	info := pd.TypesInfo
	n := 0
	for _, f := range core.Funcs(pd) {
		if f.Decl == nil || f.Decl.Body == nil {
			continue
		}
		params := map[types.Object]bool{}
		for _, fl := range f.Decl.Type.Params.List {
			for _, nm := range fl.Names {
				if o := info.Defs[nm]; o != nil {
					if _, ok := o.Type().Underlying().(*types.Slice); ok {
						params[o] = true
					}
				}
			}
		}
		if len(params) == 0 {
			continue
		}
		n++
		// locals assigned from a parameter (to a fixed point)
		tainted := func(e ast.Expr) bool {
			for {
				switch x := ast.Unparen(e).(type) {
				case *ast.SliceExpr:
					e = x.X
					continue
				case *ast.Ident:
					return params[info.Uses[x]]
				}
				return false
			}
		}
		for changed := true; changed; {
			changed = false
			ast.Inspect(f.Decl.Body, func(nd ast.Node) bool {
				as, ok := nd.(*ast.AssignStmt)
				if !ok || len(as.Lhs) != len(as.Rhs) {
					return true
				}
				for i, l := range as.Lhs {
					if id, ok := l.(*ast.Ident); ok && tainted(as.Rhs[i]) {
						o := info.Defs[id]
						if o == nil {
							o = info.Uses[id]
						}
						if v, ok := o.(*types.Var); ok && !params[o] && v.Parent() != v.Pkg().Scope() {
							params[o] = true
							changed = true
						}
					}
				}
				return true
			})
		}
		kept := ""
		var at token.Pos
		ast.Inspect(f.Decl.Body, func(nd ast.Node) bool {
			as, ok := nd.(*ast.AssignStmt)
			if !ok || len(as.Lhs) != len(as.Rhs) {
				return true
			}
			for i, l := range as.Lhs {
				if !tainted(as.Rhs[i]) {
					continue
				}
				switch x := l.(type) {
				case *ast.SelectorExpr:
					if sel := info.Selections[x]; sel != nil && sel.Kind() == types.FieldVal {
						kept, at = types.ExprString(x)+" = "+types.ExprString(as.Rhs[i]), as.Pos()
					}
				case *ast.Ident:
					if v, ok := info.Uses[x].(*types.Var); ok && v.Pkg() != nil && v.Parent() == v.Pkg().Scope() {
						kept, at = types.ExprString(x)+" = "+types.ExprString(as.Rhs[i]), as.Pos()
					}
				}
			}
			return true
		})
		pos := f.Pos()
		if at.IsValid() {
			pos = at
		}
		r.Ob("T12", f.Name+" does not keep a slice it was handed", prog.Pos(pos), kept == "",
			"`"+kept+"` keeps the caller's slice beyond the call: the dump loop builds sibling paths with append(parent, tag) on a shared backing array, so the kept path changes when the next sibling is visited")
	}
	return n
}

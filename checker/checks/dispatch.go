package checks

import (
	"fmt"
	"go/ast"
	"go/token"
	"go/types"
	"path/filepath"
	"sort"
	"strings"

	"golang.org/x/tools/go/packages"

	"csverify/core"
)

// runtime families, by the import path the source names
var familyOfImport = map[string]string{
	"github.com/gogo/protobuf/proto":                   "gogo",
	"github.com/gogo/protobuf/jsonpb":                  "gogo",
	"github.com/gogo/protobuf/types":                   "gogo",
	"github.com/golang/protobuf/proto":                 "v1",
	"github.com/golang/protobuf/jsonpb":                "v1",
	"google.golang.org/protobuf/proto":                 "v2",
	"google.golang.org/protobuf/encoding/protojson":    "v2",
	"google.golang.org/protobuf/encoding/prototext":    "v2",
	"google.golang.org/protobuf/reflect/protoreflect":  "v2",
	"google.golang.org/protobuf/reflect/protoregistry": "v2",
	"google.golang.org/protobuf/types/dynamicpb":       "v2",
	"google.golang.org/protobuf/runtime/protoiface":    "v2",
	"google.golang.org/protobuf/runtime/protoimpl":     "v2",
}

var familyOfConst = map[string]string{"MessageTypeGogo": "gogo", "MessageTypeGoogleV1": "v1", "MessageTypeGoogle": "v2"}

// region is a stretch of code that runs for one runtime family only.
type region struct {
	family string
	why    string
	body   []ast.Stmt
	pos    token.Pos
	fn     *core.FuncInfo
}

// famRef: a reference `pkg.Name` to a family package.
func famRef(info *types.Info, e ast.Expr) (string, bool) {
	se, ok := e.(*ast.SelectorExpr)
	if !ok {
		return "", false
	}
	id, ok := se.X.(*ast.Ident)
	if !ok {
		return "", false
	}
	pn, ok := info.Uses[id].(*types.PkgName)
	if !ok {
		return "", false
	}
	f, ok := familyOfImport[pn.Imported().Path()]
	return f, ok
}

// familyOfTypeExpr: family of a type expression such as gogo.Message, *google.ExtensionDesc.
func familyOfTypeExpr(info *types.Info, e ast.Expr) (string, bool) {
	switch x := e.(type) {
	case *ast.StarExpr:
		return familyOfTypeExpr(info, x.X)
	case *ast.ParenExpr:
		return familyOfTypeExpr(info, x.X)
	}
	return famRef(info, e)
}

// msgTypeVars: variables assigned from MsgType(...) in fn.
func msgTypeVars(info *types.Info, fn *core.FuncInfo) map[types.Object]bool {
	out := map[types.Object]bool{}
	ast.Inspect(fn.Body(), func(n ast.Node) bool {
		as, ok := n.(*ast.AssignStmt)
		if !ok || len(as.Lhs) != len(as.Rhs) {
			return true
		}
		for i, r := range as.Rhs {
			if c, ok := r.(*ast.CallExpr); ok {
				if f := staticCallee(info, c); f != nil && f.Name() == "MsgType" && f.Pkg() != nil && f.Pkg().Path() == csp {
					if id, ok := as.Lhs[i].(*ast.Ident); ok {
						if o := info.Defs[id]; o != nil {
							out[o] = true
						} else if o := info.Uses[id]; o != nil {
							out[o] = true
						}
					}
				}
			}
		}
		return true
	})
	return out
}

func isMsgTypeExpr(info *types.Info, e ast.Expr, vars map[types.Object]bool) bool {
	switch x := e.(type) {
	case *ast.CallExpr:
		if f := staticCallee(info, x); f != nil && f.Name() == "MsgType" && f.Pkg() != nil && f.Pkg().Path() == csp {
			return true
		}
	case *ast.Ident:
		return vars[info.Uses[x]]
	}
	return false
}

type msgSwitch struct {
	sw    *ast.SwitchStmt
	fn    *core.FuncInfo
	arms  map[string]*ast.CaseClause // by MessageType constant name
	deflt *ast.CaseClause
}

// findRegions extracts the family regions and MsgType switches of the given functions.
func findRegions(pk *packages.Package, funcs []*core.FuncInfo) (regs []region, switches []msgSwitch) {
	info := pk.TypesInfo
	for _, f := range funcs {
		if f.Decl == nil {
			continue
		}
		vars := msgTypeVars(info, f)
		ast.Inspect(f.Decl.Body, func(n ast.Node) bool {
			switch x := n.(type) {
			case *ast.SwitchStmt:
				if x.Tag == nil || !isMsgTypeExpr(info, x.Tag, vars) {
					return true
				}
				ms := msgSwitch{sw: x, fn: f, arms: map[string]*ast.CaseClause{}}
				for _, cl := range x.Body.List {
					cc := cl.(*ast.CaseClause)
					if cc.List == nil {
						ms.deflt = cc
						continue
					}
					for _, e := range cc.List {
						name := types.ExprString(e)
						name = name[strings.LastIndex(name, ".")+1:]
						ms.arms[name] = cc
						if fam, ok := familyOfConst[name]; ok && len(cc.List) == 1 {
							regs = append(regs, region{family: fam, why: "case " + name, body: cc.Body, pos: cc.Pos(), fn: f})
						}
					}
				}
				switches = append(switches, ms)
			case *ast.IfStmt:
				// if v, ok := x.(I); ok { … }   /  if MsgType(m) == MessageTypeX { … }
				if as, ok := x.Init.(*ast.AssignStmt); ok && len(as.Lhs) == 2 && len(as.Rhs) == 1 {
					if ta, ok := as.Rhs[0].(*ast.TypeAssertExpr); ok && ta.Type != nil {
						if okID, ok := as.Lhs[1].(*ast.Ident); ok {
							cond := x.Cond
							// `ok && <discriminator>`: still a region of that family (entered only when the assertion held)
							if b, isAnd := cond.(*ast.BinaryExpr); isAnd && b.Op == token.LAND {
								cond = b.X
							}
							if c, ok := cond.(*ast.Ident); ok && info.Uses[c] == info.Defs[okID] {
								if fam, ok := familyOfTypeExpr(info, ta.Type); ok {
									regs = append(regs, region{family: fam, why: "if _, ok := x.(" + types.ExprString(ta.Type) + "); ok", body: x.Body.List, pos: x.Pos(), fn: f})
								}
							}
						}
					}
				}
				if b, ok := x.Cond.(*ast.BinaryExpr); ok && b.Op == token.EQL && isMsgTypeExpr(info, b.X, vars) {
					name := types.ExprString(b.Y)
					name = name[strings.LastIndex(name, ".")+1:]
					if fam, ok := familyOfConst[name]; ok {
						regs = append(regs, region{family: fam, why: "if MsgType(..) == " + name, body: x.Body.List, pos: x.Pos(), fn: f})
					}
				}
			case *ast.TypeSwitchStmt:
				for _, cl := range x.Body.List {
					cc := cl.(*ast.CaseClause)
					if len(cc.List) == 1 {
						if fam, ok := familyOfTypeExpr(info, cc.List[0]); ok {
							regs = append(regs, region{family: fam, why: "case " + types.ExprString(cc.List[0]), body: cc.Body, pos: cc.Pos(), fn: f})
						}
					}
				}
			}
			return true
		})
	}
	return
}

// checkRegions applies D1 (family purity) and D3 (unchecked assertions name the region's family).
func checkRegions(r *core.Result, prog *core.Program, pk *packages.Package, regs []region) {
	info := pk.TypesInfo
	keyer := &obKeyer{}
	for _, rg := range regs {
		var foreign []string
		nRefs := 0
		var badAssert []string
		for _, s := range rg.body {
			ast.Inspect(s, func(n ast.Node) bool {
				if e, ok := n.(ast.Expr); ok {
					if fam, ok := famRef(info, e); ok {
						nRefs++
						if fam != rg.family {
							foreign = append(foreign, fmt.Sprintf("%s (%s) at %s", types.ExprString(e), fam, prog.Pos(e.Pos())))
						}
					}
				}
				if ta, ok := n.(*ast.TypeAssertExpr); ok && ta.Type != nil {
					// single-value form? (parent is not a 2-value assignment) — approximated: the assertion's type must be of the family anyway
					if fam, ok := familyOfTypeExpr(info, ta.Type); ok && fam != rg.family {
						badAssert = append(badAssert, fmt.Sprintf("%s at %s", types.ExprString(ta), prog.Pos(ta.Pos())))
					}
				}
				return true
			})
		}
		name := keyer.key(rg.fn.Name, rg.why)
		r.Ob("D1", name+" uses only the "+rg.family+" runtime", prog.Pos(rg.pos), len(foreign) == 0,
			fmt.Sprintf("region for the %s runtime references another runtime: %s", rg.family, strings.Join(foreign, "; ")))
		if len(badAssert) > 0 {
			r.Ob("D3", name+" asserts its own runtime's interfaces", prog.Pos(rg.pos), false, "assertion to another runtime's type inside the region: "+strings.Join(badAssert, "; "))
		}
	}
}

// funcsOfFiles lists the declarations of the named files.
func funcsOfFiles(pk *packages.Package, files ...string) []*core.FuncInfo {
	var out []*core.FuncInfo
	for _, f := range core.Funcs(pk, files...) {
		if f.Decl != nil {
			out = append(out, f)
		}
	}
	return out
}

// assertedInRegions: for each family, the interface types asserted without a comma-ok inside its regions.
func uncheckedAssertions(pk *packages.Package, regs []region) map[string][]types.Type {
	info := pk.TypesInfo
	out := map[string][]types.Type{}
	for _, rg := range regs {
		for _, s := range rg.body {
			parents := parentMap(s)
			ast.Inspect(s, func(n ast.Node) bool {
				ta, ok := n.(*ast.TypeAssertExpr)
				if !ok || ta.Type == nil {
					return true
				}
				if as, ok := parents[ta].(*ast.AssignStmt); ok && len(as.Lhs) == 2 && len(as.Rhs) == 1 {
					return true // comma-ok
				}
				if vs, ok := parents[ta].(*ast.ValueSpec); ok && len(vs.Names) == 2 {
					return true
				}
				if t := info.TypeOf(ta.Type); t != nil {
					out[rg.family] = append(out[rg.family], t)
				}
				return true
			})
		}
	}
	return out
}

func baseName(prog *core.Program, pos token.Pos) string {
	return filepath.Base(prog.Fset.Position(pos).Filename)
}

func sortedKeys(m map[string]*ast.CaseClause) []string {
	var out []string
	for k := range m {
		out = append(out, k)
	}
	sort.Strings(out)
	return out
}

package checks

import (
	"go/ast"
	"go/token"
	"go/types"

	"golang.org/x/tools/go/packages"
)

// condImplies reports whether cond being `val` implies that an expression accepted by match is true:
// cond = X (val true), !X (val false), A && B (val true: either conjunct), A || B (val false: either
// disjunct, with the polarity flipped), parentheses.
func condImplies(cond ast.Expr, val bool, match func(e ast.Expr) bool) bool {
	return condImplies2(cond, val, match, nil)
}

// condImplies2 also takes a matcher for the complement of the fact (e.g. `x == ""` for the fact `x != ""`): the
// complement being false establishes the fact.
func condImplies2(cond ast.Expr, val bool, match, matchNeg func(e ast.Expr) bool) bool {
	cond = ast.Unparen(cond)
	if val && match(cond) {
		return true
	}
	if !val && matchNeg != nil && matchNeg(cond) {
		return true
	}
	switch x := cond.(type) {
	case *ast.UnaryExpr:
		if x.Op == token.NOT {
			return condImplies2(x.X, !val, match, matchNeg)
		}
	case *ast.BinaryExpr:
		if x.Op == token.LAND && val {
			return condImplies2(x.X, true, match, matchNeg) || condImplies2(x.Y, true, match, matchNeg)
		}
		if x.Op == token.LOR && !val {
			return condImplies2(x.X, false, match, matchNeg) || condImplies2(x.Y, false, match, matchNeg)
		}
	}
	return false
}

// leavesBlock: the statement list always ends by leaving the enclosing block (return, continue, break, goto, panic).
func leavesBlock(list []ast.Stmt) bool {
	if len(list) == 0 {
		return false
	}
	switch x := list[len(list)-1].(type) {
	case *ast.ReturnStmt:
		return true
	case *ast.BranchStmt:
		return x.Tok == token.CONTINUE || x.Tok == token.BREAK || x.Tok == token.GOTO
	case *ast.ExprStmt:
		if c, ok := x.X.(*ast.CallExpr); ok {
			if id, ok := c.Fun.(*ast.Ident); ok && id.Name == "panic" {
				return true
			}
		}
	case *ast.BlockStmt:
		return leavesBlock(x.List)
	case *ast.IfStmt:
		if x.Else == nil {
			return false
		}
		if !leavesBlock(x.Body.List) {
			return false
		}
		switch e := x.Else.(type) {
		case *ast.BlockStmt:
			return leavesBlock(e.List)
		case *ast.IfStmt:
			return leavesBlock([]ast.Stmt{e})
		}
	}
	return false
}

// dominatedBy reports whether, on every path that reaches n, a condition accepted by match was tested and found
// true: n lies in the body of `if C`, in the else branch of `if !C`, or after a statement `if !C { …leave }` of an
// enclosing statement list (guard clause). The walk stops at the enclosing function literal / declaration.
// Conditions are assumed to be re-evaluable facts (calls of pure predicates, comparisons of locals that are
// not reassigned in between): callers pass predicates over such expressions only.
func dominatedBy(parents map[ast.Node]ast.Node, n ast.Node, match func(e ast.Expr) bool) bool {
	return dominatedBy2(parents, n, match, nil)
}

func dominatedBy2(parents map[ast.Node]ast.Node, n ast.Node, match, matchNeg func(e ast.Expr) bool) bool {
	for cur := n; cur != nil; cur = parents[cur] {
		p := parents[cur]
		switch x := p.(type) {
		case *ast.FuncLit, *ast.FuncDecl:
			return false
		case *ast.IfStmt:
			if ast.Node(x.Body) == cur && condImplies2(x.Cond, true, match, matchNeg) {
				return true
			}
			if x.Else != nil && x.Else == cur && condImplies2(x.Cond, false, match, matchNeg) {
				return true
			}
		case *ast.BlockStmt:
			if guardBefore(x.List, cur, match, matchNeg) {
				return true
			}
		case *ast.CaseClause:
			if guardBefore(x.Body, cur, match, matchNeg) {
				return true
			}
			// switch { case C: … }
			if sw, ok := parents[parents[p]].(*ast.SwitchStmt); ok && sw.Tag == nil && len(x.List) == 1 && condImplies2(x.List[0], true, match, matchNeg) {
				return true
			}
		}
	}
	return false
}

func guardBefore(list []ast.Stmt, cur ast.Node, match, matchNeg func(e ast.Expr) bool) bool {
	for _, st := range list {
		if ast.Node(st) == cur {
			return false
		}
		if is, ok := st.(*ast.IfStmt); ok && is.Else == nil && leavesBlock(is.Body.List) && condImplies2(is.Cond, false, match, matchNeg) {
			return true
		}
		// if C1 { …leave } else if C2 { …leave } [else { … }]: the same for an else-if chain
		if is, ok := st.(*ast.IfStmt); ok && is.Else != nil {
			for cur := is; cur != nil; {
				if cur.Init != nil || !leavesBlock(cur.Body.List) {
					break
				}
				if condImplies2(cur.Cond, false, match, matchNeg) {
					return true
				}
				next, _ := cur.Else.(*ast.IfStmt)
				cur = next
			}
		}
		// switch { case C1: …leave  case C2: …leave  default: … }: after the switch every Ci of the leading run of
		// leaving clauses is false (a clause that does not leave ends the run: later conditions may not have been tested)
		if sw, ok := st.(*ast.SwitchStmt); ok && sw.Tag == nil && sw.Init == nil {
			for _, cl := range sw.Body.List {
				cc := cl.(*ast.CaseClause)
				if cc.List == nil {
					continue
				}
				if !leavesBlock(cc.Body) {
					break
				}
				for _, c := range cc.List {
					if condImplies2(c, false, match, matchNeg) {
						return true
					}
				}
			}
		}
	}
	return false
}

// desugarTypeSwitches rewrites, in the in-memory syntax of pk only, every type switch whose clauses each name one
// type into the equivalent chain of comma-ok assertions, so that rules written for one form see the other as well:
//
//	switch v := x.(type) { case T1: A  case T2: B  default: D }
//	⇒ if v, ok := x.(T1); ok { A }; if v, ok := x.(T2); ok { B }; D          (every clause leaves the function)
//	⇒ if v, ok := x.(T1); ok { A } else if v, ok := x.(T2); ok { B } else { D }   (otherwise)
//
// The synthesised identifiers get entries in the type information (the clause's implicit variable for v, a fresh
// bool for ok) and the position of their clause. Clauses with several types, `case nil`, and switches with an init
// statement are left alone. The default clause has to be the last one for the first form.
func desugarTypeSwitches(pk *packages.Package) int {
	info := pk.TypesInfo
	n := 0
	var rewriteList func(list []ast.Stmt) []ast.Stmt
	var rewriteStmt func(st ast.Stmt)
	rewriteStmt = func(st ast.Stmt) {
		switch x := st.(type) {
		case *ast.BlockStmt:
			x.List = rewriteList(x.List)
		case *ast.IfStmt:
			rewriteStmt(x.Body)
			if x.Else != nil {
				rewriteStmt(x.Else)
			}
		case *ast.ForStmt:
			rewriteStmt(x.Body)
		case *ast.RangeStmt:
			rewriteStmt(x.Body)
		case *ast.SwitchStmt:
			for _, c := range x.Body.List {
				cc := c.(*ast.CaseClause)
				cc.Body = rewriteList(cc.Body)
			}
		case *ast.TypeSwitchStmt:
			for _, c := range x.Body.List {
				cc := c.(*ast.CaseClause)
				cc.Body = rewriteList(cc.Body)
			}
		case *ast.LabeledStmt:
			rewriteStmt(x.Stmt)
		}
	}
	convert := func(ts *ast.TypeSwitchStmt) ([]ast.Stmt, bool) {
		if ts.Init != nil {
			return nil, false
		}
		var subject ast.Expr
		bind := ""
		switch a := ts.Assign.(type) {
		case *ast.AssignStmt:
			if len(a.Lhs) != 1 || len(a.Rhs) != 1 {
				return nil, false
			}
			bind = a.Lhs[0].(*ast.Ident).Name
			subject = a.Rhs[0].(*ast.TypeAssertExpr).X
		case *ast.ExprStmt:
			subject = a.X.(*ast.TypeAssertExpr).X
		default:
			return nil, false
		}
		var clauses []*ast.CaseClause
		var def *ast.CaseClause
		allLeave := true
		for i, c := range ts.Body.List {
			cc := c.(*ast.CaseClause)
			if cc.List == nil {
				if i != len(ts.Body.List)-1 {
					return nil, false
				}
				def = cc
				continue
			}
			if len(cc.List) != 1 {
				return nil, false
			}
			if id, ok := cc.List[0].(*ast.Ident); ok && id.Name == "nil" {
				return nil, false
			}
			if !leavesBlock(cc.Body) {
				allLeave = false
			}
			clauses = append(clauses, cc)
		}
		if len(clauses) == 0 {
			return nil, false
		}
		mk := func(cc *ast.CaseClause) *ast.IfStmt {
			pos := cc.Pos()
			vName := "_"
			if bind != "" {
				vName = bind
			}
			vID := &ast.Ident{NamePos: pos, Name: vName}
			if obj := info.Implicits[cc]; obj != nil && bind != "" {
				info.Defs[vID] = obj
			}
			okVar := types.NewVar(pos, pk.Types, "ok", types.Typ[types.Bool])
			okDef := &ast.Ident{NamePos: pos, Name: "ok"}
			okUse := &ast.Ident{NamePos: pos, Name: "ok"}
			info.Defs[okDef] = okVar
			info.Uses[okUse] = okVar
			info.Types[okUse] = types.TypeAndValue{Type: types.Typ[types.Bool]}
			ta := &ast.TypeAssertExpr{X: subject, Lparen: pos, Type: cc.List[0], Rparen: pos}
			if t := info.TypeOf(cc.List[0]); t != nil {
				info.Types[ta] = types.TypeAndValue{Type: types.NewTuple(types.NewVar(pos, pk.Types, "", t), types.NewVar(pos, pk.Types, "", types.Typ[types.Bool]))}
			}
			return &ast.IfStmt{If: pos,
				Init: &ast.AssignStmt{Lhs: []ast.Expr{vID, okDef}, TokPos: pos, Tok: token.DEFINE, Rhs: []ast.Expr{ta}},
				Cond: okUse,
				Body: &ast.BlockStmt{Lbrace: pos, List: cc.Body, Rbrace: cc.End()}}
		}
		var out []ast.Stmt
		if allLeave {
			for _, cc := range clauses {
				out = append(out, mk(cc))
			}
			if def != nil {
				out = append(out, def.Body...)
			}
			return out, true
		}
		var first, last *ast.IfStmt
		for _, cc := range clauses {
			is := mk(cc)
			if first == nil {
				first = is
			} else {
				last.Else = is
			}
			last = is
		}
		if def != nil {
			last.Else = &ast.BlockStmt{Lbrace: def.Pos(), List: def.Body, Rbrace: def.End()}
		}
		return []ast.Stmt{first}, true
	}
	rewriteList = func(list []ast.Stmt) []ast.Stmt {
		var out []ast.Stmt
		for _, st := range list {
			rewriteStmt(st)
			if ts, ok := st.(*ast.TypeSwitchStmt); ok {
				if repl, ok := convert(ts); ok {
					n++
					out = append(out, repl...)
					continue
				}
			}
			out = append(out, st)
		}
		return out
	}
	for _, f := range pk.Syntax {
		for _, d := range f.Decls {
			if fd, ok := d.(*ast.FuncDecl); ok && fd.Body != nil {
				fd.Body.List = rewriteList(fd.Body.List)
			}
		}
	}
	return n
}

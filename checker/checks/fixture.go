package checks

import (
	"go/ast"
	"go/importer"
	"go/parser"
	"go/token"
	"go/types"

	"golang.org/x/tools/go/packages"

	"csverify/core"
)

// fixturePackage type-checks a tiny in-memory package (stdlib imports only).
// Zero-expected rules run on a positive fixture on every run, so that a rule
// that silently stopped matching is noticed.
func fixturePackage(name, src string) (*packages.Package, *core.Program, error) {
	fset := token.NewFileSet()
	f, err := parser.ParseFile(fset, name+".go", src, parser.ParseComments)
	if err != nil {
		return nil, nil, err
	}
	info := &types.Info{
		Types: map[ast.Expr]types.TypeAndValue{}, Defs: map[*ast.Ident]types.Object{}, Uses: map[*ast.Ident]types.Object{},
		Selections: map[*ast.SelectorExpr]*types.Selection{}, Implicits: map[ast.Node]types.Object{}, Scopes: map[ast.Node]*types.Scope{},
		Instances: map[*ast.Ident]types.Instance{},
	}
	conf := types.Config{Importer: importer.ForCompiler(fset, "source", nil)}
	tp, err := conf.Check("fixture/"+name, fset, []*ast.File{f}, info)
	if err != nil {
		return nil, nil, err
	}
	pk := &packages.Package{ID: name, Name: name, PkgPath: "fixture/" + name, Fset: fset, Syntax: []*ast.File{f}, Types: tp, TypesInfo: info, TypesSizes: types.SizesFor("gc", "amd64")}
	prog := &core.Program{Repo: "/fixture", Fset: fset, Pkgs: map[string]*packages.Package{pk.PkgPath: pk}, All: []*packages.Package{pk}}
	return pk, prog, nil
}

// mustFire runs rule on a fixture and records that it produced a finding.
func mustFire(r *core.Result, ruleName string, src string, run func(fr *core.Result, prog *core.Program, pk *packages.Package)) {
	pk, prog, err := fixturePackage("fx", src)
	if err != nil {
		r.Infra("fixture for %s does not type-check: %v", ruleName, err)
		return
	}
	fr := core.NewResult(r.Property, r.Tier)
	run(fr, prog, pk)
	r.Ob("fixture", ruleName+" fires on its positive fixture", "checks (in-memory fixture)", len(fr.Findings) > 0, "the rule no longer matches its positive example: it would pass vacuously on the repository")
}

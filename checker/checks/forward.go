package checks

import (
	"bytes"
	"fmt"
	"go/ast"
	"go/printer"
	"go/token"
	"go/types"
	"sort"
	"strings"

	"golang.org/x/tools/go/packages"

	"csverify/core"
)

// Transparency ("forwarding") rules for the dispatcher functions whose documented behaviour is "the owning
// runtime's own result": the function is nothing but a MsgType dispatch, every runtime arm calls exactly the
// runtime function(s) of the table below, returns what that call produced and does not post-process it.
//
// The table was read off the pinned tree and confirmed against the documentation of the three runtimes:
// it names, per csproto function and runtime, the runtime function whose result is "the runtime's own".
var forwardTable = map[string]map[string][]string{
	"Clone":              {"gogo": {"Clone"}, "v1": {"Clone"}, "v2": {"Clone"}},
	"Equal":              {"gogo": {"Equal"}, "v1": {"Equal"}, "v2": {"Equal"}},
	"MarshalText":        {"gogo": {"MarshalTextString"}, "v1": {"MarshalTextString"}, "v2": {"Format"}}, // prototext.Format: the runtime's human-readable form (partial messages, unknown fields and invalid UTF-8 included)
	"HasExtension":       {"gogo": {"HasExtension"}, "v1": {"HasExtension"}, "v2": {"HasExtension"}},
	"GetExtension":       {"gogo": {"GetExtension"}, "v1": {"GetExtension"}, "v2": {"GetExtension"}},
	"SetExtension":       {"gogo": {"SetExtension"}, "v1": {"SetExtension"}, "v2": {"SetExtension"}},
	"ClearExtension":     {"gogo": {"ClearExtension"}, "v1": {"ClearExtension"}, "v2": {"ClearExtension"}},
	"ClearAllExtensions": {"gogo": {"ClearAllExtensions"}, "v1": {"ClearAllExtensions"}, "v2": {"ClearExtension", "RangeExtensions"}}, // the v2 API has no ClearAllExtensions
}

// calleeFamily: the runtime family of a called function or method (by the package that declares it).
func calleeFamily(fn *types.Func) (string, bool) {
	if fn == nil || fn.Pkg() == nil {
		return "", false
	}
	f, ok := familyOfImport[fn.Pkg().Path()]
	return f, ok
}

// checkForwarders applies the transparency rules to the named functions of pk.
func checkForwarders(r *core.Result, prog *core.Program, pk *packages.Package, rule string, names ...string) {
	info := pk.TypesInfo
	for _, name := range names {
		f := core.FindFunc(pk, name)
		if f == nil || f.Decl == nil || f.Decl.Body == nil {
			r.Fail("anchor", name, "", "function not found")
			continue
		}
		table := forwardTable[name]
		_, switches := findRegions(pk, []*core.FuncInfo{f})
		if len(switches) != 1 {
			r.Ob(rule, name+" is a single dispatch over the message's runtime", prog.Pos(f.Pos()), false, fmt.Sprintf("%d switches over MsgType found; expected exactly one", len(switches)))
			continue
		}
		ms := switches[0]
		msgVars := msgTypeVars(info, f)

		// (1) shape: outside the switch only the classification itself and the documented pre-probes
		var stray []string
		for _, st := range f.Decl.Body.List {
			if st == ast.Stmt(ms.sw) {
				continue
			}
			if !forwardPreambleOK(info, name, st, msgVars) {
				stray = append(stray, prog.Pos(st.Pos())+": "+cutTo(nodeString(st), 90))
			}
		}
		r.Ob(rule, name+" consists of the runtime dispatch only", prog.Pos(f.Pos()), len(stray) == 0,
			"statements outside the switch over MsgType can produce a result the owning runtime did not: "+strings.Join(stray, "; "))

		if name == "MarshalText" {
			nt := checkErrorTests(r, prog, info, rule, name, f.Decl.Body)
			r.Floor("error tests in MarshalText", nt, 1)
		}
		// (2)-(4) per arm
		for _, cname := range []string{"MessageTypeGogo", "MessageTypeGoogleV1", "MessageTypeGoogle"} {
			fam := familyOfConst[cname]
			cc := ms.arms[cname]
			armName := name + " :: case " + cname
			if cc == nil {
				continue // D2 / E2 report missing arms
			}
			if len(cc.List) != 1 {
				r.Ob(rule, armName+" is an arm of its own", prog.Pos(cc.Pos()), false, "the arm is shared by several runtimes ("+exprList(cc.List)+"): one of them is served by another runtime's API")
				continue
			}
			var callees []string
			var extra []string
			for _, st := range cc.Body {
				ast.Inspect(st, func(n ast.Node) bool {
					c, ok := n.(*ast.CallExpr)
					if !ok {
						return true
					}
					if tv, ok := info.Types[c.Fun]; ok && tv.IsType() {
						return true // conversion
					}
					fn := staticCallee(info, c)
					if fn == nil {
						// call of a function value: only the callback parameter of the csproto function is expected
						if id, ok := c.Fun.(*ast.Ident); ok {
							if v, ok := info.Uses[id].(*types.Var); ok && isParamOf(f.Decl, info, v) {
								return true
							}
							if _, ok := info.Uses[id].(*types.Builtin); ok {
								return true
							}
						}
						extra = append(extra, types.ExprString(c.Fun))
						return true
					}
					if cf, ok := calleeFamily(fn); ok {
						if cf == fam {
							callees = append(callees, fn.Name())
						}
						return true // other families are D1's business
					}
					if fn.Pkg() != nil && fn.Pkg().Path() == "fmt" {
						return true
					}
					// methods of family types reached through values (t.TypeDescriptor().FullName() ...)
					if sig, ok := fn.Type().(*types.Signature); ok && sig.Recv() != nil {
						if named := namedPkgPath(sig.Recv().Type()); named != "" {
							if _, ok := familyOfImport[named]; ok {
								return true
							}
						}
					}
					extra = append(extra, types.ExprString(c.Fun))
					return true
				})
			}
			got := dedupe(callees)
			sort.Strings(got)
			want := append([]string(nil), table[fam]...)
			sort.Strings(want)
			r.Ob(rule, armName+" calls the runtime's "+strings.Join(want, "+"), prog.Pos(cc.Pos()), strings.Join(got, ",") == strings.Join(want, ","),
				fmt.Sprintf("the arm calls %v of the %s runtime; the runtime's own result for %s comes from %v", got, fam, name, want))
			r.Ob(rule, armName+" does not post-process the result", prog.Pos(cc.Pos()), len(extra) == 0,
				"the arm also calls "+strings.Join(dedupe(extra), ", ")+": the result handed back is no longer the runtime's own")
			// returns
			var bad []string
			forwardReturns(info, fam, cc.Body, table[fam], &bad, prog)
			// the result of the runtime call is handed on, not dropped
			armParents := map[ast.Node]ast.Node{}
			for _, st := range cc.Body {
				for k, v := range parentMap(st) {
					armParents[k] = v
				}
			}
			for _, st := range cc.Body {
				ast.Inspect(st, func(n ast.Node) bool {
					c, ok := n.(*ast.CallExpr)
					if !ok {
						return true
					}
					fn := staticCallee(info, c)
					if cf, ok := calleeFamily(fn); !ok || cf != fam {
						return true
					}
					wanted := false
					for _, w := range table[fam] {
						if fn.Name() == w {
							wanted = true
						}
					}
					sig, _ := fn.Type().(*types.Signature)
					if !wanted || sig == nil || sig.Results().Len() == 0 || f.Decl.Type.Results == nil {
						return true
					}
					// result of an error-only call that is tested counts as used
					switch p := armParents[c].(type) {
					case *ast.ExprStmt:
						bad = append(bad, prog.Pos(c.Pos())+": the result of "+types.ExprString(c.Fun)+" is dropped")
					case *ast.AssignStmt:
						allBlank := true
						for _, l := range p.Lhs {
							if id, ok := l.(*ast.Ident); !ok || id.Name != "_" {
								allBlank = false
							}
						}
						if allBlank {
							bad = append(bad, prog.Pos(c.Pos())+": the result of "+types.ExprString(c.Fun)+" is assigned to _")
						}
					}
					return true
				})
			}
			r.Ob(rule, armName+" returns what the runtime call produced", prog.Pos(cc.Pos()), len(bad) == 0,
				"a return of the arm hands back something other than the result of the runtime call (or the documented descriptor-mismatch result): "+strings.Join(bad, "; "))
		}
	}
}

func namedPkgPath(t types.Type) string {
	if p, ok := t.(*types.Pointer); ok {
		t = p.Elem()
	}
	if n, ok := t.(*types.Named); ok && n.Obj().Pkg() != nil {
		return n.Obj().Pkg().Path()
	}
	return ""
}

func isParamOf(fd *ast.FuncDecl, info *types.Info, v *types.Var) bool {
	for _, fl := range fd.Type.Params.List {
		for _, n := range fl.Names {
			if info.Defs[n] == v {
				return true
			}
		}
	}
	return false
}

func exprList(es []ast.Expr) string {
	var out []string
	for _, e := range es {
		out = append(out, types.ExprString(e))
	}
	return strings.Join(out, ", ")
}

// forwardPreambleOK: statements a forwarder may have outside its switch.
func forwardPreambleOK(info *types.Info, name string, st ast.Stmt, msgVars map[types.Object]bool) bool {
	switch x := st.(type) {
	case *ast.AssignStmt:
		// t := MsgType(m)  /  t1, t2 := MsgType(m1), MsgType(m2)
		for _, rhs := range x.Rhs {
			c, ok := rhs.(*ast.CallExpr)
			if !ok {
				return false
			}
			if fn := staticCallee(info, c); fn == nil || fn.Name() != "MsgType" {
				return false
			}
		}
		return true
	case *ast.IfStmt:
		// Equal: if t1 != t2 { return false }
		if b, ok := x.Cond.(*ast.BinaryExpr); ok && x.Init == nil && x.Else == nil && b.Op == token.NEQ && isMsgTypeExpr(info, b.X, msgVars) && isMsgTypeExpr(info, b.Y, msgVars) {
			if len(x.Body.List) == 1 {
				if ret, ok := x.Body.List[0].(*ast.ReturnStmt); ok && len(ret.Results) == 1 && types.ExprString(ret.Results[0]) == "false" {
					return name == "Equal"
				}
			}
		}
		// MarshalText: the documented encoding.TextMarshaler probe, entered on success of the assertion
		if as, ok := x.Init.(*ast.AssignStmt); ok && name == "MarshalText" && len(as.Rhs) == 1 && len(as.Lhs) == 2 {
			if ta, ok := as.Rhs[0].(*ast.TypeAssertExpr); ok && ta.Type != nil {
				if t := info.TypeOf(ta.Type); t != nil && t.String() == "encoding.TextMarshaler" {
					okID, _ := as.Lhs[1].(*ast.Ident)
					condID, _ := x.Cond.(*ast.Ident)
					return okID != nil && condID != nil && info.Uses[condID] == info.Defs[okID]
				}
			}
		}
		return false
	case *ast.ReturnStmt:
		// a return after the switch stands for its default arm: the documented result for unsupported values / a
		// descriptor of the wrong kind, i.e. zero values and, where the function has one, a freshly built error
		for _, e := range x.Results {
			if !zeroOrNewError(info, e) {
				return false
			}
		}
		return true
	case *ast.ExprStmt:
		// ClearExtension ends with the documented panic for a descriptor of the wrong kind
		if c, ok := x.X.(*ast.CallExpr); ok {
			if id, ok := c.Fun.(*ast.Ident); ok && id.Name == "panic" {
				return name == "ClearExtension"
			}
		}
		return false
	}
	return false
}

// forwardReturns classifies the return statements of an arm.
func forwardReturns(info *types.Info, fam string, body []ast.Stmt, want []string, bad *[]string, prog *core.Program) {
	isWanted := func(c *ast.CallExpr) bool {
		fn := staticCallee(info, c)
		if cf, ok := calleeFamily(fn); !ok || cf != fam {
			return false
		}
		for _, w := range want {
			if fn.Name() == w {
				return true
			}
		}
		return false
	}
	// variables assigned from the forwarded call
	fromCall := map[types.Object]bool{}
	errVars := map[types.Object]bool{}
	okVars := map[types.Object]bool{}
	for _, st := range body {
		ast.Inspect(st, func(n ast.Node) bool {
			as, ok := n.(*ast.AssignStmt)
			if !ok || len(as.Rhs) != 1 {
				return true
			}
			switch rhs := as.Rhs[0].(type) {
			case *ast.CallExpr:
				if isWanted(rhs) || (func() bool { fn := staticCallee(info, rhs); cf, ok := calleeFamily(fn); return ok && cf == fam })() {
					for i, l := range as.Lhs {
						if id, ok := l.(*ast.Ident); ok {
							o := info.Defs[id]
							if o == nil {
								o = info.Uses[id]
							}
							if o == nil {
								continue
							}
							if types.Identical(o.Type(), types.Universe.Lookup("error").Type()) {
								errVars[o] = true
							} else if isWanted(rhs) || i == 0 {
								fromCall[o] = true
							}
						}
					}
				} else if id, ok := rhs.Fun.(*ast.Ident); ok {
					// err = fn(...) with fn the callback parameter
					if _, isVar := info.Uses[id].(*types.Var); isVar {
						for _, l := range as.Lhs {
							if lid, ok := l.(*ast.Ident); ok {
								if o := info.Uses[lid]; o != nil {
									errVars[o] = true
								} else if o := info.Defs[lid]; o != nil {
									errVars[o] = true
								}
							}
						}
					}
				}
			case *ast.TypeAssertExpr:
				if len(as.Lhs) == 2 {
					if id, ok := as.Lhs[1].(*ast.Ident); ok {
						if o := info.Defs[id]; o != nil {
							okVars[o] = true
						}
					}
				}
			}
			return true
		})
	}
	var walk func(list []ast.Stmt, inMismatch, inErr bool, sawVoidCall bool)
	walk = func(list []ast.Stmt, inMismatch, inErr bool, sawVoidCall bool) {
		for _, st := range list {
			switch x := st.(type) {
			case *ast.ExprStmt:
				if c, ok := x.X.(*ast.CallExpr); ok && isWanted(c) {
					sawVoidCall = true
				}
			case *ast.IfStmt:
				mm, ie := inMismatch, inErr
				// if !ok { … }  with ok from a comma-ok assertion;  if x, ok := e.(T); ok { … } else …
				if u, ok := x.Cond.(*ast.UnaryExpr); ok && u.Op == token.NOT {
					if id, ok := u.X.(*ast.Ident); ok && okVars[info.Uses[id]] {
						mm = true
					}
				}
				if b, ok := x.Cond.(*ast.BinaryExpr); ok && b.Op == token.NEQ && isNilIdent(b.Y) {
					if id, ok := b.X.(*ast.Ident); ok && errVars[info.Uses[id]] {
						ie = true
					}
				}
				if as, ok := x.Init.(*ast.AssignStmt); ok && len(as.Rhs) == 1 {
					if c, ok := as.Rhs[0].(*ast.CallExpr); ok {
						if id, ok := c.Fun.(*ast.Ident); ok {
							if _, isVar := info.Uses[id].(*types.Var); isVar {
								ie = true // if err = fn(...); err != nil
							}
						}
					}
				}
				walk(x.Body.List, mm, ie, sawVoidCall)
				if x.Else != nil {
					if bl, ok := x.Else.(*ast.BlockStmt); ok {
						walk(bl.List, inMismatch, inErr, sawVoidCall)
					}
				}
			case *ast.ForStmt:
				walk(x.Body.List, inMismatch, inErr, sawVoidCall)
			case *ast.RangeStmt:
				walk(x.Body.List, inMismatch, inErr, sawVoidCall)
			case *ast.BlockStmt:
				walk(x.List, inMismatch, inErr, sawVoidCall)
			case *ast.ReturnStmt:
				ok := false
				switch {
				case inMismatch:
					ok = true // descriptor of another runtime: the documented false / error result
				case len(x.Results) == 0:
					ok = sawVoidCall
				default:
					first := x.Results[0]
					if c, isCall := first.(*ast.CallExpr); isCall && isWanted(c) {
						ok = true
						for _, rest := range x.Results[1:] {
							if !isNilIdent(rest) {
								ok = false
							}
						}
					} else if id, isID := first.(*ast.Ident); isID {
						o := info.Uses[id]
						switch {
						case fromCall[o]:
							ok = true
							for _, rest := range x.Results[1:] {
								if rid, isID := rest.(*ast.Ident); !isNilIdent(rest) && !(isID && errVars[info.Uses[rid]]) {
									ok = false
								}
							}
						case errVars[o] && len(x.Results) == 1:
							ok = true // error of the runtime call / of the callback
						case isNilIdent(first) && len(x.Results) == 1:
							ok = sawVoidCall || inErr
						}
					}
					if !ok && inErr {
						// return <zero values>, err
						last := x.Results[len(x.Results)-1]
						if id, isID := last.(*ast.Ident); isID && errVars[info.Uses[id]] {
							ok = true
						}
					}
				}
				if !ok {
					*bad = append(*bad, prog.Pos(x.Pos())+": "+nodeString(x))
				}
			}
		}
	}
	walk(body, false, false, false)
}

// nodeString renders a statement or expression on one line.
func nodeString(n ast.Node) string {
	var b bytes.Buffer
	if err := printer.Fprint(&b, token.NewFileSet(), n); err != nil {
		return fmt.Sprintf("%T", n)
	}
	return strings.Join(strings.Fields(b.String()), " ")
}

func cutTo(s string, n int) string {
	if len(s) > n {
		return s[:n] + " …"
	}
	return s
}

// ---------------------------------------------------------------------------
// D9: the probing forwarders Marshal / Unmarshal / Size. Each is a sequence of probes
//   if v, ok := msg.(I); ok { return <call on v> }
// followed by the documented fall-back result. The probe must be guarded by the positive ok of its own
// assertion, every return inside it must be the table's call made with the asserted value (and, for Unmarshal,
// with the data parameter), and nothing else may stand at the top level of the function.

var probeCallee = map[string]map[string]string{
	"Marshal":   {"own": "Marshal", "v1x": "XXX_Marshal", "v2": "Marshal"},
	"Unmarshal": {"own": "Unmarshal", "v1x": "XXX_Unmarshal", "v2": "Unmarshal"},
	"Size":      {"own": "Size", "v1x": "XXX_Size", "v2": "Size"},
}

func checkProbeForwarders(r *core.Result, prog *core.Program, pk *packages.Package) {
	info := pk.TypesInfo
	for _, name := range []string{"Marshal", "Unmarshal", "Size"} {
		f := core.FindFunc(pk, name)
		if f == nil || f.Decl == nil {
			r.Fail("anchor", name, "", "function not found")
			continue
		}
		cats := probeOrder(pk, f)
		body := f.Decl.Body.List
		var dataParam types.Object
		for _, fl := range f.Decl.Type.Params.List {
			for _, nm := range fl.Names {
				if nm.Name == "data" {
					dataParam = info.Defs[nm]
				}
			}
		}
		pi := 0
		// Unmarshal: the runtimes' Unmarshal resets the destination first (proto.Unmarshal = Reset + merge), while
		// the hooks reached by the "own" and "v1x" probes (Unmarshal / XXX_Unmarshal methods generated by gogo or
		// golang/protobuf) merge. A Reset of msg must therefore come before those probes return.
		resetPos := token.NoPos
		if name == "Unmarshal" {
			ast.Inspect(f.Decl.Body, func(n ast.Node) bool {
				c, ok := n.(*ast.CallExpr)
				if !ok || resetPos.IsValid() {
					return true
				}
				if se, ok := c.Fun.(*ast.SelectorExpr); ok && se.Sel.Name == "Reset" && len(c.Args) == 0 {
					resetPos = c.Pos()
				}
				if fn := staticCallee(info, c); fn != nil && fn.Name() == "Reset" && fn.Pkg() == pk.Types && len(c.Args) == 1 {
					resetPos = c.Pos()
				}
				return true
			})
		}
		for i, st := range body {
			is, isIf := st.(*ast.IfStmt)
			if isIf && name == "Unmarshal" {
				// the reset statement itself: if r, ok := msg.(interface{ Reset() }); ok { r.Reset() }
				if resetPos.IsValid() && is.Pos() <= resetPos && resetPos < is.End() && !returnsAnything(is.Body.List) {
					// it runs exactly when the assertion succeeded and calls Reset on the asserted value (or csproto.Reset(msg))
					okShape := false
					if as, ok := is.Init.(*ast.AssignStmt); ok && len(as.Lhs) == 2 && is.Else == nil {
						vID, _ := as.Lhs[0].(*ast.Ident)
						okID, _ := as.Lhs[1].(*ast.Ident)
						condID, _ := is.Cond.(*ast.Ident)
						if vID != nil && okID != nil && condID != nil && info.Uses[condID] == info.Defs[okID] && len(is.Body.List) == 1 {
							if es, ok := is.Body.List[0].(*ast.ExprStmt); ok {
								if c, ok := es.X.(*ast.CallExpr); ok {
									if se, ok := c.Fun.(*ast.SelectorExpr); ok && se.Sel.Name == "Reset" && len(c.Args) == 0 {
										if id, ok := se.X.(*ast.Ident); ok && info.Uses[id] == info.Defs[vID] {
											okShape = true
										}
									}
								}
							}
						}
					} else if is.Init == nil {
						okShape = false
					}
					r.Ob("D9", "Unmarshal :: the destination is reset when it can be", prog.Pos(is.Pos()), okShape,
						"expected `if r, ok := msg.(interface{ Reset() }); ok { r.Reset() }`: the reset must run exactly for the values that have a Reset method (found: "+cutTo(nodeString(is), 100)+")")
					continue
				}
			}
			if !isIf {
				// only the final fall-back return may stand outside the probes
				ret, isRet := st.(*ast.ReturnStmt)
				okTail := isRet && i == len(body)-1
				if okTail {
					switch name {
					case "Size":
						okTail = len(ret.Results) == 1 && types.ExprString(ret.Results[0]) == "0"
					case "Marshal":
						okTail = len(ret.Results) == 2 && isNilIdent(ret.Results[0]) && types.ExprString(ret.Results[1]) == "ErrMarshaler"
					case "Unmarshal":
						okTail = len(ret.Results) == 1 && types.ExprString(ret.Results[0]) == "ErrUnmarshaler"
					}
				}
				r.Ob("D9", fmt.Sprintf("%s :: statement %d outside the probes is the documented fall-back", name, i), prog.Pos(st.Pos()), okTail,
					"outside its probes the function may only return the documented result for unsupported values (0 / ErrMarshaler / ErrUnmarshaler): "+cutTo(nodeString(st), 90))
				continue
			}
			cat := "other"
			if pi < len(cats) {
				cat = cats[pi]
			}
			pi++
			armName := fmt.Sprintf("%s :: probe %d (%s)", name, pi, cat)
			as, _ := is.Init.(*ast.AssignStmt)
			var vObj, okObj types.Object
			if as != nil && len(as.Lhs) == 2 {
				if id, ok := as.Lhs[0].(*ast.Ident); ok {
					vObj = info.Defs[id]
				}
				if id, ok := as.Lhs[1].(*ast.Ident); ok {
					okObj = info.Defs[id]
				}
			}
			condID, _ := is.Cond.(*ast.Ident)
			r.Ob("D9", armName+" is guarded by the success of its own assertion", prog.Pos(is.Pos()), condID != nil && okObj != nil && info.Uses[condID] == okObj && is.Else == nil,
				"the probe body must run exactly when the assertion succeeded (condition: "+types.ExprString(is.Cond)+")")
			want := probeCallee[name][cat]
			// returns of the probe
			nRet := 0
			okRets := true
			var why []string
			ast.Inspect(is.Body, func(n ast.Node) bool {
				ret, ok := n.(*ast.ReturnStmt)
				if !ok {
					return true
				}
				nRet++
				if len(ret.Results) != 1 {
					okRets = false
					why = append(why, "return with "+fmt.Sprint(len(ret.Results))+" operands")
					return true
				}
				c, ok := ret.Results[0].(*ast.CallExpr)
				if !ok {
					okRets = false
					why = append(why, "returns "+types.ExprString(ret.Results[0])+", not a call")
					return true
				}
				fn := staticCallee(info, c)
				usesV, usesData := false, dataParam == nil
				recvIsV := false
				if se, ok := c.Fun.(*ast.SelectorExpr); ok {
					if id, ok := se.X.(*ast.Ident); ok && info.Uses[id] == vObj {
						recvIsV = true
					}
				}
				for _, a := range c.Args {
					if id, ok := a.(*ast.Ident); ok {
						if info.Uses[id] == vObj {
							usesV = true
						}
						if info.Uses[id] == dataParam {
							usesData = true
						}
					}
				}
				switch {
				case fn == nil || fn.Name() != want:
					okRets = false
					why = append(why, "calls "+types.ExprString(c.Fun)+", expected "+want)
				case cat == "v2" && !usesV:
					okRets = false
					why = append(why, "the runtime call does not get the asserted message")
				case cat != "v2" && !recvIsV:
					okRets = false
					why = append(why, "the method is not called on the asserted value")
				case !usesData:
					okRets = false
					why = append(why, "the data parameter is not passed on")
				}
				if cat == "v2" {
					if cf, ok := calleeFamily(fn); !ok || cf != "v2" {
						okRets = false
						why = append(why, "the call is not into the v2 runtime")
					} else if sig, ok := fn.Type().(*types.Signature); ok && sig.Recv() != nil {
						// proto.MarshalOptions{…}.Marshal etc.: options change the result (cached sizes, determinism, partial)
						okRets = false
						why = append(why, "the call goes through an options value ("+types.ExprString(c.Fun)+") instead of the runtime's plain "+want)
					}
				}
				return true
			})
			r.Ob("D9", armName+" returns "+want+" of the asserted value", prog.Pos(is.Pos()), okRets && nRet == 1, strings.Join(why, "; ")+fmt.Sprintf(" (%d returns)", nRet))
			if name == "Unmarshal" && (cat == "own" || cat == "v1x") {
				r.Ob("D9", armName+" decodes into a reset destination", prog.Pos(is.Pos()), resetPos.IsValid() && resetPos < is.Body.Pos()+1 || (resetPos.IsValid() && resetPos > is.Pos() && resetPos < is.End()),
					"the "+want+" hook merges into the destination, the owning runtime's Unmarshal resets it first: fields that are absent from the input keep their old values (csproto.Unmarshal(b, &Api{Version: \"old\"}) keeps Version)")
			}
			// a buffer handed to an appending marshal function must be empty
			ast.Inspect(is.Body, func(n ast.Node) bool {
				c, ok := n.(*ast.CallExpr)
				if !ok {
					return true
				}
				if id, ok := c.Fun.(*ast.Ident); ok && id.Name == "make" && len(c.Args) >= 2 {
					tv := info.Types[c.Args[1]]
					r.Ob("D9", armName+" :: "+types.ExprString(c)+" has length 0", prog.Pos(c.Pos()), tv.Value != nil && tv.Value.ExactString() == "0",
						"the buffer is appended to by the runtime's marshal function: a non-zero length leaves stray leading bytes in the output")
				}
				return true
			})
		}
	}
}

func returnsAnything(list []ast.Stmt) bool {
	found := false
	for _, st := range list {
		ast.Inspect(st, func(n ast.Node) bool {
			if _, ok := n.(*ast.ReturnStmt); ok {
				found = true
			}
			return true
		})
	}
	return found
}

// ---------------------------------------------------------------------------
// Error discipline (shared): every test of an error variable against nil has the form `err != nil` and its branch
// leaves with an error; every `v, ok :=` probe result is used positively. Returns the number of tests seen.
func checkErrorTests(r *core.Result, prog *core.Program, info *types.Info, rule, fname string, body *ast.BlockStmt) int {
	n := 0
	errType := types.Universe.Lookup("error").Type()
	ast.Inspect(body, func(nn ast.Node) bool {
		is, ok := nn.(*ast.IfStmt)
		if !ok {
			return true
		}
		b, ok := is.Cond.(*ast.BinaryExpr)
		if !ok || (b.Op != token.NEQ && b.Op != token.EQL) || !isNilIdent(b.Y) {
			return true
		}
		id, ok := b.X.(*ast.Ident)
		if !ok {
			return true
		}
		if t := info.TypeOf(id); t == nil || !types.Identical(t, errType) {
			return true
		}
		n++
		okForm := b.Op == token.NEQ && returnsError(info, is.Body.List) && is.Else == nil
		r.Ob(rule, fmt.Sprintf("%s :: `if %s` leaves with the error", fname, types.ExprString(is.Cond)), prog.Pos(is.Pos()), okForm,
			"an error result must be tested as `err != nil` and that branch must return an error: otherwise a failure is reported as success (or a success as failure)")
		return true
	})
	return n
}

// checkRangeExtensions (E4): every runtime arm of RangeExtensions enumerates the runtime's extensions, calls the
// callback for each of them and stops at the callback's first error, which it returns.
func checkRangeExtensions(r *core.Result, prog *core.Program, pk *packages.Package) {
	info := pk.TypesInfo
	f := core.FindFunc(pk, "RangeExtensions")
	if f == nil {
		r.Fail("anchor", "RangeExtensions", "", "function not found")
		return
	}
	var cb types.Object
	for _, fl := range f.Decl.Type.Params.List {
		for _, nm := range fl.Names {
			if _, isFn := info.Defs[nm].Type().Underlying().(*types.Signature); isFn {
				cb = info.Defs[nm]
			}
		}
	}
	n := checkErrorTests(r, prog, info, "E4", "RangeExtensions", f.Decl.Body)
	r.Floor("error tests in RangeExtensions", n, 4)
	_, switches := findRegions(pk, []*core.FuncInfo{f})
	if len(switches) != 1 {
		r.Ob("E4", "RangeExtensions is a single dispatch over the message's runtime", prog.Pos(f.Pos()), false, "expected one switch over MsgType")
		return
	}
	for _, cname := range []string{"MessageTypeGogo", "MessageTypeGoogleV1", "MessageTypeGoogle"} {
		cc := switches[0].arms[cname]
		if cc == nil {
			continue
		}
		fam := familyOfConst[cname]
		enumerates, callsCB, inLoop := false, false, false
		var walk func(n ast.Node, loop bool)
		walk = func(n ast.Node, loop bool) {
			ast.Inspect(n, func(m ast.Node) bool {
				switch x := m.(type) {
				case *ast.RangeStmt:
					walk(x.Body, true)
					return false
				case *ast.ForStmt:
					walk(x.Body, true)
					return false
				case *ast.FuncLit:
					// the visitor handed to the v2 runtime's RangeExtensions runs once per extension
					walk(x.Body, true)
					return false
				case *ast.CallExpr:
					if fn := staticCallee(info, x); fn != nil {
						if cf, ok := calleeFamily(fn); ok && cf == fam && (fn.Name() == "ExtensionDescs" || fn.Name() == "RangeExtensions") {
							enumerates = true
						}
					}
					if id, ok := x.Fun.(*ast.Ident); ok && cb != nil && info.Uses[id] == cb {
						callsCB = true
						if loop {
							inLoop = true
						}
					}
				}
				return true
			})
		}
		for _, st := range cc.Body {
			walk(st, false)
		}
		r.Ob("E4", "RangeExtensions :: case "+cname+" visits every extension the runtime reports", prog.Pos(cc.Pos()), enumerates && callsCB && inLoop,
			fmt.Sprintf("enumerates through the runtime: %v; calls the callback: %v; once per extension: %v", enumerates, callsCB, inLoop))
		// the v2 visitor keeps going exactly while the callback succeeded
		if fam == "v2" {
			okStop := false
			for _, st := range cc.Body {
				ast.Inspect(st, func(m ast.Node) bool {
					if lit, ok := m.(*ast.FuncLit); ok {
						for _, s2 := range lit.Body.List {
							if ret, ok := s2.(*ast.ReturnStmt); ok && len(ret.Results) == 1 {
								if b, ok := ret.Results[0].(*ast.BinaryExpr); ok && b.Op == token.EQL && isNilIdent(b.Y) {
									okStop = true
								}
							}
						}
					}
					return true
				})
			}
			r.Ob("E4", "RangeExtensions :: case "+cname+" stops at the callback's first error", prog.Pos(cc.Pos()), okStop, "the visitor must return `err == nil` (continue only while the callback succeeded)")
		}
	}
}

// zeroOrNewError: false, nil, 0, "", a sentinel error variable, or an error built by fmt.Errorf / errors.New.
func zeroOrNewError(info *types.Info, e ast.Expr) bool {
	e = ast.Unparen(e)
	if isNilIdent(e) {
		return true
	}
	if tv, ok := info.Types[e]; ok && tv.Value != nil {
		switch tv.Value.ExactString() {
		case "false", "0", `""`:
			return true
		}
		return false
	}
	t := info.TypeOf(e)
	if t == nil || t.String() != "error" {
		return false
	}
	switch x := e.(type) {
	case *ast.Ident:
		v, ok := info.Uses[x].(*types.Var)
		return ok && v.Parent() == v.Pkg().Scope()
	case *ast.CallExpr:
		if fn := staticCallee(info, x); fn != nil && fn.Pkg() != nil {
			return fn.Pkg().Path() == "fmt" && fn.Name() == "Errorf" || fn.Pkg().Path() == "errors" && fn.Name() == "New"
		}
	}
	return false
}

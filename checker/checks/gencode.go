package checks

import (
	"go/ast"
	"go/token"
	"go/types"
	"sort"
	"strings"

	"google.golang.org/protobuf/compiler/protogen"
	"google.golang.org/protobuf/reflect/protoreflect"

	"csverify/core"
	"csverify/e3"
	"csverify/sym"
	"csverify/symexec"
)

// msgCode is the expanded fast-marshal code of one message.
type msgCode struct {
	unit      *e3.Unit
	desc      *protogen.Message
	goName    string
	size      *ast.FuncDecl
	marshal   *ast.FuncDecl
	marshalTo *ast.FuncDecl
	unmarshal *ast.FuncDecl
	checkReq  *ast.FuncDecl
}

func (m *msgCode) name() string {
	return m.unit.File.Pkg + "." + m.goName + " [" + m.unit.Combo.String() + "]"
}

func (m *msgCode) pos(ex *e3.Expansion, p token.Pos) string {
	return "expanded:" + core.RelPos(ex.Fset, ex.Scratch+"/mod", p)
}

func allGenMessages(f *protogen.File) []*protogen.Message {
	var out []*protogen.Message
	var walk func(ms []*protogen.Message)
	walk = func(ms []*protogen.Message) {
		for _, m := range ms {
			if m.Desc.IsMapEntry() {
				continue
			}
			out = append(out, m)
			walk(m.Messages)
		}
	}
	walk(f.Messages)
	return out
}

// messagesOf pairs every message of a type-checked unit with its generated methods.
func messagesOf(u *e3.Unit) []*msgCode {
	if u.Pkg == nil || u.GenFile == nil {
		return nil
	}
	methods := map[string]map[string]*ast.FuncDecl{}
	for _, file := range u.Pkg.Syntax {
		fn := u.Pkg.Fset.Position(file.Pos()).Filename
		if !strings.HasSuffix(fn, ".pb.fm.go") {
			continue
		}
		for _, d := range file.Decls {
			fd, ok := d.(*ast.FuncDecl)
			if !ok || fd.Recv == nil || len(fd.Recv.List) == 0 {
				continue
			}
			t := fd.Recv.List[0].Type
			if s, ok := t.(*ast.StarExpr); ok {
				t = s.X
			}
			id, ok := t.(*ast.Ident)
			if !ok {
				continue
			}
			if methods[id.Name] == nil {
				methods[id.Name] = map[string]*ast.FuncDecl{}
			}
			methods[id.Name][fd.Name.Name] = fd
		}
	}
	var out []*msgCode
	for _, m := range allGenMessages(u.GenFile) {
		ms := methods[m.GoIdent.GoName]
		mc := &msgCode{unit: u, desc: m, goName: m.GoIdent.GoName}
		if ms != nil {
			mc.size, mc.marshal, mc.marshalTo, mc.unmarshal, mc.checkReq = ms["Size"], ms["Marshal"], ms["MarshalTo"], ms["Unmarshal"], ms["csprotoCheckRequiredFields"]
		}
		out = append(out, mc)
	}
	return out
}

func recvObj(info *types.Info, fd *ast.FuncDecl) types.Object {
	if fd.Recv == nil || len(fd.Recv.List) == 0 || len(fd.Recv.List[0].Names) == 0 {
		return nil
	}
	return info.Defs[fd.Recv.List[0].Names[0]]
}

func isAtomicCall(info *types.Info, call *ast.CallExpr) bool {
	fn := staticCallee(info, call)
	return fn != nil && fn.Pkg() != nil && fn.Pkg().Path() == "sync/atomic"
}

// mentionsCacheOrNil: condition of an exit that must not guard the remainder.
func mentionsCacheOrNil(info *types.Info, recv types.Object, cond ast.Expr) bool {
	s := types.ExprString(cond)
	if recv != nil && (s == recv.Name()+" == nil") {
		return true
	}
	hit := false
	ast.Inspect(cond, func(n ast.Node) bool {
		if id, ok := n.(*ast.Ident); ok && (id.Name == "csz") {
			hit = true
		}
		if c, ok := n.(*ast.CallExpr); ok && isAtomicCall(info, c) {
			hit = true
		}
		return true
	})
	return hit
}

// genHooks builds the interpreter hooks shared by the Size and MarshalTo passes.
func genHooks(info *types.Info, accum func(lhs ast.Expr) bool) (symexec.Hooks, func() *symexec.Interp, func(*symexec.Interp)) {
	var it *symexec.Interp
	h := symexec.Hooks{
		IsAccum: func(_ *symexec.Interp, lhs ast.Expr) bool { return accum != nil && accum(lhs) },
		IgnoreCond: func(_ *symexec.Interp, cond ast.Expr) bool {
			onlyErr, any := true, false
			ast.Inspect(cond, func(n ast.Node) bool {
				if id, ok := n.(*ast.Ident); ok && id.Name != "nil" {
					if o := info.Uses[id]; o != nil {
						any = true
						if o.Type().String() != "error" {
							onlyErr = false
						}
					}
				}
				return true
			})
			return any && onlyErr
		},
		CallValue: func(_ *symexec.Interp, call *ast.CallExpr) (*sym.E, bool) {
			if isAtomicCall(info, call) {
				return sym.Atom("cache"), true
			}
			fn := staticCallee(info, call)
			if fn == nil || fn.Pkg() == nil {
				return nil, false
			}
			if fn.Pkg().Path() == csp {
				switch fn.Name() {
				case "SizeOfTagKey":
					return tk(it.Eval(call.Args[0])), true
				case "SizeOfVarint":
					return sv(it.Eval(call.Args[0])), true
				case "SizeOfZigZag":
					return sz(it.Eval(call.Args[0])), true
				case "Size":
					if p, ok := it.Path(call.Args[0]); ok {
						it.NoteRead(p)
						return sym.Fn("Size", sym.Atom(p)), true
					}
				case "GetExtension":
					if len(call.Args) == 2 {
						return sym.Atom("ext(" + types.ExprString(call.Args[1]) + ")"), true
					}
				case "NewEncoder":
					return sym.Atom("enc"), true
				}
			}
			return nil, false
		},
		CallStmt: func(_ *symexec.Interp, call *ast.CallExpr) (*sym.E, bool) {
			if isAtomicCall(info, call) {
				return sym.Const(0), true
			}
			fn := staticCallee(info, call)
			if fn == nil || fn.Pkg() == nil || fn.Pkg().Path() != csp {
				return nil, false
			}
			sig := fn.Type().(*types.Signature)
			if sig.Recv() == nil || namedOf(sig.Recv().Type()) != "Encoder" {
				return nil, false
			}
			args := make([]*sym.E, len(call.Args))
			for i, a := range call.Args {
				if isInt(info.TypeOf(a)) || isBoolOrFloat(info.TypeOf(a)) {
					args[i] = it.Eval(a)
				} else if p, ok := it.Path(a); ok {
					it.NoteRead(p)
					args[i] = sym.Atom(p)
				} else {
					args[i] = it.Eval(a)
				}
			}
			if fn.Name() == "EncodeNested" && len(args) == 2 {
				x := sym.Fn("Size", args[1])
				return sym.Sum(tk(args[0]), sv(x), x), true
			}
			if spec, ok := encoderSpec[fn.Name()]; ok {
				return spec.bytes(args), true
			}
			return nil, false
		},
	}
	return h, func() *symexec.Interp { return it }, func(i *symexec.Interp) { it = i }
}

func isBoolOrFloat(t types.Type) bool {
	if t == nil {
		return false
	}
	b, ok := t.Underlying().(*types.Basic)
	return ok && b.Info()&(types.IsBoolean|types.IsFloat) != 0
}

// fieldOfTerm extracts the message field a normal-form term talks about.
func fieldOfTerm(key string) string {
	best := ""
	for i := 0; i+2 < len(key); i++ {
		if key[i] == 'm' && key[i+1] == '.' && (i == 0 || !isIdentByte(key[i-1])) {
			j := i + 2
			for j < len(key) && isIdentByte(key[j]) {
				j++
			}
			if j > i+2 {
				best = key[i+2 : j]
				break
			}
		}
	}
	if best == "" {
		if i := strings.Index(key, "ext(E_"); i >= 0 {
			j := strings.Index(key[i:], ")")
			if j > 0 {
				return key[i : i+j+1]
			}
		}
	}
	return best
}

func isIdentByte(b byte) bool {
	return b == '_' || (b >= '0' && b <= '9') || (b >= 'a' && b <= 'z') || (b >= 'A' && b <= 'Z')
}

// runUnits interprets a function body statement by statement, poisoning the
// shared temporaries whenever the statements move on to another field, and
// returns the bytes contributed by each field unit (key: Go field name, or
// "ext:E_x" for an extension, "" for statements before the first field).
func runUnits(it *symexec.Interp, info *types.Info, recv types.Object, body []ast.Stmt) map[string]*sym.E {
	it.AliasAtom(recv, "m")
	units := map[string]*sym.E{}
	cur := ""
	total := sym.Const(0)
	for _, s := range body {
		flds := map[string]bool{}
		ast.Inspect(s, func(n ast.Node) bool {
			if se, ok := n.(*ast.SelectorExpr); ok {
				if id, ok := se.X.(*ast.Ident); ok && info.Uses[id] == recv {
					if se.Sel.Name != "sizeCache" && se.Sel.Name != "XXX_sizecache" {
						flds[se.Sel.Name] = true
					}
				}
			}
			if c, ok := n.(*ast.CallExpr); ok {
				if fn := staticCallee(info, c); fn != nil && fn.Name() == "GetExtension" && len(c.Args) == 2 {
					flds["ext:"+types.ExprString(c.Args[1])] = true
				}
			}
			return true
		})
		if len(flds) > 0 {
			var names []string
			for k := range flds {
				names = append(names, k)
			}
			sort.Strings(names)
			f := names[0]
			if f != cur {
				if cur != "" {
					it.PoisonAll()
				}
				cur = f
			}
		}
		it.Total = sym.Const(0)
		it.Run([]ast.Stmt{s})
		if u, ok := units[cur]; ok {
			units[cur] = sym.Sum(u, it.Total)
		} else {
			units[cur] = it.Total
		}
		total = sym.Sum(total, it.Total)
	}
	it.Total = total
	return units
}

// kindOf abbreviates a field's shape for reports.
func shapeOf(f *protogen.Field) string {
	d := f.Desc
	var parts []string
	if d.IsMap() {
		return "map<" + d.MapKey().Kind().String() + "," + d.MapValue().Kind().String() + ">"
	}
	parts = append(parts, d.Kind().String())
	switch {
	case d.Cardinality() == protoreflect.Repeated && d.IsPacked():
		parts = append(parts, "repeated packed")
	case d.Cardinality() == protoreflect.Repeated:
		parts = append(parts, "repeated")
	case d.Cardinality() == protoreflect.Required:
		parts = append(parts, "required")
	case d.ContainingOneof() != nil && !d.ContainingOneof().IsSynthetic():
		parts = append(parts, "oneof member")
	case d.HasPresence():
		parts = append(parts, "optional")
	default:
		parts = append(parts, "implicit")
	}
	parts = append(parts, d.Syntax().String())
	return strings.Join(parts, " ")
}

// groupShape generalises a field's shape to the template branch that expands it
// (findings are grouped by it, see core.Result.GroupOb).
func groupShape(f *protogen.Field) string {
	if f.Desc.IsMap() {
		return "map<*," + f.Desc.MapValue().Kind().String() + ">"
	}
	return shapeOf(f)
}

// extensionsOfFile: every extension declared in the file, at file level or inside any (nested) message.
func extensionsOfFile(gf *protogen.File) []*protogen.Extension {
	out := append([]*protogen.Extension(nil), gf.Extensions...)
	for _, m := range allGenMessagesWithMaps(gf) {
		out = append(out, m.Extensions...)
	}
	return out
}

func extensionGroups(gf *protogen.File) [][]*protogen.Extension {
	return [][]*protogen.Extension{extensionsOfFile(gf)}
}

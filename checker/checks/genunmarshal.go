package checks

import (
	"go/ast"
	"go/token"
	"go/types"
	"sort"
	"strings"

	"google.golang.org/protobuf/compiler/protogen"
	"google.golang.org/protobuf/reflect/protoreflect"
)

// decCall is a call of a csproto.Decoder method inside an Unmarshal arm.
type decCall struct {
	method string
	call   *ast.CallExpr
	wt     string // wire type under which it runs ("" = not dominated by a wire-type test)
}

// arm is one `case <number>:` clause of the generated field switch.
type arm struct {
	num     int64
	clause  *ast.CaseClause
	wtSet   []string // accepted wire types (nil = no test at all)
	calls   []decCall
	field   *protogen.Field // descriptor field (nil for extensions)
	ext     *protogen.Extension
	isOneof bool
}

type unmarshalShape struct {
	fn       *ast.FuncDecl
	loop     *ast.ForStmt
	sw       *ast.SwitchStmt
	arms     []*arm
	deflt    *ast.CaseClause
	resetPos token.Pos
	decObj   types.Object
	wtObj    types.Object
	tagObj   types.Object
}

func wtName(e ast.Expr) string {
	s := types.ExprString(e)
	return s[strings.LastIndex(s, ".")+1:]
}

// dissectUnmarshal finds the decode loop, the field switch and its arms.
func dissectUnmarshal(info *types.Info, mc *msgCode) *unmarshalShape {
	us := &unmarshalShape{fn: mc.unmarshal}
	if mc.unmarshal == nil {
		return nil
	}
	for _, s := range mc.unmarshal.Body.List {
		if es, ok := s.(*ast.ExprStmt); ok {
			if c, ok := es.X.(*ast.CallExpr); ok {
				if se, ok := c.Fun.(*ast.SelectorExpr); ok && se.Sel.Name == "Reset" {
					us.resetPos = c.Pos()
				}
			}
		}
		if fs, ok := s.(*ast.ForStmt); ok && us.loop == nil {
			us.loop = fs
		}
	}
	if us.loop == nil {
		return us
	}
	for _, s := range us.loop.Body.List {
		switch x := s.(type) {
		case *ast.AssignStmt:
			if len(x.Lhs) == 3 && len(x.Rhs) == 1 {
				if c, ok := x.Rhs[0].(*ast.CallExpr); ok {
					if fn := staticCallee(info, c); fn != nil && fn.Name() == "DecodeTag" {
						if id, ok := x.Lhs[0].(*ast.Ident); ok {
							us.tagObj = info.Defs[id]
						}
						if id, ok := x.Lhs[1].(*ast.Ident); ok {
							us.wtObj = info.Defs[id]
						}
						if se, ok := c.Fun.(*ast.SelectorExpr); ok {
							if id, ok := se.X.(*ast.Ident); ok {
								us.decObj = info.Uses[id]
							}
						}
					}
				}
			}
		case *ast.SwitchStmt:
			if id, ok := x.Tag.(*ast.Ident); ok && info.Uses[id] == us.tagObj && us.tagObj != nil {
				us.sw = x
			}
		}
	}
	if us.sw == nil {
		return us
	}
	byNum := map[int64]*protogen.Field{}
	for _, f := range mc.desc.Fields {
		byNum[int64(f.Desc.Number())] = f
	}
	extByNum := map[int64]*protogen.Extension{}
	if mc.unit.GenFile != nil {
		for _, exts := range extensionGroups(mc.unit.GenFile) {
			for _, e := range exts {
				if e.Extendee != nil && e.Extendee.GoIdent == mc.desc.GoIdent {
					extByNum[int64(e.Desc.Number())] = e
				}
			}
		}
	}
	for _, cl := range us.sw.Body.List {
		cc := cl.(*ast.CaseClause)
		if cc.List == nil {
			us.deflt = cc
			continue
		}
		for _, e := range cc.List {
			tv := info.Types[e]
			if tv.Value == nil {
				continue
			}
			var n int64
			if _, err := sscanInt(tv.Value.ExactString(), &n); err != nil {
				continue
			}
			a := &arm{num: n, clause: cc, field: byNum[n], ext: extByNum[n]}
			if a.field != nil && a.field.Oneof != nil && !a.field.Oneof.Desc.IsSynthetic() {
				a.isOneof = true
			}
			analyseArm(info, us, a)
			us.arms = append(us.arms, a)
		}
	}
	sort.Slice(us.arms, func(i, j int) bool { return us.arms[i].num < us.arms[j].num })
	return us
}

func sscanInt(s string, n *int64) (int, error) {
	var v int64
	neg := false
	if strings.HasPrefix(s, "-") {
		neg = true
		s = s[1:]
	}
	if s == "" {
		return 0, errBadInt
	}
	for _, c := range s {
		if c < '0' || c > '9' {
			return 0, errBadInt
		}
		v = v*10 + int64(c-'0')
	}
	if neg {
		v = -v
	}
	*n = v
	return 1, nil
}

type badInt struct{}

func (badInt) Error() string { return "not an integer" }

var errBadInt = badInt{}

func allGenMessagesWithMaps(f *protogen.File) []*protogen.Message {
	var out []*protogen.Message
	var walk func(ms []*protogen.Message)
	walk = func(ms []*protogen.Message) {
		for _, m := range ms {
			out = append(out, m)
			walk(m.Messages)
		}
	}
	walk(f.Messages)
	return out
}

// analyseArm records the wire-type test and the decoder calls of an arm.
func analyseArm(info *types.Info, us *unmarshalShape, a *arm) {
	isWT := func(e ast.Expr) bool {
		id, ok := e.(*ast.Ident)
		return ok && info.Uses[id] == us.wtObj && us.wtObj != nil
	}
	addCalls := func(n ast.Node, wt string) {
		ast.Inspect(n, func(m ast.Node) bool {
			switch x := m.(type) {
			case *ast.SwitchStmt:
				if x.Tag != nil && isWT(x.Tag) {
					return false // handled by collect
				}
			case *ast.CallExpr:
				if fn := staticCallee(info, x); fn != nil && fn.Pkg() != nil && fn.Pkg().Path() == csp {
					if sig := fn.Type().(*types.Signature); sig.Recv() != nil && namedOf(sig.Recv().Type()) == "Decoder" {
						a.calls = append(a.calls, decCall{method: fn.Name(), call: x, wt: wt})
					}
				}
			}
			return true
		})
	}
	cur := "" // wire type established by a preceding `if wt != X { return }`
	tested := false
	for _, s := range a.clause.Body {
		// if wt != X { return … }
		if is, ok := s.(*ast.IfStmt); ok && is.Init == nil {
			if b, ok := is.Cond.(*ast.BinaryExpr); ok && b.Op == token.NEQ && isWT(b.X) && terminates(is.Body.List) {
				cur = wtName(b.Y)
				tested = true
				a.wtSet = append(a.wtSet, cur)
				continue
			}
		}
		if sw, ok := s.(*ast.SwitchStmt); ok && sw.Tag != nil && isWT(sw.Tag) {
			tested = true
			for _, cl := range sw.Body.List {
				cc := cl.(*ast.CaseClause)
				if cc.List == nil {
					for _, b := range cc.Body {
						addCalls(b, "")
					}
					continue
				}
				for _, e := range cc.List {
					w := wtName(e)
					a.wtSet = append(a.wtSet, w)
					for _, b := range cc.Body {
						addCalls(b, w)
					}
				}
			}
			continue
		}
		addCalls(s, cur)
	}
	if !tested {
		a.wtSet = nil
	}
	sort.Strings(a.wtSet)
}

// wire type and decoder methods per kind (spec table, Appendix A)
type kindRow struct {
	wire    string
	scalar  []string // decoder methods for a single value
	packed  []string // decoder methods for the packed form
	encode  []string // encoder methods for a single value
	encPack []string // encoder methods for the packed form
}

var kindTable = map[protoreflect.Kind]kindRow{
	protoreflect.BoolKind:     {"WireTypeVarint", []string{"DecodeBool"}, []string{"DecodePackedBool"}, []string{"EncodeBool"}, []string{"EncodePackedBool"}},
	protoreflect.Int32Kind:    {"WireTypeVarint", []string{"DecodeInt32"}, []string{"DecodePackedInt32"}, []string{"EncodeInt32"}, []string{"EncodePackedInt32"}},
	protoreflect.Int64Kind:    {"WireTypeVarint", []string{"DecodeInt64"}, []string{"DecodePackedInt64"}, []string{"EncodeInt64"}, []string{"EncodePackedInt64"}},
	protoreflect.Uint32Kind:   {"WireTypeVarint", []string{"DecodeUInt32"}, []string{"DecodePackedUint32"}, []string{"EncodeUInt32"}, []string{"EncodePackedUInt32"}},
	protoreflect.Uint64Kind:   {"WireTypeVarint", []string{"DecodeUInt64"}, []string{"DecodePackedUint64"}, []string{"EncodeUInt64"}, []string{"EncodePackedUInt64"}},
	protoreflect.Sint32Kind:   {"WireTypeVarint", []string{"DecodeSInt32"}, []string{"DecodePackedSint32"}, []string{"EncodeSInt32"}, []string{"EncodePackedSInt32"}},
	protoreflect.Sint64Kind:   {"WireTypeVarint", []string{"DecodeSInt64"}, []string{"DecodePackedSint64"}, []string{"EncodeSInt64"}, []string{"EncodePackedSInt64"}},
	protoreflect.EnumKind:     {"WireTypeVarint", []string{"DecodeInt32"}, []string{"DecodePackedInt32"}, []string{"EncodeInt32"}, []string{"EncodePackedInt32"}},
	protoreflect.Fixed32Kind:  {"WireTypeFixed32", []string{"DecodeFixed32"}, []string{"DecodePackedFixed32"}, []string{"EncodeFixed32"}, []string{"EncodePackedFixed32"}},
	protoreflect.Sfixed32Kind: {"WireTypeFixed32", []string{"DecodeFixed32"}, []string{"DecodePackedFixed32"}, []string{"EncodeFixed32"}, []string{"EncodePackedSFixed32"}},
	protoreflect.FloatKind:    {"WireTypeFixed32", []string{"DecodeFloat32"}, []string{"DecodePackedFloat32"}, []string{"EncodeFloat32"}, []string{"EncodePackedFloat32"}},
	protoreflect.Fixed64Kind:  {"WireTypeFixed64", []string{"DecodeFixed64"}, []string{"DecodePackedFixed64"}, []string{"EncodeFixed64"}, []string{"EncodePackedFixed64"}},
	protoreflect.Sfixed64Kind: {"WireTypeFixed64", []string{"DecodeFixed64"}, []string{"DecodePackedFixed64"}, []string{"EncodeFixed64"}, []string{"EncodePackedSFixed64"}},
	protoreflect.DoubleKind:   {"WireTypeFixed64", []string{"DecodeFloat64"}, []string{"DecodePackedFloat64"}, []string{"EncodeFloat64"}, []string{"EncodePackedFloat64"}},
	protoreflect.StringKind:   {"WireTypeLengthDelimited", []string{"DecodeString"}, nil, []string{"EncodeString"}, nil},
	protoreflect.BytesKind:    {"WireTypeLengthDelimited", []string{"DecodeBytes"}, nil, []string{"EncodeBytes"}, nil},
	protoreflect.MessageKind:  {"WireTypeLengthDelimited", []string{"DecodeNested"}, nil, []string{"EncodeNested"}, nil},
}

func packableKind(k protoreflect.Kind) bool {
	return k != protoreflect.StringKind && k != protoreflect.BytesKind && k != protoreflect.MessageKind && k != protoreflect.GroupKind
}

package checks

import (
	"go/ast"
	"go/constant"
	"go/token"
	"go/types"
	"math/big"

	"golang.org/x/tools/go/packages"

	"csverify/core"
)

// ival is an inclusive integer interval; unknown = not ok.
type ival struct {
	lo, hi *big.Int
}

func iv(lo, hi int64) ival { return ival{big.NewInt(lo), big.NewInt(hi)} }

// intervalOfFunc evaluates the range of a single-`return <expr>` pure int
// function by interval arithmetic over its own body (no execution).
func intervalOfFunc(pk *packages.Package, name string, depth int) (ival, bool) {
	f := core.FindFunc(pk, name)
	if f == nil || f.Decl == nil || depth > 4 {
		return ival{}, false
	}
	// a body of single-definition locals followed by one return is read as the return expression with the locals
	// replaced by their definitions
	body := f.Decl.Body.List
	if len(body) == 0 {
		return ival{}, false
	}
	for _, st := range body[:len(body)-1] {
		as, ok := st.(*ast.AssignStmt)
		if !ok || as.Tok != token.DEFINE {
			return ival{}, false
		}
	}
	ret, ok := body[len(body)-1].(*ast.ReturnStmt)
	if !ok || len(ret.Results) != 1 {
		return ival{}, false
	}
	return intervalOf(pk, inlineLocals(pk.TypesInfo, f.Decl.Body, ret.Results[0]), depth)
}

func typeRange(pk *packages.Package, t types.Type) (ival, bool) {
	b, ok := t.Underlying().(*types.Basic)
	if !ok || b.Info()&types.IsInteger == 0 {
		return ival{}, false
	}
	bits := uint(pk.TypesSizes.Sizeof(t) * 8)
	if bits == 0 {
		return ival{}, false
	}
	one := big.NewInt(1)
	if b.Info()&types.IsUnsigned != 0 {
		return ival{big.NewInt(0), new(big.Int).Sub(new(big.Int).Lsh(one, bits), one)}, true
	}
	return ival{new(big.Int).Neg(new(big.Int).Lsh(one, bits-1)), new(big.Int).Sub(new(big.Int).Lsh(one, bits-1), one)}, true
}

func intervalOf(pk *packages.Package, e ast.Expr, depth int) (ival, bool) {
	info := pk.TypesInfo
	if tv, ok := info.Types[e]; ok && tv.Value != nil {
		v := constant.ToInt(tv.Value)
		if v.Kind() == constant.Int {
			if b, ok := new(big.Int).SetString(v.ExactString(), 10); ok {
				return ival{b, b}, true
			}
		}
	}
	switch x := e.(type) {
	case *ast.ParenExpr:
		return intervalOf(pk, x.X, depth)
	case *ast.BinaryExpr:
		l, lok := intervalOf(pk, x.X, depth)
		r, rok := intervalOf(pk, x.Y, depth)
		if lok && rok {
			switch x.Op {
			case token.ADD:
				return fit(pk, e, ival{new(big.Int).Add(l.lo, r.lo), new(big.Int).Add(l.hi, r.hi)})
			case token.SUB:
				return fit(pk, e, ival{new(big.Int).Sub(l.lo, r.hi), new(big.Int).Sub(l.hi, r.lo)})
			case token.QUO:
				if r.lo.Cmp(r.hi) == 0 && r.lo.Sign() > 0 && l.lo.Sign() >= 0 {
					return ival{new(big.Int).Quo(l.lo, r.lo), new(big.Int).Quo(l.hi, r.lo)}, true
				}
			case token.MUL:
				if l.lo.Sign() >= 0 && r.lo.Sign() >= 0 {
					return fit(pk, e, ival{new(big.Int).Mul(l.lo, r.lo), new(big.Int).Mul(l.hi, r.hi)})
				}
			}
		}
		if x.Op == token.OR {
			// x | c ≥ c for unsigned operands
			if t := info.TypeOf(e); t != nil {
				if tr, ok := typeRange(pk, t); ok && tr.lo.Sign() == 0 {
					lo := big.NewInt(0)
					if lok && l.lo.Cmp(lo) > 0 {
						lo = l.lo
					}
					if rok && r.lo.Cmp(lo) > 0 {
						lo = r.lo
					}
					return ival{lo, tr.hi}, true
				}
			}
		}
	case *ast.CallExpr:
		if tv, ok := info.Types[x.Fun]; ok && tv.IsType() && len(x.Args) == 1 {
			tr, ok := typeRange(pk, tv.Type)
			if !ok {
				return ival{}, false
			}
			if in, ok := intervalOf(pk, x.Args[0], depth); ok && in.lo.Cmp(tr.lo) >= 0 && in.hi.Cmp(tr.hi) <= 0 {
				return in, true
			}
			return tr, true
		}
		var id *ast.Ident
		switch f := x.Fun.(type) {
		case *ast.Ident:
			id = f
		case *ast.SelectorExpr:
			id = f.Sel
		}
		if id != nil {
			if fn, ok := info.Uses[id].(*types.Func); ok && fn.Pkg() != nil {
				if fn.Pkg().Path() == "math/bits" && (fn.Name() == "Len64" || fn.Name() == "Len" || fn.Name() == "Len32") {
					hi := int64(64)
					if fn.Name() == "Len32" {
						hi = 32
					}
					lo := int64(0)
					if in, ok := intervalOf(pk, x.Args[0], depth); ok && in.lo.Sign() > 0 {
						lo = int64(in.lo.BitLen())
					}
					return iv(lo, hi), true
				}
				if fn.Pkg() == pk.Types && fn.Type().(*types.Signature).Recv() == nil {
					return intervalOfFunc(pk, fn.Name(), depth+1)
				}
			}
		}
	}
	if t := info.TypeOf(e); t != nil {
		return typeRange(pk, t)
	}
	return ival{}, false
}

// fit keeps an interval when it lies inside the expression's type (no wrap).
func fit(pk *packages.Package, e ast.Expr, v ival) (ival, bool) {
	t := pk.TypesInfo.TypeOf(e)
	if t == nil {
		return v, true
	}
	tr, ok := typeRange(pk, t)
	if !ok {
		return v, true
	}
	if v.lo.Cmp(tr.lo) < 0 || v.hi.Cmp(tr.hi) > 0 {
		return tr, true
	}
	return v, true
}

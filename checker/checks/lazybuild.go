package checks

import (
	"fmt"
	"go/ast"
	"go/token"
	"go/types"
	"strings"

	"golang.org/x/tools/go/packages"

	"csverify/core"
)

// Construction rules of the lazy decoder's shared base result (lazyproto/decode.go, newBaseResult) and of Close.
// They are the structural facts the lookup code relies on without checking them at run time.

func fieldOfSel(e ast.Expr) string {
	if se, ok := e.(*ast.SelectorExpr); ok {
		return se.Sel.Name
	}
	return ""
}

// checkLazySorted (X1/X2, C13): every DecodeResult field searched with slices.BinarySearch is sorted in
// newBaseResult after its last append there; the per-tag tables indexed with the search result are allocated
// with the length of the sorted tag slice and filled by position inside a range over that slice.
func checkLazySorted(r *core.Result, prog *core.Program, lp *packages.Package) int {
	info := lp.TypesInfo
	searched := map[string]token.Pos{}
	for _, f := range core.Funcs(lp) {
		if f.Decl == nil || f.Decl.Body == nil {
			continue
		}
		ast.Inspect(f.Decl.Body, func(n ast.Node) bool {
			if c, ok := n.(*ast.CallExpr); ok && len(c.Args) >= 1 {
				if fn := staticCallee(info, c); fn != nil && fn.Pkg() != nil && fn.Pkg().Path() == "slices" && strings.HasPrefix(fn.Name(), "BinarySearch") {
					if fld := fieldOfSel(c.Args[0]); fld != "" {
						if _, seen := searched[fld]; !seen {
							searched[fld] = c.Pos()
						}
					}
				}
			}
			return true
		})
	}
	nb := core.FindFunc(lp, "(*Decoder).newBaseResult")
	if nb == nil {
		r.Fail("anchor", "(*Decoder).newBaseResult", "", "function not found")
		return 0
	}
	n := 0
	for fld, at := range searched {
		n++
		var lastAppend, sortPos token.Pos
		badAssign := ""
		for _, st := range nb.Decl.Body.List {
			ast.Inspect(st, func(nn ast.Node) bool {
				switch x := nn.(type) {
				case *ast.AssignStmt:
					for i, l := range x.Lhs {
						if fieldOfSel(l) != fld || i >= len(x.Rhs) {
							continue
						}
						c, ok := x.Rhs[i].(*ast.CallExpr)
						if !ok {
							badAssign = types.ExprString(x.Rhs[i])
							continue
						}
						if id, ok := c.Fun.(*ast.Ident); ok && id.Name == "append" {
							lastAppend = x.Pos()
							continue
						}
						if fn := staticCallee(info, c); fn != nil && fn.Pkg() != nil && fn.Pkg().Path() == "slices" && fn.Name() == "Compact" && sortPos.IsValid() {
							continue // order-preserving
						}
						badAssign = types.ExprString(x.Rhs[i])
					}
				case *ast.CallExpr:
					if fn := staticCallee(info, x); fn != nil && fn.Pkg() != nil && fn.Pkg().Path() == "slices" && fn.Name() == "Sort" && len(x.Args) == 1 && fieldOfSel(x.Args[0]) == fld {
						sortPos = x.Pos()
					}
				}
				return true
			})
		}
		ok := sortPos.IsValid() && (!lastAppend.IsValid() || lastAppend < sortPos) && badAssign == ""
		detail := "the field is looked up with slices.BinarySearch (" + prog.Pos(at) + ") but newBaseResult does not leave it sorted: "
		switch {
		case !sortPos.IsValid():
			detail += "no slices.Sort of it"
		case lastAppend > sortPos:
			detail += "it is appended to after the sort"
		default:
			detail += "it is reassigned from " + badAssign
		}
		r.Ob("X-sorted", "DecodeResult."+fld+" is sorted when the base result is built", prog.Pos(nb.Pos()), ok, detail)
		// tables indexed by the search position
		for table, tags := range map[string]string{"flatData": "flatTags", "nestedDecoders": "nestedTags"} {
			if tags != fld {
				continue
			}
			okAlloc, okFill := false, table == "flatData" // flatData is filled by clone(); only its length matters here
			for _, st := range nb.Decl.Body.List {
				if st.Pos() < sortPos {
					continue
				}
				if as, ok := st.(*ast.AssignStmt); ok && len(as.Lhs) == 1 && fieldOfSel(as.Lhs[0]) == table && len(as.Rhs) == 1 {
					if c, ok := as.Rhs[0].(*ast.CallExpr); ok && len(c.Args) == 2 {
						if id, ok := c.Fun.(*ast.Ident); ok && id.Name == "make" {
							if lc, ok := c.Args[1].(*ast.CallExpr); ok && len(lc.Args) == 1 && fieldOfSel(lc.Args[0]) == tags {
								okAlloc = true
							}
						}
					}
				}
				if rs, ok := st.(*ast.RangeStmt); ok && fieldOfSel(rs.X) == tags {
					keyID, _ := rs.Key.(*ast.Ident)
					valID, _ := rs.Value.(*ast.Ident)
					usesTag := false
					ast.Inspect(rs.Body, func(nn ast.Node) bool {
						if ix, ok := nn.(*ast.IndexExpr); ok && valID != nil {
							// def[tag]: the nested definition of this tag
							if id, ok := ix.Index.(*ast.Ident); ok && info.Uses[id] == info.Defs[valID] {
								usesTag = true
							}
						}
						if as, ok := nn.(*ast.AssignStmt); ok && len(as.Lhs) == 1 && keyID != nil {
							if ix, ok := as.Lhs[0].(*ast.IndexExpr); ok && fieldOfSel(ix.X) == table {
								if id, ok := ix.Index.(*ast.Ident); ok && info.Uses[id] == info.Defs[keyID] {
									okFill = usesTag
								}
							}
						}
						return true
					})
				}
			}
			r.Ob("X-aligned", "DecodeResult."+table+" is parallel to the sorted "+tags, prog.Pos(nb.Pos()), okAlloc && okFill,
				"entries of "+table+" are found through the position of a tag in "+tags+": the table must be allocated with len("+tags+") after the sort and (for decoders) filled by position inside a range over the sorted slice, each entry built from the definition of that tag")
		}
	}
	return n
}

// checkLazyInheritance (X-inherit, X-unsafe, R9; C14): nested decoders inherit mode / filter / buffer limit of
// their parent; the unsafe flag of results is exactly "not the safe mode"; Close does nothing for a nested result.
func checkLazyInheritance(r *core.Result, prog *core.Program, lp *packages.Package) {
	info := lp.TypesInfo
	nb := core.FindFunc(lp, "(*Decoder).newBaseResult")
	if nb == nil {
		r.Fail("anchor", "(*Decoder).newBaseResult", "", "function not found")
		return
	}
	recv := recvObj(info, nb.Decl)
	// the option closure handed to NewDecoder for nested decoders
	inherited := map[string]bool{}
	nClosures := 0
	ast.Inspect(nb.Decl.Body, func(n ast.Node) bool {
		c, ok := n.(*ast.CallExpr)
		if !ok {
			return true
		}
		if fn := staticCallee(info, c); fn == nil || fn.Name() != "NewDecoder" {
			return true
		}
		for _, a := range c.Args {
			lit, ok := a.(*ast.FuncLit)
			if !ok {
				continue
			}
			nClosures++
			ast.Inspect(lit.Body, func(nn ast.Node) bool {
				as, ok := nn.(*ast.AssignStmt)
				if !ok || len(as.Lhs) != 1 || len(as.Rhs) != 1 || as.Tok != token.ASSIGN {
					return true
				}
				l, okl := as.Lhs[0].(*ast.SelectorExpr)
				rr, okr := as.Rhs[0].(*ast.SelectorExpr)
				if okl && okr && l.Sel.Name == rr.Sel.Name {
					if id, ok := rr.X.(*ast.Ident); ok && info.Uses[id] == recv {
						inherited[l.Sel.Name] = true
					}
				}
				return true
			})
		}
		return true
	})
	for _, fld := range []string{"mode", "filter", "maxBuffer"} {
		r.Ob("X-inherit", "nested decoders inherit "+fld+" from their parent", prog.Pos(nb.Pos()), nClosures > 0 && inherited[fld],
			"the decoder created for a nested definition does not take the parent's "+fld+": a nested result then runs in another mode / with other buffer limits than the decoder the caller configured (safe-mode guarantees do not reach nested values)")
	}
	// unsafe flag
	okUnsafe, why := false, "no `unsafe:` field in the base result literal"
	ast.Inspect(nb.Decl.Body, func(n ast.Node) bool {
		kv, ok := n.(*ast.KeyValueExpr)
		if !ok {
			return true
		}
		if id, ok := kv.Key.(*ast.Ident); !ok || id.Name != "unsafe" {
			return true
		}
		why = "unsafe is initialised as " + types.ExprString(kv.Value)
		if b, ok := kv.Value.(*ast.BinaryExpr); ok {
			l, rgt := types.ExprString(b.X), types.ExprString(b.Y)
			isMode := strings.HasSuffix(l, ".mode")
			switch {
			case isMode && b.Op == token.NEQ && strings.HasSuffix(rgt, "DecoderModeSafe"):
				okUnsafe = true
			case isMode && b.Op == token.EQL && strings.HasSuffix(rgt, "DecoderModeFast"):
				okUnsafe = true
			}
		}
		return true
	})
	r.Ob("X-unsafe", "results are marked unsafe exactly when the decoder is not in safe mode", prog.Pos(nb.Pos()), okUnsafe,
		why+": with the flag inverted a safe-mode decoder hands out aliased strings and pooled scratch slices")
	// the flag is copied unchanged into clones and field data
	if cl := core.FindFunc(lp, "(*DecodeResult).clone"); cl != nil {
		crecv := recvObj(info, cl.Decl)
		nKV, okKV := 0, true
		ast.Inspect(cl.Decl.Body, func(n ast.Node) bool {
			kv, ok := n.(*ast.KeyValueExpr)
			if !ok {
				return true
			}
			if id, ok := kv.Key.(*ast.Ident); ok && id.Name == "unsafe" {
				nKV++
				se, ok := kv.Value.(*ast.SelectorExpr)
				if !ok || se.Sel.Name != "unsafe" {
					okKV = false
				} else if id, ok := se.X.(*ast.Ident); !ok || info.Uses[id] != crecv {
					okKV = false
				}
			}
			return true
		})
		r.Ob("X-unsafe", "clone() copies the unsafe flag to the clone and to its field data", prog.Pos(cl.Pos()), okKV && nKV >= 2, "the clone or its field data do not take the base result's unsafe flag")
	}
	// R9: Close is a no-op for nested results (skipClose)
	if f := core.FindFunc(lp, "(*DecodeResult).Close"); f != nil {
		frecv := recvObj(info, f.Decl)
		var closeCall *ast.CallExpr
		ast.Inspect(f.Decl.Body, func(n ast.Node) bool {
			if c, ok := n.(*ast.CallExpr); ok {
				if fn := staticCallee(info, c); fn != nil && fn.Name() == "close" {
					closeCall = c
				}
			}
			return true
		})
		guarded := false
		mentions := func(e ast.Expr) (found bool, positive bool) {
			// skipClose appears as a disjunct (positive) of an || chain, or negated
			var walk func(e ast.Expr, pos bool)
			walk = func(e ast.Expr, pos bool) {
				switch x := e.(type) {
				case *ast.ParenExpr:
					walk(x.X, pos)
				case *ast.BinaryExpr:
					if x.Op == token.LOR || x.Op == token.LAND {
						walk(x.X, pos)
						walk(x.Y, pos)
					}
				case *ast.UnaryExpr:
					if x.Op == token.NOT {
						walk(x.X, !pos)
					}
				case *ast.SelectorExpr:
					if id, ok := x.X.(*ast.Ident); ok && info.Uses[id] == frecv && x.Sel.Name == "skipClose" {
						found, positive = true, pos
					}
				}
			}
			walk(e, true)
			return
		}
		if closeCall != nil {
			for _, st := range f.Decl.Body.List {
				if st.Pos() > closeCall.Pos() {
					break
				}
				is, ok := st.(*ast.IfStmt)
				if !ok {
					continue
				}
				found, positive := mentions(is.Cond)
				if !found {
					continue
				}
				if b, isOr := is.Cond.(*ast.BinaryExpr); positive && (!isOr || b.Op == token.LOR) && len(is.Body.List) == 1 && is.Else == nil {
					if _, isRet := is.Body.List[0].(*ast.ReturnStmt); isRet && is.End() < closeCall.Pos() {
						guarded = true // if … || r.skipClose { return nil }
					}
				}
				if !positive && is.Pos() < closeCall.Pos() && closeCall.End() <= is.End() {
					if _, isAnd := is.Cond.(*ast.BinaryExpr); !isAnd || is.Cond.(*ast.BinaryExpr).Op == token.LAND {
						guarded = true // if !r.skipClose { r.close() }
					}
				}
			}
		}
		r.Ob("R9", "(*DecodeResult).Close does nothing for a nested result (skipClose)", prog.Pos(f.Pos()), closeCall == nil || guarded,
			"Close() releases the result although it is marked skipClose: a nested result closed by the caller goes back to the pool while its parent still lists it (the parent's close later resets and re-pools an object someone else owns)")
	}
}

// checkFoundGuards (L-found, C13): the position returned by slices.BinarySearch is meaningful only when the search
// reported a hit. Every use of such a position lies after `if !found { return/continue … }` in the same block chain
// or inside `if found { … }`; otherwise a tag that was not requested is looked up at an insertion position (another
// tag's data, or one past the end).
func checkFoundGuards(r *core.Result, prog *core.Program, lp *packages.Package) int {
	info := lp.TypesInfo
	n := 0
	for _, f := range core.Funcs(lp) {
		if f.Decl == nil || f.Decl.Body == nil {
			continue
		}
		parents := parentMap(f.Decl.Body)
		ast.Inspect(f.Decl.Body, func(nn ast.Node) bool {
			as, ok := nn.(*ast.AssignStmt)
			if !ok || len(as.Lhs) != 2 || len(as.Rhs) != 1 {
				return true
			}
			c, ok := as.Rhs[0].(*ast.CallExpr)
			if !ok {
				return true
			}
			if fn := staticCallee(info, c); fn == nil || fn.Pkg() == nil || fn.Pkg().Path() != "slices" || !strings.HasPrefix(fn.Name(), "BinarySearch") {
				return true
			}
			iID, _ := as.Lhs[0].(*ast.Ident)
			okID, _ := as.Lhs[1].(*ast.Ident)
			if iID == nil || okID == nil || iID.Name == "_" {
				return true
			}
			iObj, okObj := info.Defs[iID], info.Defs[okID]
			if iObj == nil || okObj == nil {
				return true
			}
			isNotOK := func(e ast.Expr) bool {
				u, ok := e.(*ast.UnaryExpr)
				if !ok || u.Op != token.NOT {
					return false
				}
				id, ok := u.X.(*ast.Ident)
				return ok && info.Uses[id] == okObj
			}
			isOK := func(e ast.Expr) bool {
				id, ok := e.(*ast.Ident)
				return ok && info.Uses[id] == okObj
			}
			leaves := func(list []ast.Stmt) bool {
				if len(list) == 0 {
					return false
				}
				switch x := list[len(list)-1].(type) {
				case *ast.ReturnStmt:
					return true
				case *ast.BranchStmt:
					return x.Tok == token.CONTINUE || x.Tok == token.BREAK
				}
				return false
			}
			ast.Inspect(f.Decl.Body, func(m ast.Node) bool {
				id, ok := m.(*ast.Ident)
				if !ok || info.Uses[id] != iObj {
					return true
				}
				n++
				_, _ = isNotOK, leaves
				// the hit flag is established on every path to the use (enclosing if, guard clause, also as one of several
				// flags tested together: `if !hasA || !hasB { return … }`)
				guarded := dominatedBy(parents, id, isOK)
				r.Ob("L-found", fmt.Sprintf("%s :: %s is used only after a successful search", f.Name, iID.Name), prog.Pos(id.Pos()), guarded,
					"the position returned by slices.BinarySearch is used on a path where the search may have failed: for a tag that is not in the table it is an insertion position (another tag's entry, or one past the end)")
				return true
			})
			return true
		})
	}
	return n
}

// checkLazyMisc (C13/C14): small structural rules that the lookup code relies on.
//
//	L-negtag   a negative tag (raw access) is normalised by exactly a sign flip before it is searched
//	X-dedup    the sorted tag tables are de-duplicated (a tag and its negative may both be requested)
//	L-error    no error result of an in-package call is dropped, and every error test is `err != nil` leaving with an error
//	L-make     a slice created with a non-zero length is not then used as the base of append (nil / zero entries in front)
// checkSharedCapacity (L-cap, C13): a slice-typed struct field that the package appends to (FieldData.data) never
// starts out as a two-index sub-slice of another slice: such a view keeps the capacity of what follows it, so the
// append that outgrows its share writes into its neighbour's elements (values of another tag). Accepted right-hand
// sides: nil, make, append results, composite literals, the field's own storage (`fd.data[:0]`), and three-index
// slice expressions.
func checkSharedCapacity(r *core.Result, prog *core.Program, lp *packages.Package) int {
	info := lp.TypesInfo
	// fields that are the base of an append somewhere in the package
	appended := map[string]bool{}
	for _, f := range core.Funcs(lp) {
		if f.Decl == nil || f.Decl.Body == nil {
			continue
		}
		ast.Inspect(f.Decl.Body, func(n ast.Node) bool {
			c, ok := n.(*ast.CallExpr)
			if !ok || len(c.Args) < 1 {
				return true
			}
			if id, ok := c.Fun.(*ast.Ident); ok && id.Name == "append" {
				if _, tn, fld, ok := fieldSel(info, c.Args[0]); ok {
					appended[tn+"."+fld] = true
				}
			}
			return true
		})
	}
	n := 0
	var twoIndexView func(e ast.Expr, self string) (bool, string)
	twoIndexView = func(e ast.Expr, self string) (bool, string) {
		se, ok := ast.Unparen(e).(*ast.SliceExpr)
		if !ok {
			return false, ""
		}
		if se.Slice3 {
			return false, ""
		}
		if types.ExprString(ast.Unparen(se.X)) == self {
			return false, "" // the field's own storage, emptied
		}
		// x[a:][:0] - look through the outer re-slice
		if inner, ok := ast.Unparen(se.X).(*ast.SliceExpr); ok {
			if bad, what := twoIndexView(inner, self); bad {
				return true, what
			}
			if inner.Slice3 {
				return false, ""
			}
		}
		return true, types.ExprString(e)
	}
	for _, f := range core.Funcs(lp) {
		if f.Decl == nil || f.Decl.Body == nil || strings.HasSuffix(prog.Fset.Position(f.Decl.Pos()).Filename, "_test.go") {
			continue
		}
		f := f
		ast.Inspect(f.Decl.Body, func(nn ast.Node) bool {
			switch x := nn.(type) {
			case *ast.AssignStmt:
				if len(x.Lhs) != len(x.Rhs) {
					return true
				}
				for i, l := range x.Lhs {
					_, tn, fld, ok := fieldSel(info, l)
					if !ok || !appended[tn+"."+fld] {
						continue
					}
					n++
					bad, what := twoIndexView(x.Rhs[i], types.ExprString(ast.Unparen(l)))
					r.Ob("L-cap", fmt.Sprintf("%s :: %s.%s does not start as a view that shares capacity", f.Name, tn, fld), prog.Pos(x.Pos()), !bad,
						"the appended-to field is set to "+what+", a two-index sub-slice: its capacity reaches into the elements that follow, so an append beyond its share overwrites another field's values (use a three-index slice expression)")
				}
			case *ast.CompositeLit:
				for _, el := range x.Elts {
					kv, ok := el.(*ast.KeyValueExpr)
					if !ok {
						continue
					}
					k, ok := kv.Key.(*ast.Ident)
					if !ok {
						continue
					}
					tn := namedOf(info.TypeOf(x))
					if !appended[tn+"."+k.Name] {
						continue
					}
					n++
					bad, what := twoIndexView(kv.Value, "")
					r.Ob("L-cap", fmt.Sprintf("%s :: %s.%s does not start as a view that shares capacity", f.Name, tn, k.Name), prog.Pos(kv.Pos()), !bad,
						"the appended-to field is set to "+what+", a two-index sub-slice: its capacity reaches into the elements that follow")
				}
			}
			return true
		})
	}
	return n
}

func checkLazyMisc(r *core.Result, prog *core.Program, lp *packages.Package) {
	r.Floor("stores to appended-to slice fields", checkSharedCapacity(r, prog, lp), 2)
	info := lp.TypesInfo
	nNeg, nErr := 0, 0
	for _, f := range core.Funcs(lp) {
		if f.Decl == nil || f.Decl.Body == nil {
			continue
		}
		// L-negtag: a tag that comes from the caller (a parameter, a key of the definition map) is sign-normalised
		// before it is searched in, or appended to, a tag table
		nNeg += negTagSinks(r, prog, lp, f)
		// L-error
		if strings.HasSuffix(prog.Fset.Position(f.Decl.Pos()).Filename, "_test.go") {
			continue
		}
		nErr += checkErrorTests(r, prog, info, "L-error", f.Name, f.Decl.Body)
		parents := parentMap(f.Decl.Body)
		ast.Inspect(f.Decl.Body, func(nn ast.Node) bool {
			c, ok := nn.(*ast.CallExpr)
			if !ok {
				return true
			}
			fn := staticCallee(info, c)
			if fn == nil || fn.Pkg() == nil || (fn.Pkg() != lp.Types && fn.Pkg().Path() != csp) {
				return true
			}
			res := fn.Type().(*types.Signature).Results()
			if res.Len() == 0 || res.At(res.Len()-1).Type().String() != "error" {
				return true
			}
			// explicit discard `_ = f()` is a decision, not a drop
			if as, ok := parents[c].(*ast.AssignStmt); ok {
				allBlank := true
				for _, l := range as.Lhs {
					if id, ok := l.(*ast.Ident); !ok || id.Name != "_" {
						allBlank = false
					}
				}
				if allBlank {
					return true
				}
			}
			if _, isRet := parents[c].(*ast.ReturnStmt); isRet {
				return true
			}
			okProp, why := errorIsReturned(info, c, parents)
			if !okProp {
				// the error variable is returned later as it is, or tested as a disjunct `err != nil || …`
				if as, ok := parents[c].(*ast.AssignStmt); ok && len(as.Lhs) >= 1 {
					if eid, ok := as.Lhs[len(as.Lhs)-1].(*ast.Ident); ok && eid.Name != "_" {
						eobj := info.Defs[eid]
						if eobj == nil {
							eobj = info.Uses[eid]
						}
						// … before the variable is assigned again (an error overwritten by the next call is lost)
						limit := token.Pos(1 << 30)
						ast.Inspect(f.Decl.Body, func(m ast.Node) bool {
							if as2, ok := m.(*ast.AssignStmt); ok && as2.Pos() > as.End() && as2.Pos() < limit {
								for _, l := range as2.Lhs {
									if id, ok := l.(*ast.Ident); ok && (info.Uses[id] == eobj || info.Defs[id] == eobj) {
										limit = as2.Pos()
									}
								}
							}
							return true
						})
						ast.Inspect(f.Decl.Body, func(m ast.Node) bool {
							if m != nil && m.Pos() >= limit {
								return false
							}
							switch x := m.(type) {
							case *ast.ReturnStmt:
								if x.Pos() > c.Pos() && len(x.Results) > 0 {
									if id, ok := x.Results[len(x.Results)-1].(*ast.Ident); ok && info.Uses[id] == eobj {
										okProp = true
									}
								}
							case *ast.BinaryExpr:
								if x.Pos() > c.Pos() && x.Op == token.NEQ && isNilIdentExpr(x.Y) {
									if id, ok := x.X.(*ast.Ident); ok && info.Uses[id] == eobj {
										okProp = true
									}
								}
							}
							return true
						})
					}
				}
			}
			nErr++
			r.Ob("L-error", fmt.Sprintf("%s :: error of %s reaches the caller", f.Name, types.ExprString(c.Fun)), prog.Pos(c.Pos()), okProp, why)
			return true
		})
		// L-make
		ast.Inspect(f.Decl.Body, func(nn ast.Node) bool {
			as, ok := nn.(*ast.AssignStmt)
			if !ok || len(as.Lhs) != 1 || len(as.Rhs) != 1 {
				return true
			}
			c, ok := as.Rhs[0].(*ast.CallExpr)
			if !ok || len(c.Args) < 3 {
				return true
			}
			if id, ok := c.Fun.(*ast.Ident); !ok || id.Name != "make" {
				return true
			}
			tv := info.Types[c.Args[1]]
			if tv.Value == nil || tv.Value.ExactString() == "0" {
				return true
			}
			lid, ok := as.Lhs[0].(*ast.Ident)
			if !ok {
				return true
			}
			obj := info.Defs[lid]
			if obj == nil {
				obj = info.Uses[lid]
			}
			appended := false
			ast.Inspect(f.Decl.Body, func(m ast.Node) bool {
				if ac, ok := m.(*ast.CallExpr); ok && len(ac.Args) >= 1 {
					if id, ok := ac.Fun.(*ast.Ident); ok && id.Name == "append" {
						if a0, ok := ac.Args[0].(*ast.Ident); ok && info.Uses[a0] == obj {
							appended = true
						}
					}
				}
				return true
			})
			r.Ob("L-make", fmt.Sprintf("%s :: %s is not appended to", f.Name, types.ExprString(c)), prog.Pos(c.Pos()), !appended,
				"a slice made with a non-zero length and an explicit capacity is used as the base of append: the result starts with zero / nil entries")
			return true
		})
	}
	r.Floor("negative-tag normalisations", nNeg, 4)
	r.Floor("error tests and error-returning calls in lazyproto", nErr, 20)
	// X-dedup
	if nb := core.FindFunc(lp, "(*Decoder).newBaseResult"); nb != nil {
		compacted := map[string]bool{}
		ast.Inspect(nb.Decl.Body, func(n ast.Node) bool {
			if as, ok := n.(*ast.AssignStmt); ok && len(as.Lhs) == 1 && len(as.Rhs) == 1 {
				if c, ok := as.Rhs[0].(*ast.CallExpr); ok && len(c.Args) == 1 {
					if fn := staticCallee(info, c); fn != nil && fn.Pkg() != nil && fn.Pkg().Path() == "slices" && fn.Name() == "Compact" && fieldOfSel(as.Lhs[0]) == fieldOfSel(c.Args[0]) {
						compacted[fieldOfSel(as.Lhs[0])] = true
					}
				}
			}
			return true
		})
		for _, fld := range []string{"flatTags", "nestedTags"} {
			r.Ob("X-dedup", "DecodeResult."+fld+" is de-duplicated when the base result is built", prog.Pos(nb.Pos()), compacted[fld],
				"a tag and its negative (raw) form may both be requested; without slices.Compact the table holds the tag twice and the per-tag tables indexed by position no longer line up")
		}
	}
}

// checkDefValidate (V-def, C13): every definition whose field numbers are valid must be accepted, so (Def).validate
// may reject only because of a field number: each error it returns is either the propagated error of the recursive
// call on a nested definition or sits under a condition over the map key (and values derived from it) alone.
func checkDefValidate(r *core.Result, prog *core.Program, lp *packages.Package) {
	info := lp.TypesInfo
	f := core.FindFunc(lp, "(Def).validate")
	if f == nil {
		f = core.FindFunc(lp, "Def.validate")
	}
	if f == nil || f.Decl == nil {
		r.Fail("anchor", "(Def).validate", "", "function not found")
		return
	}
	// the key variable of the range over the definition, and locals computed from it
	keyish := map[types.Object]bool{}
	ast.Inspect(f.Decl.Body, func(n ast.Node) bool {
		if rs, ok := n.(*ast.RangeStmt); ok {
			if id, ok := rs.Key.(*ast.Ident); ok {
				if o := info.Defs[id]; o != nil {
					keyish[o] = true
				}
			}
		}
		return true
	})
	changed := true
	for changed {
		changed = false
		ast.Inspect(f.Decl.Body, func(n ast.Node) bool {
			as, ok := n.(*ast.AssignStmt)
			if !ok || len(as.Lhs) != 1 || len(as.Rhs) != 1 {
				return true
			}
			lid, ok := as.Lhs[0].(*ast.Ident)
			if !ok {
				return true
			}
			lo := info.Defs[lid]
			if lo == nil {
				lo = info.Uses[lid]
			}
			if lo == nil || keyish[lo] {
				return true
			}
			only := true
			ast.Inspect(as.Rhs[0], func(m ast.Node) bool {
				if id, ok := m.(*ast.Ident); ok {
					if v, isVar := info.Uses[id].(*types.Var); isVar && !keyish[v] {
						only = false
					}
				}
				return true
			})
			if only {
				keyish[lo] = true
				changed = true
			}
			return true
		})
	}
	parents := parentMap(f.Decl.Body)
	n := 0
	ast.Inspect(f.Decl.Body, func(nn ast.Node) bool {
		ret, ok := nn.(*ast.ReturnStmt)
		if !ok || len(ret.Results) != 1 || isNilIdentExpr(ret.Results[0]) {
			return true
		}
		n++
		// innermost enclosing if
		var cond ast.Expr
		var init ast.Stmt
		for cur := ast.Node(ret); cur != nil; cur = parents[cur] {
			if is, ok := parents[cur].(*ast.IfStmt); ok && is.Body == cur {
				cond, init = is.Cond, is.Init
				break
			}
		}
		okCond := false
		why := "the error is returned unconditionally"
		if cond != nil {
			why = "condition: " + types.ExprString(cond)
			// propagation of the nested call
			if as, ok := init.(*ast.AssignStmt); ok && len(as.Rhs) == 1 {
				if c, ok := as.Rhs[0].(*ast.CallExpr); ok {
					if fn := staticCallee(info, c); fn != nil && fn.Name() == "validate" {
						okCond = true
					}
				}
			}
			if !okCond {
				onlyKey := true
				ast.Inspect(cond, func(m ast.Node) bool {
					if id, ok := m.(*ast.Ident); ok {
						if v, isVar := info.Uses[id].(*types.Var); isVar && !keyish[v] {
							onlyKey = false
						}
					}
					return true
				})
				okCond = onlyKey
			}
		}
		r.Ob("V-def", fmt.Sprintf("(Def).validate :: %s depends on the field number only", cutTo(nodeString(ret), 60)), prog.Pos(ret.Pos()), okCond,
			"a definition is rejected for a reason other than an invalid field number ("+why+"): definitions with valid field numbers (for example one nested Def shared by two tags) must be accepted")
		return true
	})
	r.Floor("rejections in (Def).validate", n, 2)
}

// negTagSinks (L-negtag). Sinks: the value searched by slices.BinarySearch in a tag table, and the value appended to
// one. When the value is a parameter of the function or the key of a ranged map (or a local defined from one), it
// has to pass a sign flip first: `if x < 0 { x *= -1 }` / `x = -x` before the sink, or `x = abs(x)` / `y := abs(x)`
// where abs is a function of the package of one of the recognised absolute-value shapes.
func negTagSinks(r *core.Result, prog *core.Program, lp *packages.Package, f *core.FuncInfo) int {
	info := lp.TypesInfo
	isTagTable := func(e ast.Expr) bool {
		_, _, fld, ok := fieldSel(info, e)
		return ok && (fld == "flatTags" || fld == "nestedTags")
	}
	// caller-supplied integers: parameters and keys of ranged maps
	external := map[types.Object]bool{}
	for _, fl := range f.Decl.Type.Params.List {
		for _, nm := range fl.Names {
			if b, ok := info.TypeOf(fl.Type).Underlying().(*types.Basic); ok && b.Info()&types.IsInteger != 0 {
				external[info.Defs[nm]] = true
			}
		}
	}
	ast.Inspect(f.Decl.Body, func(n ast.Node) bool {
		if rs, ok := n.(*ast.RangeStmt); ok && rs.Key != nil {
			if _, isMap := info.TypeOf(rs.X).Underlying().(*types.Map); isMap {
				if id, ok := rs.Key.(*ast.Ident); ok && info.Defs[id] != nil {
					external[info.Defs[id]] = true
				}
			}
		}
		return true
	})
	isAbsCall := func(e ast.Expr) (arg types.Object, ok bool) {
		c, isCall := ast.Unparen(e).(*ast.CallExpr)
		if !isCall || len(c.Args) != 1 {
			return nil, false
		}
		d := namedFuncDecl(lp, info, c.Fun)
		if d == nil || !isAbsFunc(info, d) {
			return nil, false
		}
		if id, isID := ast.Unparen(c.Args[0]).(*ast.Ident); isID {
			return info.Uses[id], true
		}
		return nil, false
	}
	// normalised(obj, before): obj was sign-normalised by a statement that ends before pos
	normalised := func(obj types.Object, pos token.Pos) bool {
		okN := false
		ast.Inspect(f.Decl.Body, func(n ast.Node) bool {
			switch x := n.(type) {
			case *ast.IfStmt:
				if x.End() > pos || x.Init != nil || x.Else != nil || len(x.Body.List) != 1 {
					return true
				}
				b, ok := x.Cond.(*ast.BinaryExpr)
				if !ok || b.Op != token.LSS {
					return true
				}
				id, ok := b.X.(*ast.Ident)
				if !ok || info.Uses[id] != obj {
					return true
				}
				if tv := info.Types[b.Y]; tv.Value == nil || tv.Value.ExactString() != "0" {
					return true
				}
				if as, ok := x.Body.List[0].(*ast.AssignStmt); ok && isSignFlip(info, as, obj) {
					okN = true
				}
			case *ast.AssignStmt:
				if x.End() > pos || len(x.Lhs) != 1 || len(x.Rhs) != 1 {
					return true
				}
				lid, ok := x.Lhs[0].(*ast.Ident)
				if !ok {
					return true
				}
				lobj := info.Uses[lid]
				if lobj == nil {
					lobj = info.Defs[lid]
				}
				if lobj != obj {
					return true
				}
				if arg, ok := isAbsCall(x.Rhs[0]); ok && (arg == obj || external[arg]) {
					okN = true
				}
			}
			return true
		})
		return okN
	}
	n := 0
	check := func(site ast.Node, what string, v ast.Expr) {
		id, ok := ast.Unparen(v).(*ast.Ident)
		if !ok {
			return
		}
		obj := info.Uses[id]
		needs := external[obj]
		if !needs {
			// a local defined from a caller-supplied value
			ast.Inspect(f.Decl.Body, func(nn ast.Node) bool {
				if as, ok := nn.(*ast.AssignStmt); ok && len(as.Lhs) == len(as.Rhs) {
					for i, l := range as.Lhs {
						if lid, ok := l.(*ast.Ident); ok && (info.Defs[lid] == obj || info.Uses[lid] == obj) {
							ast.Inspect(as.Rhs[i], func(m ast.Node) bool {
								if rid, ok := m.(*ast.Ident); ok && external[info.Uses[rid]] {
									needs = true
								}
								return true
							})
						}
					}
				}
				return true
			})
		}
		if !needs {
			return
		}
		n++
		r.Ob("L-negtag", fmt.Sprintf("%s :: %s %s only after a sign flip of negative values", f.Name, id.Name, what), prog.Pos(site.Pos()), normalised(obj, site.Pos()),
			"expected `if tag < 0 { tag *= -1 }` (or an absolute-value helper) before this point: the negative form of a tag denotes raw access to the same field number; any other normalisation looks up another field (or none)")
	}
	ast.Inspect(f.Decl.Body, func(nn ast.Node) bool {
		c, ok := nn.(*ast.CallExpr)
		if !ok {
			return true
		}
		if fn := staticCallee(info, c); fn != nil && fn.Pkg() != nil && fn.Pkg().Path() == "slices" && fn.Name() == "BinarySearch" && len(c.Args) == 2 && isTagTable(c.Args[0]) {
			check(c, "is searched in "+types.ExprString(c.Args[0]), c.Args[1])
		}
		if id, ok := c.Fun.(*ast.Ident); ok && id.Name == "append" && len(c.Args) == 2 && isTagTable(c.Args[0]) {
			check(c, "is appended to "+types.ExprString(c.Args[0]), c.Args[1])
		}
		return true
	})
	return n
}

// isSignFlip: x *= -1, x = -x, x = -1 * x, x = 0 - x
func isSignFlip(info *types.Info, as *ast.AssignStmt, obj types.Object) bool {
	if len(as.Lhs) != 1 || len(as.Rhs) != 1 {
		return false
	}
	lid, ok := as.Lhs[0].(*ast.Ident)
	if !ok || info.Uses[lid] != obj {
		return false
	}
	isObj := func(e ast.Expr) bool {
		id, ok := ast.Unparen(e).(*ast.Ident)
		return ok && info.Uses[id] == obj
	}
	isConst := func(e ast.Expr, v string) bool {
		tv := info.Types[e]
		return tv.Value != nil && tv.Value.ExactString() == v
	}
	switch as.Tok {
	case token.MUL_ASSIGN:
		return isConst(as.Rhs[0], "-1")
	case token.ASSIGN:
		switch x := ast.Unparen(as.Rhs[0]).(type) {
		case *ast.UnaryExpr:
			return x.Op == token.SUB && isObj(x.X)
		case *ast.BinaryExpr:
			if x.Op == token.MUL {
				return isObj(x.X) && isConst(x.Y, "-1") || isObj(x.Y) && isConst(x.X, "-1")
			}
			if x.Op == token.SUB {
				return isConst(x.X, "0") && isObj(x.Y)
			}
		}
	}
	return false
}

// isAbsFunc: func(p int) int of one of the shapes
//
//	if p < 0 { return -p }; return p        if p < 0 { p = -p }; return p        if p >= 0 { return p }; return -p
//	return max(p, -p)
func isAbsFunc(info *types.Info, d *ast.FuncDecl) bool {
	if d.Recv != nil || len(d.Type.Params.List) != 1 || len(d.Type.Params.List[0].Names) != 1 || d.Type.Results == nil || len(d.Type.Results.List) != 1 {
		return false
	}
	p := info.Defs[d.Type.Params.List[0].Names[0]]
	isP := func(e ast.Expr) bool {
		id, ok := ast.Unparen(e).(*ast.Ident)
		return ok && info.Uses[id] == p
	}
	isNegP := func(e ast.Expr) bool {
		switch x := ast.Unparen(e).(type) {
		case *ast.UnaryExpr:
			return x.Op == token.SUB && isP(x.X)
		case *ast.BinaryExpr:
			if tv := info.Types[x.Y]; x.Op == token.MUL && isP(x.X) && tv.Value != nil && tv.Value.ExactString() == "-1" {
				return true
			}
		}
		return false
	}
	retOf := func(st ast.Stmt) ast.Expr {
		if r, ok := st.(*ast.ReturnStmt); ok && len(r.Results) == 1 {
			return r.Results[0]
		}
		return nil
	}
	body := d.Body.List
	if len(body) == 1 {
		if e := retOf(body[0]); e != nil {
			if c, ok := ast.Unparen(e).(*ast.CallExpr); ok && len(c.Args) == 2 {
				if id, ok := c.Fun.(*ast.Ident); ok && id.Name == "max" {
					return isP(c.Args[0]) && isNegP(c.Args[1]) || isP(c.Args[1]) && isNegP(c.Args[0])
				}
			}
		}
		return false
	}
	if len(body) != 2 {
		return false
	}
	is, ok := body[0].(*ast.IfStmt)
	if !ok || is.Init != nil || is.Else != nil || len(is.Body.List) != 1 {
		return false
	}
	b, ok := is.Cond.(*ast.BinaryExpr)
	if !ok || !isP(b.X) {
		return false
	}
	if tv := info.Types[b.Y]; tv.Value == nil || tv.Value.ExactString() != "0" {
		return false
	}
	last := retOf(body[1])
	if last == nil {
		return false
	}
	switch b.Op {
	case token.LSS:
		if e := retOf(is.Body.List[0]); e != nil {
			return isNegP(e) && isP(last)
		}
		if as, ok := is.Body.List[0].(*ast.AssignStmt); ok {
			return isSignFlip(info, as, p) && isP(last)
		}
	case token.GEQ:
		if e := retOf(is.Body.List[0]); e != nil {
			return isP(e) && isNegP(last)
		}
	}
	return false
}

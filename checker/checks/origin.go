package checks

import (
	"go/ast"
	"go/token"
	"go/types"

	"golang.org/x/tools/go/packages"
)

// origin of byte/string memory
type origin int

const (
	oFresh    origin = iota // newly allocated / constant
	oInternal               // memory recorded by an earlier decode step (field of the receiver)
	oParam                  // the caller's buffer
)

func (o origin) String() string { return [...]string{"fresh", "internal", "input"}[o] }

func maxOrigin(a, b origin) origin {
	if a > b {
		return a
	}
	return b
}

// holdsBytes: type whose values can alias byte memory
func holdsBytes(t types.Type) bool {
	if t == nil {
		return false
	}
	switch u := t.Underlying().(type) {
	case *types.Basic:
		return u.Info()&types.IsString != 0
	case *types.Slice:
		if b, ok := u.Elem().Underlying().(*types.Basic); ok {
			return b.Kind() == types.Byte || b.Info()&types.IsString != 0
		}
		return holdsBytes(u.Elem())
	case *types.Pointer:
		return holdsBytes(u.Elem())
	}
	return false
}

type originAnalyzer struct {
	pk      *packages.Package
	info    *types.Info
	env     map[types.Object]origin
	fnBody  *ast.BlockStmt
	fnType  *ast.FuncType
	summary func(fn *types.Func, args []origin) (origin, bool) // callee summaries
	// fieldOrigin: origin of reading a struct field (by "Type.field"); default internal
	fieldOrigin func(typ, field string) origin
}

func newOriginAnalyzer(pk *packages.Package, ft *ast.FuncType, body *ast.BlockStmt) *originAnalyzer {
	oa := &originAnalyzer{pk: pk, info: pk.TypesInfo, env: map[types.Object]origin{}, fnBody: body, fnType: ft}
	return oa
}

// solve computes the origins of local variables by a small fixpoint.
func (oa *originAnalyzer) solve() {
	// parameters
	if oa.fnType.Params != nil {
		for _, f := range oa.fnType.Params.List {
			for _, n := range f.Names {
				if o := oa.info.Defs[n]; o != nil && holdsBytes(o.Type()) {
					oa.env[o] = oParam
				}
			}
		}
	}
	for round := 0; round < 6; round++ {
		changed := false
		set := func(id *ast.Ident, v origin) {
			if id == nil || id.Name == "_" {
				return
			}
			o := oa.info.Defs[id]
			if o == nil {
				o = oa.info.Uses[id]
			}
			if o == nil || !holdsBytes(o.Type()) {
				return
			}
			if cur, ok := oa.env[o]; !ok || v > cur {
				oa.env[o] = v
				changed = true
			}
		}
		ast.Inspect(oa.fnBody, func(n ast.Node) bool {
			switch x := n.(type) {
			case *ast.FuncLit:
				return false
			case *ast.AssignStmt:
				if len(x.Lhs) == len(x.Rhs) {
					for i, l := range x.Lhs {
						if id, ok := l.(*ast.Ident); ok {
							set(id, oa.of(x.Rhs[i]))
						}
					}
				} else if len(x.Rhs) == 1 {
					v := oa.of(x.Rhs[0])
					for _, l := range x.Lhs {
						if id, ok := l.(*ast.Ident); ok {
							set(id, v)
						}
					}
				}
			case *ast.RangeStmt:
				v := oa.of(x.X)
				if id, ok := x.Value.(*ast.Ident); ok {
					set(id, v)
				}
			case *ast.ValueSpec:
				for i, id := range x.Names {
					if i < len(x.Values) {
						set(id, oa.of(x.Values[i]))
					}
				}
			}
			return true
		})
		if !changed {
			break
		}
	}
}

func (oa *originAnalyzer) qualified(call *ast.CallExpr) (string, *types.Func) {
	fn := staticCallee(oa.info, call)
	if fn == nil || fn.Pkg() == nil {
		return "", nil
	}
	return fn.Pkg().Path() + "." + fn.Name(), fn
}

// of computes the origin of a byte-holding expression.
func (oa *originAnalyzer) of(e ast.Expr) origin {
	switch x := e.(type) {
	case nil:
		return oFresh
	case *ast.ParenExpr:
		return oa.of(x.X)
	case *ast.BasicLit, *ast.CompositeLit, *ast.FuncLit:
		if cl, ok := e.(*ast.CompositeLit); ok {
			r := oFresh
			for _, el := range cl.Elts {
				if kv, ok := el.(*ast.KeyValueExpr); ok {
					r = maxOrigin(r, oa.of(kv.Value))
				} else {
					r = maxOrigin(r, oa.of(el))
				}
			}
			return r
		}
		return oFresh
	case *ast.Ident:
		if x.Name == "nil" {
			return oFresh
		}
		o := oa.info.Uses[x]
		if o == nil {
			o = oa.info.Defs[x]
		}
		if o == nil {
			return oFresh
		}
		if _, isConst := o.(*types.Const); isConst {
			return oFresh
		}
		if v, ok := oa.env[o]; ok {
			return v
		}
		if !holdsBytes(o.Type()) {
			return oFresh
		}
		if v, ok := o.(*types.Var); ok && v.Parent() != nil && v.Pkg() != nil && v.Parent() == v.Pkg().Scope() {
			return oInternal
		}
		return oFresh // declared, not yet assigned (zero value)
	case *ast.SelectorExpr:
		if sel := oa.info.Selections[x]; sel != nil && sel.Kind() == types.FieldVal {
			if !holdsBytes(oa.info.TypeOf(x)) {
				return oFresh
			}
			if oa.fieldOrigin != nil {
				return oa.fieldOrigin(namedOf(sel.Recv()), x.Sel.Name)
			}
			return oInternal
		}
		return oFresh
	case *ast.StarExpr:
		return oa.of(x.X)
	case *ast.UnaryExpr:
		return oa.of(x.X)
	case *ast.SliceExpr:
		return oa.of(x.X)
	case *ast.IndexExpr:
		return oa.of(x.X)
	case *ast.BinaryExpr:
		if x.Op == token.ADD { // string concatenation allocates
			return oFresh
		}
		return oFresh
	case *ast.TypeAssertExpr:
		return oa.of(x.X)
	case *ast.CallExpr:
		// conversions
		if tv, ok := oa.info.Types[x.Fun]; ok && tv.IsType() && len(x.Args) == 1 {
			dst := tv.Type
			src := oa.info.TypeOf(x.Args[0])
			// string <-> []byte conversions copy; unsafe.Pointer casts alias
			if isUnsafePointer(dst) || isUnsafePointer(src) {
				return oa.of(x.Args[0])
			}
			if p, ok := dst.Underlying().(*types.Pointer); ok && src != nil {
				_ = p
				return oa.of(x.Args[0])
			}
			ds, ss := isStringType(dst), isStringType(src)
			if ds != ss {
				return oFresh
			}
			return oa.of(x.Args[0])
		}
		if id, ok := x.Fun.(*ast.Ident); ok {
			if b, ok := oa.info.Uses[id].(*types.Builtin); ok {
				switch b.Name() {
				case "make", "new", "len", "cap":
					return oFresh
				case "append":
					r := oa.of(x.Args[0])
					if x.Ellipsis != token.NoPos {
						// append(dst, src...) copies the elements of src; for [][]byte the elements still alias
						if len(x.Args) == 2 {
							et := oa.info.TypeOf(x.Args[1])
							if s, ok := et.Underlying().(*types.Slice); ok && holdsBytes(s.Elem()) {
								r = maxOrigin(r, oa.of(x.Args[1]))
							}
						}
						return r
					}
					for _, a := range x.Args[1:] {
						r = maxOrigin(r, oa.of(a))
					}
					return r
				case "min", "max":
					return oFresh
				}
			}
		}
		qn, fn := oa.qualified(x)
		switch qn {
		case "slices.Clone", "bytes.Clone", "strings.Clone", "strings.Join", "fmt.Sprintf", "strings.Repeat":
			// slices.Clone is shallow: a clone of [][]byte still aliases its elements
			if qn == "slices.Clone" && len(x.Args) == 1 {
				if s, ok := oa.info.TypeOf(x.Args[0]).Underlying().(*types.Slice); ok && holdsBytes(s.Elem()) {
					return oa.of(x.Args[0])
				}
			}
			return oFresh
		case "unsafe.String", "unsafe.Slice", "unsafe.SliceData", "unsafe.StringData":
			return oa.of(x.Args[0])
		}
		var args []origin
		worst := oFresh
		if se, ok := x.Fun.(*ast.SelectorExpr); ok {
			if sel := oa.info.Selections[se]; sel != nil {
				// method call: the receiver's memory
				if rt := oa.info.TypeOf(se.X); holdsBytes(rt) {
					worst = maxOrigin(worst, oa.of(se.X))
				}
			}
		}
		for _, a := range x.Args {
			o := oFresh
			if holdsBytes(oa.info.TypeOf(a)) {
				o = oa.of(a)
			}
			args = append(args, o)
			worst = maxOrigin(worst, o)
		}
		if fn != nil && oa.summary != nil {
			if s, ok := oa.summary(fn, args); ok {
				return s
			}
		}
		if !holdsBytes(resultType(oa.info.TypeOf(e))) {
			return oFresh
		}
		// unknown callee: may return any of its byte arguments; a method may also return memory held by its receiver
		if fn == nil {
			return maxOrigin(worst, oInternal)
		}
		if fn.Type().(*types.Signature).Recv() != nil {
			if se, ok := x.Fun.(*ast.SelectorExpr); ok && mayHoldBytesDeep(oa.info.TypeOf(se.X), 0) {
				return maxOrigin(worst, oInternal)
			}
		}
		return worst
	}
	return oInternal
}

func resultType(t types.Type) types.Type {
	if tup, ok := t.(*types.Tuple); ok && tup.Len() > 0 {
		return tup.At(0).Type()
	}
	return t
}

func isStringType(t types.Type) bool {
	if t == nil {
		return false
	}
	b, ok := t.Underlying().(*types.Basic)
	return ok && b.Info()&types.IsString != 0
}

func isUnsafePointer(t types.Type) bool {
	if t == nil {
		return false
	}
	b, ok := t.Underlying().(*types.Basic)
	return ok && b.Kind() == types.UnsafePointer
}

// mayHoldBytesDeep: values of t can reach byte/string memory (through fields, elements, pointers).
func mayHoldBytesDeep(t types.Type, depth int) bool {
	if t == nil || depth > 4 {
		return t != nil
	}
	switch u := t.Underlying().(type) {
	case *types.Basic:
		return u.Info()&types.IsString != 0 || u.Kind() == types.UnsafePointer
	case *types.Slice:
		return mayHoldBytesDeepElem(u.Elem(), depth)
	case *types.Array:
		return mayHoldBytesDeepElem(u.Elem(), depth)
	case *types.Pointer:
		return mayHoldBytesDeep(u.Elem(), depth+1)
	case *types.Map:
		return mayHoldBytesDeep(u.Key(), depth+1) || mayHoldBytesDeep(u.Elem(), depth+1)
	case *types.Struct:
		for i := 0; i < u.NumFields(); i++ {
			if mayHoldBytesDeep(u.Field(i).Type(), depth+1) {
				return true
			}
		}
		return false
	case *types.Interface, *types.Signature, *types.Chan:
		return true
	}
	return false
}

func mayHoldBytesDeepElem(t types.Type, depth int) bool {
	if b, ok := t.Underlying().(*types.Basic); ok && b.Kind() == types.Byte {
		return true
	}
	return mayHoldBytesDeep(t, depth+1)
}

package checks

import (
	"go/ast"
	"go/token"
	"go/types"
	"sort"

	"golang.org/x/tools/go/packages"

	"csverify/core"
)

// storeSite is a write to a struct field (or to an element of a slice field).
type storeSite struct {
	fn    *core.FuncInfo // enclosing declaration (literals are attributed to it)
	pos   token.Pos
	typ   string // struct type name
	field string
	elem  bool     // x.f[i] = v
	lhs   ast.Expr // the selector expression x.f
	rhs   ast.Expr // nil for ++/--
	stmt  ast.Stmt
}

type readSite struct {
	fn    *core.FuncInfo
	pos   token.Pos
	typ   string
	field string
	expr  *ast.SelectorExpr
}

type pkgIndex struct {
	pk      *packages.Package
	decls   []*core.FuncInfo
	byObj   map[*types.Func]*core.FuncInfo
	stores  []storeSite
	reads   []readSite
	callees map[*core.FuncInfo][]*core.FuncInfo // static callees + referenced functions (same package)
	parents map[ast.Node]ast.Node
}

func namedOf(t types.Type) string {
	if t == nil {
		return ""
	}
	if p, ok := t.(*types.Pointer); ok {
		t = p.Elem()
	}
	if n, ok := t.(*types.Named); ok {
		return n.Obj().Name()
	}
	return ""
}

func fieldSel(info *types.Info, e ast.Expr) (*ast.SelectorExpr, string, string, bool) {
	se, ok := e.(*ast.SelectorExpr)
	if !ok {
		return nil, "", "", false
	}
	sel := info.Selections[se]
	if sel == nil || sel.Kind() != types.FieldVal {
		return nil, "", "", false
	}
	return se, namedOf(sel.Recv()), se.Sel.Name, true
}

func buildIndex(pk *packages.Package) *pkgIndex {
	ix := &pkgIndex{pk: pk, byObj: map[*types.Func]*core.FuncInfo{}, callees: map[*core.FuncInfo][]*core.FuncInfo{}, parents: map[ast.Node]ast.Node{}}
	info := pk.TypesInfo
	for _, f := range core.Funcs(pk) {
		if f.Decl != nil {
			ix.decls = append(ix.decls, f)
			if f.Obj != nil {
				ix.byObj[f.Obj] = f
			}
		}
	}
	for _, f := range ix.decls {
		var stack []ast.Node
		ast.Inspect(f.Decl, func(n ast.Node) bool {
			if n == nil {
				stack = stack[:len(stack)-1]
				return true
			}
			if len(stack) > 0 {
				ix.parents[n] = stack[len(stack)-1]
			}
			stack = append(stack, n)
			return true
		})
		stored := map[*ast.SelectorExpr]bool{}
		addStore := func(lhs ast.Expr, rhs ast.Expr, stmt ast.Stmt) {
			elem := false
			e := lhs
			for {
				if p, ok := e.(*ast.ParenExpr); ok {
					e = p.X
					continue
				}
				if ixe, ok := e.(*ast.IndexExpr); ok {
					// x.f[i] = v is an element store of x.f — but only when x.f is itself a field
					if _, _, _, ok := fieldSel(info, ixe.X); ok {
						e = ixe.X
						elem = true
						continue
					}
				}
				break
			}
			if se, tn, fld, ok := fieldSel(info, e); ok {
				stored[se] = true
				ix.stores = append(ix.stores, storeSite{fn: f, pos: lhs.Pos(), typ: tn, field: fld, elem: elem, lhs: se, rhs: rhs, stmt: stmt})
			}
		}
		seen := map[*core.FuncInfo]bool{}
		ast.Inspect(f.Decl.Body, func(n ast.Node) bool {
			switch x := n.(type) {
			case *ast.AssignStmt:
				for i, l := range x.Lhs {
					var r ast.Expr
					if len(x.Rhs) == len(x.Lhs) {
						r = x.Rhs[i]
					} else if len(x.Rhs) == 1 {
						r = x.Rhs[0]
					}
					addStore(l, r, x)
				}
			case *ast.IncDecStmt:
				addStore(x.X, nil, x)
			case *ast.Ident:
				if fn, ok := info.Uses[x].(*types.Func); ok {
					if callee := ix.byObj[fn]; callee != nil && !seen[callee] {
						seen[callee] = true
						ix.callees[f] = append(ix.callees[f], callee)
					}
				}
			}
			return true
		})
		ast.Inspect(f.Decl.Body, func(n ast.Node) bool {
			if se, tn, fld, ok := fieldSel(info, exprOf(n)); ok && !stored[se] {
				ix.reads = append(ix.reads, readSite{fn: f, pos: se.Pos(), typ: tn, field: fld, expr: se})
			}
			return true
		})
	}
	return ix
}

func exprOf(n ast.Node) ast.Expr {
	e, _ := n.(ast.Expr)
	return e
}

// reachable computes the declarations reachable from the roots through static
// calls and function-value references (conservative for method expressions).
func (ix *pkgIndex) reachable(roots ...*core.FuncInfo) map[*core.FuncInfo]bool {
	out := map[*core.FuncInfo]bool{}
	var work []*core.FuncInfo
	for _, r := range roots {
		if r != nil && !out[r] {
			out[r] = true
			work = append(work, r)
		}
	}
	for len(work) > 0 {
		f := work[len(work)-1]
		work = work[:len(work)-1]
		for _, c := range ix.callees[f] {
			if !out[c] {
				out[c] = true
				work = append(work, c)
			}
		}
	}
	return out
}

func (ix *pkgIndex) find(name string) *core.FuncInfo {
	for _, f := range ix.decls {
		if f.Name == name {
			return f
		}
	}
	return nil
}

func sortedNames(m map[*core.FuncInfo]bool) []string {
	var out []string
	for f := range m {
		out = append(out, f.Name)
	}
	sort.Strings(out)
	return out
}

// enclosingIfConds lists the conditions of the if statements whose *body*
// (true branch) encloses n, innermost last.
func (ix *pkgIndex) enclosingIfConds(n ast.Node) []ast.Expr {
	var out []ast.Expr
	cur := n
	for {
		p := ix.parents[cur]
		if p == nil {
			break
		}
		if is, ok := p.(*ast.IfStmt); ok && ast.Node(is.Body) == cur {
			out = append([]ast.Expr{is.Cond}, out...)
		}
		cur = p
	}
	return out
}

// rootIdent returns the identifier at the base of a selector / index chain.
func rootIdent(e ast.Expr) *ast.Ident {
	for {
		switch x := e.(type) {
		case *ast.Ident:
			return x
		case *ast.SelectorExpr:
			e = x.X
		case *ast.IndexExpr:
			e = x.X
		case *ast.ParenExpr:
			e = x.X
		case *ast.StarExpr:
			e = x.X
		case *ast.SliceExpr:
			e = x.X
		default:
			return nil
		}
	}
}

// pkgLevelVar resolves e to the package-level variable it is rooted at (x, x.f, x[i], *x, pkg.X, …), or nil.
func pkgLevelVar(info *types.Info, e ast.Expr) *types.Var {
	for {
		switch x := e.(type) {
		case *ast.Ident:
			if v, ok := info.Uses[x].(*types.Var); ok && v.Pkg() != nil && v.Parent() == v.Pkg().Scope() {
				return v
			}
			return nil
		case *ast.SelectorExpr:
			if id, ok := x.X.(*ast.Ident); ok {
				if _, isPkg := info.Uses[id].(*types.PkgName); isPkg {
					if v, ok := info.Uses[x.Sel].(*types.Var); ok && v.Pkg() != nil && v.Parent() == v.Pkg().Scope() {
						return v
					}
					return nil
				}
			}
			e = x.X
		case *ast.IndexExpr:
			e = x.X
		case *ast.ParenExpr:
			e = x.X
		case *ast.StarExpr:
			e = x.X
		case *ast.SliceExpr:
			e = x.X
		default:
			return nil
		}
	}
}

// pkgLevelWrites reports every construct under body that changes (or, with addr, takes the address of) a
// package-level variable: assignment, ++/--, range into it, and the mutating builtins delete / clear / copy /
// append-assign.
func pkgLevelWrites(info *types.Info, body ast.Node, addr bool, visit func(pos token.Pos, v *types.Var, how string)) {
	ast.Inspect(body, func(n ast.Node) bool {
		switch x := n.(type) {
		case *ast.AssignStmt:
			if x.Tok == token.DEFINE {
				return true
			}
			for _, t := range x.Lhs {
				if v := pkgLevelVar(info, t); v != nil {
					visit(t.Pos(), v, "assigned")
				}
			}
		case *ast.IncDecStmt:
			if v := pkgLevelVar(info, x.X); v != nil {
				visit(x.Pos(), v, "incremented / decremented")
			}
		case *ast.RangeStmt:
			if x.Tok == token.ASSIGN {
				for _, t := range []ast.Expr{x.Key, x.Value} {
					if t != nil {
						if v := pkgLevelVar(info, t); v != nil {
							visit(t.Pos(), v, "assigned by range")
						}
					}
				}
			}
		case *ast.UnaryExpr:
			if addr && x.Op == token.AND {
				if v := pkgLevelVar(info, x.X); v != nil {
					visit(x.Pos(), v, "has its address taken")
				}
			}
		case *ast.CallExpr:
			if id, ok := x.Fun.(*ast.Ident); ok && len(x.Args) > 0 {
				if _, isB := info.Uses[id].(*types.Builtin); isB && (id.Name == "delete" || id.Name == "clear" || id.Name == "copy") {
					if v := pkgLevelVar(info, x.Args[0]); v != nil {
						visit(x.Pos(), v, "changed by "+id.Name)
					}
				}
			}
		}
		return true
	})
}

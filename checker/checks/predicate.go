package checks

import (
	"fmt"
	"go/ast"
	"go/constant"
	"go/token"
	"go/types"
	"math/big"
	"sort"
	"strings"

	"golang.org/x/tools/go/packages"

	"csverify/core"
)

// ---------------------------------------------------------------------------
// Predicate-interval engine (DESIGN §3.2): computes, from the comparison
// structure of the source, the set of varint values a reader rejects.

type rejectPred struct {
	fn     string     // function name
	pos    token.Pos  // position of the if
	conds  []ast.Expr // conjunction: enclosing conditions + own condition
	defs   map[types.Object]ast.Expr
	valObj types.Object // the decoded varint
	errs   []string     // error identifiers mentioned by the return
}

var (
	two64 = new(big.Int).Lsh(big.NewInt(1), 64)
)

type pval struct {
	v   *big.Int
	b   bool
	isB bool
	unk bool // depends on something that is not the decoded value
}

type pevalCtx struct {
	pk     *packages.Package
	val    types.Object
	probe  *big.Int
	defs   map[types.Object]ast.Expr
	unsup  string
	consts []*big.Int
}

func wrapTo(pk *packages.Package, t types.Type, v *big.Int) *big.Int {
	b, ok := t.Underlying().(*types.Basic)
	if !ok || b.Info()&types.IsInteger == 0 {
		return v
	}
	if b.Kind() == types.UntypedInt {
		return v
	}
	bits := uint(pk.TypesSizes.Sizeof(t) * 8)
	mod := new(big.Int).Lsh(big.NewInt(1), bits)
	r := new(big.Int).Mod(v, mod)
	if b.Info()&types.IsUnsigned == 0 {
		half := new(big.Int).Lsh(big.NewInt(1), bits-1)
		if r.Cmp(half) >= 0 {
			r.Sub(r, mod)
		}
	}
	return r
}

func (c *pevalCtx) eval(e ast.Expr) pval {
	info := c.pk.TypesInfo
	if tv, ok := info.Types[e]; ok && tv.Value != nil {
		switch tv.Value.Kind() {
		case constant.Int:
			b, _ := new(big.Int).SetString(tv.Value.ExactString(), 10)
			c.consts = append(c.consts, b)
			return pval{v: b}
		case constant.Bool:
			return pval{b: constant.BoolVal(tv.Value), isB: true}
		case constant.Float:
			if iv := constant.ToInt(tv.Value); iv.Kind() == constant.Int {
				b, _ := new(big.Int).SetString(iv.ExactString(), 10)
				c.consts = append(c.consts, b)
				return pval{v: b}
			}
		}
	}
	switch x := e.(type) {
	case *ast.ParenExpr:
		return c.eval(x.X)
	case *ast.Ident:
		o := info.Uses[x]
		if o == nil {
			o = info.Defs[x]
		}
		if o == c.val {
			return pval{v: new(big.Int).Set(c.probe)}
		}
		if d, ok := c.defs[o]; ok {
			r := c.eval(d)
			if r.v != nil {
				r.v = wrapTo(c.pk, o.Type(), r.v)
			}
			return r
		}
		return pval{unk: true, v: big.NewInt(0)}
	case *ast.UnaryExpr:
		r := c.eval(x.X)
		switch x.Op {
		case token.NOT:
			if r.unk {
				return pval{unk: true, isB: true}
			}
			return pval{b: !r.b, isB: true}
		case token.SUB:
			if r.unk {
				return r
			}
			return pval{v: wrapTo(c.pk, info.TypeOf(e), new(big.Int).Neg(r.v))}
		}
	case *ast.CallExpr:
		if tv, ok := info.Types[x.Fun]; ok && tv.IsType() && len(x.Args) == 1 {
			r := c.eval(x.Args[0])
			if r.unk {
				return r
			}
			src := info.TypeOf(x.Args[0])
			if src != nil {
				sb, _ := src.Underlying().(*types.Basic)
				db, _ := tv.Type.Underlying().(*types.Basic)
				if sb != nil && db != nil && sb.Kind() != types.UntypedInt && c.pk.TypesSizes.Sizeof(tv.Type) < c.pk.TypesSizes.Sizeof(src) {
					c.unsup = "narrowing conversion " + types.ExprString(e) + " is not monotone"
				}
			}
			return pval{v: wrapTo(c.pk, tv.Type, r.v)}
		}
	case *ast.BinaryExpr:
		l, r := c.eval(x.X), c.eval(x.Y)
		switch x.Op {
		case token.LAND:
			// unknown operands are "other reasons": they never contribute a rejection of the value
			lb, rb := l.b && !l.unk, r.b && !r.unk
			return pval{b: lb && rb, isB: true}
		case token.LOR:
			lb, rb := l.b && !l.unk, r.b && !r.unk
			return pval{b: lb || rb, isB: true}
		}
		if l.unk || r.unk {
			return pval{unk: true, isB: true, v: big.NewInt(0)}
		}
		if l.v == nil || r.v == nil {
			c.unsup = "operator " + x.Op.String() + " on non-integer operands"
			return pval{unk: true}
		}
		cmp := l.v.Cmp(r.v)
		switch x.Op {
		case token.LSS:
			return pval{b: cmp < 0, isB: true}
		case token.LEQ:
			return pval{b: cmp <= 0, isB: true}
		case token.GTR:
			return pval{b: cmp > 0, isB: true}
		case token.GEQ:
			return pval{b: cmp >= 0, isB: true}
		case token.EQL:
			return pval{b: cmp == 0, isB: true}
		case token.NEQ:
			return pval{b: cmp != 0, isB: true}
		}
		t := info.TypeOf(e)
		var out *big.Int
		switch x.Op {
		case token.ADD:
			out = new(big.Int).Add(l.v, r.v)
		case token.SUB:
			out = new(big.Int).Sub(l.v, r.v)
		case token.SHR:
			out = new(big.Int).Rsh(l.v, uint(r.v.Uint64()))
		case token.SHL:
			out = new(big.Int).Lsh(l.v, uint(r.v.Uint64()))
		case token.AND:
			if l.v.Sign() < 0 || r.v.Sign() < 0 {
				c.unsup = "bitwise and on negative operands"
				return pval{unk: true}
			}
			out = new(big.Int).And(l.v, r.v)
			c.unsup = "bit mask on the decoded value is not monotone"
		default:
			c.unsup = "operator " + x.Op.String()
			return pval{unk: true}
		}
		return pval{v: wrapTo(c.pk, t, out)}
	}
	c.unsup = "expression " + types.ExprString(e)
	return pval{unk: true}
}

// mentionsErr lists which of the given error identifiers occur in n.
func mentionsErr(n ast.Node, names map[string]bool) []string {
	var out []string
	ast.Inspect(n, func(m ast.Node) bool {
		switch x := m.(type) {
		case *ast.Ident:
			if names[x.Name] {
				out = append(out, x.Name)
			}
		case *ast.SelectorExpr:
			if names[x.Sel.Name] {
				out = append(out, x.Sel.Name)
			}
			return false
		}
		return true
	})
	return out
}

// findRejects collects the reject predicates on values decoded by the given leaf functions.
func findRejects(pk *packages.Package, f *core.FuncInfo, errNames map[string]bool, leafs map[string]bool) []*rejectPred {
	info := pk.TypesInfo
	var out []*rejectPred
	defs := map[types.Object]ast.Expr{}
	var valObjs []types.Object
	ast.Inspect(f.Body(), func(n ast.Node) bool {
		if as, ok := n.(*ast.AssignStmt); ok {
			if len(as.Rhs) == 1 && len(as.Lhs) >= 1 {
				if call, ok := as.Rhs[0].(*ast.CallExpr); ok {
					if fn := staticCallee(info, call); fn != nil && (leafs[fn.Name()] || passThroughLeaf(pk, fn, leafs)) {
						if id, ok := as.Lhs[0].(*ast.Ident); ok && id.Name != "_" {
							o := info.Defs[id]
							if o == nil {
								o = info.Uses[id]
							}
							valObjs = append(valObjs, o)
						}
						return true
					}
				}
			}
			if len(as.Lhs) == len(as.Rhs) && as.Tok == token.DEFINE {
				for i, l := range as.Lhs {
					if id, ok := l.(*ast.Ident); ok {
						if o := info.Defs[id]; o != nil {
							defs[o] = as.Rhs[i]
						}
					}
				}
			}
		}
		return true
	})
	isVal := func(o types.Object) bool {
		for _, v := range valObjs {
			if v == o {
				return true
			}
		}
		return false
	}
	// which value does a condition talk about (directly or through defs)?
	var valOf func(e ast.Expr, depth int) types.Object
	valOf = func(e ast.Expr, depth int) types.Object {
		var found types.Object
		ast.Inspect(e, func(n ast.Node) bool {
			if id, ok := n.(*ast.Ident); ok {
				o := info.Uses[id]
				if o == nil {
					return true
				}
				if isVal(o) {
					found = o
				} else if d, ok := defs[o]; ok && depth < 4 {
					if v := valOf(d, depth+1); v != nil {
						found = v
					}
				}
			}
			return true
		})
		return found
	}
	var walk func(n ast.Node, conds []ast.Expr)
	walk = func(n ast.Node, conds []ast.Expr) {
		switch x := n.(type) {
		case *ast.IfStmt:
			if x.Init != nil {
				walk(x.Init, conds)
			}
			inner := append(append([]ast.Expr(nil), conds...), x.Cond)
			// does the body return one of the errors directly (not through nested ifs)?
			for _, s := range x.Body.List {
				if ret, ok := s.(*ast.ReturnStmt); ok {
					if es := mentionsErr(ret, errNames); len(es) > 0 {
						if v := valOf(x.Cond, 0); v != nil {
							out = append(out, &rejectPred{fn: f.Name, pos: x.Pos(), conds: inner, defs: defs, valObj: v, errs: es})
						}
					}
				}
			}
			walk(x.Body, inner)
			if x.Else != nil {
				neg := &ast.UnaryExpr{Op: token.NOT, X: x.Cond, OpPos: x.Cond.Pos()}
				walk(x.Else, append(append([]ast.Expr(nil), conds...), neg))
			}
			return
		case *ast.FuncLit:
			if n != ast.Node(f.Lit) {
				return // analysed as its own function
			}
		}
		// generic traversal of children
		switch x := n.(type) {
		case *ast.BlockStmt:
			for _, s := range x.List {
				walk(s, conds)
			}
		case *ast.ForStmt:
			walk(x.Body, conds)
		case *ast.RangeStmt:
			walk(x.Body, conds)
		case *ast.SwitchStmt:
			for _, cl := range x.Body.List {
				cc := cl.(*ast.CaseClause)
				if x.Tag == nil && len(cc.List) == 1 {
					inner := append(append([]ast.Expr(nil), conds...), cc.List[0])
					for _, s := range cc.Body {
						if ret, ok := s.(*ast.ReturnStmt); ok {
							if es := mentionsErr(ret, errNames); len(es) > 0 {
								if v := valOf(cc.List[0], 0); v != nil {
									out = append(out, &rejectPred{fn: f.Name, pos: cc.Pos(), conds: inner, defs: defs, valObj: v, errs: es})
								}
							}
						}
					}
				}
				for _, s := range cc.Body {
					walk(s, conds)
				}
			}
		case *ast.FuncLit:
			walk(x.Body, conds)
		case *ast.LabeledStmt:
			walk(x.Stmt, conds)
		}
	}
	walk(f.Body(), nil)
	return out
}

// rejectSet evaluates the disjunction of the predicates on the probes.
// The result maps probe (decimal) -> rejected.
func rejectSet(pk *packages.Package, preds []*rejectPred, probes []*big.Int) (map[string]bool, string) {
	res := map[string]bool{}
	for _, p := range probes {
		rej := false
		for _, pr := range preds {
			all := true
			for _, cnd := range pr.conds {
				ctx := &pevalCtx{pk: pk, val: pr.valObj, probe: p, defs: pr.defs}
				v := ctx.eval(cnd)
				if ctx.unsup != "" {
					return nil, ctx.unsup
				}
				if v.unk {
					// an enclosing condition not about the value: assume it can hold
					continue
				}
				if !v.b {
					all = false
					break
				}
			}
			if all {
				rej = true
				break
			}
		}
		res[p.String()] = rej
	}
	return res, ""
}

// predConstants lists the integer constants of the predicates (for breakpoints).
func predConstants(pk *packages.Package, preds []*rejectPred) []*big.Int {
	var out []*big.Int
	for _, pr := range preds {
		ctx := &pevalCtx{pk: pk, val: pr.valObj, probe: big.NewInt(0), defs: pr.defs}
		for _, c := range pr.conds {
			ctx.eval(c)
		}
		out = append(out, ctx.consts...)
	}
	return out
}

// probesFor builds a probe set that contains a point of every interval on
// which a predicate over these constants can change its truth value.
func probesFor(consts []*big.Int) []*big.Int {
	seen := map[string]bool{}
	var out []*big.Int
	add := func(v *big.Int) {
		if v.Sign() < 0 || v.Cmp(two64) >= 0 {
			return
		}
		if !seen[v.String()] {
			seen[v.String()] = true
			out = append(out, new(big.Int).Set(v))
		}
	}
	base := []*big.Int{big.NewInt(0), big.NewInt(1), big.NewInt(7), big.NewInt(8)}
	for _, sh := range []uint{7, 8, 16, 26, 28, 29, 31, 32, 35, 63} {
		base = append(base, new(big.Int).Lsh(big.NewInt(1), sh))
	}
	base = append(base, new(big.Int).Sub(two64, big.NewInt(1)))
	all := append(base, consts...)
	for _, c := range all {
		img := []*big.Int{c}
		if c.Sign() < 0 {
			img = append(img, new(big.Int).Add(two64, c)) // two's complement image
		} else {
			img = append(img, new(big.Int).Sub(two64, c))
		}
		for _, b := range img {
			for d := int64(-2); d <= 2; d++ {
				add(new(big.Int).Add(b, big.NewInt(d)))
			}
			// shifted forms (keys): c<<3 .. (c<<3)+7, (c+1)<<3
			s3 := new(big.Int).Lsh(b, 3)
			for d := int64(-9); d <= 9; d++ {
				add(new(big.Int).Add(s3, big.NewInt(d)))
			}
		}
	}
	sort.Slice(out, func(i, j int) bool { return out[i].Cmp(out[j]) < 0 })
	// midpoints
	n := len(out)
	for i := 0; i+1 < n; i++ {
		mid := new(big.Int).Add(out[i], out[i+1])
		mid.Rsh(mid, 1)
		add(mid)
	}
	sort.Slice(out, func(i, j int) bool { return out[i].Cmp(out[j]) < 0 })
	return out
}

// valid sets (values a conforming writer emits)
func validFor(kind string) func(v *big.Int) bool {
	p31 := new(big.Int).Lsh(big.NewInt(1), 31)
	p32 := new(big.Int).Lsh(big.NewInt(1), 32)
	negLo := new(big.Int).Sub(two64, p31)
	maxField := new(big.Int).Sub(new(big.Int).Lsh(big.NewInt(1), 29), big.NewInt(1))
	switch kind {
	case "int32":
		return func(v *big.Int) bool { return v.Cmp(p31) < 0 || v.Cmp(negLo) >= 0 }
	case "uint32":
		return func(v *big.Int) bool { return v.Cmp(p32) < 0 }
	case "key":
		return func(v *big.Int) bool {
			num := new(big.Int).Rsh(v, 3)
			return num.Sign() > 0 && num.Cmp(maxField) <= 0
		}
	default:
		return func(v *big.Int) bool { return true }
	}
}

type readerRow struct {
	fn   string // function name in its package
	kind string // int32 / uint32 / any / key
	sib  string // sibling group
}

var decoderReaders = []readerRow{
	{"(*Decoder).DecodeTag", "key", "key"},
	{"(*Decoder).DecodeBool", "any", "bool"},
	{"(*Decoder).DecodePackedBool", "any", "bool"},
	{"(*Decoder).DecodeUInt32", "uint32", "uint32"},
	{"(*Decoder).DecodePackedUint32", "uint32", "uint32"},
	{"(*Decoder).DecodeInt32", "int32", "int32"},
	{"(*Decoder).DecodePackedInt32", "int32", "int32"},
	{"(*Decoder).DecodeUInt64", "any", "uint64"},
	{"(*Decoder).DecodePackedUint64", "any", "uint64"},
	{"(*Decoder).DecodeInt64", "any", "int64"},
	{"(*Decoder).DecodePackedInt64", "any", "int64"},
	{"(*Decoder).DecodeSInt32", "any", "sint32"},
	{"(*Decoder).DecodePackedSint32", "any", "sint32"},
	{"(*Decoder).DecodeSInt64", "any", "sint64"},
	{"(*Decoder).DecodePackedSint64", "any", "sint64"},
}

var rejectErrNames = map[string]bool{"ErrValueOverflow": true, "ErrInvalidFieldTag": true}
var varintLeafs = map[string]bool{"DecodeVarint": true, "DecodeZigZag32": true, "DecodeZigZag64": true}

type rejectResult struct {
	row   readerRow
	preds []*rejectPred
	pk    *packages.Package
	fi    *core.FuncInfo
}

// evalRejects runs rules (i) no conforming value rejected and (ii) sibling agreement.
func evalRejects(r *core.Result, prog *core.Program, prop string, rows []rejectResult) int {
	// common probe set
	var consts []*big.Int
	for _, rr := range rows {
		consts = append(consts, predConstants(rr.pk, rr.preds)...)
	}
	// fixed breakpoints of the key domain (field number 0, 1, 2^29-1, 2^29 with every wire type) so that the exactness
	// clause below does not depend on which constants the code under analysis happens to mention
	for _, k := range []string{"0", "7", "8", "4294967288", "4294967295", "4294967296", "4294967303", "34359738368", "9223372036854775808", "18446744073709551615"} {
		b, _ := new(big.Int).SetString(k, 10)
		consts = append(consts, b)
	}
	probes := probesFor(consts)
	sets := map[string]map[string]bool{}
	n := 0
	for _, rr := range rows {
		n++
		pos := prog.Pos(rr.fi.Pos())
		// elements of packed readers: predicates on the loop's value only (the length is not a field value)
		set, unsup := rejectSet(rr.pk, rr.preds, probes)
		if unsup != "" {
			r.Ob("P-valid", rr.row.fn+" ("+rr.row.kind+")", pos, false, "reject predicate is outside the supported comparison forms (undecided): "+unsup)
			continue
		}
		sets[rr.row.fn] = set
		valid := validFor(rr.row.kind)
		bad := ""
		for _, p := range probes {
			if valid(p) && set[p.String()] {
				bad = p.String()
				break
			}
		}
		detail := ""
		if bad != "" {
			b, _ := new(big.Int).SetString(bad, 10)
			detail = fmt.Sprintf("varint value %s (0x%x) is emitted by a conforming writer for kind %s but the reader returns an overflow/invalid-tag error for it (conditions: %s)", bad, b, rr.row.kind, condText(prog, rr.preds))
		}
		r.Ob("P-valid", rr.row.fn+" ("+rr.row.kind+")", pos, bad == "", detail)
		if rr.row.kind == "key" {
			// exactness: a key whose field number is 0 or above 2^29-1 is not a key of any message; a reader that
			// accepts it hands the caller a field the reference parsers reject (and lets Skip run on garbage)
			miss := ""
			for _, p := range probes {
				if !valid(p) && !set[p.String()] {
					miss = p.String()
					break
				}
			}
			d2 := ""
			if miss != "" {
				b, _ := new(big.Int).SetString(miss, 10)
				d2 = fmt.Sprintf("varint value %s (0x%x) is not a valid field key (field number 0 or above 2^29-1) but the reader accepts it (conditions: %s)", miss, b, condText(prog, rr.preds))
			}
			r.Ob("P-exact", rr.row.fn+" rejects every invalid key", pos, miss == "", d2)
		}
		r.Sample(map[string]interface{}{"reader": rr.row.fn, "kind": rr.row.kind, "reject_conditions": condText(prog, rr.preds), "probes": len(probes)})
	}
	// sibling agreement
	groups := map[string][]rejectResult{}
	for _, rr := range rows {
		groups[rr.row.sib] = append(groups[rr.row.sib], rr)
	}
	var gk []string
	for k := range groups {
		gk = append(gk, k)
	}
	sort.Strings(gk)
	for _, k := range gk {
		g := groups[k]
		if len(g) < 2 {
			continue
		}
		ref := g[0]
		for _, o := range g[1:] {
			a, b := sets[ref.row.fn], sets[o.row.fn]
			if a == nil || b == nil {
				continue
			}
			diff := ""
			for _, p := range probes {
				if a[p.String()] != b[p.String()] {
					diff = p.String()
					break
				}
			}
			detail := ""
			if diff != "" {
				detail = fmt.Sprintf("value %s: %s rejects=%v but %s rejects=%v (readers of one kind must accept the same values)", diff, ref.row.fn, a[diff], o.row.fn, b[diff])
			}
			r.Ob("P-sibling", ref.row.fn+" ~ "+o.row.fn, prog.Pos(o.fi.Pos()), diff == "", detail)
		}
	}
	return n
}

func condText(prog *core.Program, preds []*rejectPred) string {
	var parts []string
	for _, p := range preds {
		var cs []string
		for _, c := range p.conds {
			cs = append(cs, types.ExprString(c))
		}
		parts = append(parts, strings.Join(cs, " && "))
	}
	if len(parts) == 0 {
		return "(none)"
	}
	return strings.Join(parts, "  |  ")
}

func checkRejectPredicates(r *core.Result, prog *core.Program, prop string) int {
	root := prog.Pkg("")
	var rows []rejectResult
	for _, row := range decoderReaders {
		f := core.FindFunc(root, row.fn)
		if f == nil {
			r.Fail("anchor", row.fn, "", "reader not found (sibling table is stale)")
			continue
		}
		rows = append(rows, rejectResult{row: row, preds: findRejects(root, f, rejectErrNames, varintLeafs), pk: root, fi: f})
	}
	return evalRejects(r, prog, prop, rows)
}

// ---------------------------------------------------------------------------
// decoder sibling table: leaf codec class per reader

var leafClass = map[string]string{
	"DecodeVarint": "varint", "DecodeZigZag32": "zigzag32", "DecodeZigZag64": "zigzag64",
	"DecodeFixed32": "fixed32", "DecodeFixed64": "fixed64",
	"Uint32": "fixed32", "Uint64": "fixed64",
	"Float32frombits": "f32bits", "Float64frombits": "f64bits",
}

var decoderLeafTable = map[string]string{
	"DecodeTag": "varint", "DecodeBool": "varint", "DecodeBytes": "varint",
	"DecodeUInt32": "varint", "DecodeUInt64": "varint", "DecodeInt32": "varint", "DecodeInt64": "varint",
	"DecodeSInt32": "zigzag32", "DecodeSInt64": "zigzag64",
	"DecodeFixed32": "fixed32", "DecodeFixed64": "fixed64",
	"DecodeFloat32": "f32bits fixed32", "DecodeFloat64": "f64bits fixed64",
	"DecodePackedBool": "varint", "DecodePackedInt32": "varint", "DecodePackedInt64": "varint",
	"DecodePackedUint32": "varint", "DecodePackedUint64": "varint",
	"DecodePackedSint32": "varint zigzag32", "DecodePackedSint64": "varint zigzag64",
	"DecodePackedFixed32": "fixed32 varint", "DecodePackedFixed64": "fixed64 varint",
	"DecodePackedFloat32": "f32bits fixed32 varint", "DecodePackedFloat64": "f64bits fixed64 varint",
	"DecodeNested": "varint",
}

func checkDecoderSiblings(r *core.Result, prog *core.Program) int {
	root := prog.Pkg("")
	info := root.TypesInfo
	n := 0
	var names []string
	for k := range decoderLeafTable {
		names = append(names, k)
	}
	sort.Strings(names)
	for _, name := range names {
		f := core.FindFunc(root, "(*Decoder)."+name)
		if f == nil {
			r.Fail("anchor", "(*Decoder)."+name, "", "reader not found (sibling table is stale)")
			continue
		}
		n++
		set := map[string]bool{}
		// leaf codecs called by the reader itself or by the unexported helpers of the package it calls (to depth 3),
		// and leaf functions it hands to such a helper as a value
		var visit func(body ast.Node, depth int)
		seenDecl := map[*ast.FuncDecl]bool{}
		visit = func(body ast.Node, depth int) {
			ast.Inspect(body, func(nn ast.Node) bool {
				switch c := nn.(type) {
				case *ast.CallExpr:
					fn := staticCallee(info, c)
					if fn == nil || fn.Pkg() == nil {
						return true
					}
					p := fn.Pkg().Path()
					if p == root.PkgPath || p == "encoding/binary" || p == "math" {
						if cl, ok := leafClass[fn.Name()]; ok && fn.Type().(*types.Signature).Recv() == nil || (p == "encoding/binary" && leafClass[fn.Name()] != "") {
							if cl == "" {
								cl = leafClass[fn.Name()]
							}
							set[cl] = true
						}
					}
					if p == root.PkgPath && !fn.Exported() && depth < 3 {
						if d := namedFuncDecl(root, info, funIdent(c.Fun)); d != nil && !seenDecl[d] {
							seenDecl[d] = true
							visit(d.Body, depth+1)
						} else if d := methodDecl(root, info, fn); d != nil && !seenDecl[d] {
							seenDecl[d] = true
							visit(d.Body, depth+1)
						}
					}
				case *ast.Ident:
					// a leaf function used as a value (argument of a generic helper)
					if fn, ok := info.Uses[c].(*types.Func); ok && fn.Pkg() == root.Types && fn.Type().(*types.Signature).Recv() == nil {
						if cl, ok := leafClass[fn.Name()]; ok {
							set[cl] = true
						}
					}
				}
				return true
			})
		}
		visit(f.Decl.Body, 0)
		var got []string
		for k := range set {
			got = append(got, k)
		}
		sort.Strings(got)
		g := strings.Join(got, " ")
		r.Ob("D-leaf", "(*Decoder)."+name, prog.Pos(f.Pos()), g == decoderLeafTable[name], fmt.Sprintf("leaf codecs used: {%s}; sibling table: {%s}", g, decoderLeafTable[name]))
	}
	return n
}

// passThroughLeaf: fn is an unexported function or method of pk that obtains its first result from exactly one call
// of a leaf reader and hands it on untouched (no comparison, conversion or arithmetic on it): the common prologue
// of several readers moved into a helper. Callers are then analysed as if they had called the leaf themselves.
func passThroughLeaf(pk *packages.Package, fn *types.Func, leafs map[string]bool) bool {
	if fn.Exported() || fn.Pkg() != pk.Types {
		return false
	}
	info := pk.TypesInfo
	var decl *ast.FuncDecl
	for _, f := range pk.Syntax {
		for _, d := range f.Decls {
			if fd, ok := d.(*ast.FuncDecl); ok && info.Defs[fd.Name] == fn {
				decl = fd
			}
		}
	}
	if decl == nil || decl.Body == nil {
		return false
	}
	var val types.Object
	nLeaf := 0
	ast.Inspect(decl.Body, func(n ast.Node) bool {
		as, ok := n.(*ast.AssignStmt)
		if !ok || len(as.Rhs) != 1 || len(as.Lhs) < 1 {
			return true
		}
		if c, ok := as.Rhs[0].(*ast.CallExpr); ok {
			if cf := staticCallee(info, c); cf != nil && leafs[cf.Name()] {
				nLeaf++
				if id, ok := as.Lhs[0].(*ast.Ident); ok {
					val = info.Defs[id]
					if val == nil {
						val = info.Uses[id]
					}
				}
			}
		}
		return true
	})
	if nLeaf != 1 || val == nil {
		return false
	}
	// every use of the value: the defining assignment, or the first operand of a return
	okUse := true
	returned := false
	parents := parentMap(decl.Body)
	ast.Inspect(decl.Body, func(n ast.Node) bool {
		id, ok := n.(*ast.Ident)
		if !ok || (info.Uses[id] != val && info.Defs[id] != val) {
			return true
		}
		switch p := parents[id].(type) {
		case *ast.AssignStmt:
			if len(p.Lhs) == 0 || p.Lhs[0] != ast.Expr(id) {
				okUse = false
			}
		case *ast.ReturnStmt:
			if len(p.Results) > 0 && p.Results[0] == ast.Expr(id) {
				returned = true
			} else {
				okUse = false
			}
		case *ast.Field:
			// a named result
			returned = true
		default:
			okUse = false
		}
		return true
	})
	return okUse && returned
}

// funIdent: the identifier a call expression names (f, pkg.f, f[T]), or the expression itself.
func funIdent(e ast.Expr) ast.Expr {
	switch x := ast.Unparen(e).(type) {
	case *ast.IndexExpr:
		return funIdent(x.X)
	case *ast.IndexListExpr:
		return funIdent(x.X)
	}
	return e
}

// methodDecl finds the declaration of a method of pk.
func methodDecl(pk *packages.Package, info *types.Info, fn *types.Func) *ast.FuncDecl {
	if fn == nil || fn.Pkg() != pk.Types {
		return nil
	}
	if o := fn.Origin(); o != nil {
		fn = o
	}
	for _, f := range pk.Syntax {
		for _, d := range f.Decls {
			if fd, ok := d.(*ast.FuncDecl); ok && fd.Body != nil && info.Defs[fd.Name] == fn {
				return fd
			}
		}
	}
	return nil
}

// Package checks holds one check per property (C01..C20).
package checks

import (
	"sort"

	"csverify/core"
)

// Check runs one property's rules and fills r.
type Check func(r *core.Result)

var registry = map[string]Check{}

func register(id string, c Check) { registry[id] = c }

func Get(id string) Check { return registry[id] }

func IDs() []string {
	var out []string
	for k := range registry {
		out = append(out, k)
	}
	sort.Strings(out)
	return out
}

package checks

import (
	"go/ast"
	"go/token"
	"go/types"
)

// kindSpecialisation rewrites a function that tells the dynamic kinds of one interface-typed parameter apart with
// comma-ok assertions (in any arrangement: if-with-init chains, guard clauses, `v, ok := m.(T)` followed by tests of
// ok, if/else that only differ in how a value is obtained) into the equivalent type switch
//
//	switch v := m.(type) { case T1: <body specialised for T1>  case T2: …  default: <body for none of them> }
//
// by partial evaluation: under the assumption "m is Ti and none of T1..Ti-1" every assertion to a listed type has a
// known outcome, so the tests of its ok variable are resolved and the untaken branches dropped. Statements are
// reused, not copied, so the type information stays valid. The result is what a rule written for the type-switch
// form analyses. ok is false when the function is already a type switch over m, has no such assertion, or an
// assertion is reached whose outcome the assumption does not determine.
type kindSpec struct {
	sw      *ast.TypeSwitchStmt
	aliases map[types.Object]bool // variables bound to m by an assertion
}

func specialiseByKind(info *types.Info, fd *ast.FuncDecl, mObj types.Object) (*kindSpec, bool) {
	isM := func(e ast.Expr) bool {
		id, ok := ast.Unparen(e).(*ast.Ident)
		return ok && info.Uses[id] == mObj
	}
	// the asserted types, in source order
	var order []ast.Expr
	seen := map[string]bool{}
	already := false
	ast.Inspect(fd.Body, func(n ast.Node) bool {
		switch x := n.(type) {
		case *ast.TypeSwitchStmt:
			already = true
		case *ast.TypeAssertExpr:
			if x.Type != nil && isM(x.X) {
				k := types.ExprString(x.Type)
				if !seen[k] {
					seen[k] = true
					order = append(order, x.Type)
				}
			}
		}
		return true
	})
	if already || len(order) == 0 {
		return nil, false
	}
	spec := &kindSpec{aliases: map[types.Object]bool{}}
	failed := false
	// outcome of asserting m to type expression t under kind i (len(order) = none)
	outcome := func(t ast.Expr, kind int) (val, known bool) {
		k := types.ExprString(t)
		for j, o := range order {
			if types.ExprString(o) == k {
				switch {
				case kind == len(order):
					return false, true
				case j == kind:
					return true, true
				case j < kind:
					return false, true
				default:
					return false, false // a later type: not determined by "first match"
				}
			}
		}
		return false, false
	}
	var evalList func(list []ast.Stmt, kind int, okVals map[types.Object]bool) ([]ast.Stmt, bool)
	// condValue: value of a condition that is `ok` / `!ok` for a resolved ok variable
	condValue := func(c ast.Expr, okVals map[types.Object]bool) (val, known bool) {
		c = ast.Unparen(c)
		neg := false
		if u, ok := c.(*ast.UnaryExpr); ok && u.Op == token.NOT {
			neg = true
			c = ast.Unparen(u.X)
		}
		id, ok := c.(*ast.Ident)
		if !ok {
			return false, false
		}
		v, known := okVals[info.Uses[id]]
		if !known {
			return false, false
		}
		return v != neg, true
	}
	// assertion statement `v, ok := m.(T)` / `v, ok = m.(T)`
	asAssertion := func(st ast.Stmt) (vID, okID *ast.Ident, t ast.Expr, is bool) {
		as, ok := st.(*ast.AssignStmt)
		if !ok || len(as.Lhs) != 2 || len(as.Rhs) != 1 {
			return nil, nil, nil, false
		}
		ta, ok := as.Rhs[0].(*ast.TypeAssertExpr)
		if !ok || ta.Type == nil || !isM(ta.X) {
			return nil, nil, nil, false
		}
		v, _ := as.Lhs[0].(*ast.Ident)
		o, _ := as.Lhs[1].(*ast.Ident)
		if v == nil || o == nil {
			return nil, nil, nil, false
		}
		return v, o, ta.Type, true
	}
	objOf := func(id *ast.Ident) types.Object {
		if o := info.Defs[id]; o != nil {
			return o
		}
		return info.Uses[id]
	}
	evalList = func(list []ast.Stmt, kind int, okVals map[types.Object]bool) ([]ast.Stmt, bool) {
		var out []ast.Stmt
		for _, st := range list {
			if vID, okID, t, is := asAssertion(st); is {
				val, known := outcome(t, kind)
				if !known {
					failed = true
					return out, false
				}
				if o := objOf(okID); o != nil {
					okVals[o] = val
				}
				if o := objOf(vID); o != nil && vID.Name != "_" {
					spec.aliases[o] = true
				}
				continue
			}
			if is, ok := st.(*ast.IfStmt); ok {
				if is.Init != nil {
					if vID, okID, t, isA := asAssertion(is.Init); isA {
						val, known := outcome(t, kind)
						if !known {
							failed = true
							return out, false
						}
						if o := objOf(okID); o != nil {
							okVals[o] = val
						}
						if o := objOf(vID); o != nil && vID.Name != "_" {
							spec.aliases[o] = true
						}
					}
				}
				if cv, known := condValue(is.Cond, okVals); known {
					var branch []ast.Stmt
					if cv {
						branch = is.Body.List
					} else if is.Else != nil {
						switch e := is.Else.(type) {
						case *ast.BlockStmt:
							branch = e.List
						case *ast.IfStmt:
							branch = []ast.Stmt{e}
						}
					}
					sub, leaves := evalList(branch, kind, okVals)
					out = append(out, sub...)
					if leaves {
						return out, true
					}
					continue
				}
				// an ordinary if: specialise inside it (a copy of the node with specialised branches)
				if containsAssertion(info, is, mObj) {
					nis := *is
					body, _ := evalList(is.Body.List, kind, okVals)
					nis.Body = &ast.BlockStmt{Lbrace: is.Body.Lbrace, List: body, Rbrace: is.Body.Rbrace}
					if is.Else != nil {
						if eb, ok := is.Else.(*ast.BlockStmt); ok {
							el, _ := evalList(eb.List, kind, okVals)
							nis.Else = &ast.BlockStmt{Lbrace: eb.Lbrace, List: el, Rbrace: eb.Rbrace}
						}
					}
					out = append(out, &nis)
					continue
				}
			}
			out = append(out, st)
			if leavesBlock([]ast.Stmt{st}) {
				return out, true
			}
		}
		return out, false
	}
	sw := &ast.TypeSwitchStmt{Switch: fd.Body.Pos(), Body: &ast.BlockStmt{Lbrace: fd.Body.Lbrace, Rbrace: fd.Body.Rbrace}}
	bindID := &ast.Ident{NamePos: fd.Body.Pos(), Name: "_kind"}
	var mIdent *ast.Ident
	ast.Inspect(fd.Body, func(n ast.Node) bool {
		if id, ok := n.(*ast.Ident); ok && mIdent == nil && info.Uses[id] == mObj {
			mIdent = id
		}
		return true
	})
	if mIdent == nil {
		return nil, false
	}
	sw.Assign = &ast.AssignStmt{Lhs: []ast.Expr{bindID}, TokPos: fd.Body.Pos(), Tok: token.DEFINE,
		Rhs: []ast.Expr{&ast.TypeAssertExpr{X: mIdent, Lparen: fd.Body.Pos(), Rparen: fd.Body.Pos()}}}
	for kind := 0; kind <= len(order); kind++ {
		body, _ := evalList(fd.Body.List, kind, map[types.Object]bool{})
		if failed {
			return nil, false
		}
		cc := &ast.CaseClause{Case: fd.Body.Pos(), Colon: fd.Body.Pos(), Body: body}
		if kind < len(order) {
			cc.List = []ast.Expr{order[kind]}
		}
		sw.Body.List = append(sw.Body.List, cc)
	}
	spec.sw = sw
	return spec, true
}

func containsAssertion(info *types.Info, n ast.Node, mObj types.Object) bool {
	found := false
	ast.Inspect(n, func(x ast.Node) bool {
		if ta, ok := x.(*ast.TypeAssertExpr); ok && ta.Type != nil {
			if id, ok := ast.Unparen(ta.X).(*ast.Ident); ok && info.Uses[id] == mObj {
				found = true
			}
		}
		return true
	})
	return found
}

// inlineLocals replaces, in a copy of e, every local variable that is defined exactly once in body (by `:=`, also in
// a tuple definition) and never assigned again by the expression it was defined with, recursively. Leaves are reused
// nodes, so their type information stays valid.
func inlineLocals(info *types.Info, body *ast.BlockStmt, e ast.Expr) ast.Expr {
	defs := map[types.Object]ast.Expr{}
	count := map[types.Object]int{}
	ast.Inspect(body, func(n ast.Node) bool {
		switch as := n.(type) {
		case *ast.AssignStmt:
			for i, l := range as.Lhs {
				id, ok := l.(*ast.Ident)
				if !ok {
					continue
				}
				o := info.Defs[id]
				if o == nil {
					o = info.Uses[id]
				}
				if o == nil {
					continue
				}
				count[o]++
				if as.Tok == token.DEFINE && len(as.Lhs) == len(as.Rhs) {
					defs[o] = as.Rhs[i]
				}
			}
		case *ast.IncDecStmt:
			if id, ok := as.X.(*ast.Ident); ok {
				count[info.Uses[id]] += 2
			}
		}
		return true
	})
	var sub func(e ast.Expr, depth int) ast.Expr
	sub = func(e ast.Expr, depth int) ast.Expr {
		if depth > 8 {
			return e
		}
		switch x := e.(type) {
		case *ast.Ident:
			o := info.Uses[x]
			if d, ok := defs[o]; ok && count[o] == 1 {
				return sub(d, depth+1)
			}
			return x
		case *ast.ParenExpr:
			return &ast.ParenExpr{Lparen: x.Lparen, X: sub(x.X, depth), Rparen: x.Rparen}
		case *ast.BinaryExpr:
			n := *x
			n.X, n.Y = sub(x.X, depth), sub(x.Y, depth)
			if tv, ok := info.Types[x]; ok {
				info.Types[&n] = tv
			}
			return &n
		case *ast.SliceExpr:
			n := *x
			n.X = sub(x.X, depth)
			if x.Low != nil {
				n.Low = sub(x.Low, depth)
			}
			if x.High != nil {
				n.High = sub(x.High, depth)
			}
			if tv, ok := info.Types[x]; ok {
				info.Types[&n] = tv
			}
			return &n
		}
		return e
	}
	return sub(e, 0)
}

package checks

import (
	"fmt"
	"sort"
	"strings"

	"csverify/core"
)

// A property whose anchors include the hand-written codec (or another shared component) depends on
// facts that another property's check already decides. Those facts are necessary conditions of both
// properties, so the check of each of them reports when one breaks. The table below lists, per
// property, the rules taken over from the check that owns them, with the argument why a violation of
// the rule is a violation of the importing property too. Only rules are shared: every check still runs
// against the working tree on its own, nothing is cached between commands.
type support struct {
	From  string
	Rules []string // rule names; "*" = all
	// Under restricts the imported obligations to constructs that contain one of these strings.
	Under []string
	Why   string
}

var supports = map[string][]support{
	"C01": {
		{From: "C03", Rules: []string{"O-idx", "O-raw", "O-inv", "O-inv-ret", "O-post"},
			Why: "a value round-trips only if decoding its encoding does not panic; the bounds analysis cannot tell valid from invalid input, so an index it cannot justify is reported here too"},
	},
	"C02": {
		{From: "C03", Rules: []string{"O-idx", "O-raw", "O-inv", "O-inv-ret", "O-post"},
			Why: "a conforming decoder accepts every valid encoding without panicking; the bounds analysis cannot tell valid from invalid input, so an index it cannot justify is reported here too"},
		{From: "C01", Rules: []string{"*"},
			Why: "a canonical encoder and a conforming decoder round-trip every value, and the canonical encoding has one length: a value that does not round-trip, or a size helper that disagrees with the bytes written, means one side does not follow the wire format"},
	},
	"C03": {
		{From: "C19", Rules: []string{"B-nested", "N-error", "N-advance", "N-same-slice"},
			Why: "DecodeNested is a Decoder method: it is total only if the payload it hands to the nested message's Unmarshal is the checked slice and a failure comes back as an error"},
	},
	"C04": {
		{From: "C16", Rules: []string{"G-batch-code"},
			Why: "the rules of this check read the code generated for one-file requests; a file's output must not depend on the other files of the request for them to hold for the code every request produces"},
		{From: "C01", Rules: []string{"E-bytes", "E-write-advance", "E-varint-size", "E-leaf"},
			Why: "the generated Size adds SizeOf* terms and the generated MarshalTo calls Encode*: they agree only if every Encode* writes, and advances by, exactly the SizeOf* of its argument"},
		{From: "C19", Rules: []string{"N-bytes", "N-write-advance"},
			Why: "the generated Size counts key + length prefix + Size(child) for a nested message; EncodeNested has to place exactly those bytes"},
		{From: "C09", Rules: []string{"H-cache-owner", "H-cache-final"},
			Why: "the generated Size returns the cached value when there is one: a cache written by anything but Size, or holding something else than the value Size returned, makes Size disagree with the bytes Marshal writes"},
	},
	"C05": {
		{From: "C16", Rules: []string{"G-batch-code"},
			Why: "the rules of this check read the code generated for one-file requests; a file's output must not depend on the other files of the request for them to hold for the code every request produces"},
		{From: "C01", Rules: []string{"E-bytes", "E-write-advance", "E-key-shift", "E-wiretype", "E-leaf", "E-varint-size"},
			Why: "the generated MarshalTo produces its output only through the Encoder: a wrong key, wire type, byte count or cursor advance in one Encode* method is a wrong byte in the message the reference runtime has to decode"},
		{From: "C02", Rules: []string{"W-const", "W-widen"},
			Why: "wire-type constants and the sign extension of int32/enum values decide what the reference runtime reads back"},
		{From: "C19", Rules: []string{"N-bytes", "N-write-advance", "N-wiretype"},
			Why: "message-typed fields are written by EncodeNested"},
		{From: "C12", Rules: []string{"E3"},
			Why: "the generated code reads extension values and presence through csproto.GetExtension / HasExtension"},
	},
	"C06": {
		{From: "C16", Rules: []string{"G-batch-code"},
			Why: "the rules of this check read the code generated for one-file requests; a file's output must not depend on the other files of the request for them to hold for the code every request produces"},
		{From: "C01", Rules: []string{"B-roundtrip", "D-leaf", "P-sibling", "P-valid", "P-exact", "O-range"},
			Why: "the generated Unmarshal reads every value through the Decoder: a Decode* method that rejects or alters a valid encoding makes the generated code disagree with the reference"},
		{From: "C07", Rules: []string{"K-stored"},
			Why: "unknown fields kept as a sub-slice of the input let a later append write into the caller's buffer, which fields decoded without copying still point into"},
		{From: "C19", Rules: []string{"B-nested", "N-advance", "N-same-slice", "N-error"},
			Why: "message-typed fields are read by DecodeNested"},
	},
	"C07": {
		{From: "C16", Rules: []string{"G-batch-code"},
			Why: "the rules of this check read the code generated for one-file requests; a file's output must not depend on the other files of the request for them to hold for the code every request produces"},
		{From: "C02", Rules: []string{"O-post", "S-advance", "S-cover", "S-keystart", "S-payload"},
			Why: "the generated Unmarshal retains exactly the bytes that (*Decoder).Skip returns for an unknown field"},
		{From: "C03", Rules: []string{"*"}, Under: []string{"(*Decoder).Skip"},
			Why: "Skip runs on every unknown field; an index it cannot justify is a panic or a wrong slice for some unknown field"},
		{From: "C01", Rules: []string{"B-roundtrip", "E-key-shift"},
			Why: "Skip finds the first byte of an unknown field by stepping back SizeOfTagKey(tag) bytes: the retained bytes are the field only if that helper equals the number of key bytes written, for every field-number class (the round-trip harnesses compare the two)"},
		{From: "C09", Rules: []string{"H-cache-final"},
			Why: "Size accounts for the unknown fields on every call only if the cached size is the returned one, unknown fields included"},
	},
	"C08": {
		{From: "C01", Rules: []string{"D-leaf", "P-sibling", "P-valid", "P-exact", "O-range"},
			Why: "see C06: a Decode* method that rejects or alters a valid encoding is a disagreement"},
		{From: "C16", Rules: []string{"G-batch-code"},
			Why: "the rules of this check read the code generated for one-file requests; a file's output must not depend on the other files of the request for them to hold for the code every request produces"},
		{From: "C03", Rules: []string{"*"},
			Why: "the generated Unmarshal runs the Decoder on the caller's bytes: it is total only if every Decoder method is"},
		{From: "C06", Rules: []string{"U-arms", "U-bytes-presence", "U-default", "U-methods", "U-store", "U-wiretypes", "U-reset"},
			Why: "no silent disagreement includes the valid encodings: a field decoded with the wrong method, stored in the wrong place or losing its presence is a silent disagreement"},
		{From: "C07", Rules: []string{"K-stored"},
			Why: "see C06"},
		{From: "C19", Rules: []string{"O-idx", "O-inv", "O-inv-ret", "N-error"},
			Why: "nested messages are entered through DecodeNested"},
	},
	"C09": {
		{From: "C16", Rules: []string{"G-batch-code"},
			Why: "the rules of this check read the code generated for one-file requests; a file's output must not depend on the other files of the request for them to hold for the code every request produces"},
		{From: "C01", Rules: []string{"B-roundtrip", "E-write-advance", "E-bytes"},
			Why: "every byte of the output has to be stored by the encoder (the round-trip harnesses start from a buffer of unknown bytes): MarshalTo into a reused buffer otherwise hands back what the buffer held before"},
		{From: "C06", Rules: []string{"U-reset"},
			Why: "Unmarshal replaces the contents of the message: the Reset at its start is also what invalidates the cached size of the old contents"},
		{From: "C11", Rules: []string{"D6", "D6c"},
			Why: "csproto.Size and csproto.Marshal classify the message through MsgType on every call: its cache has to be safe for the concurrent Size/Marshal calls of the second clause"},
		{From: "C11", Rules: []string{"D8"}, Under: []string{"Clone"},
			Why: "Clone has to be the owning runtime's deep copy: a copy made another way shares or primes state of the source"},
		{From: "C19", Rules: []string{"N-bytes", "N-write-advance"},
			Why: "the length prefix of a nested message has to be the size of its current contents, computed in the same call that writes it"},
	},
	"C10": {
		{From: "C16", Rules: []string{"G-batch-code"},
			Why: "the rules of this check read the code generated for one-file requests; a file's output must not depend on the other files of the request for them to hold for the code every request produces"},
	},
	"C12": {
		{From: "C11", Rules: []string{"D1", "D2", "D4", "D4b", "D10", "D12"},
			Why: "every extension accessor selects the runtime by MsgType: a message classified as the wrong runtime is paired with the wrong extension API"},
		{From: "C05", Rules: []string{"V-presence-encoding", "V-ext-open"}, Under: []string{"extension", "extendable"},
			Why: "after ClearExtension the extension must not appear in the marshaled bytes, and a set one must: the generated code decides that with HasExtension"},
	},
	"C13": {
		{From: "C02", Rules: []string{"O-post", "S-advance", "S-cover", "S-keystart", "S-payload"},
			Why: "the lazy decoder slices the value of every field out of what (*Decoder).Skip returns"},
		{From: "C03", Rules: []string{"*"}, Under: []string{"(*Decoder).Skip", "(*Decoder).DecodeTag", "(*Decoder).More"},
			Why: "the top-level loop of the lazy decoder is DecodeTag + Skip on the caller's bytes and must not panic"},
		{From: "C14", Rules: []string{"R1", "R2", "R6", "R8"},
			Why: "the Decoder object hands out pooled results: a result that is not reset shows values of an earlier input"},
	},
	"C14": {
		{From: "C10", Rules: []string{"A-return", "A-elem", "A-entry"}, Under: []string{"(*FieldData)", "(*DecodeResult)", "lazyproto"},
			Why: "in safe mode a value handed out before Close has to stay intact: an accessor that returns pooled storage instead of a copy is overwritten by the next decode"},
	},
	"C15": {
		{From: "C11", Rules: []string{"D6"},
			Why: "the lazy decoder runs the root package's Decoder and formats wire types in its errors: package-level state written at run time is shared by all goroutines"},
		{From: "C14", Rules: []string{"R3", "R4", "R5", "R7", "R9"},
			Why: "a result returned to the pool twice is handed to two goroutines at once"},
	},
	"C17": {
		{From: "C19", Rules: []string{"N-bytes", "N-error"},
			Why: "the required-field check of a nested message runs inside its MarshalTo/Marshal, which only EncodeNested calls for every child, and its error has to come back"},
		{From: "C16", Rules: []string{"G-batch-code"},
			Why: "the rules of this check read the code generated for one-file requests; a file's output must not depend on the other files of the request for them to hold for the code every request produces"},
		{From: "C06", Rules: []string{"U-bytes-presence"},
			Why: "a required bytes field that is present and empty must count as present"},
	},
	"C18": {
		{From: "C11", Rules: []string{"D1", "D2", "D4", "D4b", "D10", "D12"},
			Why: "the JSON adapters tell golang/protobuf v1 messages from Gogo messages by MsgType"},
	},
}

var supportCache = map[string]*core.Result{}

// Run executes the check of property id and then the imported rules of the checks it depends on.
func Run(id string, r *core.Result) {
	c := Get(id)
	if c == nil {
		r.Infra("unknown property %s", id)
		return
	}
	sp := supports[id]
	keep := KeepExpansion
	if len(sp) > 0 {
		KeepExpansion = true
		defer func() {
			KeepExpansion = keep
			if !keep {
				ReleaseExpansionNow()
			}
		}()
	}
	c(r)
	var lines []string
	for _, s := range sp {
		sub := supportCache[s.From+"|"+r.Tier]
		if sub == nil {
			sub = core.NewResult(s.From, r.Tier)
			Get(s.From)(sub)
			supportCache[s.From+"|"+r.Tier] = sub
		}
		s := s
		nOb, nFind, nKnown := r.Import(sub, func(rule, construct string) bool {
			ok := false
			for _, x := range s.Rules {
				if x == "*" || x == rule {
					ok = true
				}
			}
			if !ok {
				return false
			}
			if len(s.Under) == 0 || rule == "floor" {
				return true
			}
			for _, p := range s.Under {
				if strings.Contains(construct, p) {
					return true
				}
			}
			return false
		})
		what := strings.Join(s.Rules, ",")
		if len(s.Under) > 0 {
			what += " under " + strings.Join(s.Under, " | ")
		}
		r.Counts[fmt.Sprintf("obligations shared with %s (%s)", s.From, what)] = nOb
		if nOb == 0 {
			r.Fail("floor", fmt.Sprintf("rules %s of %s", what, s.From), "", "the rules this property shares with another check matched nothing")
		}
		_ = nFind
		if nKnown > 0 {
			r.Note("%d finding(s) of rules shared with %s are known findings of %s and are reported there", nKnown, s.From, s.From)
		}
		lines = append(lines, fmt.Sprintf("%s %s: %s", s.From, what, s.Why))
	}
	if len(lines) > 0 {
		sort.Strings(lines)
		r.Explanation += " Shared rules (necessary conditions of this property that another check owns; run here as well): " + strings.Join(lines, "; ") + "."
	}
}

// SharedRules renders the table for the manifest generator: property -> "Y rule,rule [under …]" entries.
func SharedRules() map[string][]string {
	out := map[string][]string{}
	for id, sp := range supports {
		for _, s := range sp {
			what := s.From + " " + strings.Join(s.Rules, ",")
			if len(s.Under) > 0 {
				what += " (constructs under " + strings.Join(s.Under, " / ") + ")"
			}
			out[id] = append(out[id], what)
		}
	}
	return out
}

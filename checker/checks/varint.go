package checks

import (
	"fmt"
	"go/ast"
	"go/token"
	"go/types"
	"math/bits"
	"strings"

	"golang.org/x/tools/go/packages"

	"csverify/bitexec"
	"csverify/core"
)

// Bit-length abstract interpretation (C01): the domain of a uint64 value is its bit length k ∈ 0..64.
// For each class the varint writer's byte count and the size helper's result are computed exactly from
// their own source (comparison with a power of two is a test on k, a right shift subtracts from k), and
// must agree for all 65 classes. No code is executed; unsupported shapes are undecided (reported).

type blState struct {
	k    int // bit length of the tracked value
	ints map[types.Object]int
}

func constVal(info *types.Info, e ast.Expr) (uint64, bool) {
	tv, ok := info.Types[e]
	if !ok || tv.Value == nil {
		return 0, false
	}
	var v uint64
	if _, err := fmt.Sscan(tv.Value.ExactString(), &v); err != nil {
		return 0, false
	}
	return v, true
}

// classBitLen: bit length of expression e when the tracked variable has bit length k.
func classBitLen(info *types.Info, e ast.Expr, tracked types.Object, k int) (int, bool) {
	switch x := e.(type) {
	case *ast.ParenExpr:
		return classBitLen(info, x.X, tracked, k)
	case *ast.Ident:
		if info.Uses[x] == tracked {
			return k, true
		}
		if c, ok := constVal(info, x); ok {
			return bits.Len64(c), true
		}
	case *ast.BasicLit:
		if c, ok := constVal(info, x); ok {
			return bits.Len64(c), true
		}
	case *ast.CallExpr:
		if tv, ok := info.Types[x.Fun]; ok && tv.IsType() && len(x.Args) == 1 {
			// conversions between 64-bit (and wider-or-equal) unsigned carriers keep the value
			return classBitLen(info, x.Args[0], tracked, k)
		}
	case *ast.BinaryExpr:
		l, lok := classBitLen(info, x.X, tracked, k)
		switch x.Op {
		case token.OR:
			r, rok := classBitLen(info, x.Y, tracked, k)
			if lok && rok {
				if r > l {
					return r, true
				}
				return l, true
			}
		case token.SHL:
			if s, ok := constVal(info, x.Y); ok && lok {
				if l == 0 {
					return 0, true
				}
				if l+int(s) > 64 {
					return 64, false // bits fall off: class not exact
				}
				return l + int(s), true
			}
		case token.SHR:
			if s, ok := constVal(info, x.Y); ok && lok {
				if l-int(s) < 0 {
					return 0, true
				}
				return l - int(s), true
			}
		}
	}
	return 0, false
}

// classEvalInt evaluates an int expression of the size helper for class k.
func classEvalInt(pk *packages.Package, e ast.Expr, tracked types.Object, k int, depth int) (int, bool) {
	info := pk.TypesInfo
	if c, ok := constVal(info, e); ok {
		return int(c), true
	}
	switch x := e.(type) {
	case *ast.ParenExpr:
		return classEvalInt(pk, x.X, tracked, k, depth)
	case *ast.BinaryExpr:
		l, lok := classEvalInt(pk, x.X, tracked, k, depth)
		r, rok := classEvalInt(pk, x.Y, tracked, k, depth)
		if !lok || !rok {
			return 0, false
		}
		switch x.Op {
		case token.ADD:
			return l + r, true
		case token.SUB:
			return l - r, true
		case token.MUL:
			return l * r, true
		case token.QUO:
			if r != 0 {
				return l / r, true
			}
		}
	case *ast.CallExpr:
		if fn := staticCallee(info, x); fn != nil && fn.Pkg() != nil && fn.Pkg().Path() == "math/bits" && fn.Name() == "Len64" {
			return classBitLen(info, x.Args[0], tracked, k)
		}
		if tv, ok := info.Types[x.Fun]; ok && tv.IsType() && len(x.Args) == 1 {
			return classEvalInt(pk, x.Args[0], tracked, k, depth)
		}
	}
	return 0, false
}

// sizeHelperByClass: result of a single-return size helper per bit-length class of its argument.
func sizeHelperByClass(pk *packages.Package, name string) ([65]int, string) {
	var out [65]int
	f := core.FindFunc(pk, name)
	if f == nil || f.Decl == nil || len(f.Decl.Body.List) != 1 {
		return out, "not a single-return function"
	}
	ret, ok := f.Decl.Body.List[0].(*ast.ReturnStmt)
	if !ok || len(ret.Results) != 1 {
		return out, "not a single-return function"
	}
	var param types.Object
	if ps := f.Decl.Type.Params.List; len(ps) == 1 && len(ps[0].Names) == 1 {
		param = pk.TypesInfo.Defs[ps[0].Names[0]]
	}
	for k := 0; k <= 64; k++ {
		v, ok := classEvalInt(pk, ret.Results[0], param, k, 0)
		if !ok {
			return out, "expression outside the supported forms (constants, + - * /, bits.Len64 of v, v|c, v<<c)"
		}
		out[k] = v
	}
	return out, ""
}

// writerByClass: bytes written (= return value) by the varint writer per bit-length class of v.
func writerByClass(pk *packages.Package, name string) ([65]int, string) {
	var out [65]int
	info := pk.TypesInfo
	f := core.FindFunc(pk, name)
	if f == nil || f.Decl == nil {
		return out, "function not found"
	}
	var vObj types.Object
	i := 0
	for _, fl := range f.Decl.Type.Params.List {
		for _, nm := range fl.Names {
			if i == 1 {
				vObj = info.Defs[nm]
			}
			i++
		}
	}
	if vObj == nil {
		return out, "second parameter (the value) not found"
	}
	for k0 := 0; k0 <= 64; k0++ {
		st := &blState{k: k0, ints: map[types.Object]int{}}
		res, why := blExec(info, f.Decl.Body.List, st, vObj, 0)
		if why != "" {
			return out, why
		}
		if res == nil {
			return out, "no return reached"
		}
		out[k0] = *res
	}
	return out, ""
}

func blEvalInt(info *types.Info, e ast.Expr, st *blState) (int, bool) {
	if c, ok := constVal(info, e); ok {
		return int(c), true
	}
	switch x := e.(type) {
	case *ast.ParenExpr:
		return blEvalInt(info, x.X, st)
	case *ast.Ident:
		v, ok := st.ints[info.Uses[x]]
		return v, ok
	case *ast.BinaryExpr:
		l, lok := blEvalInt(info, x.X, st)
		r, rok := blEvalInt(info, x.Y, st)
		if lok && rok {
			switch x.Op {
			case token.ADD:
				return l + r, true
			case token.SUB:
				return l - r, true
			}
		}
	}
	return 0, false
}

// blCond decides `v OP C` on the class (C must make it a test of the bit length).
func blCond(info *types.Info, e ast.Expr, st *blState, vObj types.Object) (bool, string) {
	b, ok := e.(*ast.BinaryExpr)
	if !ok {
		return false, "loop condition is not a comparison"
	}
	id, ok := b.X.(*ast.Ident)
	if !ok || info.Uses[id] != vObj {
		return false, "loop condition does not test the value"
	}
	c, ok := constVal(info, b.Y)
	if !ok {
		return false, "loop condition compares with a non-constant"
	}
	switch b.Op {
	case token.GEQ: // v >= 2^c  ⟺ k >= c+1
		if c != 0 && c&(c-1) == 0 {
			return st.k >= bits.Len64(c), ""
		}
	case token.GTR: // v > 2^c-1 ⟺ k >= c+1
		if c+1 != 0 && (c+1)&c == 0 {
			return st.k >= bits.Len64(c)+1 || (c == 0 && st.k >= 1), ""
		}
	}
	return false, fmt.Sprintf("comparison %s with %d is not a test of the bit length (needs a power of two)", b.Op, c)
}

func blExec(info *types.Info, list []ast.Stmt, st *blState, vObj types.Object, depth int) (*int, string) {
	for _, s := range list {
		switch x := s.(type) {
		case *ast.AssignStmt:
			if len(x.Lhs) != 1 || len(x.Rhs) != 1 {
				return nil, "unsupported assignment shape"
			}
			if _, isIdx := x.Lhs[0].(*ast.IndexExpr); isIdx {
				continue // byte stores: contents are not tracked
			}
			id, ok := x.Lhs[0].(*ast.Ident)
			if !ok {
				return nil, "unsupported assignment target"
			}
			obj := info.Defs[id]
			if obj == nil {
				obj = info.Uses[id]
			}
			if obj == vObj {
				switch x.Tok {
				case token.SHR_ASSIGN:
					sft, ok := constVal(info, x.Rhs[0])
					if !ok {
						return nil, "shift by a non-constant"
					}
					st.k -= int(sft)
					if st.k < 0 {
						st.k = 0
					}
				case token.ASSIGN:
					k, ok := classBitLen(info, x.Rhs[0], vObj, st.k)
					if !ok {
						return nil, "value updated by an unsupported expression"
					}
					st.k = k
				default:
					return nil, "value updated by an unsupported operator"
				}
				continue
			}
			switch x.Tok {
			case token.DEFINE, token.ASSIGN:
				v, ok := blEvalInt(info, x.Rhs[0], st)
				if !ok {
					return nil, "counter assigned from an unsupported expression"
				}
				st.ints[obj] = v
			case token.ADD_ASSIGN:
				v, ok := blEvalInt(info, x.Rhs[0], st)
				if !ok {
					return nil, "counter incremented by an unsupported expression"
				}
				st.ints[obj] += v
			default:
				return nil, "unsupported counter update"
			}
		case *ast.IncDecStmt:
			id, ok := x.X.(*ast.Ident)
			if !ok {
				return nil, "unsupported ++ target"
			}
			if x.Tok == token.INC {
				st.ints[info.Uses[id]]++
			} else {
				st.ints[info.Uses[id]]--
			}
		case *ast.ForStmt:
			if x.Init != nil || x.Post != nil || x.Cond == nil {
				return nil, "unsupported loop shape"
			}
			for iter := 0; ; iter++ {
				if iter > 70 {
					return nil, "loop does not terminate on the bit-length abstraction"
				}
				c, why := blCond(info, x.Cond, st, vObj)
				if why != "" {
					return nil, why
				}
				if !c {
					break
				}
				if r, why := blExec(info, x.Body.List, st, vObj, depth+1); why != "" || r != nil {
					return r, why
				}
			}
		case *ast.ReturnStmt:
			if len(x.Results) != 1 {
				return nil, "unsupported return"
			}
			v, ok := blEvalInt(info, x.Results[0], st)
			if !ok {
				return nil, "return value is not a counter expression"
			}
			return &v, ""
		default:
			return nil, fmt.Sprintf("unsupported statement %T", s)
		}
	}
	return nil, ""
}

// shiftConst finds the constant of the first `<<` in fn's body.
func shiftConst(pk *packages.Package, name string) (uint64, bool) {
	f := core.FindFunc(pk, name)
	if f == nil || f.Decl == nil {
		return 0, false
	}
	var out uint64
	found := false
	ast.Inspect(f.Decl.Body, func(n ast.Node) bool {
		if b, ok := n.(*ast.BinaryExpr); ok && b.Op == token.SHL && !found {
			if c, ok := constVal(pk.TypesInfo, b.Y); ok {
				out, found = c, true
			}
		}
		return true
	})
	return out, found
}

// checkVarintClasses: EncodeVarint writes exactly SizeOfVarint(v) bytes, for every bit-length class.
func checkVarintClasses(r *core.Result, prog *core.Program) {
	root := prog.Pkg("")
	sz, why1 := sizeHelperByClass(root, "SizeOfVarint")
	wr, why2 := writerByClass(root, "EncodeVarint")
	pos := "encoder.go / sizeof.go"
	if why1 != "" || why2 != "" {
		// the loop is not of the counted shape (e.g. it delegates to encoding/binary): decide the same table by
		// interpreting both functions on every value of each bit-length class (bit-provenance domain)
		bad := varintClassesByInterpretation(root)
		r.Ob("E-varint-size", "EncodeVarint writes SizeOfVarint(v) bytes for every bit-length class", pos, bad == "",
			fmt.Sprintf("%s (structural analysis undecided: SizeOfVarint: %s; EncodeVarint: %s)", bad, why1, why2))
		a, ok1 := shiftConst(root, "SizeOfTagKey")
		b, ok2 := shiftConst(root, "EncodeTag")
		r.Ob("E-key-shift", "SizeOfTagKey and EncodeTag shift the field number by 3 bits", pos, ok1 && ok2 && a == b && a == 3, fmt.Sprintf("SizeOfTagKey shifts by %d (found=%v), EncodeTag by %d (found=%v); the wire format reserves 3 bits for the wire type", a, ok1, b, ok2))
		return
	}
	bad := ""
	for k := 0; k <= 64; k++ {
		want := (max(k, 1) + 6) / 7 // number of 7-bit groups: definition of the base-128 varint length
		if sz[k] != wr[k] || sz[k] != want {
			bad = fmt.Sprintf("for values of bit length %d: SizeOfVarint = %d, EncodeVarint writes %d, a base-128 varint has %d bytes", k, sz[k], wr[k], want)
			break
		}
	}
	r.Ob("E-varint-size", "EncodeVarint writes SizeOfVarint(v) bytes for every bit-length class", pos, bad == "", bad)
	// key size helper and key writer shift the field number by the same amount (3 wire-type bits)
	a, ok1 := shiftConst(root, "SizeOfTagKey")
	b, ok2 := shiftConst(root, "EncodeTag")
	r.Ob("E-key-shift", "SizeOfTagKey and EncodeTag shift the field number by 3 bits", pos, ok1 && ok2 && a == b && a == 3, fmt.Sprintf("SizeOfTagKey shifts by %d (found=%v), EncodeTag by %d (found=%v); the wire format reserves 3 bits for the wire type", a, ok1, b, ok2))
}

// varintClassesByInterpretation: for every bit length k, and every value of that bit length, EncodeVarint writes and
// SizeOfVarint reports ceil(max(k,1)/7) bytes. Returns "" or a description of the first class that fails.
func varintClassesByInterpretation(root *packages.Package) string {
	for k := 0; k <= 64; k++ {
		want := int64((max(k, 1) + 6) / 7)
		h := newBitHarness(root)
		k := k
		paths, _, failed, exhausted := bitexec.Explore(500, func(c *bitexec.Ctx) {
			fixed := map[int]bool{}
			for i := k; i < 64; i++ {
				fixed[i] = false
			}
			if k > 0 {
				fixed[k-1] = true
			}
			v := c.Input("v", 64, false, fixed)
			buf := bitexec.NewBuffer(10, bitexec.TopByte)
			n, ok := constOf(h.call("EncodeVarint", nil, bitexec.Bytes{Buf: buf, Len: 10, Cap: 10}, v)[0])
			c.Check("EncodeVarint", ok && n == want, fmt.Sprintf("writes %d bytes (known=%v), a base-128 varint of a %d-bit value has %d", n, ok, k, want))
			sz, ok := constOf(h.call("SizeOfVarint", nil, v)[0])
			c.Check("SizeOfVarint", ok && sz == want, fmt.Sprintf("reports %d bytes (known=%v), a base-128 varint of a %d-bit value has %d", sz, ok, k, want))
		})
		if exhausted || paths == 0 {
			return fmt.Sprintf("values of bit length %d: undecided (too many partitions)", k)
		}
		if len(failed) > 0 {
			f := failed[0]
			msg := strings.Join(firstN(f.Failures, 2), "; ")
			if f.Abort != "" {
				msg = "stopped: " + f.Abort + " " + msg
			}
			return fmt.Sprintf("values of bit length %d: %s", k, msg)
		}
	}
	return ""
}

package main

import (
	"encoding/json"
	"flag"
	"fmt"
	"go/printer"
	"os"
	"sort"
	"strings"

	"csverify/checks"
	"csverify/core"
	"csverify/e3"
)

func usage() {
	fmt.Fprintf(os.Stderr, "usage: csverify check <ID> [--tier quick|thorough]\n       csverify explain <replay.json>\n       csverify list\n")
	os.Exit(2)
}

func runCheck(id, tier string) int {
	c := checks.Get(id)
	if c == nil {
		fmt.Fprintf(os.Stderr, "unknown property %q; known: %s\n", id, strings.Join(checks.IDs(), " "))
		return 2
	}
	r := core.NewResult(id, tier)
	func() {
		defer func() {
			if p := recover(); p != nil {
				r.Infra("checker panic: %v", p)
				if os.Getenv("CSVERIFY_DEBUG") != "" {
					panic(p)
				}
			}
		}()
		checks.Run(id, r)
	}()
	return r.Finish()
}

func main() {
	if len(os.Args) < 2 {
		usage()
	}
	switch os.Args[1] {
	case "list":
		fmt.Println(strings.Join(checks.IDs(), "\n"))
	case "check":
		fs := flag.NewFlagSet("check", flag.ExitOnError)
		tier := fs.String("tier", "", "quick|thorough")
		if len(os.Args) < 3 {
			usage()
		}
		id := os.Args[2]
		_ = fs.Parse(os.Args[3:])
		if *tier == "" {
			*tier = os.Getenv("VERIF_TIER")
		}
		if *tier != "thorough" {
			*tier = "quick"
		}
		os.Exit(runCheck(id, *tier))
	case "dumpnorm":
		// triage helper: print a function of /repo as the checks see it after load-time normalisation
		prog, err := core.Load("./...")
		if err != nil {
			fmt.Fprintln(os.Stderr, err)
			os.Exit(2)
		}
		if f := core.FindFunc(prog.Pkg(os.Args[2]), os.Args[3]); f != nil && f.Decl != nil {
			_ = printer.Fprint(os.Stdout, prog.Fset, f.Decl)
			fmt.Println()
		}
	case "shared":
		b, _ := json.MarshalIndent(checks.SharedRules(), "", " ")
		fmt.Println(string(b))
	case "rules":
		// triage helper: rule names and obligation counts of one check on the current tree
		if len(os.Args) < 3 {
			usage()
		}
		os.Setenv("CSVERIFY_EVIDENCE_DIR", os.TempDir()+"/csverify-rules")
		defer os.RemoveAll(os.TempDir() + "/csverify-rules")
		checks.KeepExpansion = true
		for _, id := range strings.Split(os.Args[2], ",") {
			r := core.NewResult(id, "quick")
			checks.Get(id)(r)
			n := map[string]int{}
			for _, o := range r.Obligations {
				n[o.Rule]++
			}
			var ks []string
			for k := range n {
				ks = append(ks, fmt.Sprintf("%s=%d", k, n[k]))
			}
			sort.Strings(ks)
			fmt.Printf("%s: %s\n", id, strings.Join(ks, " "))
			if len(os.Args) > 3 {
				seen := map[string]bool{}
				for _, o := range r.Obligations {
					c := o.Construct
					if len(c) > 90 {
						c = c[:90]
					}
					if o.Rule == os.Args[3] && !seen[c] {
						seen[c] = true
						fmt.Printf("  %s | %s\n", o.Rule, c)
					}
				}
			}
		}
		checks.ReleaseExpansionNow()
	case "checkmany":
		// self-test helper: several checks in one process, sharing one template expansion (quick tier)
		if len(os.Args) < 3 {
			usage()
		}
		checks.KeepExpansion = true
		rc := 0
		for _, id := range strings.Split(os.Args[2], ",") {
			if c := runCheck(id, "quick"); c != 0 {
				rc = c
			}
		}
		checks.ReleaseExpansionNow()
		os.Exit(rc)
	case "expand":
		// triage helper: expand the corpus and keep the scratch module (caller removes it)
		ex, err := e3.Expand([]e3.Combo{{Runtime: "google"}, {Runtime: "gogo"}, {Runtime: "google", PerMessage: true, Unsafe: true}}, false)
		if err != nil {
			fmt.Fprintln(os.Stderr, err)
			os.Exit(2)
		}
		fmt.Println(ex.Scratch)
	case "explain":
		if len(os.Args) < 3 {
			usage()
		}
		b, err := os.ReadFile(os.Args[2])
		if err != nil {
			fmt.Fprintln(os.Stderr, err)
			os.Exit(2)
		}
		var f core.Finding
		if err := json.Unmarshal(b, &f); err != nil {
			fmt.Fprintln(os.Stderr, err)
			os.Exit(2)
		}
		fmt.Printf("replaying finding: property=%s rule=%s construct=%q (recorded at %s)\n  %s\n", f.Property, f.Rule, f.Construct, f.Pos, f.Msg)
		os.Setenv("CSVERIFY_EVIDENCE_DIR", os.TempDir()+"/csverify-explain")
		defer os.RemoveAll(os.TempDir() + "/csverify-explain")
		c := checks.Get(f.Property)
		if c == nil {
			os.Exit(2)
		}
		r := core.NewResult(f.Property, "quick")
		checks.Run(f.Property, r)
		for _, g := range r.Findings {
			if g.Rule == f.Rule && g.Construct == f.Construct {
				fmt.Printf("STILL PRESENT on the current tree at %s:\n  %s\n", g.Pos, g.Msg)
				os.RemoveAll(os.TempDir() + "/csverify-explain")
				os.Exit(1)
			}
		}
		fmt.Println("not present on the current tree (obligation discharged or construct gone)")
	default:
		usage()
	}
}

// mutgen enumerates single-edit mutants of a Go source file as byte-range replacements (JSON lines).
// It is a self-test aid for the checks (scripts/mutcampaign.py); it decides nothing.
package main

import (
	"encoding/json"
	"fmt"
	"go/ast"
	"go/parser"
	"go/token"
	"os"
	"strconv"
)

type mutant struct {
	File  string `json:"file"`
	Func  string `json:"func"`
	Line  int    `json:"line"`
	Kind  string `json:"kind"`
	Desc  string `json:"desc"`
	Start int    `json:"start"`
	End   int    `json:"end"`
	Repl  string `json:"repl"`
}

func main() {
	path := os.Args[1]
	rel := os.Args[2]
	src, err := os.ReadFile(path)
	if err != nil {
		panic(err)
	}
	fset := token.NewFileSet()
	f, err := parser.ParseFile(fset, path, src, parser.ParseComments)
	if err != nil {
		panic(err)
	}
	enc := json.NewEncoder(os.Stdout)
	off := func(p token.Pos) int { return fset.Position(p).Offset }
	swap := map[token.Token]string{
		token.LSS: "<=", token.LEQ: "<", token.GTR: ">=", token.GEQ: ">", token.EQL: "!=", token.NEQ: "==",
		token.ADD: "-", token.SUB: "+", token.LAND: "||", token.LOR: "&&", token.AND: "|", token.OR: "&", token.SHL: ">>", token.SHR: "<<",
	}
	for _, d := range f.Decls {
		fd, ok := d.(*ast.FuncDecl)
		if !ok || fd.Body == nil {
			continue
		}
		name := fd.Name.Name
		if fd.Recv != nil && len(fd.Recv.List) > 0 {
			t := fd.Recv.List[0].Type
			if s, ok := t.(*ast.StarExpr); ok {
				t = s.X
			}
			if id, ok := t.(*ast.Ident); ok {
				name = id.Name + "." + name
			}
		}
		emit := func(kind, desc string, s, e int, repl string, pos token.Pos) {
			enc.Encode(mutant{File: rel, Func: name, Line: fset.Position(pos).Line, Kind: kind, Desc: desc, Start: s, End: e, Repl: repl})
		}
		ast.Inspect(fd.Body, func(n ast.Node) bool {
			switch x := n.(type) {
			case *ast.BinaryExpr:
				if r, ok := swap[x.Op]; ok {
					s := off(x.OpPos)
					emit("op", fmt.Sprintf("%s -> %s", x.Op, r), s, s+len(x.Op.String()), r, x.OpPos)
				}
			case *ast.BasicLit:
				if x.Kind == token.INT {
					if v, err := strconv.ParseInt(x.Value, 0, 64); err == nil {
						emit("const", fmt.Sprintf("%s -> %d", x.Value, v+1), off(x.Pos()), off(x.End()), strconv.FormatInt(v+1, 10), x.Pos())
						if v > 0 {
							emit("const", fmt.Sprintf("%s -> %d", x.Value, v-1), off(x.Pos()), off(x.End()), strconv.FormatInt(v-1, 10), x.Pos())
						}
					}
				}
			case *ast.IfStmt:
				s, e := off(x.Cond.Pos()), off(x.Cond.End())
				emit("negate", "negate condition", s, e, "!("+string(src[s:e])+")", x.Cond.Pos())
				if x.Else == nil && x.Init == nil {
					// drop the whole guard
					emit("dropif", "remove if statement", off(x.Pos()), off(x.End()), "", x.Pos())
				}
			case *ast.BlockStmt:
				for _, st := range x.List {
					switch y := st.(type) {
					case *ast.ExprStmt:
						emit("delstmt", "remove call statement", off(y.Pos()), off(y.End()), "", y.Pos())
					case *ast.AssignStmt:
						if y.Tok != token.DEFINE {
							emit("delstmt", "remove assignment", off(y.Pos()), off(y.End()), "", y.Pos())
						}
					case *ast.IncDecStmt:
						emit("delstmt", "remove inc/dec", off(y.Pos()), off(y.End()), "", y.Pos())
					}
				}
			}
			return true
		})
	}
}

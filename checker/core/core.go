// Package core holds the plumbing shared by all csverify checks: loading the
// type-checked program from the repository's working tree, collecting
// obligations / findings, known-findings handling, evidence and replay files.
package core

import (
	"bufio"
	"encoding/json"
	"fmt"
	"go/ast"
	"go/constant"
	"go/token"
	"go/types"
	"os"
	"path/filepath"
	"sort"
	"strings"
	"time"

	"golang.org/x/tools/go/ast/astutil"
	"golang.org/x/tools/go/packages"
)

// RepoDir is the tree under analysis (the working tree, never a snapshot).
func RepoDir() string {
	if v := os.Getenv("CSVERIFY_REPO"); v != "" {
		return v
	}
	return "/repo"
}

// VerifDir is where evidence, replay files and known findings live.
func VerifDir() string {
	if v := os.Getenv("CSVERIFY_VERIF"); v != "" {
		return v
	}
	return "/verif"
}

// EvidenceDir can be redirected (self-tests on scratch copies must not clobber
// the committed evidence).
func EvidenceDir() string {
	if v := os.Getenv("CSVERIFY_EVIDENCE_DIR"); v != "" {
		return v
	}
	return filepath.Join(VerifDir(), "evidence")
}

const ModulePath = "github.com/CrowdStrike/csproto"

// GoEnv is the environment every go tool invocation needs in this sandbox.
func GoEnv() []string {
	env := []string{}
	for _, kv := range os.Environ() {
		if strings.HasPrefix(kv, "GOFLAGS=") || strings.HasPrefix(kv, "GOWORK=") ||
			strings.HasPrefix(kv, "GOPROXY=") || strings.HasPrefix(kv, "GOSUMDB=") ||
			strings.HasPrefix(kv, "GOTOOLCHAIN=") {
			continue
		}
		env = append(env, kv)
	}
	return append(env, "GOFLAGS=-mod=mod", "GOWORK=off", "GOPROXY=off", "GOSUMDB=off", "GOTOOLCHAIN=local")
}

// Program is the type-checked root module of the repository.
type Program struct {
	Repo string
	Fset *token.FileSet
	Pkgs map[string]*packages.Package // by import path
	All  []*packages.Package
}

// Load type-checks the packages of the root module from the working tree.
// Any load or type error is fatal for the calling check (fail closed).
func Load(patterns ...string) (*Program, error) {
	if len(patterns) == 0 {
		patterns = []string{"./..."}
	}
	repo := RepoDir()
	fset := token.NewFileSet()
	cfg := &packages.Config{
		Mode: packages.NeedName | packages.NeedFiles | packages.NeedCompiledGoFiles | packages.NeedImports |
			packages.NeedTypes | packages.NeedTypesSizes | packages.NeedSyntax | packages.NeedTypesInfo | packages.NeedDeps,
		Dir:  repo,
		Env:  GoEnv(),
		Fset: fset,
	}
	pkgs, err := packages.Load(cfg, patterns...)
	if err != nil {
		return nil, fmt.Errorf("loading %s: %w", repo, err)
	}
	if len(pkgs) == 0 {
		return nil, fmt.Errorf("loading %s: no packages matched %v", repo, patterns)
	}
	p := &Program{Repo: repo, Fset: fset, Pkgs: map[string]*packages.Package{}}
	var errs []string
	for _, pk := range pkgs {
		for _, e := range pk.Errors {
			errs = append(errs, e.Error())
		}
		p.Pkgs[pk.PkgPath] = pk
		p.All = append(p.All, pk)
	}
	if len(errs) > 0 {
		return nil, fmt.Errorf("type-check of %s failed: %s", repo, strings.Join(errs, "; "))
	}
	sort.Slice(p.All, func(i, j int) bool { return p.All[i].PkgPath < p.All[j].PkgPath })
	for _, pk := range p.All {
		func() {
			// normalisation is an aid against false alarms, never a reason to fail: on an unexpected syntax shape
			// the package is analysed as written
			defer func() { _ = recover() }()
			Normalise(pk)
		}()
	}
	return p, nil
}

// Normalise rewrites, in the in-memory syntax only, spellings that mean the same into one form, so that no rule
// depends on which one the source uses:
//
//	x = x + e, x = e + x (numbers)  →  x += e        x = x - e  →  x -= e
//	c OP x with a constant (or nil) on the left of a comparison  →  x OP' c
//
// Nodes are modified in place; the recorded types stay valid (operands keep their identity).
func Normalise(pk *packages.Package) {
	info := pk.TypesInfo
	if info == nil {
		return
	}
	defer func() {
		defer func() { _ = recover() }()
		normaliseStmts(pk)
	}()
	flip := map[token.Token]token.Token{token.LSS: token.GTR, token.GTR: token.LSS, token.LEQ: token.GEQ, token.GEQ: token.LEQ, token.EQL: token.EQL, token.NEQ: token.NEQ}
	isConstOrNil := func(e ast.Expr) bool {
		if tv, ok := info.Types[e]; ok && (tv.Value != nil || tv.IsNil()) {
			return true
		}
		return false
	}
	isNumeric := func(e ast.Expr) bool {
		t := info.TypeOf(e)
		if t == nil {
			return false
		}
		b, ok := t.Underlying().(*types.Basic)
		return ok && b.Info()&types.IsNumeric != 0
	}
	same := func(a, b ast.Expr) bool { return types.ExprString(a) == types.ExprString(b) && pureExpr(a) }
	boolT := types.Typ[types.Bool]
	isBoolConst := func(e ast.Expr) (val, ok bool) {
		tv, found := info.Types[e]
		if !found || tv.Value == nil || tv.Value.Kind() != constant.Bool {
			return false, false
		}
		return constant.BoolVal(tv.Value), true
	}
	negCmp := map[token.Token]token.Token{token.LSS: token.GEQ, token.GEQ: token.LSS, token.GTR: token.LEQ, token.LEQ: token.GTR, token.EQL: token.NEQ, token.NEQ: token.EQL}
	notFloat := func(e ast.Expr) bool {
		t := info.TypeOf(e)
		if t == nil {
			return false
		}
		b, ok := t.Underlying().(*types.Basic)
		return !ok || b.Info()&(types.IsFloat|types.IsComplex) == 0
	}
	mkNot := func(e ast.Expr) ast.Expr {
		u := &ast.UnaryExpr{OpPos: e.Pos(), Op: token.NOT, X: e}
		info.Types[u] = types.TypeAndValue{Type: boolT}
		return u
	}
	for pass := 0; pass < 4; pass++ {
		changed := false
		for i, f := range pk.Syntax {
			res := astutil.Apply(f, nil, func(c *astutil.Cursor) bool {
				switch x := c.Node().(type) {
				case *ast.AssignStmt:
					if x.Tok == token.ASSIGN && len(x.Lhs) == 1 && len(x.Rhs) == 1 && isNumeric(x.Lhs[0]) {
						if b, ok := unparen(x.Rhs[0]).(*ast.BinaryExpr); ok {
							switch {
							case b.Op == token.ADD && same(x.Lhs[0], b.X):
								x.Tok, x.Rhs = token.ADD_ASSIGN, []ast.Expr{b.Y}
							case b.Op == token.ADD && same(x.Lhs[0], b.Y):
								x.Tok, x.Rhs = token.ADD_ASSIGN, []ast.Expr{b.X}
							case b.Op == token.SUB && same(x.Lhs[0], b.X):
								x.Tok, x.Rhs = token.SUB_ASSIGN, []ast.Expr{b.Y}
							case b.Op == token.ADD:
								// x = x + a + b: the leftmost operand of the sum
								var chain []*ast.BinaryExpr
								cur := b
								for {
									chain = append(chain, cur)
									nx, ok := unparen(cur.X).(*ast.BinaryExpr)
									if !ok || nx.Op != token.ADD {
										break
									}
									cur = nx
								}
								last := chain[len(chain)-1]
								if len(chain) > 1 && same(x.Lhs[0], last.X) {
									// drop the leftmost operand: its parent becomes its right operand
									parent := chain[len(chain)-2]
									parent.X = last.Y
									x.Tok = token.ADD_ASSIGN
								}
							}
						}
					}
				case *ast.BinaryExpr:
					if op, ok := flip[x.Op]; ok && isConstOrNil(x.X) && !isConstOrNil(x.Y) {
						x.X, x.Y, x.Op = x.Y, x.X, op
					}
					// len(e) < 1, len(e) <= 0 → len(e) == 0;  len(e) >= 1, len(e) != 0 → len(e) > 0
				if call, ok := unparen(x.X).(*ast.CallExpr); ok && len(call.Args) == 1 {
					if id, ok := call.Fun.(*ast.Ident); ok && id.Name == "len" {
						if tv, ok := info.Types[x.Y]; ok && tv.Value != nil {
							switch c := tv.Value.ExactString(); {
							case c == "1" && x.Op == token.LSS, c == "0" && x.Op == token.LEQ:
								x.Op = token.EQL
								x.Y = zeroLike(info, x.Y)
							case c == "1" && x.Op == token.GEQ, c == "0" && x.Op == token.NEQ:
								x.Op = token.GTR
								x.Y = zeroLike(info, x.Y)
							}
						}
					}
				}
				// b == false → !b, b == true → b, b != false → b, b != true → !b
					if x.Op == token.EQL || x.Op == token.NEQ {
						if v, ok := isBoolConst(x.Y); ok {
							if _, both := isBoolConst(x.X); !both {
								if v == (x.Op == token.EQL) {
									c.Replace(x.X)
								} else {
									c.Replace(mkNot(x.X))
								}
								changed = true
							}
						}
					}
				case *ast.UnaryExpr:
					if x.Op == token.NOT {
						switch in := unparen(x.X).(type) {
						case *ast.UnaryExpr:
							if in.Op == token.NOT { // !!b
								c.Replace(in.X)
								changed = true
							}
						case *ast.BinaryExpr:
							if op, ok := negCmp[in.Op]; ok && notFloat(in.X) && notFloat(in.Y) { // !(a < b) → a >= b
								in.Op = op
								c.Replace(in)
								changed = true
							} else if in.Op == token.LAND || in.Op == token.LOR { // De Morgan
								op := token.LOR
								if in.Op == token.LOR {
									op = token.LAND
								}
								nb := &ast.BinaryExpr{X: mkNot(in.X), OpPos: in.OpPos, Op: op, Y: mkNot(in.Y)}
								info.Types[nb] = types.TypeAndValue{Type: boolT}
								c.Replace(nb)
								changed = true
							}
						}
					}
				}
				return true
			})
			if nf, ok := res.(*ast.File); ok {
				pk.Syntax[i] = nf
			}
		}
		if !changed {
			break
		}
	}
}

func unparen(e ast.Expr) ast.Expr {
	for {
		p, ok := e.(*ast.ParenExpr)
		if !ok {
			return e
		}
		e = p.X
	}
}

// pureExpr: identifiers, selectors, index expressions with pure operands (no calls): evaluating twice is the same.
func pureExpr(e ast.Expr) bool {
	pure := true
	ast.Inspect(e, func(n ast.Node) bool {
		switch n.(type) {
		case *ast.CallExpr, *ast.UnaryExpr, *ast.FuncLit:
			pure = false
		}
		return true
	})
	return pure
}

// Pkg returns a package of the module by its path relative to the module root
// ("" for the root package).
func (p *Program) Pkg(rel string) *packages.Package {
	path := ModulePath
	if rel != "" {
		path += "/" + rel
	}
	return p.Pkgs[path]
}

// Pos renders a position relative to the repository root.
func (p *Program) Pos(pos token.Pos) string {
	return RelPos(p.Fset, p.Repo, pos)
}

func RelPos(fset *token.FileSet, root string, pos token.Pos) string {
	if !pos.IsValid() {
		return "?"
	}
	ps := fset.Position(pos)
	f := ps.Filename
	if r, err := filepath.Rel(root, f); err == nil && !strings.HasPrefix(r, "..") {
		f = r
	}
	return fmt.Sprintf("%s:%d", f, ps.Line)
}

// FuncInfo is a function or method declaration (or literal) with a stable name.
type FuncInfo struct {
	Name string // "(*Decoder).DecodeBool", "DecodeVarint", "(*FieldData).BoolValue$1"
	Decl *ast.FuncDecl
	Lit  *ast.FuncLit
	Pkg  *packages.Package
	File *ast.File
	Obj  *types.Func
}

func (f *FuncInfo) Body() *ast.BlockStmt {
	if f.Lit != nil {
		return f.Lit.Body
	}
	return f.Decl.Body
}
func (f *FuncInfo) Type() *ast.FuncType {
	if f.Lit != nil {
		return f.Lit.Type
	}
	return f.Decl.Type
}
func (f *FuncInfo) Pos() token.Pos {
	if f.Lit != nil {
		return f.Lit.Pos()
	}
	return f.Decl.Pos()
}

// DeclName gives the stable name of a declaration.
func DeclName(d *ast.FuncDecl) string {
	if d.Recv == nil || len(d.Recv.List) == 0 {
		return d.Name.Name
	}
	t := d.Recv.List[0].Type
	star := ""
	if s, ok := t.(*ast.StarExpr); ok {
		star = "*"
		t = s.X
	}
	switch x := t.(type) {
	case *ast.IndexExpr:
		t = x.X
	case *ast.IndexListExpr:
		t = x.X
	}
	name := "?"
	if id, ok := t.(*ast.Ident); ok {
		name = id.Name
	}
	if star != "" {
		return "(*" + name + ")." + d.Name.Name
	}
	return name + "." + d.Name.Name
}

// Funcs lists the function declarations of a package (non-test files),
// optionally restricted to given base file names; literals nested in a
// declaration are listed after it as Name$k in source order.
func Funcs(pk *packages.Package, files ...string) []*FuncInfo {
	want := map[string]bool{}
	for _, f := range files {
		want[f] = true
	}
	var out []*FuncInfo
	for _, file := range pk.Syntax {
		fn := filepath.Base(pk.Fset.Position(file.Pos()).Filename)
		if strings.HasSuffix(fn, "_test.go") {
			continue
		}
		if len(want) > 0 && !want[fn] {
			continue
		}
		for _, d := range file.Decls {
			fd, ok := d.(*ast.FuncDecl)
			if !ok || fd.Body == nil {
				continue
			}
			fi := &FuncInfo{Name: DeclName(fd), Decl: fd, Pkg: pk, File: file}
			if o, ok := pk.TypesInfo.Defs[fd.Name].(*types.Func); ok {
				fi.Obj = o
			}
			out = append(out, fi)
			k := 0
			ast.Inspect(fd.Body, func(n ast.Node) bool {
				if l, ok := n.(*ast.FuncLit); ok {
					k++
					out = append(out, &FuncInfo{Name: fmt.Sprintf("%s$%d", fi.Name, k), Lit: l, Pkg: pk, File: file})
				}
				return true
			})
		}
	}
	return out
}

// FindFunc looks a declaration up by stable name.
func FindFunc(pk *packages.Package, name string) *FuncInfo {
	for _, f := range Funcs(pk) {
		if f.Name == name {
			return f
		}
	}
	return nil
}

// ---------------------------------------------------------------------------
// Obligations, findings, results

// Obligation is one rule instance evaluated by a check.
type Obligation struct {
	Rule       string `json:"rule"`
	Construct  string `json:"construct"`
	Pos        string `json:"pos,omitempty"`
	Discharged bool   `json:"discharged"`
	Detail     string `json:"detail,omitempty"`
}

// Finding is an obligation that was not discharged (or a structural violation).
type Finding struct {
	Property  string `json:"property"`
	Rule      string `json:"rule"`
	Construct string `json:"construct"`
	Pos       string `json:"pos"`
	Msg       string `json:"msg"`
	Known     bool   `json:"known,omitempty"`
}

func (f Finding) Key() string { return f.Property + "|" + f.Rule + "|" + f.Construct }

// Result accumulates what one check did.
type Result struct {
	Property    string
	Tier        string
	Seed        int64
	Start       time.Time
	Explanation string
	RuleText    string
	Obligations []Obligation
	Findings    []Finding
	Counts      map[string]int
	Samples     []interface{}
	Assumptions []string
	Trusted     []string
	Programs    int
	Notes       []string
	Exhaustive  bool
	infra       []string
	groups      map[string]*group
	groupOrder  []string
}

type group struct {
	rule, key, pos, detail string
	members                []string
}

func NewResult(id, tier string) *Result {
	seed := int64(0)
	if v := os.Getenv("VERIF_SEED"); v != "" {
		fmt.Sscan(v, &seed)
	}
	return &Result{Property: id, Tier: tier, Seed: seed, Start: time.Now(), Counts: map[string]int{}, Exhaustive: true}
}

// Ob records an obligation; an undischarged one becomes a finding.
func (r *Result) Ob(rule, construct, pos string, ok bool, detail string) {
	r.Obligations = append(r.Obligations, Obligation{Rule: rule, Construct: construct, Pos: pos, Discharged: ok, Detail: detail})
	if !ok {
		r.Findings = append(r.Findings, Finding{Property: r.Property, Rule: rule, Construct: construct, Pos: pos, Msg: detail})
	}
}

// Absorb appends the plain obligations of a partial result produced elsewhere (e.g. by a parallel worker).
func (r *Result) Absorb(o *Result) {
	for _, ob := range o.Obligations {
		r.Ob(ob.Rule, ob.Construct, ob.Pos, ob.Discharged, ob.Detail)
	}
}

// Import copies, from the finished rule run of another property, the obligations and findings of the
// rules selected by keep: rules that are necessary conditions of this property as well (the table and the
// argument per entry are in checks/support.go). Findings that are listed as known findings of the other
// property are not repeated here. Imported rules keep their names; the construct is prefixed with the
// property the rule comes from so that a finding stays traceable to the check that owns the rule.
func (r *Result) Import(o *Result, keep func(rule, construct string) bool) (nOb, nFind, nKnown int) {
	o.flushGroups()
	known, _ := loadKnown()
	tag := "[" + o.Property + "] "
	for _, ob := range o.Obligations {
		if keep(ob.Rule, ob.Construct) {
			ob.Construct = tag + ob.Construct
			r.Obligations = append(r.Obligations, ob)
			nOb++
		}
	}
	for _, f := range o.Findings {
		if !keep(f.Rule, f.Construct) {
			continue
		}
		if _, ok := known[f.Key()]; ok {
			nKnown++
			continue
		}
		r.Findings = append(r.Findings, Finding{Property: r.Property, Rule: f.Rule, Construct: tag + f.Construct, Pos: f.Pos, Msg: f.Msg})
		nFind++
	}
	for _, m := range o.infra {
		r.Infra("[%s] %s", o.Property, m)
	}
	return
}

// GroupOb records an obligation that belongs to a group of instances of one
// construct (e.g. all corpus fields expanded from the same template branch).
// Failing members are reported as ONE finding per (rule, group) that lists how
// many instances failed and a few examples, so that findings stay specific to
// the construct and do not multiply with the corpus.
func (r *Result) GroupOb(rule, groupKey, member, pos string, ok bool, detail string) {
	r.Obligations = append(r.Obligations, Obligation{Rule: rule, Construct: groupKey + " :: " + member, Pos: pos, Discharged: ok, Detail: detail})
	if ok {
		return
	}
	if r.groups == nil {
		r.groups = map[string]*group{}
	}
	k := rule + "|" + groupKey
	g := r.groups[k]
	if g == nil {
		g = &group{rule: rule, key: groupKey, pos: pos, detail: detail}
		r.groups[k] = g
		r.groupOrder = append(r.groupOrder, k)
	}
	g.members = append(g.members, member)
}

func (r *Result) flushGroups() {
	for _, k := range r.groupOrder {
		g := r.groups[k]
		ex := g.members
		if len(ex) > 4 {
			ex = ex[:4]
		}
		r.Findings = append(r.Findings, Finding{Property: r.Property, Rule: g.rule, Construct: g.key, Pos: g.pos,
			Msg: fmt.Sprintf("%d instance(s), e.g. %s — %s", len(g.members), strings.Join(ex, "; "), g.detail)})
	}
	r.groups, r.groupOrder = nil, nil
}

// Fail records a finding that is not tied to an enumerated obligation.
func (r *Result) Fail(rule, construct, pos, msg string) { r.Ob(rule, construct, pos, false, msg) }

// Infra records an infrastructure failure (makes the check exit 2).
func (r *Result) Infra(format string, a ...interface{}) {
	r.infra = append(r.infra, fmt.Sprintf(format, a...))
}

// Floor fails the check when a measured count drops below what was confirmed
// by hand on the reference tree: a rule matching nothing passes vacuously.
func (r *Result) Floor(what string, got, min int) {
	r.Counts[what] = got
	if got < min {
		r.Fail("floor", what, "", fmt.Sprintf("analysed %d %s, expected at least %d (anchor moved or rule no longer matches: unresolved anchor fails the check)", got, what, min))
	}
}

func (r *Result) Note(format string, a ...interface{}) {
	r.Notes = append(r.Notes, fmt.Sprintf(format, a...))
}

func (r *Result) Sample(v interface{}) {
	if len(r.Samples) < 12 {
		r.Samples = append(r.Samples, v)
	}
}

// ---------------------------------------------------------------------------
// Known findings

type knownEntry struct {
	Property  string `json:"property"`
	Rule      string `json:"rule"`
	Construct string `json:"construct"`
	What      string `json:"what"`
	Fixed     string `json:"fixed,omitempty"` // "fixed: property=<id> <commit> <what>" entries suppress nothing
}

func loadKnown() (map[string]knownEntry, error) {
	out := map[string]knownEntry{}
	f, err := os.Open(filepath.Join(VerifDir(), "known_findings.jsonl"))
	if err != nil {
		if os.IsNotExist(err) {
			return out, nil
		}
		return nil, err
	}
	defer f.Close()
	sc := bufio.NewScanner(f)
	sc.Buffer(make([]byte, 1<<20), 1<<20)
	for sc.Scan() {
		line := strings.TrimSpace(sc.Text())
		if line == "" || strings.HasPrefix(line, "#") {
			continue
		}
		var e knownEntry
		if err := json.Unmarshal([]byte(line), &e); err != nil {
			return nil, fmt.Errorf("known_findings.jsonl: %w", err)
		}
		if e.Fixed != "" {
			continue
		}
		out[e.Property+"|"+e.Rule+"|"+e.Construct] = e
	}
	return out, sc.Err()
}

// Finish prints the report, writes evidence and replay files and returns the
// process exit code (0 ok / 1 violation / 2 infrastructure).
func (r *Result) Finish() int {
	r.flushGroups()
	known, err := loadKnown()
	if err != nil {
		r.Infra("%v", err)
	}
	keys := make([]string, 0, len(r.Counts))
	for k := range r.Counts {
		keys = append(keys, k)
	}
	sort.Strings(keys)
	fmt.Printf("== %s (%s) on %s\n", r.Property, r.Tier, RepoDir())
	for _, k := range keys {
		fmt.Printf("analysed: %-40s %d\n", k, r.Counts[k])
	}
	for _, n := range r.Notes {
		fmt.Printf("NOTE %s\n", n)
	}
	discharged := 0
	distinct := map[string]bool{}
	for _, o := range r.Obligations {
		if o.Discharged {
			discharged++
		}
		distinct[o.Rule+"|"+o.Construct] = true
	}
	fmt.Printf("obligations: %d, discharged: %d\n", len(r.Obligations), discharged)

	// de-duplicate findings by key, keep first
	seen := map[string]bool{}
	var unknown []Finding
	nKnown := 0
	replayDir := filepath.Join(EvidenceDir(), "replay")
	for i := range r.Findings {
		f := &r.Findings[i]
		if seen[f.Key()] {
			continue
		}
		seen[f.Key()] = true
		if e, ok := known[f.Key()]; ok {
			f.Known = true
			nKnown++
			msg := f.Msg
			if len(msg) > 200 {
				msg = msg[:200] + "…"
			}
			fmt.Printf("KNOWN-FINDING: property=%s %s [%s @ %s] %s: %s\n", f.Property, e.What, f.Rule, f.Construct, f.Pos, msg)
			continue
		}
		unknown = append(unknown, *f)
	}
	// stale replay files of this property are removed on every run
	if old, err := filepath.Glob(filepath.Join(replayDir, r.Property+"-*.json")); err == nil {
		for _, f := range old {
			_ = os.Remove(f)
		}
	}
	code := 0
	if len(unknown) > 0 {
		code = 1
		_ = os.MkdirAll(replayDir, 0o755)
		for i, f := range unknown {
			path := filepath.Join(replayDir, fmt.Sprintf("%s-%d.json", r.Property, i+1))
			b, _ := json.MarshalIndent(f, "", " ")
			_ = os.WriteFile(path, b, 0o644)
			fmt.Printf("FINDING rule=%s construct=%q at %s: %s\n", f.Rule, f.Construct, f.Pos, f.Msg)
			fmt.Printf("VIOLATION property=%s replay=%s\n", r.Property, path)
		}
	}
	for _, m := range r.infra {
		fmt.Printf("INFRA-ERROR %s\n", m)
		code = 2
	}
	r.writeEvidence(discharged, len(distinct), len(unknown), nKnown)
	if code == 0 {
		fmt.Printf("OK %s: %d obligations discharged, %d known findings\n", r.Property, discharged, nKnown)
	}
	return code
}

func (r *Result) writeEvidence(discharged, distinct, violations, nKnown int) {
	samples := r.Samples
	if len(samples) == 0 {
		for i, o := range r.Obligations {
			if i >= 8 {
				break
			}
			samples = append(samples, o)
		}
	}
	if len(samples) == 0 {
		samples = append(samples, "no obligations enumerated")
	}
	cov := map[string]interface{}{
		"explanation":         r.Explanation,
		"rule":                r.RuleText,
		"obligations":         len(r.Obligations),
		"discharged":          discharged,
		"evaluations":         len(r.Obligations),
		"distinct_nontrivial": distinct,
		"samples":             samples,
		"trusted_base":        r.Trusted,
		"exhaustive":          r.Exhaustive,
		"analysed":            r.Counts,
		"known_findings":      nKnown,
		"checker_cmd":         fmt.Sprintf("/verif/bin/csverify check %s --tier %s", r.Property, r.Tier),
	}
	if r.Programs > 0 {
		cov["programs"] = r.Programs
	}
	if len(r.Notes) > 0 {
		cov["notes"] = r.Notes
	}
	ev := map[string]interface{}{
		"property_id": r.Property,
		"tier":        r.Tier,
		"seed":        r.Seed,
		"level":       "other",
		"coverage":    cov,
		"assumptions": r.Assumptions,
		"wall_s":      time.Since(r.Start).Seconds(),
		"violations":  violations,
	}
	if r.Assumptions == nil {
		ev["assumptions"] = []string{}
	}
	if r.Trusted == nil {
		cov["trusted_base"] = []string{}
	}
	b, _ := json.MarshalIndent(ev, "", " ")
	_ = os.MkdirAll(EvidenceDir(), 0o755)
	if err := os.WriteFile(filepath.Join(EvidenceDir(), r.Property+".json"), b, 0o644); err != nil {
		fmt.Printf("INFRA-ERROR writing evidence: %v\n", err)
	}
}

// zeroLike returns a literal 0 with the type information of the constant it replaces.
func zeroLike(info *types.Info, old ast.Expr) ast.Expr {
	if tv, ok := info.Types[old]; ok && tv.Value != nil && tv.Value.ExactString() == "0" {
		return old
	}
	lit := &ast.BasicLit{ValuePos: old.Pos(), Kind: token.INT, Value: "0"}
	t := info.TypeOf(old)
	info.Types[lit] = types.TypeAndValue{Type: t, Value: constant.MakeInt64(0)}
	return lit
}

package core

import (
	"go/ast"
	"go/token"
	"go/types"

	"golang.org/x/tools/go/packages"
)

// normaliseStmts rewrites statement-level spellings into one form (in-memory syntax only):
//
//	x += 1 / x -= 1                                  →  x++ / x--
//	x := max(a, b) (min)                              →  x := a; if x < b { x = b }      (the if-based clamp)
//	return c && f(…)   (single bool result)           →  if !c { return false }; return f(…)
//	if e == A || e == B {…} else if e == C {…} else {…}  →  switch e { case A, B: …  case C: …  default: … }
//	for i := 0; i < len(s); i++ {…}                   →  for i := range s {…}            (i, s not assigned in the body)
//	for i := range s { … s[i] … }                      →  for i, v := range s { … v … }   (elements of s not assigned)
func normaliseStmts(pk *packages.Package) {
	info := pk.TypesInfo
	boolT := types.Typ[types.Bool]
	objOf := func(id *ast.Ident) types.Object {
		if o := info.Defs[id]; o != nil {
			return o
		}
		return info.Uses[id]
	}
	useOf := func(o types.Object, pos token.Pos) *ast.Ident {
		id := &ast.Ident{NamePos: pos, Name: o.Name()}
		info.Uses[id] = o
		info.Types[id] = types.TypeAndValue{Type: o.Type()}
		return id
	}
	assigned := func(body ast.Node, o types.Object) bool {
		found := false
		ast.Inspect(body, func(n ast.Node) bool {
			switch x := n.(type) {
			case *ast.AssignStmt:
				for _, l := range x.Lhs {
					if id, ok := l.(*ast.Ident); ok && objOf(id) == o {
						found = true
					}
				}
			case *ast.IncDecStmt:
				if id, ok := x.X.(*ast.Ident); ok && objOf(id) == o {
					found = true
				}
			case *ast.UnaryExpr:
				if id, ok := x.X.(*ast.Ident); ok && x.Op == token.AND && objOf(id) == o {
					found = true
				}
			}
			return true
		})
		return found
	}
	// constEq: cond is `e == C` or a disjunction of such for one pure e; returns e and the constants
	var constEq func(cond ast.Expr) (ast.Expr, []ast.Expr, bool)
	constEq = func(cond ast.Expr) (ast.Expr, []ast.Expr, bool) {
		cond = unparen(cond)
		b, ok := cond.(*ast.BinaryExpr)
		if !ok {
			return nil, nil, false
		}
		if b.Op == token.LOR {
			e1, c1, ok1 := constEq(b.X)
			e2, c2, ok2 := constEq(b.Y)
			if ok1 && ok2 && types.ExprString(e1) == types.ExprString(e2) {
				return e1, append(c1, c2...), true
			}
			return nil, nil, false
		}
		if b.Op != token.EQL {
			return nil, nil, false
		}
		tv, isC := info.Types[b.Y]
		if !isC || tv.Value == nil || !pureExpr(b.X) {
			return nil, nil, false
		}
		if _, isID := unparen(b.X).(*ast.Ident); !isID {
			return nil, nil, false
		}
		return b.X, []ast.Expr{b.Y}, true
	}
	// locals of the current function that are defined exactly once (by :=) and never assigned again
	curDefs := map[types.Object]ast.Expr{}
	setCurDefs := func(body *ast.BlockStmt) {
		for k := range curDefs {
			delete(curDefs, k)
		}
		count := map[types.Object]int{}
		ast.Inspect(body, func(n ast.Node) bool {
			switch as := n.(type) {
			case *ast.AssignStmt:
				for i, l := range as.Lhs {
					if id, ok := l.(*ast.Ident); ok {
						if o := objOf(id); o != nil {
							count[o]++
							if as.Tok == token.DEFINE && len(as.Lhs) == len(as.Rhs) {
								curDefs[o] = as.Rhs[i]
							}
						}
					}
				}
			case *ast.IncDecStmt:
				if id, ok := as.X.(*ast.Ident); ok {
					count[objOf(id)] += 2
				}
			}
			return true
		})
		for o := range curDefs {
			if count[o] != 1 {
				delete(curDefs, o)
			}
		}
	}
	var doList func(list []ast.Stmt) []ast.Stmt
	var doStmt func(st ast.Stmt) ast.Stmt
	doBlock := func(b *ast.BlockStmt) {
		if b != nil {
			b.List = doList(b.List)
		}
	}
	doStmt = func(st ast.Stmt) ast.Stmt {
		switch x := st.(type) {
		case *ast.BlockStmt:
			doBlock(x)
		case *ast.IfStmt:
			doBlock(x.Body)
			if x.Else != nil {
				x.Else = doStmt(x.Else)
			}
			// if / else-if chain over one expression → switch
			if x.Init == nil && x.Else != nil {
				var clauses []ast.Stmt
				var subject ast.Expr
				cur := x
				okChain := true
				for {
					e, cs, ok := constEq(cur.Cond)
					if !ok || cur.Init != nil || (subject != nil && types.ExprString(subject) != types.ExprString(e)) {
						okChain = false
						break
					}
					subject = e
					clauses = append(clauses, &ast.CaseClause{Case: cur.Pos(), List: cs, Colon: cur.Pos(), Body: cur.Body.List})
					if cur.Else == nil {
						break
					}
					if next, ok := cur.Else.(*ast.IfStmt); ok {
						cur = next
						continue
					}
					if blk, ok := cur.Else.(*ast.BlockStmt); ok {
						clauses = append(clauses, &ast.CaseClause{Case: blk.Pos(), Colon: blk.Pos(), Body: blk.List})
					}
					break
				}
				if okChain && len(clauses) >= 3 {
					return &ast.SwitchStmt{Switch: x.Pos(), Tag: subject, Body: &ast.BlockStmt{Lbrace: x.Body.Lbrace, List: clauses, Rbrace: x.End()}}
				}
			}
		case *ast.ForStmt:
			doBlock(x.Body)
			// index loop → range
			if as, ok := x.Init.(*ast.AssignStmt); ok && as.Tok == token.DEFINE && len(as.Lhs) == 1 && len(as.Rhs) == 1 && x.Cond != nil && x.Post != nil {
				iID, _ := as.Lhs[0].(*ast.Ident)
				zero := false
				if tv, ok := info.Types[as.Rhs[0]]; ok && tv.Value != nil && tv.Value.ExactString() == "0" {
					zero = true
				}
				inc, isInc := x.Post.(*ast.IncDecStmt)
				cond, isCmp := unparen(x.Cond).(*ast.BinaryExpr)
				if iID != nil && zero && isInc && inc.Tok == token.INC && isCmp && cond.Op == token.LSS {
					iObj := info.Defs[iID]
					ci, ok1 := unparen(cond.X).(*ast.Ident)
					pi, ok2 := inc.X.(*ast.Ident)
					var coll ast.Expr
					bound := unparen(cond.Y)
					if bid, ok := bound.(*ast.Ident); ok {
						if d, ok := curDefs[info.Uses[bid]]; ok {
							bound = unparen(d)
						}
					}
					if call, ok := bound.(*ast.CallExpr); ok && len(call.Args) == 1 {
						if f, ok := call.Fun.(*ast.Ident); ok && f.Name == "len" {
							coll = call.Args[0]
						}
					}
					if ok1 && ok2 && iObj != nil && info.Uses[ci] == iObj && info.Uses[pi] == iObj && coll != nil && pureExpr(coll) && !assigned(x.Body, iObj) {
						collOK := true
						if cid, ok := unparen(coll).(*ast.Ident); ok {
							if o := info.Uses[cid]; o != nil && assigned(x.Body, o) {
								collOK = false
							}
						}
						if _, isSlice := info.TypeOf(coll).Underlying().(*types.Slice); isSlice && collOK {
							rs := &ast.RangeStmt{For: x.For, Key: iID, TokPos: as.TokPos, Tok: token.DEFINE, X: coll, Body: x.Body}
							return doStmt(rs)
						}
					}
				}
			}
		case *ast.RangeStmt:
			doBlock(x.Body)
			// for i := range s { … s[i] … } → value variable
			if x.Value == nil && x.Key != nil && x.Tok == token.DEFINE {
				kID, _ := x.Key.(*ast.Ident)
				sl, isSlice := info.TypeOf(x.X).Underlying().(*types.Slice)
				if kID != nil && kID.Name != "_" && isSlice && pureExpr(x.X) {
					kObj := info.Defs[kID]
					collText := types.ExprString(x.X)
					// elements must not be written, the collection not reassigned
					writes := false
					var reads []*ast.IndexExpr
					ast.Inspect(x.Body, func(n ast.Node) bool {
						switch y := n.(type) {
						case *ast.AssignStmt:
							for _, l := range y.Lhs {
								if ix, ok := l.(*ast.IndexExpr); ok && types.ExprString(ix.X) == collText {
									writes = true
								}
								if types.ExprString(l) == collText {
									writes = true
								}
							}
						case *ast.UnaryExpr:
							if y.Op == token.AND {
								if ix, ok := unparen(y.X).(*ast.IndexExpr); ok && types.ExprString(ix.X) == collText {
									writes = true
								}
							}
						case *ast.IndexExpr:
							if id, ok := unparen(y.Index).(*ast.Ident); ok && info.Uses[id] == kObj && types.ExprString(y.X) == collText {
								reads = append(reads, y)
							}
						}
						return true
					})
					if !writes && len(reads) > 0 && kObj != nil {
						vVar := types.NewVar(x.Pos(), pk.Types, "elem_", sl.Elem())
						vDef := &ast.Ident{NamePos: x.Pos(), Name: "elem_"}
						info.Defs[vDef] = vVar
						x.Value = vDef
						repl := map[*ast.IndexExpr]bool{}
						for _, r := range reads {
							repl[r] = true
						}
						replaceExprs(x.Body, func(e ast.Expr) (ast.Expr, bool) {
							if ix, ok := e.(*ast.IndexExpr); ok && repl[ix] {
								return useOf(vVar, ix.Pos()), true
							}
							return nil, false
						})
					}
				}
			}
		case *ast.SwitchStmt:
			for _, c := range x.Body.List {
				cc := c.(*ast.CaseClause)
				cc.Body = doList(cc.Body)
			}
		case *ast.TypeSwitchStmt:
			for _, c := range x.Body.List {
				cc := c.(*ast.CaseClause)
				cc.Body = doList(cc.Body)
			}
		case *ast.SelectStmt:
			for _, c := range x.Body.List {
				cc := c.(*ast.CommClause)
				cc.Body = doList(cc.Body)
			}
		case *ast.LabeledStmt:
			x.Stmt = doStmt(x.Stmt)
		case *ast.AssignStmt:
			if len(x.Lhs) == 1 && len(x.Rhs) == 1 && (x.Tok == token.ADD_ASSIGN || x.Tok == token.SUB_ASSIGN) {
				if tv, ok := info.Types[x.Rhs[0]]; ok && tv.Value != nil && tv.Value.ExactString() == "1" {
					if b, ok := info.TypeOf(x.Lhs[0]).Underlying().(*types.Basic); ok && b.Info()&types.IsInteger != 0 {
						tok := token.INC
						if x.Tok == token.SUB_ASSIGN {
							tok = token.DEC
						}
						return &ast.IncDecStmt{X: x.Lhs[0], TokPos: x.TokPos, Tok: tok}
					}
				}
			}
		}
		return st
	}
	doList = func(list []ast.Stmt) []ast.Stmt {
		var out []ast.Stmt
		for _, st := range list {
			st = doStmt(st)
			// x := max(a, b) / min
			if as, ok := st.(*ast.AssignStmt); ok && len(as.Lhs) == 1 && len(as.Rhs) == 1 && (as.Tok == token.DEFINE || as.Tok == token.ASSIGN) {
				if call, ok := unparen(as.Rhs[0]).(*ast.CallExpr); ok && len(call.Args) == 2 {
					if f, ok := call.Fun.(*ast.Ident); ok && (f.Name == "max" || f.Name == "min") {
						if _, isB := info.Uses[f].(*types.Builtin); isB {
							if xid, ok := as.Lhs[0].(*ast.Ident); ok && xid.Name != "_" && pureArgs(call.Args) {
								if xo := objOf(xid); xo != nil {
									if bt, ok := xo.Type().Underlying().(*types.Basic); ok && bt.Info()&types.IsInteger != 0 {
										a, b := call.Args[0], call.Args[1]
										// keep the non-constant operand as the initial value (x := e; if x < c { x = c })
										if tv, ok := info.Types[a]; ok && tv.Value != nil {
											a, b = b, a
										}
										as.Rhs = []ast.Expr{a}
										op := token.LSS
										if f.Name == "min" {
											op = token.GTR
										}
										// distinct positions for the synthesised nodes (some engines key facts by position)
										p0 := call.Pos()
										cond := &ast.BinaryExpr{X: useOf(xo, p0), OpPos: p0 + 1, Op: op, Y: b}
										info.Types[cond] = types.TypeAndValue{Type: boolT}
										set := &ast.AssignStmt{Lhs: []ast.Expr{useOf(xo, p0+2)}, TokPos: p0 + 3, Tok: token.ASSIGN, Rhs: []ast.Expr{b}}
										out = append(out, as, &ast.IfStmt{If: p0, Cond: cond, Body: &ast.BlockStmt{Lbrace: p0 + 1, List: []ast.Stmt{set}, Rbrace: call.End()}})
										continue
									}
								}
							}
						}
					}
				}
			}
			// return c && f(…)
			if ret, ok := st.(*ast.ReturnStmt); ok && len(ret.Results) == 1 {
				if b, ok := unparen(ret.Results[0]).(*ast.BinaryExpr); ok && b.Op == token.LAND && pureExpr(b.X) && !pureExpr(b.Y) {
					if t := info.TypeOf(b); t != nil && types.Identical(t.Underlying(), boolT) {
						not := &ast.UnaryExpr{OpPos: b.OpPos, Op: token.NOT, X: b.X}
						info.Types[not] = types.TypeAndValue{Type: boolT}
						f := &ast.Ident{NamePos: b.OpPos + 1, Name: "false"}
						info.Uses[f] = types.Universe.Lookup("false")
						info.Types[f] = types.TypeAndValue{Type: t, Value: nil}
						if c, ok := types.Universe.Lookup("false").(*types.Const); ok {
							info.Types[f] = types.TypeAndValue{Type: t, Value: c.Val()}
						}
						out = append(out, &ast.IfStmt{If: b.OpPos, Cond: not, Body: &ast.BlockStmt{Lbrace: b.OpPos, List: []ast.Stmt{&ast.ReturnStmt{Return: b.OpPos + 1, Results: []ast.Expr{f}}}, Rbrace: b.OpPos + 1}})
						ret.Results = []ast.Expr{b.Y}
						out = append(out, ret)
						continue
					}
				}
			}
			out = append(out, st)
		}
		return out
	}
	for _, f := range pk.Syntax {
		for _, d := range f.Decls {
			if fd, ok := d.(*ast.FuncDecl); ok && fd.Body != nil {
				setCurDefs(fd.Body)
				doBlock(fd.Body)
			}
		}
		// function literals
		ast.Inspect(f, func(n ast.Node) bool {
			if fl, ok := n.(*ast.FuncLit); ok {
				doBlock(fl.Body)
			}
			return true
		})
	}
}

func pureArgs(args []ast.Expr) bool {
	for _, a := range args {
		ok := true
		ast.Inspect(a, func(n ast.Node) bool {
			if c, isCall := n.(*ast.CallExpr); isCall {
				// conversions and len are fine
				if id, isID := c.Fun.(*ast.Ident); !isID || (id.Name != "len" && id.Name != "int" && id.Name != "uint64" && id.Name != "int64") {
					ok = false
				}
			}
			return true
		})
		if !ok {
			return false
		}
	}
	return true
}

// replaceExprs replaces expressions under n for which f returns a replacement (parents that hold expressions in
// the usual places: operands, call arguments, index / slice parts, assignment sides, returns, conditions).
func replaceExprs(n ast.Node, f func(e ast.Expr) (ast.Expr, bool)) {
	rep := func(e ast.Expr) ast.Expr {
		if e == nil {
			return nil
		}
		if r, ok := f(e); ok {
			return r
		}
		return e
	}
	ast.Inspect(n, func(x ast.Node) bool {
		switch y := x.(type) {
		case *ast.BinaryExpr:
			y.X, y.Y = rep(y.X), rep(y.Y)
		case *ast.UnaryExpr:
			y.X = rep(y.X)
		case *ast.ParenExpr:
			y.X = rep(y.X)
		case *ast.CallExpr:
			for i := range y.Args {
				y.Args[i] = rep(y.Args[i])
			}
		case *ast.IndexExpr:
			y.X, y.Index = rep(y.X), rep(y.Index)
		case *ast.SliceExpr:
			y.X, y.Low, y.High, y.Max = rep(y.X), rep(y.Low), rep(y.High), rep(y.Max)
		case *ast.SelectorExpr:
			y.X = rep(y.X)
		case *ast.StarExpr:
			y.X = rep(y.X)
		case *ast.AssignStmt:
			for i := range y.Rhs {
				y.Rhs[i] = rep(y.Rhs[i])
			}
		case *ast.ReturnStmt:
			for i := range y.Results {
				y.Results[i] = rep(y.Results[i])
			}
		case *ast.IfStmt:
			y.Cond = rep(y.Cond)
		case *ast.ExprStmt:
			y.X = rep(y.X)
		case *ast.KeyValueExpr:
			y.Value = rep(y.Value)
		case *ast.CompositeLit:
			for i := range y.Elts {
				y.Elts[i] = rep(y.Elts[i])
			}
		case *ast.SwitchStmt:
			y.Tag = rep(y.Tag)
		case *ast.TypeAssertExpr:
			y.X = rep(y.X)
		}
		return true
	})
}

// Package e3 expands the fast-marshal templates of the repository's working
// tree for a descriptor corpus (running the repository's own generator as a
// preprocessor) and type-checks the result; the checks then analyse the
// expanded Go source statically.
package e3

import (
	"fmt"
	"strings"

	"google.golang.org/protobuf/proto"
	"google.golang.org/protobuf/reflect/protodesc"
	"google.golang.org/protobuf/types/descriptorpb"
	"google.golang.org/protobuf/types/known/timestamppb"
)

// Kinds in the order used for field numbering.
var Kinds = []string{"double", "float", "int32", "int64", "uint32", "uint64", "sint32", "sint64",
	"fixed32", "fixed64", "sfixed32", "sfixed64", "bool", "string", "bytes", "enum", "message"}

var MapKeyKinds = []string{"int32", "int64", "uint32", "uint64", "sint32", "sint64", "fixed32", "fixed64", "sfixed32", "sfixed64", "bool", "string"}

var kindType = map[string]descriptorpb.FieldDescriptorProto_Type{
	"double": descriptorpb.FieldDescriptorProto_TYPE_DOUBLE, "float": descriptorpb.FieldDescriptorProto_TYPE_FLOAT,
	"int32": descriptorpb.FieldDescriptorProto_TYPE_INT32, "int64": descriptorpb.FieldDescriptorProto_TYPE_INT64,
	"uint32": descriptorpb.FieldDescriptorProto_TYPE_UINT32, "uint64": descriptorpb.FieldDescriptorProto_TYPE_UINT64,
	"sint32": descriptorpb.FieldDescriptorProto_TYPE_SINT32, "sint64": descriptorpb.FieldDescriptorProto_TYPE_SINT64,
	"fixed32": descriptorpb.FieldDescriptorProto_TYPE_FIXED32, "fixed64": descriptorpb.FieldDescriptorProto_TYPE_FIXED64,
	"sfixed32": descriptorpb.FieldDescriptorProto_TYPE_SFIXED32, "sfixed64": descriptorpb.FieldDescriptorProto_TYPE_SFIXED64,
	"bool": descriptorpb.FieldDescriptorProto_TYPE_BOOL, "string": descriptorpb.FieldDescriptorProto_TYPE_STRING,
	"bytes": descriptorpb.FieldDescriptorProto_TYPE_BYTES, "enum": descriptorpb.FieldDescriptorProto_TYPE_ENUM,
	"message": descriptorpb.FieldDescriptorProto_TYPE_MESSAGE,
}

// Packable kinds (everything except length-delimited ones).
func Packable(kind string) bool { return kind != "string" && kind != "bytes" && kind != "message" }

// File is one corpus file (one Go package).
type File struct {
	Pkg   string // Go package / directory name
	FD    *descriptorpb.FileDescriptorProto
	Deps  []*descriptorpb.FileDescriptorProto // dependencies not generated here (well-known types)
	Risky bool                                // expected to hit a template defect: kept isolated
	Note  string
	Opts  string // extra plug-in parameters (specialname=…)
	Only  string // "" both runtimes, "google" or "gogo"
	// SingleFileOnly: not expanded with filepermessage=true (the per-message file names of this schema collide,
	// which is the recorded G-naming finding of the `samename` file; one instance of it is enough)
	SingleFileOnly bool
}

type fb struct {
	fd  *descriptorpb.FileDescriptorProto
	pkg string
}

func newFile(pkg, syntax, goPkgBase string) *fb {
	return &fb{pkg: pkg, fd: &descriptorpb.FileDescriptorProto{
		Name:    proto.String(pkg + "/" + pkg + ".proto"),
		Package: proto.String("csvcorpus." + pkg),
		Syntax:  proto.String(syntax),
		Options: &descriptorpb.FileOptions{GoPackage: proto.String(goPkgBase + "/" + pkg + ";" + pkg)},
	}}
}

func (f *fb) enum(name string) {
	f.fd.EnumType = append(f.fd.EnumType, &descriptorpb.EnumDescriptorProto{Name: proto.String(name), Value: []*descriptorpb.EnumValueDescriptorProto{
		{Name: proto.String(strings.ToUpper(name) + "_ZERO"), Number: proto.Int32(0)},
		{Name: proto.String(strings.ToUpper(name) + "_ONE"), Number: proto.Int32(1)},
		{Name: proto.String(strings.ToUpper(name) + "_NEG"), Number: proto.Int32(-1)},
	}})
}

func (f *fb) msg(name string) *descriptorpb.DescriptorProto {
	m := &descriptorpb.DescriptorProto{Name: proto.String(name)}
	f.fd.MessageType = append(f.fd.MessageType, m)
	return m
}

func (f *fb) full(name string) string { return ".csvcorpus." + f.pkg + "." + name }

type fieldOpt func(*descriptorpb.FieldDescriptorProto)

func packed(v bool) fieldOpt {
	return func(fd *descriptorpb.FieldDescriptorProto) {
		if fd.Options == nil {
			fd.Options = &descriptorpb.FieldOptions{}
		}
		fd.Options.Packed = proto.Bool(v)
	}
}

func (f *fb) field(m *descriptorpb.DescriptorProto, name string, num int32, kind string, label descriptorpb.FieldDescriptorProto_Label, enumName, msgName string, opts ...fieldOpt) *descriptorpb.FieldDescriptorProto {
	fd := &descriptorpb.FieldDescriptorProto{Name: proto.String(name), Number: proto.Int32(num), Type: kindType[kind].Enum(), Label: label.Enum(), JsonName: proto.String(name)}
	switch kind {
	case "enum":
		fd.TypeName = proto.String(enumName)
	case "message":
		fd.TypeName = proto.String(msgName)
	}
	for _, o := range opts {
		o(fd)
	}
	m.Field = append(m.Field, fd)
	return fd
}

const (
	lOpt = descriptorpb.FieldDescriptorProto_LABEL_OPTIONAL
	lReq = descriptorpb.FieldDescriptorProto_LABEL_REQUIRED
	lRep = descriptorpb.FieldDescriptorProto_LABEL_REPEATED
)

// perKind adds one field per kind to m.
func (f *fb) perKind(m *descriptorpb.DescriptorProto, prefix string, label descriptorpb.FieldDescriptorProto_Label, only func(string) bool, opts ...fieldOpt) {
	for i, k := range Kinds {
		if only != nil && !only(k) {
			continue
		}
		f.field(m, prefix+"_"+k, int32(i+1), k, label, f.full("E"), f.full("Sub"), opts...)
	}
}

func (f *fb) std() {
	f.enum("E")
	sub := f.msg("Sub")
	f.field(sub, "a", 1, "int32", lOpt, "", "")
	if f.fd.GetSyntax() == "proto2" {
		sub.Field[0].Label = lOpt.Enum()
	}
}

// mapField adds a map<key,val> field (with its synthetic entry message).
func (f *fb) mapField(m *descriptorpb.DescriptorProto, name string, num int32, key, val string) {
	entryName := camel(name) + "Entry"
	entry := &descriptorpb.DescriptorProto{Name: proto.String(entryName), Options: &descriptorpb.MessageOptions{MapEntry: proto.Bool(true)}}
	f.field(entry, "key", 1, key, lOpt, "", "")
	f.field(entry, "value", 2, val, lOpt, f.full("E"), f.full("Sub"))
	m.NestedType = append(m.NestedType, entry)
	f.field(m, name, num, "message", lRep, "", f.full(m.GetName()+"."+entryName))
}

func camel(s string) string {
	parts := strings.Split(s, "_")
	for i, p := range parts {
		if p != "" {
			parts[i] = strings.ToUpper(p[:1]) + p[1:]
		}
	}
	return strings.Join(parts, "")
}

// Corpus builds the descriptor corpus for one runtime ("google" or "gogo").
// goPkgBase is the Go import path prefix of the scratch module for that runtime.
func Corpus(goPkgBase string, thorough bool) []*File {
	var out []*File
	var extscopeFD *descriptorpb.FileDescriptorProto
	add := func(f *fb, risky bool, note string) *File {
		cf := &File{Pkg: f.pkg, FD: f.fd, Risky: risky, Note: note}
		out = append(out, cf)
		return cf
	}
	// --- proto2 scalars by label
	{
		f := newFile("p2scalars", "proto2", goPkgBase)
		f.std()
		f.perKind(f.msg("Opt"), "o", lOpt, nil)
		f.perKind(f.msg("Req"), "q", lReq, nil)
		f.perKind(f.msg("Rep"), "r", lRep, nil)
		f.perKind(f.msg("RepPacked"), "p", lRep, Packable, packed(true))
		add(f, false, "proto2: optional / required / repeated / packed × every kind")
	}
	// --- proto3 scalars
	{
		f := newFile("p3scalars", "proto3", goPkgBase)
		f.std()
		f.perKind(f.msg("Impl"), "i", lOpt, nil)
		f.perKind(f.msg("Rep3"), "r", lRep, nil)
		f.perKind(f.msg("Rep3Unpacked"), "u", lRep, Packable, packed(false))
		add(f, false, "proto3: implicit / repeated packed-by-default / explicitly unpacked × every kind")
	}
	// --- proto3 optional (synthetic oneofs); protoc-gen-gogo predates proto3 optional
	{
		f := newFile("p3optional", "proto3", goPkgBase)
		f.std()
		o3 := f.msg("Opt3")
		for i, k := range Kinds {
			if k == "message" {
				continue // a message field is always explicit-presence
			}
			fd := f.field(o3, "o_"+k, int32(i+1), k, lOpt, f.full("E"), f.full("Sub"))
			fd.Proto3Optional = proto.Bool(true)
			fd.OneofIndex = proto.Int32(int32(len(o3.OneofDecl)))
			o3.OneofDecl = append(o3.OneofDecl, &descriptorpb.OneofDescriptorProto{Name: proto.String("_o_" + k)})
		}
		cf := add(f, false, "proto3 optional (synthetic oneof) × every kind")
		cf.Only = "google"
	}
	// --- oneofs
	for _, syn := range []string{"proto2", "proto3"} {
		f := newFile("oneofs"+syn[5:], syn, goPkgBase)
		f.std()
		m := f.msg("One")
		m.OneofDecl = []*descriptorpb.OneofDescriptorProto{{Name: proto.String("first")}, {Name: proto.String("second")}}
		for i, k := range Kinds {
			fd := f.field(m, "f_"+k, int32(i+1), k, lOpt, f.full("E"), f.full("Sub"))
			fd.OneofIndex = proto.Int32(0)
		}
		fd := f.field(m, "s_str", 40, "string", lOpt, "", "")
		fd.OneofIndex = proto.Int32(1)
		fd = f.field(m, "s_int", 41, "int64", lOpt, "", "")
		fd.OneofIndex = proto.Int32(1)
		f.field(m, "plain", 50, "int32", lOpt, "", "")
		add(f, false, syn+": oneof with one member per kind, a second oneof, a plain field")
	}
	// --- maps: one file per key kind
	for _, key := range MapKeyKinds {
		f := newFile("map"+key, "proto3", goPkgBase)
		f.std()
		m := f.msg("M")
		for i, v := range Kinds {
			f.mapField(m, "m_"+v, int32(i+1), key, v)
		}
		add(f, key == "bool", "map<"+key+", V> for every value kind")
	}
	// --- extensions: one file per kind
	for i, k := range Kinds {
		f := newFile("ext"+k, "proto2", goPkgBase)
		f.std()
		base := f.msg("Base")
		f.field(base, "id", 1, "int32", lOpt, "", "")
		base.ExtensionRange = []*descriptorpb.DescriptorProto_ExtensionRange{{Start: proto.Int32(100), End: proto.Int32(536870912)}}
		holder := f.msg("Holder")
		ext := &descriptorpb.FieldDescriptorProto{Name: proto.String("x_" + k), Number: proto.Int32(int32(100 + i)), Type: kindType[k].Enum(), Label: lOpt.Enum(),
			Extendee: proto.String(f.full("Base"))}
		if k == "enum" {
			ext.TypeName = proto.String(f.full("E"))
		}
		if k == "message" {
			ext.TypeName = proto.String(f.full("Sub"))
		}
		holder.Extension = append(holder.Extension, ext)
		add(f, k == "uint32" || k == "enum", "proto2 extension of kind "+k+" declared inside a message")
	}
	// --- extensions with declared defaults (GetExtension of an unset extension yields the default on every runtime)
	{
		f := newFile("extdefault", "proto2", goPkgBase)
		f.std()
		base := f.msg("Base")
		f.field(base, "id", 1, "int32", lOpt, "", "")
		base.ExtensionRange = []*descriptorpb.DescriptorProto_ExtensionRange{{Start: proto.Int32(100), End: proto.Int32(200)}}
		holder := f.msg("Holder")
		for i, kd := range [][2]string{{"int32", "7"}, {"string", "dflt"}, {"bool", "true"}} {
			holder.Extension = append(holder.Extension, &descriptorpb.FieldDescriptorProto{Name: proto.String("d_" + kd[0]), Number: proto.Int32(int32(100 + i)),
				Type: kindType[kd[0]].Enum(), Label: lOpt.Enum(), Extendee: proto.String(f.full("Base")), DefaultValue: proto.String(kd[1])})
		}
		add(f, false, "proto2 extensions with [default=...] declared inside a message")
	}
	// --- extensions declared at file level and inside a nested message of a message
	{
		f := newFile("extscope", "proto2", goPkgBase)
		f.std()
		base := f.msg("Base")
		f.field(base, "id", 1, "int32", lOpt, "", "")
		base.ExtensionRange = []*descriptorpb.DescriptorProto_ExtensionRange{{Start: proto.Int32(100), End: proto.Int32(200)}}
		f.fd.Extension = append(f.fd.Extension,
			&descriptorpb.FieldDescriptorProto{Name: proto.String("top_int"), Number: proto.Int32(100), Type: kindType["int32"].Enum(), Label: lOpt.Enum(), Extendee: proto.String(f.full("Base"))},
			&descriptorpb.FieldDescriptorProto{Name: proto.String("top_str"), Number: proto.Int32(101), Type: kindType["string"].Enum(), Label: lOpt.Enum(), Extendee: proto.String(f.full("Base"))},
			&descriptorpb.FieldDescriptorProto{Name: proto.String("top_msg"), Number: proto.Int32(102), Type: kindType["message"].Enum(), Label: lOpt.Enum(), Extendee: proto.String(f.full("Base")), TypeName: proto.String(f.full("Sub"))})
		outer := f.msg("Outer")
		inner := &descriptorpb.DescriptorProto{Name: proto.String("Deep")}
		inner.Extension = append(inner.Extension, &descriptorpb.FieldDescriptorProto{Name: proto.String("deep_int"), Number: proto.Int32(110), Type: kindType["int64"].Enum(), Label: lOpt.Enum(), Extendee: proto.String(f.full("Base"))})
		outer.NestedType = append(outer.NestedType, inner)
		add(f, false, "proto2 extensions declared at file level and inside a nested message")
		extscopeFD = f.fd
	}
	// --- a repeated extension
	{
		f := newFile("extrepeated", "proto2", goPkgBase)
		f.std()
		base := f.msg("Base")
		f.field(base, "id", 1, "int32", lOpt, "", "")
		base.ExtensionRange = []*descriptorpb.DescriptorProto_ExtensionRange{{Start: proto.Int32(100), End: proto.Int32(200)}}
		holder := f.msg("Holder")
		holder.Extension = append(holder.Extension,
			&descriptorpb.FieldDescriptorProto{Name: proto.String("nums"), Number: proto.Int32(100), Type: kindType["int32"].Enum(), Label: lRep.Enum(), Extendee: proto.String(f.full("Base"))},
			&descriptorpb.FieldDescriptorProto{Name: proto.String("names"), Number: proto.Int32(101), Type: kindType["string"].Enum(), Label: lRep.Enum(), Extendee: proto.String(f.full("Base"))})
		add(f, true, "repeated proto2 extensions declared inside a message")
	}
	// --- structure
	{
		f := newFile("structure", "proto2", goPkgBase)
		f.std()
		tree := f.msg("Tree")
		f.field(tree, "left", 1, "message", lOpt, "", f.full("Tree"))
		f.field(tree, "kids", 2, "message", lRep, "", f.full("Tree"))
		f.field(tree, "v", 3, "int32", lOpt, "", "")
		f.msg("Empty")
		he := f.msg("HoldsEmpty")
		f.field(he, "one", 1, "message", lOpt, "", f.full("Empty"))
		f.field(he, "many", 2, "message", lRep, "", f.full("Empty"))
		f.mapField(he, "by_name", 3, "string", "message")
		he.NestedType[0].Field[1].TypeName = proto.String(f.full("Empty"))
		big := f.msg("BigTag")
		f.field(big, "big", 536870911, "int32", lOpt, "", "")
		f.field(big, "mid", 70000, "string", lRep, "", "")
		leaf := f.msg("ReqLeaf")
		f.field(leaf, "x", 1, "int32", lReq, "", "")
		rh := f.msg("ReqHolder")
		f.field(rh, "s", 1, "message", lOpt, "", f.full("ReqLeaf"))
		f.field(rh, "r", 2, "message", lRep, "", f.full("ReqLeaf"))
		f.mapField(rh, "m", 3, "string", "message")
		rh.NestedType[0].Field[1].TypeName = proto.String(f.full("ReqLeaf"))
		rh.OneofDecl = []*descriptorpb.OneofDescriptorProto{{Name: proto.String("o")}}
		ol := f.field(rh, "ol", 4, "message", lOpt, "", f.full("ReqLeaf"))
		ol.OneofIndex = proto.Int32(0)
		f.field(rh, "q", 5, "message", lReq, "", f.full("ReqLeaf"))
		outer := f.msg("Outer")
		inner := &descriptorpb.DescriptorProto{Name: proto.String("Inner")}
		f.field(inner, "z", 1, "bytes", lOpt, "", "")
		outer.NestedType = append(outer.NestedType, inner)
		f.field(outer, "in", 1, "message", lOpt, "", f.full("Outer.Inner"))
		add(f, false, "recursive / empty / nested messages, required fields reached through singular, repeated, map and oneof, field number 2^29-1")
	}
	// --- the only required field of the file sits in a nested message (file-level vs message-level test)
	{
		f := newFile("nestedreq", "proto2", goPkgBase)
		outer := f.msg("Outer")
		inner := &descriptorpb.DescriptorProto{Name: proto.String("Inner")}
		f.field(inner, "id", 1, "int32", lReq, "", "")
		outer.NestedType = append(outer.NestedType, inner)
		f.field(outer, "in", 1, "message", lOpt, "", f.full("Outer.Inner"))
		f.field(outer, "label", 2, "string", lOpt, "", "")
		plain := f.msg("Plain")
		f.field(plain, "n", 1, "int64", lOpt, "", "")
		add(f, false, "the only required field is in a nested message; a sibling message has none")
	}
	// --- two nested messages with the same short name (per-message file names)
	{
		f := newFile("samename", "proto3", goPkgBase)
		a := f.msg("A")
		ai := &descriptorpb.DescriptorProto{Name: proto.String("Inner")}
		f.field(ai, "x", 1, "int32", lOpt, "", "")
		a.NestedType = append(a.NestedType, ai)
		f.field(a, "i", 1, "message", lOpt, "", f.full("A.Inner"))
		b := f.msg("B")
		bi := &descriptorpb.DescriptorProto{Name: proto.String("Inner")}
		f.field(bi, "y", 1, "string", lOpt, "", "")
		b.NestedType = append(b.NestedType, bi)
		f.field(b, "i", 1, "message", lOpt, "", f.full("B.Inner"))
		add(f, false, "two nested messages with the same short name")
	}
	// --- the same, proto2, where only the first of the two has a required field
	{
		f := newFile("samenamereq", "proto2", goPkgBase)
		a := f.msg("Request")
		ai := &descriptorpb.DescriptorProto{Name: proto.String("Options")}
		f.field(ai, "x", 1, "int32", lReq, "", "")
		a.NestedType = append(a.NestedType, ai)
		f.field(a, "o", 1, "message", lOpt, "", f.full("Request.Options"))
		b := f.msg("Response")
		bi := &descriptorpb.DescriptorProto{Name: proto.String("Options")}
		f.field(bi, "y", 1, "string", lOpt, "", "")
		b.NestedType = append(b.NestedType, bi)
		f.field(b, "o", 1, "message", lOpt, "", f.full("Response.Options"))
		top := f.msg("Top")
		f.field(top, "t", 1, "int32", lReq, "", "")
		add(f, false, "two nested messages with the same short name, only the first has a required field").SingleFileOnly = true
	}
	// --- imports: another corpus package and a well-known type
	var o *fb
	{
		o = newFile("otherpkg", "proto3", goPkgBase)
		o.enum("OE")
		om := o.msg("Other")
		o.field(om, "n", 1, "int64", lOpt, "", "")
		add(o, false, "imported package")
		f := newFile("imports", "proto3", goPkgBase)
		f.fd.Dependency = []string{"otherpkg/otherpkg.proto", "google/protobuf/timestamp.proto"}
		m := f.msg("UsesOther")
		f.field(m, "o", 1, "message", lOpt, "", ".csvcorpus.otherpkg.Other")
		f.field(m, "os", 2, "message", lRep, "", ".csvcorpus.otherpkg.Other")
		f.field(m, "oe", 3, "enum", lOpt, ".csvcorpus.otherpkg.OE", "")
		f.field(m, "oes", 4, "enum", lRep, ".csvcorpus.otherpkg.OE", "")
		f.field(m, "ts", 5, "message", lOpt, "", ".google.protobuf.Timestamp")
		f.mapField(m, "om", 6, "string", "message")
		m.NestedType[0].Field[1].TypeName = proto.String(".csvcorpus.otherpkg.Other")
		cf := add(f, false, "message / enum types from another package and a well-known type")
		cf.Deps = []*descriptorpb.FileDescriptorProto{o.fd, protodesc.ToFileDescriptorProto(timestamppb.File_google_protobuf_timestamp_proto)}
		cf.Only = "google"
	}
	// --- another package used ONLY as the value type of a map
	{
		f := newFile("mapimport", "proto3", goPkgBase)
		f.fd.Dependency = []string{"otherpkg/otherpkg.proto"}
		m := f.msg("OnlyInMap")
		f.mapField(m, "by_name", 1, "string", "message")
		m.NestedType[0].Field[1].TypeName = proto.String(".csvcorpus.otherpkg.Other")
		cf := add(f, true, "a message type from another package used only as a map value")
		cf.Deps = []*descriptorpb.FileDescriptorProto{o.fd}
		cf.Only = "google"
	}
	// --- extensions whose enum / message type lives in another package
	{
		f := newFile("extimport", "proto2", goPkgBase)
		f.fd.Dependency = []string{"otherpkg/otherpkg.proto"}
		base := f.msg("Base")
		f.field(base, "id", 1, "int32", lOpt, "", "")
		base.ExtensionRange = []*descriptorpb.DescriptorProto_ExtensionRange{{Start: proto.Int32(100), End: proto.Int32(200)}}
		holder := f.msg("Holder")
		holder.Extension = append(holder.Extension,
			&descriptorpb.FieldDescriptorProto{Name: proto.String("color"), Number: proto.Int32(100), Type: kindType["enum"].Enum(), Label: lOpt.Enum(), Extendee: proto.String(f.full("Base")), TypeName: proto.String(".csvcorpus.otherpkg.OE")},
			&descriptorpb.FieldDescriptorProto{Name: proto.String("opt"), Number: proto.Int32(101), Type: kindType["message"].Enum(), Label: lOpt.Enum(), Extendee: proto.String(f.full("Base")), TypeName: proto.String(".csvcorpus.otherpkg.Other")})
		cf := add(f, true, "proto2 extensions whose enum / message type is declared in another package")
		cf.Deps = []*descriptorpb.FileDescriptorProto{o.fd}
		cf.Only = "google"
	}
	// --- a file without messages
	{
		f := newFile("enumonly", "proto3", goPkgBase)
		f.enum("Lonely")
		add(f, true, "a file that declares only an enum")
	}
	// --- an extension of a message of another file
	{
		f := newFile("extother", "proto2", goPkgBase)
		f.fd.Dependency = []string{"extscope/extscope.proto"}
		f.fd.Extension = append(f.fd.Extension, &descriptorpb.FieldDescriptorProto{Name: proto.String("other_int"), Number: proto.Int32(120), Type: kindType["int32"].Enum(), Label: lOpt.Enum(), Extendee: proto.String(".csvcorpus.extscope.Base")})
		m := f.msg("Dummy")
		f.field(m, "d", 1, "int32", lOpt, "", "")
		cf := add(f, false, "a proto2 extension of a message declared in another file")
		cf.Deps = []*descriptorpb.FileDescriptorProto{extscopeFD}
	}
	// --- special field name (gogo renames a field called Size)
	{
		f := newFile("special", "proto2", goPkgBase)
		m := f.msg("HasSize")
		f.field(m, "size", 1, "int32", lOpt, "", "")
		f.field(m, "other", 2, "string", lOpt, "", "")
		cf := add(f, false, "field named size with specialname=Size (gogo)")
		cf.Opts = "specialname=Size"
		cf.Only = "gogo"
	}
	// --- extensions declared in messages that a traversal of the nested types reaches late: after a map entry
	// (the synthetic entry type precedes them) and two levels down
	{
		f := newFile("deepext", "proto2", goPkgBase)
		f.std()
		base := f.msg("Base")
		f.field(base, "id", 1, "int32", lOpt, "", "")
		base.ExtensionRange = []*descriptorpb.DescriptorProto_ExtensionRange{{Start: proto.Int32(100), End: proto.Int32(200)}}
		cat := f.msg("Catalog")
		f.mapField(cat, "index", 1, "string", "int32")
		entry := &descriptorpb.DescriptorProto{Name: proto.String("Entry")}
		f.field(entry, "v", 1, "int32", lOpt, "", "")
		entry.Extension = append(entry.Extension, &descriptorpb.FieldDescriptorProto{Name: proto.String("note"), Number: proto.Int32(101), Type: kindType["string"].Enum(), Label: lOpt.Enum(), Extendee: proto.String(f.full("Base"))})
		cat.NestedType = append(cat.NestedType, entry)
		outer := f.msg("Outer")
		mid := &descriptorpb.DescriptorProto{Name: proto.String("Mid")}
		f.field(mid, "w", 1, "int32", lOpt, "", "")
		scope := &descriptorpb.DescriptorProto{Name: proto.String("Scope")}
		f.field(scope, "x", 1, "int32", lOpt, "", "")
		scope.Extension = append(scope.Extension, &descriptorpb.FieldDescriptorProto{Name: proto.String("deep"), Number: proto.Int32(110), Type: kindType["int32"].Enum(), Label: lOpt.Enum(), Extendee: proto.String(f.full("Base"))})
		mid.NestedType = append(mid.NestedType, scope)
		outer.NestedType = append(outer.NestedType, mid)
		f.field(outer, "y", 1, "int32", lOpt, "", "")
		add(f, false, "extensions declared in a nested message after a map field, and two levels down")
	}
	// --- special name that is also the name of a message type and of an extension
	{
		f := newFile("specialtype", "proto2", goPkgBase)
		sz := f.msg("Size")
		f.field(sz, "v", 1, "int32", lOpt, "", "")
		h := f.msg("Holder")
		f.field(h, "one", 1, "message", lOpt, "", f.full("Size"))
		f.field(h, "many", 2, "message", lRep, "", f.full("Size"))
		f.mapField(h, "by_name", 3, "string", "message")
		h.NestedType[0].Field[1].TypeName = proto.String(f.full("Size"))
		h.ExtensionRange = []*descriptorpb.DescriptorProto_ExtensionRange{{Start: proto.Int32(100), End: proto.Int32(200)}}
		f.fd.Extension = append(f.fd.Extension,
			&descriptorpb.FieldDescriptorProto{Name: proto.String("size"), Number: proto.Int32(100), Type: kindType["int32"].Enum(), Label: lOpt.Enum(), Extendee: proto.String(f.full("Holder"))},
			&descriptorpb.FieldDescriptorProto{Name: proto.String("size_msg"), Number: proto.Int32(101), Type: kindType["message"].Enum(), Label: lOpt.Enum(), Extendee: proto.String(f.full("Holder")), TypeName: proto.String(f.full("Size"))})
		cf := add(f, false, "specialname=Size where Size is also a message type and an extension name")
		cf.Opts = "specialname=Size"
	}
	_ = thorough
	return out
}

func (f *File) String() string { return fmt.Sprintf("%s (%s)", f.Pkg, f.Note) }

package e3

import (
	"bytes"
	"fmt"
	"go/ast"
	"go/parser"
	"go/printer"
	"go/token"
	"os"
	"os/exec"
	"path/filepath"
	"sort"
	"strings"

	gogoproto "github.com/gogo/protobuf/proto"
	gogoplugin "github.com/gogo/protobuf/protoc-gen-gogo/plugin"
	gogocmd "github.com/gogo/protobuf/vanity/command"
	"golang.org/x/tools/go/packages"
	"google.golang.org/protobuf/cmd/protoc-gen-go/internal_gengo"
	"google.golang.org/protobuf/compiler/protogen"
	"google.golang.org/protobuf/proto"
	"google.golang.org/protobuf/types/descriptorpb"
	"google.golang.org/protobuf/types/pluginpb"

	"csverify/core"
)

// Combo is one generator option combination.
type Combo struct {
	Runtime    string // "google" (apiversion=v2) or "gogo" (apiversion=v1)
	PerMessage bool
	Unsafe     bool
}

func (c Combo) APIVersion() string {
	if c.Runtime == "gogo" {
		return "v1"
	}
	return "v2"
}

func (c Combo) String() string {
	s := c.Runtime
	if c.PerMessage {
		s += "_permsg"
	} else {
		s += "_single"
	}
	if c.Unsafe {
		s += "_unsafe"
	} else {
		s += "_safe"
	}
	return s
}

func (c Combo) Params(extra string) string {
	p := []string{"paths=source_relative", "apiversion=" + c.APIVersion()}
	if c.PerMessage {
		p = append(p, "filepermessage=true")
	}
	if c.Unsafe {
		p = append(p, "enableunsafedecode=true")
	}
	if extra != "" {
		p = append(p, extra)
	}
	return strings.Join(p, ",")
}

// Unit is the outcome for one corpus file under one combo.
type Unit struct {
	File        *File
	Combo       Combo
	PluginError string            // error reported by protoc-gen-fastmarshal ("" = ok)
	PBError     string            // error of the runtime's own generator
	FMFiles     map[string]string // generated fast-marshal file name -> content
	Dir         string            // directory of the Go package in the scratch module
	Gen         *protogen.Plugin  // descriptor view (GoName etc.) of the request
	GenFile     *protogen.File
	Pkg         *packages.Package // type-checked package (nil when generation failed)
	TypeErrors  []string
	DupNames    []string // output names emitted more than once in one response
}

// Expansion is one run of the pipeline.
type Expansion struct {
	Scratch string
	Fset    *token.FileSet
	Units   []*Unit
	// Batch: per combo, the outcome of ONE request that asks for all corpus files at once: names of output
	// files that differ from the output of the single-file requests (or an error text).
	Batch map[string][]string
	// BatchCode: the subset of Batch whose declarations differ (imports and comments set aside).
	BatchCode map[string][]string
	// BatchFiles: how many files each batch request asked for.
	BatchFiles map[string]int
}

// Cleanup removes the scratch directory.
func (e *Expansion) Cleanup() {
	if e.Scratch != "" {
		_ = os.RemoveAll(e.Scratch)
	}
}

func goRun(dir string, args ...string) (string, error) {
	cmd := exec.Command("go", args...)
	cmd.Dir = dir
	cmd.Env = core.GoEnv()
	var out bytes.Buffer
	cmd.Stdout, cmd.Stderr = &out, &out
	err := cmd.Run()
	return out.String(), err
}

// request builds the CodeGeneratorRequest for a corpus file.
func request(f *File, all map[string]*File, params string) *pluginpb.CodeGeneratorRequest {
	req := &pluginpb.CodeGeneratorRequest{FileToGenerate: []string{f.FD.GetName()}, Parameter: proto.String(params)}
	seen := map[string]bool{}
	var add func(fd *descriptorpb.FileDescriptorProto)
	byName := map[string]*descriptorpb.FileDescriptorProto{}
	for _, d := range f.Deps {
		byName[d.GetName()] = d
	}
	for _, o := range all {
		byName[o.FD.GetName()] = o.FD
	}
	add = func(fd *descriptorpb.FileDescriptorProto) {
		if seen[fd.GetName()] {
			return
		}
		seen[fd.GetName()] = true
		for _, dep := range fd.Dependency {
			if d, ok := byName[dep]; ok {
				add(d)
			}
		}
		req.ProtoFile = append(req.ProtoFile, fd)
	}
	add(f.FD)
	return req
}

// runPlugin runs the repository's generator binary on a request.
func runPlugin(bin string, req *pluginpb.CodeGeneratorRequest) (*pluginpb.CodeGeneratorResponse, error) {
	in, err := proto.Marshal(req)
	if err != nil {
		return nil, err
	}
	cmd := exec.Command(bin)
	cmd.Stdin = bytes.NewReader(in)
	var out, errb bytes.Buffer
	cmd.Stdout, cmd.Stderr = &out, &errb
	if err := cmd.Run(); err != nil {
		return nil, fmt.Errorf("generator exited: %v: %s", err, errb.String())
	}
	resp := &pluginpb.CodeGeneratorResponse{}
	if err := proto.Unmarshal(out.Bytes(), resp); err != nil {
		return nil, fmt.Errorf("generator wrote an unparsable response: %v", err)
	}
	return resp, nil
}

// genGoogle runs protoc-gen-go's generator in-process.
func genGoogle(req *pluginpb.CodeGeneratorRequest) (map[string]string, *protogen.Plugin, error) {
	r2 := proto.Clone(req).(*pluginpb.CodeGeneratorRequest)
	r2.Parameter = proto.String("paths=source_relative")
	gen, err := protogen.Options{}.New(r2)
	if err != nil {
		return nil, nil, err
	}
	for _, f := range gen.Files {
		if f.Generate {
			internal_gengo.GenerateFile(gen, f)
		}
	}
	resp := gen.Response()
	if resp.Error != nil {
		return nil, gen, fmt.Errorf("%s", resp.GetError())
	}
	out := map[string]string{}
	for _, f := range resp.File {
		out[f.GetName()] = f.GetContent()
	}
	return out, gen, nil
}

// genGogo runs protoc-gen-gogo's generator in-process.
func genGogo(req *pluginpb.CodeGeneratorRequest) (out map[string]string, err error) {
	defer func() {
		if p := recover(); p != nil {
			err = fmt.Errorf("protoc-gen-gogo panicked: %v", p)
		}
	}()
	r2 := proto.Clone(req).(*pluginpb.CodeGeneratorRequest)
	r2.Parameter = proto.String("paths=source_relative")
	b, err := proto.Marshal(r2)
	if err != nil {
		return nil, err
	}
	greq := &gogoplugin.CodeGeneratorRequest{}
	if err := gogoproto.Unmarshal(b, greq); err != nil {
		return nil, err
	}
	resp := gogocmd.Generate(greq)
	if resp.Error != nil {
		return nil, fmt.Errorf("%s", resp.GetError())
	}
	out = map[string]string{}
	for _, f := range resp.File {
		out[f.GetName()] = f.GetContent()
	}
	return out, nil
}

// Expand builds the generator from the repository's working tree, expands the
// templates for every corpus file under the given combos and type-checks the
// output. Errors of individual units are recorded on the unit.
func Expand(combos []Combo, thorough bool) (*Expansion, error) {
	scratch, err := os.MkdirTemp("", "csverify-e3-")
	if err != nil {
		return nil, err
	}
	ex := &Expansion{Scratch: scratch, Fset: token.NewFileSet()}
	repo := core.RepoDir()
	bin := filepath.Join(scratch, "protoc-gen-fastmarshal")
	if out, err := goRun(repo, "build", "-o", bin, "./cmd/protoc-gen-fastmarshal"); err != nil {
		ex.Cleanup()
		return nil, fmt.Errorf("building the generator from %s failed: %v\n%s", repo, err, out)
	}
	mod := filepath.Join(scratch, "mod")
	if err := os.MkdirAll(mod, 0o755); err != nil {
		return nil, err
	}
	// scratch module: same dependency versions as the repository
	gomod, err := os.ReadFile(filepath.Join(repo, "go.mod"))
	if err != nil {
		return nil, err
	}
	var sb strings.Builder
	sb.WriteString("module csvcorpus\n\ngo 1.21\n\nrequire github.com/CrowdStrike/csproto v0.0.0\n\nreplace github.com/CrowdStrike/csproto => " + repo + "\n\n")
	inReq := false
	for _, line := range strings.Split(string(gomod), "\n") {
		t := strings.TrimSpace(line)
		switch {
		case strings.HasPrefix(t, "require ("):
			inReq = true
			sb.WriteString("require (\n")
		case inReq && t == ")":
			inReq = false
			sb.WriteString(")\n")
		case inReq:
			sb.WriteString(line + "\n")
		}
	}
	if err := os.WriteFile(filepath.Join(mod, "go.mod"), []byte(sb.String()), 0o644); err != nil {
		return nil, err
	}
	if sum, err := os.ReadFile(filepath.Join(repo, "go.sum")); err == nil {
		_ = os.WriteFile(filepath.Join(mod, "go.sum"), sum, 0o644)
	}
	for _, combo := range combos {
		base := "csvcorpus/" + combo.String()
		files := Corpus(base, thorough)
		byPkg := map[string]*File{}
		for _, f := range files {
			byPkg[f.Pkg] = f
		}
		for _, f := range files {
			if f.Only != "" && f.Only != combo.Runtime {
				continue
			}
			if f.SingleFileOnly && combo.PerMessage {
				continue
			}
			u := &Unit{File: f, Combo: combo, FMFiles: map[string]string{}, Dir: filepath.Join(mod, combo.String(), f.Pkg)}
			ex.Units = append(ex.Units, u)
			req := request(f, byPkg, combo.Params(f.Opts))
			// descriptor view
			if gen, err := (protogen.Options{}).New(func() *pluginpb.CodeGeneratorRequest {
				r2 := proto.Clone(req).(*pluginpb.CodeGeneratorRequest)
				r2.Parameter = proto.String("paths=source_relative")
				return r2
			}()); err == nil {
				u.Gen = gen
				for _, gf := range gen.Files {
					if gf.Generate {
						u.GenFile = gf
					}
				}
			}
			// the runtime's own generated types
			var pb map[string]string
			var perr error
			if combo.Runtime == "gogo" {
				pb, perr = genGogo(req)
			} else {
				pb, _, perr = genGoogle(req)
			}
			if perr != nil {
				u.PBError = perr.Error()
			}
			// fast-marshal expansion
			resp, err := runPlugin(bin, req)
			switch {
			case err != nil:
				u.PluginError = err.Error()
			case resp.Error != nil:
				u.PluginError = resp.GetError()
			default:
				seen := map[string]int{}
				for _, rf := range resp.File {
					seen[rf.GetName()]++
					u.FMFiles[rf.GetName()] += rf.GetContent()
				}
				for n, c := range seen {
					if c > 1 {
						u.DupNames = append(u.DupNames, n)
					}
				}
				sort.Strings(u.DupNames)
			}
			if u.PBError != "" || u.PluginError != "" {
				continue
			}
			for name, content := range pb {
				p := filepath.Join(mod, combo.String(), name)
				_ = os.MkdirAll(filepath.Dir(p), 0o755)
				_ = os.WriteFile(p, []byte(content), 0o644)
			}
			for name, content := range u.FMFiles {
				p := filepath.Join(mod, combo.String(), name)
				_ = os.MkdirAll(filepath.Dir(p), 0o755)
				_ = os.WriteFile(p, []byte(content), 0o644)
			}
		}
	}
	// one request per combo that asks for every (option-free) corpus file at once: the output for a file must
	// not depend on what else is in the request
	ex.Batch = map[string][]string{}
	ex.BatchFiles = map[string]int{}
	ex.BatchCode = map[string][]string{}
	for _, combo := range combos {
		base := "csvcorpus/" + combo.String()
		files := Corpus(base, thorough)
		byPkg := map[string]*File{}
		for _, f := range files {
			byPkg[f.Pkg] = f
		}
		req := &pluginpb.CodeGeneratorRequest{Parameter: proto.String(combo.Params(""))}
		seen := map[string]bool{}
		want := map[string]string{}
		for _, u := range ex.Units {
			if u.Combo != combo || u.File.Opts != "" || u.PluginError != "" || u.PBError != "" {
				continue
			}
			one := request(u.File, byPkg, combo.Params(""))
			for _, fd := range one.ProtoFile {
				if !seen[fd.GetName()] {
					seen[fd.GetName()] = true
					req.ProtoFile = append(req.ProtoFile, fd)
				}
			}
			req.FileToGenerate = append(req.FileToGenerate, u.File.FD.GetName())
			for n, c := range u.FMFiles {
				want[n] = c
			}
		}
		ex.BatchFiles[combo.String()] = len(req.FileToGenerate)
		if len(req.FileToGenerate) < 2 {
			continue
		}
		resp, err := runPlugin(bin, req)
		switch {
		case err != nil:
			ex.Batch[combo.String()] = []string{"generator failed on the combined request: " + err.Error()}
			ex.BatchCode[combo.String()] = ex.Batch[combo.String()]
		case resp.Error != nil:
			ex.Batch[combo.String()] = []string{"generator reports an error on the combined request: " + resp.GetError()}
			ex.BatchCode[combo.String()] = ex.Batch[combo.String()]
		default:
			got := map[string]string{}
			for _, rf := range resp.File {
				got[rf.GetName()] += rf.GetContent()
			}
			var diff, codeDiff []string
			for n, c := range want {
				if got[n] != c {
					diff = append(diff, n)
					if declsOf(got[n]) != declsOf(c) {
						codeDiff = append(codeDiff, n)
					}
				}
			}
			for n := range got {
				if _, ok := want[n]; !ok {
					diff = append(diff, n+" (extra)")
					codeDiff = append(codeDiff, n+" (extra)")
				}
			}
			sort.Strings(diff)
			sort.Strings(codeDiff)
			ex.Batch[combo.String()] = diff
			ex.BatchCode[combo.String()] = codeDiff
		}
	}
	// type-check everything that was generated
	cfg := &packages.Config{
		Mode: packages.NeedName | packages.NeedFiles | packages.NeedCompiledGoFiles | packages.NeedImports |
			packages.NeedTypes | packages.NeedTypesSizes | packages.NeedSyntax | packages.NeedTypesInfo | packages.NeedDeps,
		Dir: mod, Env: core.GoEnv(), Fset: ex.Fset,
	}
	pkgs, err := packages.Load(cfg, "./...")
	if err != nil {
		return ex, fmt.Errorf("loading the expanded corpus: %v", err)
	}
	byDir := map[string]*packages.Package{}
	for _, p := range pkgs {
		if len(p.GoFiles) > 0 {
			byDir[filepath.Dir(p.GoFiles[0])] = p
		} else if len(p.IgnoredFiles) > 0 {
			byDir[filepath.Dir(p.IgnoredFiles[0])] = p
		}
		// packages whose files do not parse have no GoFiles; map by import path too
		byDir[filepath.Join(mod, strings.TrimPrefix(p.PkgPath, "csvcorpus/"))] = p
	}
	for _, u := range ex.Units {
		if u.PBError != "" || u.PluginError != "" {
			continue
		}
		p := byDir[u.Dir]
		if p == nil {
			u.TypeErrors = append(u.TypeErrors, "package was not loaded")
			continue
		}
		u.Pkg = p
		for _, e := range p.Errors {
			msg := e.Error()
			msg = strings.ReplaceAll(msg, mod+"/", "")
			u.TypeErrors = append(u.TypeErrors, msg)
		}
	}
	return ex, nil
}

// declsOf renders the declarations of a Go source file without its imports and comments; a file that
// does not parse is returned as it is.
func declsOf(src string) string {
	fset := token.NewFileSet()
	f, err := parser.ParseFile(fset, "x.go", src, 0)
	if err != nil {
		return src
	}
	var sb strings.Builder
	sb.WriteString("package " + f.Name.Name + "\n")
	for _, d := range f.Decls {
		if g, ok := d.(*ast.GenDecl); ok && g.Tok == token.IMPORT {
			continue
		}
		_ = printer.Fprint(&sb, fset, d)
		sb.WriteString("\n")
	}
	return sb.String()
}

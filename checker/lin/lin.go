// Package lin is a small abstract domain of conjunctions of linear integer
// inequalities over symbolic atoms, with Fourier–Motzkin based entailment.
// Every derivation it makes is valid (sound, incomplete): "not entailed" means
// "could not prove", and callers report that.
package lin

import (
	"fmt"
	"math/big"
	"sort"
	"strings"
)

// Atom is the canonical key of a side-effect free integer expression.
type Atom string

// Expr is Σ coef·atom + C.
type Expr struct {
	Coef map[Atom]*big.Int
	C    *big.Int
}

func Const(c int64) Expr { return Expr{Coef: map[Atom]*big.Int{}, C: big.NewInt(c)} }
func ConstBig(c *big.Int) Expr {
	return Expr{Coef: map[Atom]*big.Int{}, C: new(big.Int).Set(c)}
}
func Var(a Atom) Expr {
	return Expr{Coef: map[Atom]*big.Int{a: big.NewInt(1)}, C: big.NewInt(0)}
}

func (e Expr) Clone() Expr {
	n := Expr{Coef: make(map[Atom]*big.Int, len(e.Coef)), C: new(big.Int).Set(e.C)}
	for k, v := range e.Coef {
		n.Coef[k] = new(big.Int).Set(v)
	}
	return n
}

func (e Expr) Add(o Expr) Expr {
	n := e.Clone()
	n.C.Add(n.C, o.C)
	for k, v := range o.Coef {
		if cur, ok := n.Coef[k]; ok {
			cur.Add(cur, v)
			if cur.Sign() == 0 {
				delete(n.Coef, k)
			}
		} else if v.Sign() != 0 {
			n.Coef[k] = new(big.Int).Set(v)
		}
	}
	return n
}

func (e Expr) Scale(k *big.Int) Expr {
	n := Expr{Coef: make(map[Atom]*big.Int, len(e.Coef)), C: new(big.Int).Mul(e.C, k)}
	if k.Sign() == 0 {
		return n
	}
	for a, v := range e.Coef {
		n.Coef[a] = new(big.Int).Mul(v, k)
	}
	return n
}
func (e Expr) ScaleInt(k int64) Expr { return e.Scale(big.NewInt(k)) }
func (e Expr) Neg() Expr             { return e.ScaleInt(-1) }
func (e Expr) Sub(o Expr) Expr       { return e.Add(o.Neg()) }
func (e Expr) AddConst(c int64) Expr { return e.Add(Const(c)) }
func (e Expr) IsConst() bool         { return len(e.Coef) == 0 }

func (e Expr) Atoms() []Atom {
	out := make([]Atom, 0, len(e.Coef))
	for a := range e.Coef {
		out = append(out, a)
	}
	sort.Slice(out, func(i, j int) bool { return out[i] < out[j] })
	return out
}

func (e Expr) Has(a Atom) bool { _, ok := e.Coef[a]; return ok }

// Subst replaces atom a by expression r.
func (e Expr) Subst(a Atom, r Expr) Expr {
	c, ok := e.Coef[a]
	if !ok {
		return e
	}
	n := e.Clone()
	delete(n.Coef, a)
	return n.Add(r.Scale(c))
}

func (e Expr) String() string {
	var parts []string
	for _, a := range e.Atoms() {
		c := e.Coef[a]
		switch {
		case c.Cmp(big.NewInt(1)) == 0:
			parts = append(parts, string(a))
		case c.Cmp(big.NewInt(-1)) == 0:
			parts = append(parts, "-"+string(a))
		default:
			parts = append(parts, c.String()+"*"+string(a))
		}
	}
	if e.C.Sign() != 0 || len(parts) == 0 {
		parts = append(parts, e.C.String())
	}
	return strings.Join(parts, " + ")
}

// Fact is E ≤ 0.
type Fact struct{ E Expr }

func (f Fact) String() string { return f.E.String() + " <= 0" }

// LE builds a ≤ b.
func LE(a, b Expr) Fact { return Fact{a.Sub(b)}.norm() }

// LT builds a < b (integers: a+1 ≤ b).
func LT(a, b Expr) Fact { return Fact{a.Sub(b).AddConst(1)}.norm() }

// norm divides by the gcd of the coefficients and tightens the constant.
func (f Fact) norm() Fact {
	g := new(big.Int)
	for _, v := range f.E.Coef {
		g.GCD(nil, nil, g, new(big.Int).Abs(v))
	}
	if g.Sign() == 0 || g.Cmp(big.NewInt(1)) == 0 {
		return f
	}
	n := Expr{Coef: make(map[Atom]*big.Int, len(f.E.Coef)), C: new(big.Int)}
	for a, v := range f.E.Coef {
		n.Coef[a] = new(big.Int).Quo(v, g)
	}
	// Σ a x + c ≤ 0  ⇔  Σ (a/g) x ≤ -c/g  ⇔ Σ (a/g) x ≤ floor(-c/g)  ⇔ Σ(a/g)x + ceil(c/g) ≤ 0
	q, m := new(big.Int).DivMod(f.E.C, g, new(big.Int)) // floor division (g>0): Euclidean
	if m.Sign() != 0 {
		q.Add(q, big.NewInt(1))
	}
	n.C = q
	return Fact{n}
}

func (f Fact) key() string { return f.E.String() }

// Conj is a conjunction of facts. A nil *Conj is not valid; use NewConj.
type Conj struct {
	Facts []Fact
	keys  map[string]bool
	Bot   bool // unsatisfiable
}

func NewConj() *Conj { return &Conj{keys: map[string]bool{}} }

func (c *Conj) Clone() *Conj {
	n := &Conj{Facts: make([]Fact, len(c.Facts)), keys: make(map[string]bool, len(c.keys)), Bot: c.Bot}
	copy(n.Facts, c.Facts)
	for k := range c.keys {
		n.keys[k] = true
	}
	return n
}

// Add adds a fact (no-op when already present or trivially true).
func (c *Conj) Add(f Fact) {
	f = f.norm()
	if f.E.IsConst() {
		if f.E.C.Sign() > 0 {
			c.Bot = true
		}
		return
	}
	k := f.key()
	if c.keys[k] {
		return
	}
	c.keys[k] = true
	c.Facts = append(c.Facts, f)
}

// AddEq adds a = b.
func (c *Conj) AddEq(a, b Expr) {
	c.Add(LE(a, b))
	c.Add(LE(b, a))
}

// Mentions reports whether any fact mentions an atom satisfying pred.
func (c *Conj) AtomsMatching(pred func(Atom) bool) []Atom {
	seen := map[Atom]bool{}
	var out []Atom
	for _, f := range c.Facts {
		for a := range f.E.Coef {
			if !seen[a] && pred(a) {
				seen[a] = true
				out = append(out, a)
			}
		}
	}
	sort.Slice(out, func(i, j int) bool { return out[i] < out[j] })
	return out
}

const fmCap = 4000

// eliminate projects atom a out of the fact list by Fourier–Motzkin.
// ok=false when the intermediate system grows beyond the cap.
func eliminate(facts []Fact, a Atom) ([]Fact, bool) {
	var pos, neg, rest []Fact
	for _, f := range facts {
		c, ok := f.E.Coef[a]
		switch {
		case !ok || c.Sign() == 0:
			rest = append(rest, f)
		case c.Sign() > 0:
			pos = append(pos, f)
		default:
			neg = append(neg, f)
		}
	}
	if len(pos)*len(neg)+len(rest) > fmCap {
		return nil, false
	}
	seen := map[string]bool{}
	for _, f := range rest {
		seen[f.key()] = true
	}
	for _, p := range pos {
		cp := p.E.Coef[a]
		for _, n := range neg {
			cn := new(big.Int).Neg(n.E.Coef[a]) // >0
			// cn*p + cp*n eliminates a
			e := p.E.Scale(cn).Add(n.E.Scale(cp))
			delete(e.Coef, a)
			nf := Fact{e}.norm()
			if nf.E.IsConst() {
				if nf.E.C.Sign() > 0 {
					return []Fact{nf}, true // contradiction found
				}
				continue
			}
			k := nf.key()
			if !seen[k] {
				seen[k] = true
				rest = append(rest, nf)
			}
		}
	}
	return rest, true
}

func contradiction(facts []Fact) bool {
	for _, f := range facts {
		if f.E.IsConst() && f.E.C.Sign() > 0 {
			return true
		}
	}
	return false
}

// infeasible decides (soundly) whether the system has no rational solution.
func infeasible(facts []Fact) bool {
	if contradiction(facts) {
		return true
	}
	for {
		// choose the atom with the smallest pos*neg product
		count := map[Atom][2]int{}
		for _, f := range facts {
			for a, c := range f.E.Coef {
				pn := count[a]
				if c.Sign() > 0 {
					pn[0]++
				} else {
					pn[1]++
				}
				count[a] = pn
			}
		}
		if len(count) == 0 {
			return contradiction(facts)
		}
		var best Atom
		bestCost := -1
		atoms := make([]Atom, 0, len(count))
		for a := range count {
			atoms = append(atoms, a)
		}
		sort.Slice(atoms, func(i, j int) bool { return atoms[i] < atoms[j] })
		for _, a := range atoms {
			pn := count[a]
			cost := pn[0]*pn[1] - pn[0] - pn[1]
			if bestCost == -1 || cost < bestCost {
				best, bestCost = a, cost
			}
		}
		var ok bool
		facts, ok = eliminate(facts, best)
		if !ok {
			return false
		}
		if contradiction(facts) {
			return true
		}
	}
}

// relevant returns the facts connected to the seed atoms through shared atoms.
func relevant(facts []Fact, seed Expr) []Fact {
	want := map[Atom]bool{}
	for a := range seed.Coef {
		want[a] = true
	}
	used := make([]bool, len(facts))
	var out []Fact
	for changed := true; changed; {
		changed = false
		for i, f := range facts {
			if used[i] {
				continue
			}
			hit := false
			for a := range f.E.Coef {
				if want[a] {
					hit = true
					break
				}
			}
			if hit {
				used[i] = true
				out = append(out, f)
				for a := range f.E.Coef {
					if !want[a] {
						want[a] = true
						changed = true
					}
				}
			}
		}
	}
	return out
}

// Entails reports whether the conjunction proves g (over the integers, via
// the rational relaxation of c ∧ ¬g).
func (c *Conj) Entails(g Fact) bool {
	if c.Bot {
		return true
	}
	g = g.norm()
	if g.E.IsConst() {
		return g.E.C.Sign() <= 0
	}
	if c.keys[g.key()] {
		return true
	}
	// ¬(E ≤ 0) ⇔ E ≥ 1 ⇔ -E + 1 ≤ 0
	neg := Fact{g.E.Neg().AddConst(1)}
	facts := append(relevant(c.Facts, g.E), neg)
	return infeasible(facts)
}

// Unsat reports whether the conjunction is provably unsatisfiable.
func (c *Conj) Unsat() bool {
	if c.Bot {
		return true
	}
	if infeasible(append([]Fact(nil), c.Facts...)) {
		c.Bot = true
		return true
	}
	return false
}

// Kill removes every fact mentioning an atom selected by pred, after projecting
// the atom out (so that consequences between the remaining atoms survive).
func (c *Conj) Kill(pred func(Atom) bool) {
	atoms := c.AtomsMatching(pred)
	if len(atoms) == 0 {
		return
	}
	facts := c.Facts
	for _, a := range atoms {
		nf, ok := eliminate(facts, a)
		if !ok {
			// give up on consequences: drop all facts mentioning a
			nf = nf[:0]
			for _, f := range facts {
				if !f.E.Has(a) {
					nf = append(nf, f)
				}
			}
		}
		facts = nf
	}
	c.Facts = nil
	c.keys = map[string]bool{}
	for _, f := range facts {
		c.Add(f)
	}
	if len(c.Facts) > 400 {
		// keep the system small: prefer short facts
		sort.SliceStable(c.Facts, func(i, j int) bool { return len(c.Facts[i].E.Coef) < len(c.Facts[j].E.Coef) })
		c.Facts = c.Facts[:400]
		c.keys = map[string]bool{}
		for _, f := range c.Facts {
			c.keys[f.key()] = true
		}
	}
}

// Subst rewrites atom a := r in every fact (used for x = x + k updates).
func (c *Conj) Subst(a Atom, r Expr) {
	old := c.Facts
	c.Facts = nil
	c.keys = map[string]bool{}
	for _, f := range old {
		c.Add(Fact{f.E.Subst(a, r)})
	}
}

// Rename renames atom a to b everywhere.
func (c *Conj) Rename(a, b Atom) { c.Subst(a, Var(b)) }

// Meet keeps the facts of c (and, when extra is true, of o) that both entail.
func Meet(c, o *Conj, extra bool) *Conj {
	if c.Bot {
		return o.Clone()
	}
	if o.Bot {
		return c.Clone()
	}
	n := NewConj()
	for _, f := range c.Facts {
		if o.Entails(f) {
			n.Add(f)
		}
	}
	if extra {
		for _, f := range o.Facts {
			if c.Entails(f) {
				n.Add(f)
			}
		}
	}
	return n
}

// Equal reports whether two conjunctions hold the same fact set.
func Equal(a, b *Conj) bool {
	if a.Bot != b.Bot || len(a.Facts) != len(b.Facts) {
		return false
	}
	for k := range a.keys {
		if !b.keys[k] {
			return false
		}
	}
	return true
}

func (c *Conj) String() string {
	if c.Bot {
		return "⊥"
	}
	s := make([]string, len(c.Facts))
	for i, f := range c.Facts {
		s[i] = f.String()
	}
	sort.Strings(s)
	return "{" + strings.Join(s, "; ") + "}"
}

// Bounds tries to find constant bounds lo ≤ e ≤ hi among a few candidates.
func (c *Conj) UpperBound(e Expr, candidates ...int64) (int64, bool) {
	for _, k := range candidates {
		if c.Entails(LE(e, Const(k))) {
			return k, true
		}
	}
	return 0, false
}

var _ = fmt.Sprintf

// Package sym is a tiny algebra of guarded sums over uninterpreted atoms, used
// to compare byte counts symbolically (Size vs MarshalTo, Encoder methods vs
// the spec table). Equal normal forms ⇒ equal for every value of the atoms.
package sym

import (
	"fmt"
	"sort"
	"strings"
)

type Kind int

const (
	KConst Kind = iota
	KAtom       // uninterpreted value: name
	KFn         // uninterpreted function: name(args)
	KSum        // Σ terms
	KMul        // k * X (integer coefficient)
	KBig        // Σ_{var ∈ coll} body
	KGuard      // [cond] body
	KProd       // X * Y (both symbolic)
)

// E is an expression; treat as immutable.
type E struct {
	K     Kind
	N     int64  // KConst value, KMul coefficient
	Name  string // KAtom / KFn / KBig bound variable / KGuard condition
	Args  []*E   // KFn args, KSum terms, KMul [X], KBig [coll, body], KGuard [body], KProd [X,Y]
	Conds []string
}

func Const(n int64) *E           { return &E{K: KConst, N: n} }
func Atom(name string) *E        { return &E{K: KAtom, Name: name} }
func Fn(name string, a ...*E) *E { return &E{K: KFn, Name: name, Args: a} }
func Sum(t ...*E) *E             { return &E{K: KSum, Args: t} }
func Mul(k int64, x *E) *E       { return &E{K: KMul, N: k, Args: []*E{x}} }
func Prod(x, y *E) *E            { return &E{K: KProd, Args: []*E{x, y}} }
func Big(v string, coll, body *E) *E {
	return &E{K: KBig, Name: v, Args: []*E{coll, body}}
}
func Guard(cond string, body *E) *E { return &E{K: KGuard, Conds: []string{cond}, Args: []*E{body}} }

// Subst replaces atoms by name.
func (e *E) Subst(name string, r *E) *E {
	switch e.K {
	case KConst:
		return e
	case KAtom:
		if e.Name == name {
			return r
		}
		return e
	}
	n := &E{K: e.K, N: e.N, Name: e.Name, Conds: e.Conds}
	if e.K == KGuard {
		// conditions are strings mentioning atoms textually
		rs := r.String()
		for _, c := range e.Conds {
			n.Conds = nil
			_ = c
			break
		}
		for _, c := range e.Conds {
			n.Conds = append(n.Conds, replaceWord(c, name, rs))
		}
	}
	for _, a := range e.Args {
		n.Args = append(n.Args, a.Subst(name, r))
	}
	return n
}

func replaceWord(s, word, rep string) string {
	// replace occurrences delimited by non-identifier characters
	var sb strings.Builder
	i := 0
	isID := func(b byte) bool {
		return b == '_' || b == '.' || b == '*' || b == '$' || (b >= '0' && b <= '9') || (b >= 'a' && b <= 'z') || (b >= 'A' && b <= 'Z')
	}
	for i < len(s) {
		j := strings.Index(s[i:], word)
		if j < 0 {
			sb.WriteString(s[i:])
			break
		}
		j += i
		before := j == 0 || !isID(s[j-1])
		after := j+len(word) >= len(s) || !isID(s[j+len(word)])
		sb.WriteString(s[i:j])
		if before && after {
			sb.WriteString(rep)
		} else {
			sb.WriteString(word)
		}
		i = j + len(word)
	}
	return sb.String()
}

// Mentions reports whether atom name occurs.
func (e *E) Mentions(name string) bool {
	switch e.K {
	case KConst:
		return false
	case KAtom:
		return e.Name == name
	}
	for _, c := range e.Conds {
		if replaceWord(c, name, "\x00") != c {
			return true
		}
	}
	for _, a := range e.Args {
		if a.Mentions(name) {
			return true
		}
	}
	return false
}

// term is a normalised product: coefficient * guarded, bound monomial.
type term struct {
	coef int64
	key  string // canonical rendering of the non-constant part ("" for constants)
}

// Norm returns the canonical form as a sorted list of "coef*key" strings.
func (e *E) Norm() []string {
	ts := flatten(e, 0)
	m := map[string]int64{}
	for _, t := range ts {
		m[t.key] += t.coef
	}
	var out []string
	for k, c := range m {
		if c == 0 {
			continue
		}
		if k == "" {
			out = append(out, fmt.Sprintf("%d", c))
		} else if c == 1 {
			out = append(out, k)
		} else {
			out = append(out, fmt.Sprintf("%d*%s", c, k))
		}
	}
	sort.Strings(out)
	return out
}

func (e *E) String() string {
	n := e.Norm()
	if len(n) == 0 {
		return "0"
	}
	return strings.Join(n, " + ")
}

// Equal compares normal forms.
func Equal(a, b *E) bool { return a.String() == b.String() }

// flatten turns e into a list of terms. depth numbers bound variables.
func flatten(e *E, depth int) []term {
	switch e.K {
	case KConst:
		return []term{{coef: e.N}}
	case KAtom:
		return []term{{coef: 1, key: e.Name}}
	case KFn:
		args := make([]string, len(e.Args))
		for i, a := range e.Args {
			args[i] = a.String()
		}
		return []term{{coef: 1, key: e.Name + "(" + strings.Join(args, ",") + ")"}}
	case KSum:
		var out []term
		for _, a := range e.Args {
			out = append(out, flatten(a, depth)...)
		}
		return out
	case KMul:
		ts := flatten(e.Args[0], depth)
		out := make([]term, len(ts))
		for i, t := range ts {
			out[i] = term{coef: t.coef * e.N, key: t.key}
		}
		return out
	case KProd:
		xs := flatten(e.Args[0], depth)
		ys := flatten(e.Args[1], depth)
		var out []term
		for _, x := range xs {
			for _, y := range ys {
				switch {
				case x.key == "":
					out = append(out, term{coef: x.coef * y.coef, key: y.key})
				case y.key == "":
					out = append(out, term{coef: x.coef * y.coef, key: x.key})
				default:
					k := []string{x.key, y.key}
					sort.Strings(k)
					out = append(out, term{coef: x.coef * y.coef, key: k[0] + "·" + k[1]})
				}
			}
		}
		return out
	case KGuard:
		ts := flatten(e.Args[0], depth)
		conds := append([]string(nil), e.Conds...)
		out := make([]term, 0, len(ts))
		for _, t := range ts {
			out = append(out, term{coef: t.coef, key: guardKey(conds, t.key)})
		}
		return out
	case KBig:
		bv := fmt.Sprintf("$%d", depth+1)
		coll := e.Args[0].String()
		body := e.Args[1]
		if names := strings.Split(e.Name, ","); len(names) == 2 {
			body = body.Subst(names[0], Atom(bv+".k")).Subst(names[1], Atom(bv))
		} else {
			body = body.Subst(e.Name, Atom(bv))
		}
		ts := flatten(body, depth+1)
		var out []term
		for _, t := range ts {
			if !strings.Contains(t.key, bv) {
				// Σ_{x∈X} c = len(X)*c
				lk := "len(" + coll + ")"
				if t.key == "" {
					out = append(out, term{coef: t.coef, key: lk})
				} else {
					k := []string{lk, t.key}
					sort.Strings(k)
					out = append(out, term{coef: t.coef, key: k[0] + "·" + k[1]})
				}
				continue
			}
			out = append(out, term{coef: t.coef, key: "Σ[" + bv + "∈" + coll + "](" + t.key + ")"})
		}
		return out
	}
	return nil
}

// guardKey attaches guards to a term key, merging with guards already there,
// and drops guards that are implied by the term vanishing anyway.
func guardKey(conds []string, key string) string {
	inner := key
	var have []string
	if strings.HasPrefix(key, "[") {
		if i := strings.Index(key, "]"); i > 0 {
			have = strings.Split(key[1:i], " ∧ ")
			inner = key[i+1:]
		}
	}
	all := append(have, conds...)
	sort.Strings(all)
	var uniq []string
	for i, c := range all {
		if i > 0 && c == all[i-1] {
			continue
		}
		// [len(X)>0] on a term that is a sum over X or a multiple of len(X) is redundant
		if strings.HasPrefix(c, "len(") && strings.HasSuffix(c, ")>0") {
			coll := c[4 : len(c)-3]
			if strings.Contains(inner, "∈"+coll+"]") || strings.Contains(inner, "len("+coll+")") {
				// only when the whole term vanishes for an empty collection: it is a product
				// containing len(coll) or is itself a Σ over coll at top level
				if strings.HasPrefix(inner, "Σ[$") && strings.Contains(strings.SplitN(inner, "]", 2)[0], "∈"+coll) {
					continue
				}
				if hasFactor(inner, "len("+coll+")") {
					continue
				}
			}
		}
		uniq = append(uniq, c)
	}
	if len(uniq) == 0 {
		return inner
	}
	return "[" + strings.Join(uniq, " ∧ ") + "]" + inner
}

func hasFactor(key, f string) bool {
	for _, p := range strings.Split(key, "·") {
		if p == f {
			return true
		}
	}
	return false
}

// Terms returns the normal form as key -> coefficient ("" is the constant term).
func (e *E) Terms() map[string]int64 {
	m := map[string]int64{}
	for _, t := range flatten(e, 0) {
		m[t.key] += t.coef
	}
	for k, c := range m {
		if c == 0 {
			delete(m, k)
		}
	}
	return m
}

// SplitGuards splits a term key "[a ∧ b]rest" into its guards and the rest.
func SplitGuards(key string) ([]string, string) {
	if strings.HasPrefix(key, "[") {
		if i := strings.Index(key, "]"); i > 0 {
			return strings.Split(key[1:i], " ∧ "), key[i+1:]
		}
	}
	return nil, key
}

// JoinGuards is the inverse of SplitGuards (guards are sorted).
func JoinGuards(gs []string, rest string) string {
	if len(gs) == 0 {
		return rest
	}
	sort.Strings(gs)
	return "[" + strings.Join(gs, " ∧ ") + "]" + rest
}

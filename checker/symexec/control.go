package symexec

import (
	"go/ast"
	"go/token"
	"go/types"

	"csverify/sym"
)

// SkipExitGuard lets a client declare early exits whose condition must not
// guard the remainder (m == nil, cached size).
type exitPolicy interface{}

func (it *Interp) ifStmt(x *ast.IfStmt) (flow, string) {
	if x.Init != nil {
		if f, _ := it.stmt(x.Init); f != flowNext {
			return f, ""
		}
	}
	pos, neg := it.Cond(x.Cond)
	ignore := it.Hooks.IgnoreCond != nil && it.Hooks.IgnoreCond(it, x.Cond)
	// error exit: if c { return <error> }
	if n := len(x.Body.List); n > 0 && it.errorReturn(x.Body.List[n-1]) && x.Else == nil {
		if n > 1 {
			it.push(pos)
			it.block(x.Body.List[:n-1])
			it.pop()
		}
		if !ignore {
			it.Assumes = append(it.Assumes, neg)
		}
		return flowNext, ""
	}
	if ignore {
		// condition does not guard data: both branches are possible for any data
		fb := it.block(x.Body.List)
		if x.Else != nil {
			it.stmt(x.Else)
		}
		_ = fb
		return flowNext, ""
	}
	it.push(pos)
	fb := it.block(x.Body.List)
	it.pop()
	fe := flowNext
	if x.Else != nil {
		it.push(neg)
		fe, _ = it.stmt(x.Else)
		it.pop()
	}
	switch {
	case fb != flowNext && fe != flowNext && x.Else != nil:
		return fb, ""
	case fb != flowNext:
		if it.SkipGuard != nil && it.SkipGuard(x.Cond) {
			return flowNext, ""
		}
		return flowNext, neg
	case fe != flowNext:
		return flowNext, pos
	}
	return flowNext, ""
}

func (it *Interp) rangeStmt(x *ast.RangeStmt) {
	collPath, ok := it.Path(x.X)
	if !ok {
		it.problem(x, "range over %s is not modelled", it.Text(x.X))
		return
	}
	it.noteRead(collPath)
	coll := sym.Atom(collPath)
	names := []string{"", ""}
	var kObj, vObj types.Object
	if id, ok := x.Key.(*ast.Ident); ok && id.Name != "_" {
		kObj = it.obj(id)
		names[0] = id.Name
	}
	if id, ok := x.Value.(*ast.Ident); ok && id.Name != "_" {
		vObj = it.obj(id)
		names[1] = id.Name
	}
	// identity-copy idiom: for i, v := range C { T[i] = conv(v) } with T = make([]X, len(C))
	if len(x.Body.List) == 1 && kObj != nil && vObj != nil {
		if as, ok := x.Body.List[0].(*ast.AssignStmt); ok && len(as.Lhs) == 1 && as.Tok == token.ASSIGN {
			if ix, ok := as.Lhs[0].(*ast.IndexExpr); ok {
				if tid, ok := ix.X.(*ast.Ident); ok {
					if iid, ok := ix.Index.(*ast.Ident); ok && it.obj(iid) == kObj {
						to := it.obj(tid)
						b := it.env[to]
						wantLen := sym.Fn("make", sym.Fn("len", coll))
						if b != nil && b.val != nil && sym.Equal(b.val, wantLen) {
							it.env[vObj] = &binding{val: sym.Atom(names[1])}
							rhs := it.Eval(as.Rhs[0])
							if rhs.K == sym.KAtom && rhs.Name == names[1] {
								it.alias[to] = coll
								return
							}
							it.problem(x, "element-wise copy %s transforms the elements (%s); not modelled", it.Text(as), rhs)
							return
						}
					}
				}
			}
		}
	}
	bv := names[1]
	if bv == "" {
		bv = "_elem"
	}
	kv := names[0]
	binder := bv
	if kv != "" {
		binder = kv + "," + bv
	}
	if kObj != nil {
		it.env[kObj] = &binding{val: sym.Atom(kv)}
	}
	if vObj != nil {
		it.env[vObj] = &binding{val: sym.Atom(bv)}
	}
	f := &loopFrame{lo: x.Pos(), hi: x.End(), ctxBase: len(it.ctx), deltas: map[types.Object]*sym.E{}, assigned: map[types.Object]bool{}}
	it.ctx = append(it.ctx, ctxEntry{bigV: binder, coll: coll})
	it.loops = append(it.loops, f)
	it.block(x.Body.List)
	it.loops = it.loops[:len(it.loops)-1]
	it.ctx = it.ctx[:len(it.ctx)-1]
	for _, o := range f.order {
		d := sym.Big(binder, coll, f.deltas[o])
		b := it.env[o]
		if b == nil || b.val == nil {
			it.env[o] = &binding{val: d}
			continue
		}
		if b.poison {
			it.problem(x, "loop accumulates into temporary %q whose value was left over from another field", o.Name())
		}
		it.env[o] = &binding{val: sym.Sum(b.val, d)}
		// the accumulated temp of an enclosing loop stays a delta there
	}
	for o := range f.assigned {
		if _, isDelta := f.deltas[o]; isDelta {
			continue
		}
		if b := it.env[o]; b != nil {
			b.poison = true
		}
	}
}

func (it *Interp) typeSwitch(x *ast.TypeSwitchStmt) {
	var bound types.Object
	var subject ast.Expr
	switch a := x.Assign.(type) {
	case *ast.AssignStmt:
		if ta, ok := a.Rhs[0].(*ast.TypeAssertExpr); ok {
			subject = ta.X
		}
	case *ast.ExprStmt:
		if ta, ok := a.X.(*ast.TypeAssertExpr); ok {
			subject = ta.X
		}
	}
	if subject == nil {
		it.problem(x, "type switch is not modelled")
		return
	}
	sp, ok := it.Path(subject)
	if !ok {
		it.problem(x, "type switch subject %s is not modelled", it.Text(subject))
		return
	}
	it.noteRead(sp)
	for _, cl := range x.Body.List {
		cc := cl.(*ast.CaseClause)
		if cc.List == nil {
			// default: only bookkeeping is accepted
			it.push(sp + " is other")
			it.block(cc.Body)
			it.pop()
			continue
		}
		if len(cc.List) != 1 {
			it.problem(cc, "multi-type case is not modelled")
			continue
		}
		tn := types.ExprString(cc.List[0])
		bound = it.Info.Implicits[cc]
		if bound != nil {
			it.env[bound] = &binding{val: sym.Atom(sp + ".(" + tn + ")")}
		}
		it.push(sp + " is " + tn)
		it.block(cc.Body)
		it.pop()
	}
}

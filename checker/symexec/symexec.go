// Package symexec is an abstract interpreter over go/ast for the statement
// forms used by the hand-written encoder and by generated Size/MarshalTo code.
// It accumulates a symbolic byte count (package sym). Nothing is executed:
// values are uninterpreted atoms. Unsupported constructs are reported
// (fail closed).
package symexec

import (
	"fmt"
	"go/ast"
	"go/constant"
	"go/printer"
	"go/token"
	"go/types"
	"strings"

	"csverify/sym"
)

// Hooks specialise the interpreter.
type Hooks struct {
	// IsAccum: is this assignment target the accumulator (sz, e.offset)?
	IsAccum func(it *Interp, lhs ast.Expr) bool
	// CallStmt: bytes contributed by a call in statement position (enc.EncodeX(...)); ok=false = not a counted call.
	CallStmt func(it *Interp, call *ast.CallExpr) (*sym.E, bool)
	// CallValue: symbolic value of a call in expression position; ok=false = unknown.
	CallValue func(it *Interp, call *ast.CallExpr) (*sym.E, bool)
	// Stmt: domain specific statement; handled=false = fall back to the generic rules.
	Stmt func(it *Interp, s ast.Stmt) bool
	// IgnoreCond: conditions that do not guard data (err != nil …).
	IgnoreCond func(it *Interp, cond ast.Expr) bool
}

// Exit is an early return that is not an error exit.
type Exit struct {
	Conds  []string
	Values []ast.Expr
	Pos    token.Pos
}

type Problem struct {
	Pos  token.Pos
	What string
}

type binding struct {
	val    *sym.E
	poison bool // value left over from another field / loop iteration
}

type Interp struct {
	Info  *types.Info
	Fset  *token.FileSet
	Hooks Hooks

	env      map[types.Object]*binding
	alias    map[types.Object]*sym.E // slice temp that is an element-wise identity copy of a collection
	ctx      []ctxEntry
	loops    []*loopFrame
	Total    *sym.E
	Exits    []Exit
	Assumes  []string // negated conditions of error exits (hold on every non-error path)
	Problems []Problem
	Reads    map[string]bool // struct field paths read (m.X)
	// SkipGuard: early exits whose condition must not guard the remainder (m == nil, cached size)
	SkipGuard func(cond ast.Expr) bool
}

type ctxEntry struct {
	guard string // non-empty: a condition
	bigV  string // else: Σ binder
	coll  *sym.E
}

type loopFrame struct {
	lo, hi   token.Pos
	ctxBase  int
	deltas   map[types.Object]*sym.E
	order    []types.Object
	assigned map[types.Object]bool
}

func New(info *types.Info, fset *token.FileSet, h Hooks) *Interp {
	return &Interp{Info: info, Fset: fset, Hooks: h, env: map[types.Object]*binding{}, alias: map[types.Object]*sym.E{},
		Total: sym.Const(0), Reads: map[string]bool{}}
}

func (it *Interp) problem(n ast.Node, format string, a ...interface{}) {
	it.Problems = append(it.Problems, Problem{Pos: n.Pos(), What: fmt.Sprintf(format, a...)})
}

func (it *Interp) Text(n ast.Node) string {
	var sb strings.Builder
	_ = printer.Fprint(&sb, it.Fset, n)
	return strings.Join(strings.Fields(sb.String()), " ")
}

func (it *Interp) obj(id *ast.Ident) types.Object {
	if o := it.Info.Defs[id]; o != nil {
		return o
	}
	return it.Info.Uses[id]
}

// Bind sets a temp's value.
func (it *Interp) Bind(o types.Object, v *sym.E) { it.env[o] = &binding{val: v} }

// PoisonAll marks every temp as stale (called between field units).
func (it *Interp) PoisonAll() {
	for _, b := range it.env {
		b.poison = true
	}
}

// wrap applies the context entries from index base outwards.
func (it *Interp) wrap(e *sym.E, base int) *sym.E {
	for i := len(it.ctx) - 1; i >= base; i-- {
		c := it.ctx[i]
		if c.guard != "" {
			e = sym.Guard(c.guard, e)
		} else {
			e = sym.Big(c.bigV, c.coll, e)
		}
	}
	return e
}

// Add accumulates bytes under the current guards / loops.
func (it *Interp) Add(e *sym.E) { it.Total = sym.Sum(it.Total, it.wrap(e, 0)) }

func (it *Interp) guardList() []string {
	var out []string
	for _, c := range it.ctx {
		if c.guard != "" {
			out = append(out, c.guard)
		}
	}
	return out
}

func (it *Interp) push(g string) { it.ctx = append(it.ctx, ctxEntry{guard: g}) }
func (it *Interp) pop()          { it.ctx = it.ctx[:len(it.ctx)-1] }

// ---------------------------------------------------------------------------
// expressions

// Path renders ident/selector/star/index chains canonically: m.X, *m.X, typedVal.F.
func (it *Interp) Path(e ast.Expr) (string, bool) {
	switch x := e.(type) {
	case *ast.ParenExpr:
		return it.Path(x.X)
	case *ast.Ident:
		if o := it.obj(x); o != nil {
			if a, ok := it.alias[o]; ok {
				return a.String(), true
			}
			if b, ok := it.env[o]; ok && b.val != nil && b.val.K == sym.KAtom {
				return b.val.Name, true
			}
		}
		return x.Name, true
	case *ast.SelectorExpr:
		b, ok := it.Path(x.X)
		if !ok {
			return "", false
		}
		p := b + "." + x.Sel.Name
		return p, true
	case *ast.StarExpr:
		b, ok := it.Path(x.X)
		if !ok {
			return "", false
		}
		return "*" + b, true
	case *ast.TypeAssertExpr:
		b, ok := it.Path(x.X)
		if !ok || x.Type == nil {
			return "", false
		}
		return b + ".(" + types.ExprString(x.Type) + ")", true
	}
	return "", false
}

func basicKind(t types.Type) string {
	if t == nil {
		return "?"
	}
	if b, ok := t.Underlying().(*types.Basic); ok {
		return b.Name()
	}
	return t.Underlying().String()
}

// Eval gives the symbolic value of an integer-ish expression.
func (it *Interp) Eval(e ast.Expr) *sym.E {
	if tv, ok := it.Info.Types[e]; ok && tv.Value != nil {
		if v := constant.ToInt(tv.Value); v.Kind() == constant.Int {
			if i, ok := constant.Int64Val(v); ok {
				return sym.Const(i)
			}
		}
	}
	switch x := e.(type) {
	case *ast.ParenExpr:
		return it.Eval(x.X)
	case *ast.Ident:
		if o := it.obj(x); o != nil {
			if b, ok := it.env[o]; ok {
				if b.poison {
					it.problem(x, "reads temporary %q whose value was left over from another field or loop iteration", x.Name)
				}
				if b.val != nil {
					return b.val
				}
			}
		}
		return sym.Atom(x.Name)
	case *ast.SelectorExpr, *ast.StarExpr, *ast.TypeAssertExpr:
		if p, ok := it.Path(e); ok {
			it.noteRead(p)
			return sym.Atom(p)
		}
	case *ast.BinaryExpr:
		l, r := it.Eval(x.X), it.Eval(x.Y)
		switch x.Op {
		case token.ADD:
			return sym.Sum(l, r)
		case token.SUB:
			return sym.Sum(l, sym.Mul(-1, r))
		case token.MUL:
			if l.K == sym.KConst {
				return sym.Mul(l.N, r)
			}
			if r.K == sym.KConst {
				return sym.Mul(r.N, l)
			}
			return sym.Prod(l, r)
		}
		return sym.Fn("op"+x.Op.String(), l, r)
	case *ast.CallExpr:
		// builtins
		if id, ok := x.Fun.(*ast.Ident); ok {
			if b, ok := it.Info.Uses[id].(*types.Builtin); ok {
				switch b.Name() {
				case "len":
					if p, ok := it.Path(x.Args[0]); ok {
						it.noteRead(p)
						return sym.Fn("len", sym.Atom(p))
					}
					return sym.Fn("len", it.Eval(x.Args[0]))
				}
			}
		}
		// conversions
		if tv, ok := it.Info.Types[x.Fun]; ok && tv.IsType() && len(x.Args) == 1 {
			return it.conv(tv.Type, x.Args[0])
		}
		if it.Hooks.CallValue != nil {
			if v, ok := it.Hooks.CallValue(it, x); ok {
				return v
			}
		}
		it.problem(x, "call %s is not modelled", it.Text(x.Fun))
		return sym.Fn("unknown", sym.Atom(it.Text(x)))
	}
	it.problem(e, "expression %s is not modelled", it.Text(e))
	return sym.Atom("?" + it.Text(e))
}

// AliasAtom makes every path through o read as if the variable were called name (the analyses of generated
// methods call the receiver "m" whatever the template names it).
func (it *Interp) AliasAtom(o types.Object, name string) {
	if o != nil {
		it.alias[o] = sym.Atom(name)
	}
}

// NoteRead records that a struct field path was read.
func (it *Interp) NoteRead(p string) { it.noteRead(p) }

func (it *Interp) noteRead(p string) {
	p = strings.TrimLeft(p, "*")
	if strings.HasPrefix(p, "m.") {
		f := strings.SplitN(p[2:], ".", 2)[0]
		it.Reads[f] = true
	}
}

// conv normalises integer conversions: widening to 64 bits keeps the source
// kind as ext[kind]; same-size reinterpretations and identity conversions vanish.
func (it *Interp) conv(dst types.Type, arg ast.Expr) *sym.E {
	src := it.Info.TypeOf(arg)
	inner := it.Eval(arg)
	dk, sk := basicKind(dst), basicKind(src)
	if dk == sk {
		return inner
	}
	width := func(k string) int {
		switch k {
		case "int32", "uint32":
			return 32
		case "int64", "uint64", "int", "uint":
			return 64
		case "int8", "uint8":
			return 8
		case "int16", "uint16":
			return 16
		}
		return 0
	}
	dw, sw := width(dk), width(sk)
	if dw == 0 || sw == 0 {
		return sym.Fn("conv["+sk+"→"+dk+"]", inner)
	}
	if inner.K == sym.KFn && strings.HasPrefix(inner.Name, "ext[") {
		// already widened: a further 64-bit reinterpretation changes nothing
		if sw == 64 && dw == 64 {
			return inner
		}
	}
	switch {
	case dw == sw:
		// reinterpretation between signed/unsigned of equal width: bit pattern unchanged
		return inner
	case dw > sw:
		signed := !strings.HasPrefix(sk, "u")
		if signed {
			return sym.Fn("ext[sx"+fmt.Sprint(sw)+"]", inner)
		}
		return sym.Fn("ext[zx"+fmt.Sprint(sw)+"]", inner)
	default:
		return sym.Fn("trunc["+dk+"]", inner)
	}
}

// Cond renders a condition canonically; neg gives its negation.
func (it *Interp) Cond(e ast.Expr) (pos, neg string) {
	switch x := e.(type) {
	case *ast.ParenExpr:
		return it.Cond(x.X)
	case *ast.UnaryExpr:
		if x.Op == token.NOT {
			p, n := it.Cond(x.X)
			return n, p
		}
	case *ast.BinaryExpr:
		switch x.Op {
		case token.LAND, token.LOR:
			lp, ln := it.Cond(x.X)
			rp, rn := it.Cond(x.Y)
			if x.Op == token.LAND {
				return "(" + lp + " && " + rp + ")", "(" + ln + " || " + rn + ")"
			}
			return "(" + lp + " || " + rp + ")", "(" + ln + " && " + rn + ")"
		case token.EQL, token.NEQ, token.GTR, token.LSS, token.GEQ, token.LEQ:
			l, r := it.operand(x.X), it.operand(x.Y)
			// k*len(X) compared with 0 (k > 0) is a test of len(X)
			if r == "0" {
				if i := strings.Index(l, "*len("); i > 0 && strings.HasSuffix(l, ")") && strings.Count(l, "(") == strings.Count(l, ")") {
					allDigits := true
					for _, c := range l[:i] {
						if c < '0' || c > '9' {
							allDigits = false
						}
					}
					if allDigits && !strings.Contains(l, " + ") {
						l = l[i+1:]
					}
				}
			}
			isLen := strings.HasPrefix(l, "len(")
			switch x.Op {
			case token.NEQ:
				if isLen && r == "0" {
					return l + ">0", l + "==0"
				}
				return l + "!=" + r, l + "==" + r
			case token.EQL:
				if isLen && r == "0" {
					return l + "==0", l + ">0"
				}
				return l + "==" + r, l + "!=" + r
			case token.GTR:
				if isLen && r == "0" {
					return l + ">0", l + "==0"
				}
				return l + ">" + r, l + "<=" + r
			case token.LSS:
				return l + "<" + r, l + ">=" + r
			case token.GEQ:
				return l + ">=" + r, l + "<" + r
			case token.LEQ:
				return l + "<=" + r, l + ">" + r
			}
		}
	}
	s := it.operand(e)
	return s, "!" + s
}

func (it *Interp) operand(e ast.Expr) string {
	if id, ok := e.(*ast.Ident); ok && (id.Name == "nil" || id.Name == "true" || id.Name == "false") {
		return id.Name
	}
	t := it.Info.TypeOf(e)
	if t != nil {
		if b, ok := t.Underlying().(*types.Basic); ok && b.Info()&(types.IsInteger) != 0 {
			return it.Eval(e).String()
		}
	}
	if p, ok := it.Path(e); ok {
		it.noteRead(p)
		// temp bound to a symbolic value
		if id, ok := e.(*ast.Ident); ok {
			if o := it.obj(id); o != nil {
				if b, ok := it.env[o]; ok && b.val != nil {
					return b.val.String()
				}
			}
		}
		return p
	}
	return it.Text(e)
}

// ---------------------------------------------------------------------------
// statements

type flow int

const (
	flowNext flow = iota
	flowReturn
	flowContinue
	flowBreak
)

// Run interprets a statement list.
func (it *Interp) Run(list []ast.Stmt) { it.block(list) }

// block runs statements; an early continue/return guarded by a condition makes
// the rest of the block run under the negated condition.
func (it *Interp) block(list []ast.Stmt) flow {
	for i, s := range list {
		f, restGuard := it.stmt(s)
		if restGuard != "" {
			it.push(restGuard)
			fl := it.block(list[i+1:])
			it.pop()
			return fl
		}
		if f != flowNext {
			return f
		}
	}
	return flowNext
}

func isNilExpr(e ast.Expr) bool {
	id, ok := e.(*ast.Ident)
	return ok && id.Name == "nil"
}

// errorReturn: a return whose last operand is a non-nil error expression.
func (it *Interp) errorReturn(s ast.Stmt) bool {
	r, ok := s.(*ast.ReturnStmt)
	if !ok || len(r.Results) == 0 {
		return false
	}
	last := r.Results[len(r.Results)-1]
	if isNilExpr(last) {
		return false
	}
	t := it.Info.TypeOf(last)
	return t != nil && (t.String() == "error" || types.Implements(t, errorIface()))
}

var errIface *types.Interface

func errorIface() *types.Interface {
	if errIface == nil {
		errIface = types.Universe.Lookup("error").Type().Underlying().(*types.Interface)
	}
	return errIface
}

func (it *Interp) stmt(s ast.Stmt) (flow, string) {
	if it.Hooks.Stmt != nil && it.Hooks.Stmt(it, s) {
		return flowNext, ""
	}
	switch x := s.(type) {
	case *ast.EmptyStmt:
	case *ast.BlockStmt:
		return it.block(x.List), ""
	case *ast.DeclStmt:
		gd := x.Decl.(*ast.GenDecl)
		if gd.Tok == token.VAR {
			for _, sp := range gd.Specs {
				vs := sp.(*ast.ValueSpec)
				for i, id := range vs.Names {
					o := it.Info.Defs[id]
					if o == nil {
						continue
					}
					if i < len(vs.Values) {
						it.assignOne(id, vs.Values[i], token.DEFINE, x)
					} else if isInt(o.Type()) {
						it.env[o] = &binding{val: sym.Const(0)}
					}
				}
			}
		}
	case *ast.ExprStmt:
		if call, ok := x.X.(*ast.CallExpr); ok {
			it.callStmt(call)
		}
	case *ast.AssignStmt:
		it.assign(x)
	case *ast.IncDecStmt:
		d := int64(1)
		if x.Tok == token.DEC {
			d = -1
		}
		it.update(x.X, sym.Const(d), x)
	case *ast.ReturnStmt:
		if !it.errorReturn(x) {
			it.Exits = append(it.Exits, Exit{Conds: it.guardList(), Values: x.Results, Pos: x.Pos()})
		}
		return flowReturn, ""
	case *ast.BranchStmt:
		switch x.Tok {
		case token.CONTINUE:
			return flowContinue, ""
		case token.BREAK:
			return flowBreak, ""
		}
		it.problem(x, "branch statement %s is not modelled", x.Tok)
	case *ast.IfStmt:
		return it.ifStmt(x)
	case *ast.RangeStmt:
		it.rangeStmt(x)
	case *ast.TypeSwitchStmt:
		it.typeSwitch(x)
	case *ast.SwitchStmt:
		it.problem(x, "switch statement is not modelled")
	case *ast.ForStmt:
		it.problem(x, "for statement is not modelled")
	default:
		it.problem(s, "statement %T is not modelled", s)
	}
	return flowNext, ""
}

func isInt(t types.Type) bool {
	b, ok := t.Underlying().(*types.Basic)
	return ok && b.Info()&types.IsInteger != 0
}

func (it *Interp) callStmt(call *ast.CallExpr) {
	if it.Hooks.CallStmt != nil {
		if e, ok := it.Hooks.CallStmt(it, call); ok {
			it.Add(e)
			return
		}
	}
	// panic(...) and other non-counted calls are ignored here; clients list what they accept
	if id, ok := call.Fun.(*ast.Ident); ok {
		if _, isB := it.Info.Uses[id].(*types.Builtin); isB {
			return
		}
	}
	it.problem(call, "call statement %s is not modelled", it.Text(call.Fun))
}

func (it *Interp) assign(x *ast.AssignStmt) {
	if len(x.Lhs) == 2 && len(x.Rhs) == 1 {
		// v, _ := f(...)  /  v, ok := x.(T)
		if call, ok := x.Rhs[0].(*ast.CallExpr); ok && it.Hooks.CallValue != nil {
			if v, ok := it.Hooks.CallValue(it, call); ok {
				if id, ok := x.Lhs[0].(*ast.Ident); ok && id.Name != "_" {
					if o := it.obj(id); o != nil {
						it.env[o] = &binding{val: v}
					}
				}
				return
			}
		}
		it.problem(x, "tuple assignment %s is not modelled", it.Text(x))
		return
	}
	if len(x.Lhs) != len(x.Rhs) {
		it.problem(x, "assignment shape %s is not modelled", it.Text(x))
		return
	}
	for i := range x.Lhs {
		switch x.Tok {
		case token.ASSIGN, token.DEFINE:
			it.assignOne(x.Lhs[i], x.Rhs[i], x.Tok, x)
		case token.ADD_ASSIGN:
			it.update(x.Lhs[i], it.Eval(x.Rhs[i]), x)
		case token.SUB_ASSIGN:
			it.update(x.Lhs[i], sym.Mul(-1, it.Eval(x.Rhs[i])), x)
		default:
			it.problem(x, "assignment operator %s is not modelled", x.Tok)
		}
	}
}

func (it *Interp) assignOne(lhs, rhs ast.Expr, tok token.Token, site ast.Node) {
	id, ok := lhs.(*ast.Ident)
	if ok && id.Name == "_" {
		return
	}
	if it.Hooks.IsAccum != nil && it.Hooks.IsAccum(it, lhs) {
		it.problem(site, "accumulator is overwritten (%s)", it.Text(site))
		return
	}
	if !ok {
		// element store of the identity-copy idiom is recognised in rangeStmt
		it.problem(site, "store %s is not modelled", it.Text(site))
		return
	}
	o := it.obj(id)
	if o == nil {
		return
	}
	// ivs := make([]T, l): candidate for the identity-copy idiom
	if call, ok := rhs.(*ast.CallExpr); ok {
		if fid, ok := call.Fun.(*ast.Ident); ok {
			if b, ok := it.Info.Uses[fid].(*types.Builtin); ok && b.Name() == "make" {
				if len(call.Args) >= 2 {
					it.env[o] = &binding{val: sym.Fn("make", it.Eval(call.Args[1]))}
					return
				}
			}
		}
		// err = enc.EncodeNested(...): a counted call whose error is tested next
		if it.Hooks.CallStmt != nil && o.Type().String() == "error" {
			if e, ok := it.Hooks.CallStmt(it, call); ok {
				it.Add(e)
				return
			}
		}
		if it.Hooks.CallValue != nil {
			if v, ok := it.Hooks.CallValue(it, call); ok {
				it.env[o] = &binding{val: v}
				it.noteLoopAssign(o)
				return
			}
		}
	}
	t := o.Type()
	if isInt(t) {
		it.env[o] = &binding{val: it.Eval(rhs)}
		it.noteLoopAssign(o)
		return
	}
	// non-integer temps: remember paths (typedVal := …, extVal := …)
	if p, ok := it.Path(rhs); ok {
		it.env[o] = &binding{val: sym.Atom(p)}
		return
	}
	it.problem(site, "assignment %s is not modelled", it.Text(site))
}

// noteLoopAssign: a temp declared outside a loop and overwritten inside it has
// an iteration-dependent value after the loop.
func (it *Interp) noteLoopAssign(o types.Object) {
	for _, f := range it.loops {
		if !(o.Pos() >= f.lo && o.Pos() < f.hi) {
			f.assigned[o] = true
		}
	}
}

func (it *Interp) update(lhs ast.Expr, delta *sym.E, site ast.Node) {
	if it.Hooks.IsAccum != nil && it.Hooks.IsAccum(it, lhs) {
		it.Add(delta)
		return
	}
	id, ok := lhs.(*ast.Ident)
	if !ok {
		it.problem(site, "update %s is not modelled", it.Text(site))
		return
	}
	o := it.obj(id)
	if o == nil {
		return
	}
	// inside a loop, += on a temp declared outside the loop becomes a Σ
	if n := len(it.loops); n > 0 {
		f := it.loops[n-1]
		if !(o.Pos() >= f.lo && o.Pos() < f.hi) {
			g := it.wrap(delta, f.ctxBase+1) // guards inside the loop body, not the loop's own binder
			if cur, ok := f.deltas[o]; ok {
				f.deltas[o] = sym.Sum(cur, g)
			} else {
				f.deltas[o] = g
				f.order = append(f.order, o)
			}
			return
		}
	}
	b := it.env[o]
	if b == nil {
		b = &binding{val: sym.Atom(id.Name)}
	}
	if b.poison {
		it.problem(site, "updates temporary %q whose value was left over from another field", id.Name)
	}
	it.env[o] = &binding{val: sym.Sum(b.val, delta)}
}

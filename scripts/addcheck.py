#!/usr/bin/env python3
"""usage: addcheck.py ID 'text' 'note' 'technique'  -- registers a check in scripts/checks.json, removes it from not_applicable, regenerates MANIFEST.json"""
import json,sys,subprocess
cid,text,note,tech=sys.argv[1:5]
cs=json.load(open('/verif/scripts/checks.json'))
cs=[c for c in cs if c['id']!=cid]
cs.append({"id":cid,"text":text,"note":note,"technique":tech})
cs.sort(key=lambda c:c['id'])
json.dump(cs,open('/verif/scripts/checks.json','w'),indent=1)
na=json.load(open('/verif/scripts/not_applicable.json'))
na=[n for n in na if n['property_id']!=cid]
json.dump(na,open('/verif/scripts/not_applicable.json','w'),indent=1)
subprocess.check_call(['python3','/verif/scripts/gen_manifest.py'])

#!/bin/bash
# Runs the repository's pinned test suite (root module) and prints pass/fail counts.
export GOFLAGS=-mod=mod GOPROXY=off GOSUMDB=off GOTOOLCHAIN=local GOWORK=off
cd "${1:-/repo}" && go test -json -vet=off -count=1 -timeout 25m ./... 2>&1 | python3 -c '
import sys,json
p=f=0;fails=[]
for l in sys.stdin:
    try: e=json.loads(l)
    except Exception: continue
    if e.get("Test") and e.get("Action")=="pass": p+=1
    if e.get("Test") and e.get("Action")=="fail": f+=1; fails.append(e["Package"]+"::"+e["Test"])
    if not e.get("Test") and e.get("Action")=="fail": fails.append("PKG "+e.get("Package","?"))
print("pass",p,"fail",f); [print(" ",x) for x in fails]
sys.exit(1 if (f or fails) else 0)'

#!/usr/bin/env python3
"""Regenerates /verif/MANIFEST.json from the table below (kept in one place so that it stays valid)."""
import json, sys
ENV = "GOFLAGS=-mod=mod GOPROXY=off GOSUMDB=off GOTOOLCHAIN=local GOWORK=off"
checks = json.load(open('/verif/scripts/checks.json'))
na = json.load(open('/verif/scripts/not_applicable.json'))
# rules a check takes over from the check that owns them (exported with `csverify shared`; DESIGN.md §0.11)
shared = json.load(open('/verif/scripts/shared_rules.json'))
m = {
 "version": 1,
 "setup_cmd": f"cd /verif/checker && {ENV} go build -o /verif/bin/csverify ./cmd/csverify",
 "hooks": {"guard": "verif", "enable": "no hooks: the checks are static analyses of /repo's working tree; nothing in /repo is instrumented",
           "baseline_off_cmd": "/verif/scripts/baseline.sh /repo", "source_commits": [], "add_only": True},
 "engines": [
  {"name": "csverify", "path": "/verif/checker", "serves_properties": [c["id"] for c in checks],
   "kind_free_text": "custom static analyser (go/packages + go/ast + go/types; linear-fact abstract interpreter with Fourier-Motzkin entailment; template expansion + symbolic byte-count comparison)"}],
 "checks": [],
 "not_applicable": na,
 "notes": "All checks are static (no code of /repo is executed by a deciding step). Findings repaired in /repo are listed as 'fixed:' lines in /verif/known_findings.jsonl.",
}
for c in checks:
    if c["id"] in shared:
        c = dict(c)
        c["text"] += " Shared rules: necessary conditions of this property that another check owns are run by this check as well, against the same working tree (construct prefixed with the owning property; DESIGN.md 0.11): " + "; ".join(shared[c["id"]]) + "."
    m["checks"].append({
        "property_id": c["id"],
        "quick_cmd": f"/verif/bin/csverify check {c['id']} --tier quick",
        "thorough_cmd": f"/verif/bin/csverify check {c['id']} --tier thorough",
        "evidence_file": f"/verif/evidence/{c['id']}.json",
        "replay_cmd_template": "/verif/bin/csverify explain {path}",
        "engine": "csverify",
        "level_claimed": {"category": "other", "text": c["text"], "design_ref": c.get("design_ref", "DESIGN.md §5 " + c["id"])},
        "level_note": c["note"],
        "technique": c["technique"],
    })
json.dump(m, open('/verif/MANIFEST.json', 'w'), indent=1)
print("wrote MANIFEST.json with", len(checks), "checks,", len(na), "not applicable")

#!/usr/bin/env python3
"""Self-test against false alarms: small behaviour-preserving rewrites (one textual edit each) of /repo's sources.
Each is applied to a scratch copy, built, and the named checks are run on it; every FINDING is a false alarm.
usage: microeq.py [--only N[,N…]]   (list below; literal old -> new text, first occurrence)"""
import subprocess, sys, os, tempfile, shutil
ENV = dict(os.environ, GOFLAGS="-mod=mod", GOPROXY="off", GOSUMDB="off", GOTOOLCHAIN="local", GOWORK="off")
BIN = os.environ.get("CSVERIFY_BIN", "/verif/bin/csverify")
T = "\t"
CASES = [
 ("decoder.go", "case n == 0:", "case n < 1:", "C01 C02 C03 C08"),
 ("decoder.go", "if len(p) == 0 {\n\t\treturn 0, 0, ErrInvalidVarintData", "if len(p) < 1 {\n\t\treturn 0, 0, ErrInvalidVarintData", "C01 C03 C13 C20"),
 ("decoder.go", "if p[0] < 0x80 {", "if p[0] <= 0x7f {", "C01 C03 C13 C20"),
 ("decoder.go", "if d.offset >= len(d.p) {\n\t\treturn nil, io.ErrUnexpectedEOF\n\t}\n\n\tl, n, err := DecodeVarint", "if len(d.p) <= d.offset {\n\t\treturn nil, io.ErrUnexpectedEOF\n\t}\n\n\tl, n, err := DecodeVarint", "C01 C03 C10 C19"),
 ("decoder.go", "if (b & 0x80) == 0 {\n\t\t\t\treturn v, n, nil", "if b&0x80 != 0x80 {\n\t\t\t\treturn v, n, nil", "C01 C03"),
 ("decoder.go", "d.offset += n + nb\n\treturn nil", "d.offset = d.offset + n + nb\n\treturn nil", "C03 C19"),
 ("encoder.go", "e.offset += len(v)\n}", "e.offset = e.offset + len(v)\n}", "C01 C02 C04 C05"),
 ("sizeof.go", "return SizeOfVarint(uint64(uint(k) << 3))", "return SizeOfVarint(uint64(uint(k)) << 3)", "C01 C02 C04"),
 ("lazyproto/decode_result.go", "if tag < 0 {\n\t\ttag *= -1\n\t}\n\n\tflatIdx", "if 0 > tag {\n\t\ttag = -tag\n\t}\n\n\tflatIdx", "C13 C14"),
 ("lazyproto/decode_result.go", "if r == nil || (len(r.flatTags) == 0) {", "if r == nil {\n\t\treturn nil, ErrTagNotDefined\n\t}\n\tif len(r.flatTags) == 0 {", "C13 C14"),
 ("lazyproto/decode_result.go", "if r == nil || (len(r.flatTags) == 0) {", "if !(r != nil && len(r.flatTags) != 0) {", "C13 C14"),
 ("marshal.go", "if pm, ok := msg.(Marshaler); ok {\n\t\treturn pm.Marshal()\n\t}", "if m2, isM := msg.(Marshaler); isM {\n\t\treturn m2.Marshal()\n\t}", "C11"),
 ("message_types.go", "if typ == nil || typ.Kind() != reflect.Ptr {", "if typ == nil || reflect.Ptr != typ.Kind() {", "C11 C12 C18"),
 ("message_types.go", "if typ == nil || typ.Kind() != reflect.Ptr {", "if typ == nil {\n\t\treturn MessageTypeUnknown\n\t}\n\tif typ.Kind() != reflect.Ptr {", "C11 C12 C18"),
 ("json.go", "Indent:          m.opts.indent,\n\t\t\tUseEnumNumbers:  m.opts.useEnumNumbers,", "UseEnumNumbers:  m.opts.useEnumNumbers,\n\t\t\tIndent:          m.opts.indent,", "C18"),
 ("json.go", "if m.msg == nil || value.Kind() == reflect.Ptr && value.IsNil() {", "if m.msg == nil || (value.Kind() == reflect.Ptr && value.IsNil()) {", "C18"),
 ("json.go", "if err := jm.Marshal(&buf, msg); err != nil {\n\t\t\treturn nil, fmt.Errorf(\"unable to marshal message to JSON: %w\", err)\n\t\t}\n\t\treturn buf.Bytes(), nil\n\t}\n\n\t// Gogo", "err := jm.Marshal(&buf, msg)\n\t\tif err != nil {\n\t\t\treturn nil, fmt.Errorf(\"unable to marshal message to JSON: %w\", err)\n\t\t}\n\t\treturn buf.Bytes(), nil\n\t}\n\n\t// Gogo", "C18"),
 ("extensions.go", "ed, ok := ext.(*gogo.ExtensionDesc)\n\t\tif !ok {\n\t\t\treturn false\n\t\t}", "ed, isGogo := ext.(*gogo.ExtensionDesc)\n\t\tif !isGogo {\n\t\t\treturn false\n\t\t}", "C12"),
 ("extensions.go", "ed, ok := ext.(*gogo.ExtensionDesc)\n\t\tif !ok {\n\t\t\treturn false\n\t\t}", "ed, ok := ext.(*gogo.ExtensionDesc)\n\t\tif ok == false {\n\t\t\treturn false\n\t\t}", "C12"),
 ("clone.go", "switch MsgType(m) {", "switch mt := MsgType(m); mt {", "C11"),
 ("equal.go", "if t1 != t2 {", "if t2 != t1 {", "C11"),
 ("cmd/protodump/main.go", "for dec.More() {", "for ; dec.More(); {", "C20"),
 ("cmd/protodump/main.go", "thisTagPath := append(parentTagPath, tag)", "thisTagPath := append(parentTagPath[:len(parentTagPath):len(parentTagPath)], tag)", "C20"),
 ("prototest/parse_annotated_hex.go", "if i := strings.Index(s, \";\"); i != -1 {", "if i := strings.Index(s, \";\"); i >= 0 {", "C20"),
 ("prototest/parse_annotated_hex.go", "if s == \"\" {", "if len(s) == 0 {", "C20"),
 ("lazyproto/fielddata.go", "if fd == nil {", "if nil == fd {", "C13 C14 C10"),
 ("lazyproto/decode.go", "if k < 0 {\n\t\t\tk *= -1\n\t\t}", "if k < 0 {\n\t\t\tk = -1 * k\n\t\t}", "C13 C14 C15"),
 ("cmd/protoc-gen-fastmarshal/funcs.go", "if names.IsSpecial(name) {\n\t\t\treturn name + \"_\"\n\t\t}\n\t\treturn name", "if !names.IsSpecial(name) {\n\t\t\treturn name\n\t\t}\n\t\treturn name + \"_\"", "C16 C04"),
 ("reset.go", "if MsgType(m) == MessageTypeGoogle {", "if MessageTypeGoogle == MsgType(m) {", "C11"),
 ("wiretype.go", "if s, ok := wireTypeToString[wt]; ok {\n\t\treturn s\n\t}\n\treturn \"unknown\"", "s, ok := wireTypeToString[wt]\n\tif !ok {\n\t\treturn \"unknown\"\n\t}\n\treturn s", "C01 C11 C15"),
]
def run(i, case):
    f, old, new, ids = case
    d = tempfile.mkdtemp(prefix="csmeq.", dir="/tmp")
    try:
        repo = os.path.join(d, "repo")
        subprocess.run(["rsync", "-a", "--exclude", ".git", "/repo/", repo + "/"], check=True)
        p = os.path.join(repo, f)
        s = open(p).read()
        if old not in s:
            return "%2d %s: PATTERN NOT FOUND" % (i, f)
        open(p, "w").write(s.replace(old, new, 1))
        b = subprocess.run(["go", "build", "./..."], cwd=repo, env=ENV, stdout=subprocess.PIPE, stderr=subprocess.STDOUT)
        if b.returncode != 0:
            return "%2d %s: DOES NOT BUILD %s" % (i, f, b.stdout.decode()[:200])
        out = []
        for c in ids.split():
            e = dict(ENV, CSVERIFY_REPO=repo, CSVERIFY_EVIDENCE_DIR=os.path.join(d, "ev"))
            r = subprocess.run([BIN, "check", c], env=e, stdout=subprocess.PIPE, stderr=subprocess.STDOUT).stdout.decode(errors="replace")
            for l in r.splitlines():
                if (l.startswith("FINDING") or l.startswith("INFRA")) and 'construct="[C' not in l:
                    out.append("    %s %s" % (c, l[:300]))
        head = "%2d %s: %s" % (i, f, "silent" if not out else "%d ALARM(S)  [%s]" % (len(out), new.replace("\n", " ")[:60]))
        return "\n".join([head] + out[:4])
    finally:
        shutil.rmtree(d, ignore_errors=True)
if __name__ == "__main__":
    only = None
    if len(sys.argv) > 2 and sys.argv[1] == "--only":
        only = set(int(x) for x in sys.argv[2].split(","))
    from concurrent.futures import ThreadPoolExecutor
    idx = [i for i in range(len(CASES)) if only is None or i in only]
    with ThreadPoolExecutor(6) as ex:
        for res in ex.map(lambda i: run(i, CASES[i]), idx):
            print(res, flush=True)

#!/usr/bin/env python3
"""usage: mkseedprompts.py <round> <Cxx...>  -- writes /tmp/seedprompts<round>/<Cxx>.txt (prompt for an independent sub-agent:
only the property text and its own scratch worktree /tmp/wt<round>-<Cxx>; nothing from /verif)."""
import json, os, sys
rnd = sys.argv[1]
ids = sys.argv[2:]
props = {json.loads(l)['id']: json.loads(l) for l in open('/verif/properties.jsonl')}
tmpl = '''You are helping test a verification effort for the Go library CrowdStrike/csproto (a Protocol Buffers library: runtime-agnostic Marshal/Unmarshal shim, hand-written wire-format encoder/decoder, a lazy partial decoder in lazyproto/, and a protoc plugin cmd/protoc-gen-fastmarshal that generates fast marshal code from text/template templates; plus cmd/protodump and prototest).

You have your OWN scratch git worktree of the repository at {wt} . Work ONLY inside that directory. Never touch /repo or /verif, never read anything under /verif. Do NOT use `git stash` (the stash is shared between worktrees) and do not commit; to switch between "with" and "without" your change use `git diff > file` / `git apply` / `git apply -R`. The machine is busy with other jobs: builds can be slow, be patient and use generous timeouts.

Every shell command that invokes go must start with:
  export GOFLAGS=-mod=mod GOPROXY=off GOSUMDB=off GOTOOLCHAIN=local GOWORK=off
There is no network. Nothing can be downloaded. The module cache already has what the repo needs (google.golang.org/protobuf, github.com/gogo/protobuf, github.com/golang/protobuf, testify...). There is no protoc binary; if you need generated code for a demonstration, drive the generator in-process / as a plugin subprocess with a hand-built pluginpb.CodeGeneratorRequest (protoc-gen-go is available in the module cache as google.golang.org/protobuf/cmd/protoc-gen-go and its internal_gengo package). Do not rely on the checked-in example/*.pb.fm.go files: they are stale relative to the templates.

This is the property a user of the library relies on:

  id: {id}
  title: {title}
  statement: {statement}
  quantifier: {quant}
  why the existing tests cannot settle it: {why}
  code it is anchored in: {anchors}

YOUR TASK: write TWO independent, realistic source changes ("A" and "B") to the library (non-test .go files and/or the generator's templates), each of which BREAKS this property. Realistic means: the kind of change a maintainer could plausibly make (an optimisation, a refactor, a clean-up, a "simplification", a fix for something else, a dependency-API modernisation, a new small feature with a flaw) - not sabotage, no dead code, no special-casing of magic values that no maintainer would write.

IMPORTANT - be inventive about WHERE and HOW: several groups of engineers already tried the obvious and the second-most-obvious spots for this property (bounds checks, presence tests, cache/pool lines, the per-runtime switch arms, error checks right after a call). Look for what they would have missed: interactions between two correct-looking pieces, helper functions used by many callers, option combinations (file-per-message, unsafe decoding, special names, API version), the less common runtime, doc-promised behaviour that no code near it enforces, state that survives between calls, order of statements, integer width / sign conversions, map iteration order, aliasing of slices, defaults of newly added struct fields. A and B must be in DIFFERENT source files and break DIFFERENT clauses of the property statement. Prefer subtle: wrong only for a boundary value, one kind, one runtime, one option combination, one error path, one interleaving, one schema shape.

Each change must:
 1. still compile: `go build ./...` and `go vet ./...` succeed in the worktree root;
 2. still pass the existing tests, unedited: `go test -vet=off -count=1 ./...` in the worktree root passes completely (run it!). Do not edit, add or delete any existing test file;
 3. need something specific to manifest (a particular input, schema, option, schedule or history) - it must NOT break ordinary use that the existing tests exercise;
 4. come with a demonstration: a directory with a script `run.sh` that is started as `sh SEED-A/demo/run.sh` (resp. SEED-B) with the current directory = root of a checkout of the repository that contains the SEED-A directory. It must use only relative paths (no /tmp/... paths), must set the go environment variables above itself, and must exit non-zero (printing what went wrong) when the change is applied and exit 0 when it is not. Typically run.sh does `go test -tags seeddemo -vet=off -count=1 ./SEED-A/demo/...` on a test file guarded by `//go:build seeddemo` that lives in package(s) under SEED-A/demo (it is inside the repository's module, so it can import github.com/CrowdStrike/csproto/...). For generator changes the demo builds and runs the generator from the checkout it is run in. Demonstrations must be deterministic (for concurrency properties make the interleaving deterministic or make the probability of a miss negligible within a few seconds).

Deliver, inside the worktree:
  SEED-A/patch.diff   (output of `git diff` for change A only, relative to the worktree root, applying with `git apply` / `patch -p1` on a clean checkout)
  SEED-A/demo/...     (run.sh + test files)
  SEED-A/notes.md     (first line: a one-line title; then: the change, which clause of the property it breaks, exactly what is needed for it to manifest, why existing tests stay green)
  and the same under SEED-B/ for change B.
When you finish, the worktree's tracked files must be back to the clean state (no change applied), with only the untracked SEED-A/ and SEED-B/ directories left. Verify both ways for each change before finishing: with the change applied -> build, vet, full tests pass, run.sh fails; without it -> run.sh passes.

If, while exploring, you notice that the UNCHANGED code already violates the property somewhere (a concrete input/history that fails today), say so briefly at the end of your answer with the reproducer - that is valuable too - but do not count it as one of your two changes.

In your final answer give, for each of A and B: the file/function changed, one sentence on what breaks, and the exact outputs you observed (tests ok, demo fail/pass). If you could only produce one good change, say so honestly and deliver only that one.
'''
os.makedirs('/tmp/seedprompts%s' % rnd, exist_ok=True)
for i in ids:
    p = props[i]
    open('/tmp/seedprompts%s/%s.txt' % (rnd, i), 'w').write(tmpl.format(wt='/tmp/wt%s-%s' % (rnd, i), id=i, title=p['title'], statement=p['statement'], quant=json.dumps(p.get('quantifier')), why=p.get('why_tests_cant'), anchors=json.dumps(p.get('anchors'))))
print("written", len(ids))

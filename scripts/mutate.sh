#!/bin/bash
# usage: mutate.sh "<check ids>" <file> <python-regex> <replacement>   -- applies one textual edit to a scratch copy of /repo and runs the checks on it
set -u
ids="$1"; file="$2"; pat="$3"; rep="$4"
d=$(mktemp -d /tmp/csmut.XXXXXX)
trap 'cd /verif; rm -rf "$d"' EXIT
rsync -a --exclude .git /repo/ "$d/repo/"
python3 - "$d/repo/$file" "$pat" "$rep" <<'PY'
import re,sys
p,pat,rep=sys.argv[1:4]
s=open(p).read()
n=len(re.findall(pat,s,flags=re.S))
if n==0: print("MUTATION PATTERN NOT FOUND"); sys.exit(3)
s=re.sub(pat,rep,s,count=1,flags=re.S)
open(p,'w').write(s)
PY
[ $? -eq 0 ] || exit 3
export GOFLAGS=-mod=mod GOPROXY=off GOSUMDB=off GOTOOLCHAIN=local GOWORK=off
(cd "$d/repo" && go build ./... 2>&1 | head -5)
for id in $ids; do
  CSVERIFY_REPO="$d/repo" CSVERIFY_EVIDENCE_DIR="$d/ev" ${CSVERIFY_BIN:-/verif/bin/csverify} check $id 2>&1 | grep -E "^(FINDING|OK|INFRA|KNOWN)" | cut -c1-260
done

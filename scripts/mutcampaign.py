#!/usr/bin/env python3
"""Self-test campaign: single-edit mutants of the hand-written sources; those that compile and pass the pinned
suite are run against the relevant checks. Output: /verif/mutation/results.jsonl (one line per mutant that survives
the test suite: caught_by / missed). Scratch copies live under /tmp and are removed at the end.
usage: mutcampaign.py [--files f1,f2] [--workers N] [--limit N]"""
import json, os, subprocess, sys, shutil, tempfile, multiprocessing, argparse

ENV = dict(os.environ, GOFLAGS="-mod=mod", GOPROXY="off", GOSUMDB="off", GOTOOLCHAIN="local", GOWORK="off")
CHECKS = {
    "encoder.go": "C01 C02 C19 C17", "decoder.go": "C01 C02 C03 C10 C19", "sizeof.go": "C01 C11",
    "json.go": "C18", "extensions.go": "C12", "message_types.go": "C11", "clone.go": "C11", "equal.go": "C11",
    "reset.go": "C11", "marshal_text.go": "C11", "marshal.go": "C11", "unmarshal.go": "C11", "grpc_codec.go": "C11",
    "lazyproto/decode.go": "C10 C13 C14 C15", "lazyproto/decode_result.go": "C10 C13 C14 C15", "lazyproto/fielddata.go": "C10 C13 C14",
    "lazyproto/def.go": "C13 C15", "cmd/protodump/main.go": "C20", "prototest/parse_annotated_hex.go": "C20",
    "cmd/protoc-gen-fastmarshal/funcs.go": "C16 C04 C05 C06 C17", "cmd/protoc-gen-fastmarshal/run.go": "C16 C04 C05 C06 C17",
    "cmd/protoc-gen-fastmarshal/generator.go": "C16 C04 C05 C06 C17", "cmd/protoc-gen-fastmarshal/render.go": "C16 C04 C05 C06 C17",
}

def run(cmd, cwd, timeout=300, env=ENV):
    try:
        p = subprocess.run(cmd, cwd=cwd, env=env, stdout=subprocess.PIPE, stderr=subprocess.STDOUT, timeout=timeout, shell=isinstance(cmd, str))
        return p.returncode, p.stdout.decode(errors="replace")
    except subprocess.TimeoutExpired:
        return 124, "timeout"

def worker(args):
    wid, muts, outpath, recheck, skiptests = args
    d = tempfile.mkdtemp(prefix="csmutw%d." % wid, dir="/tmp")
    repo = os.path.join(d, "repo")
    subprocess.run(["rsync", "-a", "--exclude", ".git", "/repo/", repo + "/"], check=True)
    out = []
    for m in muts:
        path = os.path.join(repo, m["file"])
        orig = open("/repo/" + m["file"], "rb").read()
        mutated = orig[:m["start"]] + m["repl"].encode() + orig[m["end"]:]
        open(path, "wb").write(mutated)
        rec = dict(m)
        rc = 0
        if recheck:
            rc = -1
        else:
            rc, o = run(["go", "build", "./..."], repo, 300)
        if recheck:
            rec["status"] = "survives_tests"
            caught = {}
            for c in CHECKS.get(m["file"], "").split():
                env = dict(ENV, CSVERIFY_REPO=repo, CSVERIFY_EVIDENCE_DIR=os.path.join(d, "ev"))
                rcc, oc = run([os.environ.get("CSVERIFY_BIN", "/verif/bin/csverify"), "check", c], "/verif", 900, env)
                rules = sorted(set(l.split(" ")[1].replace("rule=", "") for l in oc.splitlines() if l.startswith("FINDING")))
                if rules:
                    caught[c] = rules
            rec["caught_by"] = caught
        elif rc != 0:
            rec["status"] = "nocompile"
        else:
            if skiptests:
                rc, rc2 = 0, 0
            else:
                rc, o = run(["go", "vet", "./..."], repo, 300)
                rc2, o2 = run(["go", "test", "-vet=off", "-count=1", "-timeout", "120s", "./..."], repo, 400)
            if rc2 != 0:
                rec["status"] = "killed_by_tests"
            else:
                rec["status"] = "survives_tests"
                rec["vet"] = "ok" if rc == 0 else "vet complains"
                caught = {}
                for c in CHECKS.get(m["file"], "").split():
                    env = dict(ENV, CSVERIFY_REPO=repo, CSVERIFY_EVIDENCE_DIR=os.path.join(d, "ev"))
                    rcc, oc = run([os.environ.get("CSVERIFY_BIN", "/verif/bin/csverify"), "check", c], "/verif", 900, env)
                    rules = sorted(set(l.split(" ")[1].replace("rule=", "") for l in oc.splitlines() if l.startswith("FINDING")))
                    infra = [l for l in oc.splitlines() if l.startswith("INFRA")]
                    if rules or infra:
                        caught[c] = rules + (["INFRA"] if infra else [])
                rec["caught_by"] = caught
        out.append(rec)
        with open(outpath, "a") as fo:
            fo.write(json.dumps(rec) + "\n")
        open(path, "wb").write(orig)
    shutil.rmtree(d, ignore_errors=True)
    return out

def main():
    ap = argparse.ArgumentParser()
    ap.add_argument("--files", default=",".join(CHECKS))
    ap.add_argument("--workers", type=int, default=8)
    ap.add_argument("--limit", type=int, default=0)
    ap.add_argument("--out", default="/verif/mutation/results.jsonl")
    ap.add_argument("--skip-tests", action="store_true", help="for files the pinned suite does not exercise (json.go): every compiling mutant is run against the checks")
    ap.add_argument("--recheck", default="", help="results file of an earlier run: re-run the checks on its unreported survivors only")
    a = ap.parse_args()
    muts = []
    if a.recheck:
        for l in open(a.recheck):
            r0 = json.loads(l)
            if r0["status"] == "survives_tests" and not r0["caught_by"]:
                muts.append({k: r0[k] for k in ("file", "func", "line", "kind", "desc", "start", "end", "repl")})
    for f in ([] if a.recheck else a.files.split(",")):
        if not os.path.exists("/repo/" + f):
            continue
        p = subprocess.run(["/verif/bin/mutgen", "/repo/" + f, f], stdout=subprocess.PIPE, check=True)
        for l in p.stdout.decode().splitlines():
            muts.append(json.loads(l))
    if a.limit:
        import random
        random.Random(1).shuffle(muts)
        muts = muts[:a.limit]
    print("mutants:", len(muts), file=sys.stderr)
    chunks = [(i, muts[i::a.workers], a.out, bool(a.recheck), a.skip_tests) for i in range(a.workers)]
    os.makedirs(os.path.dirname(a.out), exist_ok=True)
    open(a.out, "w").close()
    with multiprocessing.Pool(a.workers) as pool:
        list(pool.imap_unordered(worker, chunks))
    # summary
    rs = [json.loads(l) for l in open(a.out)]
    surv = [r for r in rs if r["status"] == "survives_tests"]
    missed = [r for r in surv if not r["caught_by"]]
    print("total", len(rs), "nocompile", sum(r["status"] == "nocompile" for r in rs), "killed_by_tests", sum(r["status"] == "killed_by_tests" for r in rs),
          "survive_tests", len(surv), "reported_by_checks", len(surv) - len(missed), "not_reported", len(missed))

if __name__ == "__main__":
    main()

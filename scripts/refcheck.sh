#!/bin/bash
# usage: refcheck.sh <patch.diff>  -- applies a behaviour-preserving change to a scratch copy of /repo, confirms that it builds and
# that the pinned suite passes, then runs all 20 quick checks on it. Every finding is a false alarm to look at.
set -u
patchf="$1"
export GOFLAGS=-mod=mod GOPROXY=off GOSUMDB=off GOTOOLCHAIN=local GOWORK=off
d=$(mktemp -d /tmp/csref.XXXXXX)
trap 'cd /verif; rm -rf "$d"' EXIT
rsync -a --exclude .git --exclude REFACTOR /repo/ "$d/repo/"
cd "$d/repo" || exit 2
if ! patch -p1 -s < "$patchf" >/dev/null 2>&1; then echo "PATCH-DOES-NOT-APPLY $patchf"; exit 0; fi
b=$(go build ./... 2>&1 | head -3); [ -n "$b" ] && echo "BUILD: $b"
t=$(go test -vet=off -count=1 ./... 2>&1 | grep -c '^ok')
echo "tests: $t packages ok"
total=0
for c in C01 C02 C03 C04 C05 C06 C07 C08 C09 C10 C11 C12 C13 C14 C15 C16 C17 C18 C19 C20; do
  out=$(CSVERIFY_REPO="$d/repo" CSVERIFY_EVIDENCE_DIR="$d/ev" ${CSVERIFY_BIN:-/verif/bin/csverify} check $c 2>&1)
  n=$(echo "$out" | grep -c "^FINDING"); i=$(echo "$out" | grep -c "^INFRA")
  if [ "$n" != "0" ] || [ "$i" != "0" ]; then
    total=$((total+n+i))
    echo "$c: $n finding(s) $i infra"; echo "$out" | grep -E "^(FINDING|INFRA)" | grep -v 'construct="\[C' | cut -c1-400 | head -6
  fi
done
echo "== total alarms: $total"

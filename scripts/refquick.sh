#!/bin/bash
# usage: refquick.sh <patch.diff> "<check ids>" [max lines]  -- applies a patch to a scratch copy and runs only the named checks
set -u
patchf="$1"; ids="$2"; maxl="${3:-8}"
d=$(mktemp -d /tmp/csq.XXXXXX)
trap 'cd /verif; rm -rf "$d"' EXIT
rsync -a --exclude .git /repo/ "$d/repo/"
(cd "$d/repo" && patch -p1 -s < "$patchf") || { echo "PATCH DOES NOT APPLY"; exit 3; }
for c in $ids; do
  out=$(CSVERIFY_REPO="$d/repo" CSVERIFY_EVIDENCE_DIR="$d/ev" ${CSVERIFY_BIN:-/verif/bin/csverify} check $c 2>&1)
  echo "$(basename $(dirname $patchf))/$(basename $patchf) $c: $(echo "$out" | grep -c '^FINDING') finding(s) $(echo "$out" | grep -c '^INFRA') infra"
  echo "$out" | grep -E "^(FINDING|INFRA)" | grep -v 'construct="\[C' | cut -c1-${CUT:-520} | head -$maxl
done

#!/bin/bash
# usage: seedcheck.sh <ID> [patchdir]  -- verifies a seeded change (patch.diff + demo under <patchdir>, default /tmp/wt-<ID>/SEED):
#   builds, vets and tests a scratch copy of /repo with the patch, runs the demo with and without the patch,
#   then runs every quick check against the patched copy and lists the checks that report a violation.
set -u
id="$1"; dir="${2:-/verif/seeded/$id}"
export GOFLAGS=-mod=mod GOPROXY=off GOSUMDB=off GOTOOLCHAIN=local GOWORK=off
d=$(mktemp -d /tmp/csseed.XXXXXX)
trap 'cd /verif; rm -rf "$d"' EXIT
rsync -a --exclude .git --exclude "SEED*" /repo/ "$d/repo/"
cd "$d/repo" || exit 2
if ! patch -p1 -s < "$dir/patch.diff"; then echo "PATCH DOES NOT APPLY"; exit 3; fi
echo "== build/vet/test with the change"
go build ./... 2>&1 | tail -3; go vet ./... 2>&1 | tail -3
go test -vet=off -count=1 ./... 2>&1 | grep -v "^ok\|no test files" | head -5; echo "tests: $(go test -vet=off -count=1 ./... 2>&1 | grep -c '^ok') packages ok"
sd=$(cat "$dir/seeddir" 2>/dev/null || echo SEED)   # directory name the demo expects to live in
if [ -d "$dir/demo" ]; then
  mkdir -p $sd && cp -r "$dir/demo" $sd/demo
  echo "== demo WITH the change (expected to fail)"
  tags="seeddemo $(echo $id | tr A-Z a-z)demo"
  rundemo() {
    if [ -f $sd/demo/run.sh ]; then (sed "s#/tmp/wt-$id#$d/repo#g" $sd/demo/run.sh > $sd/demo/run_local.sh; sh $sd/demo/run_local.sh 2>&1; echo "demo exit=$?") | tail -5
    elif [ -f $sd/demo/go.mod ]; then (cd $sd/demo && go test -vet=off -count=1 ./... 2>&1 || true) | tail -4
    elif ls $sd/demo/*_test.go >/dev/null 2>&1 && grep -q "^package main" $sd/demo/*_test.go; then
      cp $sd/demo/*_test.go cmd/protoc-gen-fastmarshal/ && (go test -tags "$tags" -vet=off -count=1 -run 'TestC|TestSeed' ./cmd/protoc-gen-fastmarshal/ 2>&1 || true) | tail -4; for f in $sd/demo/*_test.go; do rm -f cmd/protoc-gen-fastmarshal/$(basename $f); done
    else (go test -tags "$tags" -vet=off -count=1 ./$sd/demo/... 2>&1 || true) | tail -4; fi
  }
  rundemo
  patch -R -p1 -s < "$dir/patch.diff"
  echo "== demo WITHOUT the change (expected to pass)"
  rundemo
  patch -p1 -s < "$dir/patch.diff"
  rm -rf "$sd"
fi
echo "== checks on the changed tree"
for c in C01 C02 C03 C04 C05 C06 C07 C08 C09 C10 C11 C12 C13 C14 C15 C16 C17 C18 C19 C20; do
  out=$(CSVERIFY_REPO="$d/repo" CSVERIFY_EVIDENCE_DIR="$d/ev" ${CSVERIFY_BIN:-/verif/bin/csverify} check $c 2>&1)
  n=$(echo "$out" | grep -c "^FINDING")
  i=$(echo "$out" | grep -c "^INFRA")
  if [ "$n" != "0" ] || [ "$i" != "0" ]; then echo "$c: $n finding(s) $i infra"; echo "$out" | grep -E "^(FINDING|INFRA)" | cut -c1-330 | head -4; fi
done
echo "== done"

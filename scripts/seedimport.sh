#!/bin/bash
# usage: seedimport.sh <Cxx> [round]  -- imports /tmp/wt<round>-<Cxx>/SEED-A and SEED-B as seeded/<Cxx>-<round>a and -<round>b (round defaults to 2), then runs seedcheck on each
set -u
id="$1"; rnd="${2:-2}"
for v in A B; do
  src=/tmp/wt$rnd-$id/SEED-$v
  [ -f "$src/patch.diff" ] || { echo "$id $v: no patch"; continue; }
  lv=$(echo $v | tr A-Z a-z)
  dst=/verif/seeded/$id-$rnd$lv
  rm -rf "$dst"; mkdir -p "$dst"
  cp "$src/patch.diff" "$dst/"; cp "$src/notes.md" "$dst/" 2>/dev/null; cp -r "$src/demo" "$dst/demo"
  echo "SEED-$v" > "$dst/seeddir"
  /verif/scripts/seedcheck.sh $id "$dst" > "$dst/.seedcheck.out" 2>&1
  echo "=== $id-$rnd$lv: $(head -1 $dst/notes.md | cut -c1-150)"
  grep -E "^(PATCH|tests:|demo exit|C[0-9]+: [0-9]+ finding)" "$dst/.seedcheck.out"
  grep -E "^FINDING" "$dst/.seedcheck.out" | sed -E 's/^FINDING rule=([^ ]+) construct="([^"]*)".*/   \1 | \2/' | cut -c1-150 | sort -u | head -6
done

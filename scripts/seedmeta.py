#!/usr/bin/env python3
# usage: seedmeta.py <outdir> <ids...>  — writes seeded/<id>/meta.json from seedcheck.sh output
import json,re,os,sys
needs=json.load(open(os.path.join(os.path.dirname(__file__),"seed_needs.json")))
outdir=sys.argv[1]
for pid in sys.argv[2:]:
    out=open("%s/%s.out"%(outdir,pid),errors="replace").read()
    caught={}
    cur=None
    for line in out.splitlines():
        m=re.match(r'^(C\d\d): (\d+) finding',line)
        if m: cur=m.group(1); caught.setdefault(cur,[]); continue
        m=re.match(r'^FINDING rule=(\S+) construct="((?:[^"\\]|\\.)*)"',line)
        if m and cur:
            e="%s | %s"%(m.group(1),m.group(2)[:120])
            if e not in caught[cur]: caught[cur].append(e)
    d=os.path.join(os.path.dirname(__file__),"..","seeded",pid)
    files=sorted(os.listdir(d+"/demo"))
    meta={
      "property":pid[:3],
      "seed":pid,
      "breaks":open(d+"/notes.md",errors="replace").readline().lstrip("# ").strip(),
      "needs_to_manifest":needs.get(pid,"see notes.md (section on what is needed for the change to manifest)"),
      "patch":"patch.diff",
      "demonstration":"demo/ ("+", ".join(files[:6])+")",
      "author":"independent sub-agent given only the property text and a scratch worktree of /repo",
      "confirmed_by":"scripts/seedcheck.sh %s seeded/%s  (scratch copy of /repo outside /repo and /verif; apply patch.diff; go build ./... ; go vet ./... ; the 434-test baseline suite: all 4 packages ok; demo fails with the patch and passes without it; then the 20 quick checks run against the scratch copy via CSVERIFY_REPO)"%(pid[:3],pid),
      "build_vet_tests": "ok" if "tests: 4 packages ok" in out else ("patch no longer applies to the repaired tree" if "PATCH DOES NOT APPLY" in out else "NOT CONFIRMED"),
      "caught_by":caught,
    }
    json.dump(meta,open(d+"/meta.json","w"),indent=1)
    print(pid,meta["build_vet_tests"],{k:len(v) for k,v in caught.items()})

#!/bin/bash
# usage: seedown.sh <seed-dir-name>  -- applies seeded/<name>/patch.diff to a scratch copy of /repo and runs ONLY the
# check of the property the seed was written for; prints "<name> own=<n findings> rules=<rules>"
set -u
name="$1"; id=$(echo "$name" | cut -c1-3); dir=/verif/seeded/$name
export GOFLAGS=-mod=mod GOPROXY=off GOSUMDB=off GOTOOLCHAIN=local GOWORK=off
d=$(mktemp -d /tmp/csown.XXXXXX)
trap 'cd /verif; rm -rf "$d"' EXIT
rsync -a --exclude .git /repo/ "$d/repo/"
cd "$d/repo" || exit 2
if ! patch -p1 -s < "$dir/patch.diff" >/dev/null 2>&1; then echo "$name PATCH-DOES-NOT-APPLY"; exit 0; fi
out=$(CSVERIFY_REPO="$d/repo" CSVERIFY_EVIDENCE_DIR="$d/ev" ${CSVERIFY_BIN:-/verif/bin/csverify} check $id 2>&1)
n=$(echo "$out" | grep -c "^FINDING")
i=$(echo "$out" | grep -c "^INFRA")
rules=$(echo "$out" | grep "^FINDING" | sed -E 's/^FINDING rule=([^ ]+) construct="(\[C[0-9]+\])?.*/\2\1/' | sort -u | tr '\n' ' ')
echo "$name own=$n infra=$i rules=$rules"

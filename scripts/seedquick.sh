#!/bin/bash
# usage: seedquick.sh <seed-dir-name> "<check ids>"  -- applies seeded/<name>/patch.diff to a scratch copy and runs only the named checks
set -u
name="$1"; ids="$2"
d=$(mktemp -d /tmp/csq.XXXXXX)
trap 'cd /verif; rm -rf "$d"' EXIT
rsync -a --exclude .git /repo/ "$d/repo/"
(cd "$d/repo" && patch -p1 -s < /verif/seeded/$name/patch.diff) || { echo "PATCH DOES NOT APPLY"; exit 3; }
for c in $ids; do
  out=$(CSVERIFY_REPO="$d/repo" CSVERIFY_EVIDENCE_DIR="$d/ev" ${CSVERIFY_BIN:-/verif/bin/csverify} check $c 2>&1)
  echo "$name $c: $(echo "$out" | grep -c '^FINDING') finding(s)"
  echo "$out" | grep -E "^(FINDING|INFRA)" | cut -c1-420 | head -5
done

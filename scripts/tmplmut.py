#!/usr/bin/env python3
"""Self-test campaign on the generator's templates: single-edit textual mutants of the .tmpl files; every mutant that
still lets the generator's own tests pass is expanded and checked by the E3 checks. Output: /verif/mutation/templates.jsonl
usage: tmplmut.py [--workers N] [--limit N] [--only substring]"""
import json, os, re, subprocess, sys, shutil, tempfile, multiprocessing, argparse, random

ENV = dict(os.environ, GOFLAGS="-mod=mod", GOPROXY="off", GOSUMDB="off", GOTOOLCHAIN="local", GOWORK="off")
TDIR = "cmd/protoc-gen-fastmarshal/templates"
CHECKS = "C04 C05 C06 C07 C08 C09 C10 C16 C17".split()
BIN = os.environ.get("CSVERIFY_BIN", "/verif/bin/csverify")

SWAPS = [(" != nil", " == nil"), (" == nil", " != nil"), (" > 0", " >= 0"), (" == 0", " != 0"), (" != 0", " == 0"), ("+= ", "-= "),
         (" && ", " || "), (" || ", " && "), (" < ", " <= "), (" <= ", " < "), ("SizeOfVarint", "SizeOfZigZag"), ("SizeOfZigZag", "SizeOfVarint"),
         ("WireTypeVarint", "WireTypeFixed64"), ("WireTypeLengthDelimited", "WireTypeVarint"), ("WireTypeFixed32", "WireTypeFixed64"),
         ("WireTypeFixed64", "WireTypeFixed32"), ("DecodeInt32", "DecodeInt64"), ("DecodeUInt32", "DecodeUInt64"), ("DecodeSInt32", "DecodeInt32"),
         ("DecodeSInt64", "DecodeInt64"), ("DecodeFixed32", "DecodeFixed64"), ("EncodeInt32", "EncodeUInt32"), ("EncodeSInt32", "EncodeInt32"),
         ("EncodeFixed32", "EncodeFixed64"), ("EncodeFloat32", "EncodeFixed32"), (" + 1", " + 2"), (" + 4", " + 8"), (" + 8", " + 4"),
         ("continue", "break"), ("append(", "append(nil, "), ("{{ if ", "{{ if not "), ("{{- if ", "{{- if not "), (" eq ", " ne "),
         ("true", "false"), ("false", "true"), (".IsPacked", ".IsList"), ("dec.More()", "!dec.More()"), ("[:0]", "[:1]")]

def gen_mutants():
    muts = []
    for fn in sorted(os.listdir("/repo/" + TDIR)):
        if not fn.endswith(".tmpl"):
            continue
        rel = TDIR + "/" + fn
        lines = open("/repo/" + rel).read().split("\n")
        for i, line in enumerate(lines):
            st = line.strip()
            if not st or st.startswith("//") or st.startswith("{{/*"):
                continue
            for a, b in SWAPS:
                start = 0
                while True:
                    k = line.find(a, start)
                    if k < 0:
                        break
                    muts.append({"file": rel, "line": i + 1, "kind": "swap", "desc": "%s -> %s" % (a.strip(), b.strip()), "new": line[:k] + b + line[k + len(a):]})
                    start = k + len(a)
            # number literals in Go text (outside actions)
            for m in re.finditer(r"(?<![\w.\"$])(\d+)(?![\w\"])", re.sub(r"\{\{.*?\}\}", lambda mm: " " * len(mm.group(0)), line)):
                v = int(m.group(1))
                muts.append({"file": rel, "line": i + 1, "kind": "const", "desc": "%d -> %d" % (v, v + 1), "new": line[:m.start(1)] + str(v + 1) + line[m.end(1):]})
            # delete a plain statement line
            if "{{" not in line and "{" not in line and "}" not in line and not st.startswith("case ") and not st.startswith("default:") and "return" not in st:
                muts.append({"file": rel, "line": i + 1, "kind": "delline", "desc": "delete: " + st[:60], "new": ""})
            # drop one operand of an eq list
            m = re.search(r'(eq \$?\.?[\w.]+(?: \| \w+)?)((?: "[\w]+")+)', line)
            if m:
                ops = re.findall(r' "[\w]+"', m.group(2))
                if len(ops) > 1:
                    for j in range(len(ops)):
                        rest = "".join(ops[:j] + ops[j + 1:])
                        muts.append({"file": rel, "line": i + 1, "kind": "eqdrop", "desc": "drop operand" + ops[j], "new": line[:m.start(2)] + rest + line[m.end(2):]})
    return muts

def run(cmd, cwd, timeout=600, env=ENV):
    try:
        p = subprocess.run(cmd, cwd=cwd, env=env, stdout=subprocess.PIPE, stderr=subprocess.STDOUT, timeout=timeout)
        return p.returncode, p.stdout.decode(errors="replace")
    except subprocess.TimeoutExpired:
        return 124, "timeout"

def worker(args):
    wid, muts, outpath = args
    d = tempfile.mkdtemp(prefix="cstmplw%d." % wid, dir="/tmp")
    repo = os.path.join(d, "repo")
    subprocess.run(["rsync", "-a", "--exclude", ".git", "/repo/", repo + "/"], check=True)
    for m in muts:
        path = os.path.join(repo, m["file"])
        orig = open("/repo/" + m["file"]).read()
        lines = orig.split("\n")
        lines[m["line"] - 1] = m["new"]
        open(path, "w").write("\n".join(lines))
        rec = {k: m[k] for k in ("file", "line", "kind", "desc")}
        rec["old"] = orig.split("\n")[m["line"] - 1].strip()[:120]
        rc, o = run(["go", "test", "-vet=off", "-count=1", "./cmd/protoc-gen-fastmarshal/"], repo, 300)
        if rc != 0:
            rec["status"] = "killed_by_tests"
        else:
            rec["status"] = "survives_tests"
            caught = {}
            env = dict(ENV, CSVERIFY_REPO=repo, CSVERIFY_EVIDENCE_DIR=os.path.join(d, "ev"))
            rcc, oc = run([BIN, "checkmany", ",".join(CHECKS)], "/verif", 1800, env)
            cur = "?"
            for l in oc.splitlines():
                m = re.match(r"== (C\d\d) ", l)
                if m:
                    cur = m.group(1)
                if l.startswith("FINDING"):
                    caught.setdefault(cur, [])
                    rule = l.split(" ")[1].replace("rule=", "")
                    if rule not in caught[cur]:
                        caught[cur].append(rule)
                if l.startswith("INFRA"):
                    caught.setdefault(cur, []).append("INFRA")
            if rcc not in (0, 1):
                caught.setdefault("?", []).append("exit %d" % rcc)
            rec["caught_by"] = caught
        with open(outpath, "a") as fo:
            fo.write(json.dumps(rec) + "\n")
        open(path, "w").write(orig)
    shutil.rmtree(d, ignore_errors=True)
    return len(muts)

def main():
    ap = argparse.ArgumentParser()
    ap.add_argument("--workers", type=int, default=6)
    ap.add_argument("--limit", type=int, default=0)
    ap.add_argument("--only", default="")
    ap.add_argument("--out", default="/verif/mutation/templates.jsonl")
    a = ap.parse_args()
    muts = [m for m in gen_mutants() if a.only in m["file"]]
    random.Random(7).shuffle(muts)
    if a.limit:
        muts = muts[:a.limit]
    print("template mutants:", len(muts), file=sys.stderr)
    os.makedirs(os.path.dirname(a.out), exist_ok=True)
    open(a.out, "w").close()
    chunks = [(i, muts[i::a.workers], a.out) for i in range(a.workers)]
    with multiprocessing.Pool(a.workers) as pool:
        list(pool.imap_unordered(worker, chunks))
    rs = [json.loads(l) for l in open(a.out)]
    surv = [r for r in rs if r["status"] == "survives_tests"]
    missed = [r for r in surv if not r["caught_by"]]
    print("total", len(rs), "killed_by_tests", len(rs) - len(surv), "survive_tests", len(surv), "reported", len(surv) - len(missed), "not_reported", len(missed))

if __name__ == "__main__":
    main()
